#!/usr/bin/env python3
"""Re-confirms and re-evaluates every stored seeded change against the current /repo HEAD (scratch worktrees only)."""
import json, os, subprocess, sys
ROOT = os.path.dirname(os.path.abspath(__file__))
only = sys.argv[1:]
for d in sorted(os.listdir(os.path.join(ROOT, "seeded"))):
    mp = os.path.join(ROOT, "seeded", d, "meta.json")
    if not os.path.exists(mp) or (only and d not in only):
        continue
    m = json.load(open(mp))
    prop, mk = d.split("-")
    demo = [f for f in os.listdir(os.path.join(ROOT, "seeded", d)) if f.endswith("_test.go")]
    if not demo:
        print(d, "no demonstration file"); continue
    props = sorted(set(list(m.get("checks_run", {}).keys()) + [prop]))
    cmd = [os.path.join(ROOT, "seed_eval.py"), prop, mk, "--demo-src", demo[0], "--demo-dst", m["demo_dst"], "--demo-cmd", m["demo_cmd"],
           "--props", ",".join(props), "--wt"]
    p = subprocess.run(cmd, cwd=ROOT, stdout=subprocess.PIPE, stderr=subprocess.STDOUT, text=True)
    tail = [l for l in p.stdout.split("\n") if l.startswith("confirm:") or l.startswith("stored") or "Error" in l or "assert" in l.lower()]
    print(d, " | ".join(tail), flush=True)
