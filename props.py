"""
Registry of the per-property checks: Lean modules and theorems (obligations), fact pins,
correspondence streams with their case counts per tier, trusted base.  Read by ./check and by
./gen_manifest.py.
"""

LEAN_TB = ["Lean 4.33.0 kernel (thorough tier: re-checked with leanchecker)",
           "axioms propext, Classical.choice, Quot.sound only (audited per theorem with #print axioms)",
           "hand-written Lean model of the named Go functions, validated by the differential correspondence streams and pinned by regenerated facts (go/ast extractor)",
           "harness, extractor, comparison code and runner under /verif"]


def T(name, kind, statement=""):
    return {"name": name, "kind": kind, "statement": statement}


def S(name, quick, thorough, thorough_seeds=4):
    return {"name": name, "quick": quick, "thorough": thorough, "thorough_seeds": thorough_seeds}


PROPS = {}

# one file per property under propsd/: each executes with T, S, LEAN_TB, PROPS in scope
import glob as _glob, os as _os
_d = _os.path.join(_os.path.dirname(_os.path.abspath(__file__)), "propsd")
# C*.py define entries; X*.py run afterwards and extend them (system-level slices shared by several properties)
for _p in sorted(_glob.glob(_os.path.join(_d, "C*.py"))) + sorted(_glob.glob(_os.path.join(_d, "X*.py"))):
    exec(compile(open(_p).read(), _p, "exec"), {"T": T, "S": S, "LEAN_TB": LEAN_TB, "PROPS": PROPS})
