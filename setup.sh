#!/bin/sh
# Run once after a fresh restore, offline: builds the harness (warms the Go build cache), regenerates
# the facts from /repo and builds the whole Lean project (model, proofs, driver).
set -e
cd "$(dirname "$0")"
export GOFLAGS=-mod=mod GOPROXY=off GOSUMDB=off GOTOOLCHAIN=local TZ=UTC
mkdir -p work harness/bin evidence replays
cp /repo/go.sum harness/go.sum
(cd harness && go build -tags verif -o bin/rrharness ./cmd/rrharness)
harness/bin/rrharness extract -repo /repo -out lean/RrModel/Generated/Facts.lean
python3 gen_driver.py
(cd lean && lake build)
