#!/usr/bin/env python3
"""
seed_eval.py <Cnn> <mK> --demo-src FILE --demo-dst REL/PATH --demo-cmd CMD [--props C01,C20] [--tags TAGS]

Confirms a seeded change delivered by a sub-agent under /tmp/seed/<Cnn>/out/<mK>/ (patch.diff +
demonstration) in a scratch worktree (patch applies, builds, existing tests pass, demonstration
fails with the patch and passes without), then applies the patch to /repo, runs the registered
checks, undoes it (git -C /repo checkout -- .), and stores the case under /verif/seeded/<Cnn>-<mK>/.
"""
import argparse, json, os, shutil, subprocess, sys, time

ENV = dict(os.environ, GOFLAGS="-mod=mod", GOPROXY="off", GOSUMDB="off", GOTOOLCHAIN="local")
ROOT = os.path.dirname(os.path.abspath(__file__))


def sh(cmd, cwd=None, timeout=1800):
    p = subprocess.run(cmd, cwd=cwd, env=ENV, shell=isinstance(cmd, str), stdout=subprocess.PIPE, stderr=subprocess.STDOUT, text=True, timeout=timeout)
    return p.returncode, p.stdout


def main():
    ap = argparse.ArgumentParser()
    ap.add_argument("prop"); ap.add_argument("mk")
    ap.add_argument("--demo-src", required=True); ap.add_argument("--demo-dst", required=True)
    ap.add_argument("--demo-cmd", required=True)
    ap.add_argument("--props", default="")
    ap.add_argument("--tier", default="quick")
    ap.add_argument("--skip-confirm", action="store_true")
    ap.add_argument("--wt", action="store_true", help="run the checks against a scratch worktree (VERIF_REPO) instead of applying the patch to /repo")
    a = ap.parse_args()
    src = "%s/%s/out/%s" % (os.environ.get("SEED_ROOT", "/tmp/seed"), a.prop, a.mk)
    if not os.path.exists(src):
        src = os.path.join(ROOT, "seeded", "%s-%s" % (a.prop, a.mk))  # re-evaluation of a stored change
    patch = os.path.join(src, "patch.diff")
    sid = "%s-%s" % (a.prop, a.mk)
    meta = {"id": sid, "breaks_property": a.prop, "source": "independent sub-agent given only the property text and a scratch worktree",
            "demo_dst": a.demo_dst, "demo_cmd": a.demo_cmd}
    if not a.skip_confirm:
        wt = "/tmp/seedchk-%s" % sid
        sh(["git", "-C", "/repo", "worktree", "remove", "--force", wt]); shutil.rmtree(wt, ignore_errors=True)
        rc, out = sh(["git", "-C", "/repo", "worktree", "add", "-q", "--detach", wt, "HEAD"])
        assert rc == 0, out
        try:
            rc, out = sh(["git", "apply", patch], cwd=wt); meta["patch_applies"] = rc == 0
            rc, out = sh("go build ./... && go test -vet=off -count=1 ./...", cwd=wt); meta["builds_and_suite_green_with_patch"] = rc == 0
            dst = os.path.join(wt, a.demo_dst); os.makedirs(os.path.dirname(dst), exist_ok=True)
            shutil.copyfile(os.path.join(src, a.demo_src), dst)
            rc1, out1 = sh(a.demo_cmd, cwd=wt, timeout=300); meta["demo_fails_with_patch"] = rc1 != 0
            sh(["git", "apply", "-R", patch], cwd=wt)
            rc2, out2 = sh(a.demo_cmd, cwd=wt, timeout=300); meta["demo_passes_without_patch"] = rc2 == 0
            meta["demo_output_with_patch_tail"] = out1[-800:]
        finally:
            sh(["git", "-C", "/repo", "worktree", "remove", "--force", wt]); shutil.rmtree(wt, ignore_errors=True)
        print("confirm:", {k: v for k, v in meta.items() if isinstance(v, bool)})
    # run the checks against /repo with the change applied
    props = [p for p in (a.props.split(",") if a.props else [a.prop]) if p]
    results = {}
    if a.wt:
        wt2 = "/tmp/seedrun-%s" % sid
        sh(["git", "-C", "/repo", "worktree", "remove", "--force", wt2]); shutil.rmtree(wt2, ignore_errors=True)
        rc, out = sh(["git", "-C", "/repo", "worktree", "add", "-q", "--detach", wt2, "HEAD"]); assert rc == 0, out
        rc, out = sh(["git", "apply", patch], cwd=wt2); assert rc == 0, out
        env2 = dict(ENV, VERIF_REPO=wt2)
    else:
        rc, out = sh(["git", "-C", "/repo", "status", "--porcelain"])
        assert out.strip() == "", "/repo not clean: " + out
        rc, out = sh(["git", "-C", "/repo", "apply", patch]); assert rc == 0, out
        env2 = ENV
    try:
        for p in props:
            t0 = time.time()
            pr = subprocess.run([os.path.join(ROOT, "check"), p, "--tier", a.tier], cwd=ROOT, env=env2, stdout=subprocess.PIPE, stderr=subprocess.STDOUT, text=True, timeout=3600)
            rc, out = pr.returncode, pr.stdout
            lines = [l for l in out.split("\n") if l.startswith("VIOLATION") or l.startswith(p + " tier=")]
            results[p] = {"exit": rc, "lines": lines, "wall_s": round(time.time() - t0, 1)}
            print(p, rc, lines)
    finally:
        if a.wt:
            sh(["git", "-C", "/repo", "worktree", "remove", "--force", wt2]); shutil.rmtree(wt2, ignore_errors=True)
        else:
            sh(["git", "-C", "/repo", "checkout", "--", "."])
            rc, out = sh(["git", "-C", "/repo", "status", "--porcelain"]); assert out.strip() == "", out
    meta["checks_run"] = results
    meta["detected_by"] = [p for p, r in results.items() if r["exit"] != 0]
    meta["detected_with_failing_input"] = [p for p, r in results.items() if any(l.startswith("VIOLATION") and "no-failing-input-found" not in l for l in r["lines"])]
    d = os.path.join(ROOT, "seeded", sid); os.makedirs(d, exist_ok=True)
    if os.path.exists(os.path.join(d, "meta.json")):
        old = json.load(open(os.path.join(d, "meta.json")))
        for k, v in old.items():
            if k not in meta or k in ("demo_cmd", "demo_dst"):
                meta[k] = v
        hist = old.get("history", [])
        hist.append({"detected_by_earlier": old.get("detected_by", []), "repo_head": old.get("repo_head", "pinned commit + hooks"),
                     "checks": {p: r["lines"][-1:] for p, r in old.get("checks_run", {}).items()}})
        meta["history"] = hist
    meta["repo_head"] = subprocess.run(["git", "-C", "/repo", "log", "--format=%h", "-1"], stdout=subprocess.PIPE, text=True).stdout.strip()
    if os.path.abspath(src) != os.path.abspath(d):
        shutil.copyfile(patch, os.path.join(d, "patch.diff"))
        shutil.copyfile(os.path.join(src, a.demo_src), os.path.join(d, os.path.basename(a.demo_src)))
        if os.path.exists(os.path.join(src, "README.md")):
            shutil.copyfile(os.path.join(src, "README.md"), os.path.join(d, "README.md"))
    if os.path.exists(os.path.join(d, "README.md")):
        meta["needs_to_manifest"] = "see README.md"
    json.dump(meta, open(os.path.join(d, "meta.json"), "w"), indent=1)
    print("stored", d, "detected_by", meta["detected_by"], "with input", meta["detected_with_failing_input"])


if __name__ == "__main__":
    main()
