#!/usr/bin/env python3
"""Writes MANIFEST.json from props.py (so that the manifest and the runner cannot drift)."""
import json, os, subprocess
import props
ROOT = os.path.dirname(os.path.abspath(__file__))
ALL = ["C%02d" % i for i in range(1, 21)]
NOT_APPLICABLE = getattr(props, "NOT_YET", {})

def hooks_commits():
    try:
        out = subprocess.run(["git", "-C", "/repo", "log", "--format=%H %s"], capture_output=True, text=True).stdout
        return [l.split()[0] for l in out.split("\n") if l and "verif" in l.lower() and not l.split(" ", 1)[1].startswith("fix:")]
    except Exception:
        return []

checks = []
for pid in ALL:
    if pid not in props.PROPS:
        continue
    P = props.PROPS[pid]
    checks.append({
        "property_id": pid,
        "quick_cmd": "./check %s --tier quick" % pid,
        "thorough_cmd": "./check %s --tier thorough" % pid,
        "evidence_file": "/verif/evidence/%s.json" % pid,
        "replay_cmd_template": "./check %s --replay {path}" % pid,
        "engine": "lean4-proof+correspondence",
        "level_claimed": {"category": "proof", "text": P.get("level_text", "Lean 4 theorems about a hand-written model of the code, for all inputs the property quantifies over; the model is tied to /repo on every run by regenerated fact pins and by a differential correspondence check against the real Go functions; the property oracle is applied to what the implementation did."), "design_ref": "DESIGN.md section 5 (%s)" % pid},
        "level_note": P.get("level_note", "; ".join(P["trusted_base"][-2:] + P["assumptions"][:2])),
        "technique": P.get("technique", "machine-checked proof in Lean 4 (induction/case analysis over a model) + differential model/implementation correspondence + regenerated fact pins"),
    })
na = [{"property_id": pid, "reason": NOT_APPLICABLE.get(pid, "check not built yet in this round; see DESIGN.md section 9 (build order)")}
      for pid in ALL if pid not in props.PROPS]
m = {
    "version": 1,
    "setup_cmd": "./setup.sh",
    "hooks": {"guard": "verif", "enable": "go build -tags verif (the harness under /verif/harness is built with this tag against /repo via a replace directive)",
              "baseline_off_cmd": "cd /repo && go build ./... && go test -vet=off -count=1 ./...",
              "source_commits": hooks_commits(), "add_only": True},
    "engines": [{"name": "lean4-proof+correspondence", "path": "/verif/check", "serves_properties": [c["property_id"] for c in checks],
                 "kind_free_text": "Lean 4 model + theorems (/verif/lean), Go correspondence harness (/verif/harness, tag verif), Python runner"}],
    "checks": checks,
    "not_applicable": na,
    "notes": "All checks share one Lean project and one Go harness; see DESIGN.md.",
}
json.dump(m, open(os.path.join(ROOT, "MANIFEST.json"), "w"), indent=1)
print("MANIFEST.json: %d checks, %d not_applicable" % (len(checks), len(na)))
