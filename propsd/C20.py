PROPS["C20"] = {
    "title": "Traffic copying is invisible to the client",
    "modules": ["RrProofs.Props.C20", "RrProofs.Pins"],
    "theorems": [
        T("Props.C20.copy_rule_choice", "full", "(matchRules rs q).copy index = first applicable copy rule within the prefix before the selected proxy rule (whole list if none), for all rs q"),
        T("Props.C20.matchLoop_copy_kept", "full", "once set, the copy slot is never overwritten by later rules"),
        T("Props.C20.matchLoop_copy_target", "full", "the copy target is attemptMatch of the copy rule"),
        T("Props.C20.holds_choice_model", "full", "oracle Spec.C20.holdsChoice accepts the model's copy choice for all inputs"),
        T("Pins.matchLoopShape", "pin", "normalised AST of the RulesLoop body"),
    ],
    "streams": [S("match", 20000, 250000)],
    "trivial_labels": ["rules-rejected", "unparsable", "nomatch", "proxy", "proxy:shadowing", "proxy:skipped-before", "proxy:shadowing:skipped-before"],
    "rule": "as C01's match stream; non-trivial = a copy rule matched (labels copy-only / proxy+copy…); distinct = distinct input token strings",
    "trusted_base": LEAN_TB + ["net/url.Parse and URL.RequestURI for the matched triple"],
    "assumptions": ["function level so far: copy-request equality and client invisibility (System slice S1) are added by the sys stream"],
    "full_statement_status": "choice clause proved; request-equality and invisibility clauses pending the executor model",
}
