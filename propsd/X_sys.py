# System slice S1 (uncached pass-through): executor model RrModel/Exec.lean, stream sysu.
# Extends the entries of C01, C03, C05, C20 (creating minimal ones where the function-level slice is not merged yet).

def _ensure(pid, title):
    if pid not in PROPS:
        PROPS[pid] = {"title": title, "modules": [], "theorems": [], "streams": [], "trivial_labels": [],
                      "rule": "", "trusted_base": list(LEAN_TB), "assumptions": [], "full_statement_status": ""}
    return PROPS[pid]

_SYS_RULE = (" | sysu: the real server.ConfigureServeMux handler behind a real listener with a raw-TCP client, scripted origin in place of the transport "
             "(proxy.NewRouterWithPerformer): rule sets with copy rule / retry_rule chain / hostheader modes / request+response header overrides / internal flags x secrets "
             "{nil,[s1],[s1,s0]} x retries 0-2 x methods x bodies (empty, NUL, binary, 70 KB) x header multisets incl. hop-by-hop and Richie headers x per-destination scripts "
             "(status 200-503, headers, body, chunked/length framing, k connection failures, read error); compared with Model.routeRequest (client status/framing/body + every contact's host/method/failed/body); "
             "each case with a copy rule is run twice (with/without copy rules)")
_SYS_TB = ["net/http server framing and request parsing, net/http ServeMux (not modelled beyond the path-cleaning redirect predicate Spec.Sys.isCleanPath)",
           "the scripted performer stands in for http.Transport (connection failure = error without reading the body)"]

p = _ensure("C01", "Requests are routed by the first matching enabled rule, in file order")
p["modules"] += ["RrProofs.Props.C01Exec"]
p["theorems"] += [
    T("Props.C01Exec.no_match_404", "full", "no proxy match ⇒ for every retry chain, copy behaviour and fault script the result is userError 404 and only the copy rule's host is contacted (given the copy request itself can be built)"),
    T("Props.C01Exec.routeOnce_no_proxy", "full", "one pass without proxy match never yields a main response; verdict ∈ {404, plain error, copy build error}"),
]
p["streams"] += [S("sysu", 3000, 40000)]
p["rule"] += _SYS_RULE
p["trusted_base"] += _SYS_TB
p["full_statement_status"] = "choice proved on the model (Props.C01.holds_model) and 404/no-contact clause on the executor model; at the server level the statement fails for paths the ServeMux canonicalises (finding C01-a)"

p = _ensure("C03", "Every contacted destination receives the client's request intact")
p["modules"] += ["RrProofs.Props.C03Exec"]
p["theorems"] += [
    T("Props.C03Exec.performRequest_intact", "full", "connect_retries_resend_body: every answered attempt of performRequest carries the complete body, for every fault script / retry count / method"),
    T("Props.C03Exec.routeOnce_intact", "full", "one pass of routeRequest (copy target, proxy target, repeats) delivers method and complete body to every answered contact"),
    T("Props.C03Exec.every_contact_intact_partial", "partial", "Statement for rules without retry_rule (class C03-a excluded)"),
    T("Props.C03Exec.fails_witness", "witness", "PUT + body, main 404, retry_rule ⇒ fallback contact has empty body"),
    T("Props.C03Exec.Statement_false", "negation", "the full statement (all retry chains) is false of the model; replayed on the implementation by kf.C03-a"),
]
p["streams"] += [S("sysu", 3000, 40000)]
p["trivial_labels"] += ["outside-S1:flag", "rules-rejected"]
p["rule"] += _SYS_RULE
p["trusted_base"] += _SYS_TB
if not p["full_statement_status"]:
    p["full_statement_status"] = "method/body clause: partial (C03-a) + refutation; header clauses: function level"

p = _ensure("C05", "Every request gets one complete, well-formed response mirroring the origin")
p["modules"] += ["RrProofs.Props.C03Exec", "RrProofs.Props.C01Exec"]
p["theorems"] += [
    T("Props.C01Exec.no_match_404", "full", "self-made answer for 'no route' is the user error 404 (well-formed) on the executor model"),
]
p["streams"] += [S("sysu", 4000, 60000)]
p["trivial_labels"] += ["outside-S1:flag", "rules-rejected"]
p["rule"] += _SYS_RULE + "; oracle Spec.Sys.holdsC05Plain/holdsC05Headers on the wire-level response: status/body/framing mirror the final origin answer, every origin header line arrives, additions limited to richie-edge-cache + rule response_headers + net/http framing; self-made answers are 4xx/5xx with JSON body"
p["trusted_base"] += _SYS_TB
p["assumptions"] += ["slice S1 only (rules without cache): cached paths are covered by the function-level slices until the cached System slices are merged",
                     "origin body faults (read error) are judged by C13, not by C05's oracle"]
p["full_statement_status"] = "uncached slice: oracle-checked on the implementation + executor theorems; cached slices pending; fails for non-canonical paths (finding C05-c)"

p = _ensure("C20", "Traffic copying is invisible to the client")
p["streams"] += [S("sysu", 3000, 40000)]
p["rule"] += _SYS_RULE + "; oracle: client response with copy rules == without (two-run non-interference), copy contact intact (C03 oracle)"
p["trusted_base"] += _SYS_TB
p["full_statement_status"] = "choice clause proved; copy contact equality via C03Exec (copyStage); invisibility: oracle-checked two-run comparison, theorem pending; fails when only the copy request cannot be built (finding C20-a)"
p["modules"] += ["RrProofs.Props.C03Exec"]
p["theorems"] += [T("Props.C03Exec.routeOnce_intact", "full", "the copy destination receives the same method and body as the proxy destination (copyStage)")]
