# System slice S1 (uncached pass-through): executor model RrModel/Exec.lean, stream sysu.
# Extends the entries of C01, C03, C05, C20 (creating minimal ones where the function-level slice is not merged yet).

def _ensure(pid, title):
    if pid not in PROPS:
        PROPS[pid] = {"title": title, "modules": [], "theorems": [], "streams": [], "trivial_labels": [],
                      "rule": "", "trusted_base": list(LEAN_TB), "assumptions": [], "full_statement_status": ""}
    return PROPS[pid]

_SYS_RULE = (" | sysu: the real server.ConfigureServeMux handler behind a real listener with a raw-TCP client, scripted origin in place of the transport "
             "(proxy.NewRouterWithPerformer): rule sets with copy rule / retry_rule chain / hostheader modes / request+response header overrides / internal flags x secrets "
             "{nil,[s1],[s1,s0]} x retries 0-2 x methods x bodies (empty, NUL, binary, 70 KB) x header multisets incl. hop-by-hop and Richie headers x per-destination scripts "
             "(status 200-503, headers, body, chunked/length framing, k connection failures, read error); compared with Model.routeRequest (client status/framing/body + every contact's host/method/failed/body); "
             "each case with a copy rule is run twice (with/without copy rules)")
_SYS_TB = ["net/http server framing and request parsing, net/http ServeMux (not modelled beyond the path-cleaning redirect predicate Spec.Sys.isCleanPath)",
           "the scripted performer stands in for http.Transport (connection failure = error without reading the body)"]

p = _ensure("C01", "Requests are routed by the first matching enabled rule, in file order")
p["modules"] += ["RrProofs.Props.C01Exec"]
p["theorems"] += [
    T("Props.C01Exec.no_match_404", "full", "no proxy match ⇒ for every retry chain, copy behaviour and fault script the result is userError 404 and only the copy rule's host is contacted — whether or not the copy request can be built (after the fix: commit for C20-a a copy request that cannot be built is dropped); excluded only: a copy target that does not parse and the secrets[0] run-time panic"),
    T("Props.C01Exec.routeOnce_no_proxy", "full", "one pass without proxy match never yields a main response; verdict ∈ {404, plain error (unparsable copy target), secrets[0] panic while building the copy request}"),
]
p["streams"] += [S("sysu", 3000, 40000)]
p["rule"] += _SYS_RULE
p["trusted_base"] += _SYS_TB
p["full_statement_status"] = "choice proved on the model (Props.C01.holds_model) and 404/no-contact clause on the executor model; at the server level the statement fails for paths the ServeMux canonicalises (finding C01-a)"

p = _ensure("C03", "Every contacted destination receives the client's request intact")
p["modules"] += ["RrProofs.Props.C03Exec"]
p["theorems"] += [
    T("Props.C03Exec.performRequest_intact", "full", "connect_retries_resend_body: every answered attempt of performRequest carries the complete body, for every fault script / retry count / method"),
    T("Props.C03Exec.routeOnce_intact", "full", "one pass of routeRequest (copy target, proxy target, repeats) delivers method and complete body to every answered contact"),
    T("Props.C03Exec.routeRequest_intact", "full", "the invariant through the whole retry chain: each pass starts with the complete body (re-armed before a fallback)"),
    T("Props.C03Exec.holds_model", "full", "Statement: for every rule flavour, fault script and retry chain of any depth, every answered contact (proxy, copy, repeat, fallback) received the client's method and complete body"),
]
p["streams"] += [S("sysu", 3000, 40000), S("kf.C03-a", 3, 3, 1)]
p["trivial_labels"] += ["outside-S1:flag", "rules-rejected"]
p["rule"] += _SYS_RULE
p["trusted_base"] += _SYS_TB
if not p["full_statement_status"]:
    p["full_statement_status"] = "method/body clause: proved at full strength on the executor model after the fix: commit for C03-a; header clauses: function level"

p = _ensure("C05", "Every request gets one complete, well-formed response mirroring the origin")
p["modules"] += ["RrProofs.Props.C03Exec", "RrProofs.Props.C01Exec", "RrProofs.Props.C05"]
p["theorems"] += [
    T("Props.C01Exec.no_match_404", "full", "self-made answer for 'no route' is the user error 404 (well-formed) on the executor model"),
    T("Props.C05.mirror_plain", "full", "uncached rule, origin body complete: the client view is the origin's status and complete body (none for HEAD), framed complete"),
    T("Props.C05.broken_body_is_cut_short", "full", "an origin body with declared length that breaks off is never re-framed as complete"),
    T("Props.C05.route_outcome", "full", "exactly one outcome for every rule pair, retry chain of any depth and fault script: a scripted origin's answer, user error 404/407/502, the bare 500, or the secrets[0] panic"),
    T("Props.C05.routeOnce_done_main_builds", "full", "a pass whose MAIN request can be built (or that has none) decides by itself only the 404, the plain error of an unparsable target, or the secrets[0] panic: a 407 is never the copy request's (after the fix: commit for C20-a)"),
    T("Props.C05.self_errors_wellformed", "full", "every self-made answer on this path has an error status (>= 400) from the pinned CreateError codes, or is the bare 500"),
    T("Props.C05.selfCodes_pinned", "full", "404, 407, 502 are among the codes pinned from usererror (Spec.userErrorCodes)"),
]
p["streams"] += [S("sysu", 4000, 60000)]
p["trivial_labels"] += ["outside-S1:flag", "rules-rejected"]
p["rule"] += _SYS_RULE + "; oracle Spec.Sys.holdsC05Plain/holdsC05Headers on the wire-level response: status/body/framing mirror the final origin answer, every origin header line arrives, additions limited to richie-edge-cache + rule response_headers + net/http framing; self-made answers are 4xx/5xx with JSON body"
p["trusted_base"] += _SYS_TB
p["assumptions"] += ["slice S1 only (rules without cache): cached paths are covered by the function-level slices until the cached System slices are merged",
                     "origin body faults (read error) are judged by C13, not by C05's oracle"]
p["full_statement_status"] = "uncached slice: oracle-checked on the implementation + executor theorems; cached slices pending; fails for non-canonical paths (finding C05-c)"

p = _ensure("C20", "Traffic copying is invisible to the client")
p["streams"] += [S("sysu", 3000, 40000), S("kf.C20-a", 2, 2, 1)]
p["rule"] += _SYS_RULE + "; oracle: client response with copy rules == without (two-run non-interference), copy contact intact (C03 oracle); kf.C20-a: the two witness requests of the repaired finding C20-a (external proxy rule + internal copy rule + client Richie-Request-ID / Richie-Originating-IP without a secret) as regression cases that must pass"
p["trusted_base"] += _SYS_TB
p["full_statement_status"] = ("choice clause proved; copy contact equality via C03Exec (copyStage); invisibility proved on the executor model for every copy rule whose host is not also a main/fallback host "
                              "(Props.C20Exec.copy_invisible, ..._contacts) — after the fix: commit for C20-a no longer restricted to copy requests that can be built (a copy request that cannot be built is logged and dropped; "
                              "the former witness configuration is now an example of equality). Remaining hypotheses of Separate besides host separateness: the copy target parses (createOutgoingURLs, not part of C20-a) and "
                              "building the copy request does not hit the Go run-time panic secrets[0] on an empty non-nil secret list (no error value; not produced by any accepted configuration: RoutingSecrets is nil or non-empty)")
p["modules"] += ["RrProofs.Props.C03Exec", "RrProofs.Props.C20Exec"]
p["theorems"] += [T("Props.C03Exec.routeOnce_intact", "full", "the copy destination receives the same method and body as the proxy destination (copyStage)"),
    T("Props.C20Exec.copy_invisible", "partial", "CopyInvisible: for every configuration, fault script, retry count, retry chain, method and body, and whether or not the copy request can be built: the routing result with the copy rule equals the result without it, provided the copy host is no main/fallback host, the copy target parses and building the copy request does not panic at secrets[0] (Separate; the class of the repaired finding C20-a is no longer excluded)"),
    T("Props.C20Exec.copy_invisible_contacts", "partial", "CopyInvisibleContacts: under Separate the contacts of all other hosts (what each origin received, in order) are the same with and without the copy rule"),
    T("Props.C20Exec.routeOnce_copy", "full", "one pass with the copy rule against one pass without it: same stage result whether the copy request is built (performed first, outcome only logged) or not (dropped)"),
]

p = _ensure("C04", "Routing-secret firewall between internal and external destinations")
p["streams"] += [S("sysu", 3000, 40000)]
p["trivial_labels"] = list(p.get("trivial_labels", [])) + ["outside-S1:flag", "rules-rejected"]
p["rule"] += _SYS_RULE + "; oracle Spec.Sys.holdsC04 on EVERY contact of every request (proxy, copy, repeat, fallback): destination class from the rule whose destination host was contacted vs presence/validity of the three headers"
p["trusted_base"] += _SYS_TB

# System histories on a cache-enabled rule (stream sysc): history oracles of C05 C07 C08 C10 (reference cache, DESIGN Appendix E)
_SYSC_RULE = (" | sysc: histories of 5-10 ops {request (GET/HEAD/POST; Accept-Encoding, Authorization, Origin, If-None-Match, Cookie), advance clock (around 5/30/60 s boundaries), "
              "change origin answer (status 200/201/301/403/404/410/500, Cache-Control spellings incl. no-store/private/no-cache/max-age=0/s-maxage=0/HTAB/duplicates/upper case, ETag, repeated and bracketed header values, chunked/length framing, empty bodies)} "
              "over two resources on a cache-enabled rule (force_revalidate 0/20) against the real server + disk cache + scripted origin with the injected clock; every origin body is unique, so the oracle knows which origin answer each client body is; "
              "oracles on the implementation: C05 a filling/passing response mirrors the current origin answer, a hit has the status/framing of the answer it replays; C07 hit headers = stored response's headers up to the documented differences; "
              "C08 served without contact only while fresh (Spec.C08.isFresh) and, conversely, not contacted while the key's entry is fresh; C10 a hit never replays an exchange that was uncacheable (directive, Authorization, method)")
for _pid, _title in (("C05", "Every request gets one complete, well-formed response mirroring the origin"), ("C07", "A cache hit replays exactly the response that was stored"), ("C09", "Revalidation and conditional requests never misreport content"),
                     ("C08", "Stored responses are served only while fresh, and then without origin traffic"), ("C10", "Responses that must not be cached are never stored or shared")):
    p = _ensure(_pid, _title)
    p["streams"] += [S("sysc", 6000, 80000)]
    p["rule"] += _SYSC_RULE
    p["trusted_base"] += _SYS_TB
    p["trivial_labels"] = list(p.get("trivial_labels", [])) + ["no-origin", "unparsed"]

# C08 in schedules: a request coalesced behind a revalidation must not be handed the expired entry
p = _ensure("C08", "Stored responses are served only while fresh, and then without origin traffic")
p["streams"] += [S("sched", 300, 4000, 4)]
p["rule"] += " | sched: the schedule replay of C12/C13 (model-chosen interleavings with expiry and failing/uncacheable revalidations on the real goroutines); oracle: no client is served an expired entry (the scripted origin grants no stale allowance)"
p["modules"] += ["RrProofs.Props.C12"]
p["theorems"] += [T("Props.C12.lock_mutex", "full", "interleaving model: mutual exclusion of the writer section (the concurrent half of C08: a revalidation holds the key)")]

# C13 in sequential histories (stream sysc): after an origin body read error nobody is served the partial data
p = _ensure("C13", "A failed or aborted fetch never wedges or poisons its cache key")
p["streams"] += [S("sysc", 6000, 80000)]
p["rule"] += _SYSC_RULE + "; origin answers may break off mid-body (fresh fills and revalidating 200 fills): oracle C13: nobody is served from the cache a strict prefix of an origin body, later requests get complete answers"
p["trivial_labels"] = list(p.get("trivial_labels", [])) + ["no-origin", "unparsed"]

# C16 / C17: whole-shape pins of the limiter's op switch and of what fills / hits report to it
for _pid in ("C16", "C17"):
    if _pid in PROPS:
        PROPS[_pid]["theorems"] += [
            T("Pins.limiterOpSwitch", "pin", "runSizeLimiter: the `switch io.op` statement (opAdd / opAccessTime / opFlushStorable) as Model.Limiter mirrors it"),
            T("Pins.closeFinisherShape", "pin", "GetWriter: the closeFinisher closure (no report on revalidation; name and size as handed in)"),
            T("Pins.finishAndNotifyShape", "pin", "finishAndNotify reports the writer's current key name and written size"),
            T("Pins.setAccessTimeShape", "pin", "setAccessTime: the access is booked under the key handed in"),
            T("Pins.getAccessCall", "pin", "storage.Get books the access under the key that was found"),
            T("Pins.runSizeLimiterShape", "pin", "runSizeLimiter: the whole function body (start-up scan, restored access times, op switch, 5 s throttle, purge pass and its bookkeeping): nothing else stands between an item taken from the channel and a pass"),
        ]

# C15 in histories (stream sysc): whatever path a Range request takes (fill, hit, REVALIDATION of a stale entry), the origin is asked for the whole resource
p = _ensure("C15", "Range requests on cached resources return exactly the requested bytes")
p["streams"] += [S("sysc", 6000, 80000)]
p["rule"] += _SYSC_RULE + "; requests may carry Range: bytes=0-3; oracle C15: no origin contact of a cacheable request carries a Range header (cold fill, revalidating fetch, re-fill after a failed fetch)"
p["trivial_labels"] = list(p.get("trivial_labels", [])) + ["no-origin", "unparsed"]

# free-running concurrency streams (search support around the proved theorems; see harness/streams/conc.go)
p = _ensure("C12", "Concurrent requests for one resource share one origin fetch, all served fully")
p["streams"] += [S("concget", 16, 64, 2)]
p["rule"] += " | concget: per case 150 rounds of 8 goroutines released from a barrier into the public Cache.Get for one fresh key; exactly one may become the writer (free-running: search support, not a proof)"
p = _ensure("C02", "Destination URL = rule destination + wildcard capture; query kept verbatim")
p["streams"] += [S("concroute", 16, 64, 2)]
p["rule"] += " | concroute: 8 goroutines x 300 requests with different queries routed through one router at once (destinations with and without $1); every outgoing request must carry its own query (free-running: search support)"

# C07 in schedules: a hit that overlaps a refresh is one stored response, never headers of one and body of another
_PIN_GSM = T("Pins.getStorageMetadataShape", "pin", "getStorageMetadata reads xattr and size through the descriptor storage.Get opened (xattr.FGet, f.Stat): whole function body pinned")
p = _ensure("C07", "A cache hit replays exactly the response that was stored")
p["streams"] += [S("sched", 300, 4000, 4)]
p["rule"] += " | sched: the schedule replay of C12/C13 with origin versions of different lengths and validators; oracle: every served body carries the ETag of its own version (view M<b>/<e> = body of one stored response under the headers of another)"
p["modules"] += ["RrProofs.Props.C12", "RrProofs.Pins"]
p["theorems"] += [_PIN_GSM]
for _pid in ("C12", "C14"):
    p = PROPS[_pid]
    if "RrProofs.Pins" not in p["modules"]:
        p["modules"] += ["RrProofs.Pins"]
    p["theorems"] += [_PIN_GSM]

# C05 on the recompression path: Content-Length, when present, equals the bytes delivered
p = PROPS["C05"]
p["modules"] += ["RrProofs.Props.C05Recompress"]
p["theorems"] += [T("Props.C05Recompress.content_length_only_with_the_origins_bytes", "full",
                    "recompression path, every codec / flag / Accept-Encoding / origin response: a Content-Length on the built response is the origin's own and stands next to the origin's own bytes (every body-changing branch deletes it)")]
p["streams"] += [S("recomphdr", 6000, 60000)]
p["rule"] += " | recomphdr (the real server on rules with recompression, real gzip/brotli codecs): last token = Content-Length absent or equal to the delivered byte count (oracle bad:C05:content-length-differs-from-the-bytes-delivered)"

# C07 / C12 in schedules: torn views (finding C07-b) — refuted at full strength, proved without expiry and stale release
for _pid in ("C07", "C12"):
    p = PROPS[_pid]
    p["modules"] += ["RrProofs.Props.C07Sched"]
    p["theorems"] += [
        T("Props.C07Sched.torn_witness", "witness", "schedule kf.C07-b: t0 fills and releases, the entry expires, t1 refreshes it with the next origin version, t0 streams its body: headers of version 1, bytes of version 2"),
        T("Props.C07Sched.NoTornStatement_false", "negation", "the full statement (no schedule ever produces a client view with headers of one stored response and body of another) is false of the model and the code"),
        T("Props.C07Sched.no_torn_partial", "partial", "for every thread count, fault assignment and schedule WITHOUT entry expiry and without a stale release (C12-b): no client view is torn — whatever the origin changes, self-healing removals and late writers"),
        T("Props.C07Sched.NoTorn_false_stale", "negation", "the exclusion of stale releases is needed (a torn view without any expiry after a stale release)"),
        T("Props.C07Sched.NoTorn_false_expire", "negation", "the exclusion of expiry is needed"),
    ]

# C07: plain hits racing a stream of refreshes on the real cache (free-running search stream, like concget)
p = PROPS["C07"]
p["streams"] += [S("concrefresh", 8, 120)]
p["rule"] += " | concrefresh: 1200 refreshes of one entry (expiry, revalidating writer, <name>.tmp + rename; every version has its own length and validator) against 6 goroutines reading it as plain hits through the public Cache.Get; a hit whose validator, Size and bytes belong to different versions is a failure; free-running (no scheduler): part of the search for a failing input, the model's answer is the constant the pinned read shape gives"

# C12 / C13: the hit path's error handling around sendBody is pinned (a failed client write of a hit must not release the key)
_PIN_SB = T("Pins.sendBodySites", "pin", "cachingHandler: every `… := sendBody(…)` with the statement that follows it: the Found site calls cache.Finish only on a fatal error")
for _pid in ("C12", "C13"):
    p = PROPS[_pid]
    if "RrProofs.Pins" not in p["modules"]:
        p["modules"] += ["RrProofs.Pins"]
    p["theorems"] += [_PIN_SB]

# C08 / C18: the re-entries of cachingFunc and their arguments are pinned (skipRevalidate is true at one site only)
_PIN_CF = T("Pins.cachingFuncCalls", "pin", "cachingHandler: every (re-)entry of cachingFunc with its arguments; skipRevalidate = true only at the stale-if-error re-entry of the SAME request")
for _pid in ("C08", "C18"):
    p = PROPS[_pid]
    if "RrProofs.Pins" not in p["modules"]:
        p["modules"] += ["RrProofs.Pins"]
    p["theorems"] += [_PIN_CF]

# C19: the document that is parsed is the whole mapping (readMapping pinned)
p = PROPS["C19"]
if "RrProofs.Pins" not in p["modules"]:
    p["modules"] += ["RrProofs.Pins"]
p["theorems"] += [T("Pins.readMappingShape", "pin", "readMapping: the whole response body (status 200) or the whole file is returned; no limit, cut or transformation")]

# ---- full_statement_status, brought up to date after the repairs and the round-2 slices ----
PROPS["C03"]["full_statement_status"] = ("header clauses: proved at function level (Props.C03.holds_model and the per-clause theorems); method/body clauses over contact traces: "
    "proved at FULL strength on the executor model (Props.C03Exec.holds_model: every answered contact - proxy, copy, repeat, fallback through a retry chain of any depth - "
    "received the client's method and complete body) after the fix: commit for C03-a; kf.C03-a runs as a regression stream")
PROPS["C04"]["full_statement_status"] = ("proved at function level (Props.C04.holds_model, Props.C04.holds_ensure); at system level the per-contact oracle of stream sysu "
    "(external destinations see none of the three headers; internal ones the first configured secret unless the client sent a valid one, a request id, the originating IP; "
    "an unknown secret is answered 407 without any contact) is applied to every contact of every request; refuted there by finding C04-a (only the first "
    "Richie-Routing-Secret line is validated)")
PROPS["C05"]["full_statement_status"] = ("uncached path proved on the executor model (Props.C05.mirror_plain, route_outcome, self_errors_wellformed) and on the recompression path "
    "(Props.C05Recompress.content_length_only_with_the_origins_bytes); cached paths: history oracles of stream sysc on the implementation (fills mirror the current origin answer, "
    "hits replay the stored one, 304 revalidations keep the body, nobody is left without a response); refuted by C05-a (no body outside the status gate), C05-c (ServeMux 301), "
    "C05-d (self-made 500 under the origin's headers), and by the faces of C09-b and C09-e seen from the client")
PROPS["C07"]["full_statement_status"] = ("refuted for the code: C07-a (metadata codec not faithful; Props.C07.Statement_false, proved on the complement: codec_roundtrip_partial for all "
    "representable metadata) and C07-b (the filling request streams its body from the re-opened path after releasing the key: Props.C07Sched.NoTornStatement_false; "
    "proved without entry expiry and stale release: no_torn_partial); hits are one stored response (descriptor-based read pinned, stream concrefresh)")
PROPS["C08"]["full_statement_status"] += "; at system level also refuted by the face of C09-e (a bodiless 5xx answer to a revalidation re-publishes the expired entry)"
PROPS["C09"]["full_statement_status"] += "; coalesced clients (stream condpair): refuted by C09-f (the waiter is answered by the writer's validator)"
PROPS["C11"]["full_statement_status"] = ("refuted on the current tree (Props.C11.Statement_false, keyString_injective_false): findings C11-a, C11-b, C11-c at function level, C11-d at "
    "system level (lock table keyed by entry name across storages; Props.C11SysCompose.briefStatement_false); partial forms proved for all inputs outside the classes, and "
    "composed with the system model (lookup order, lock key, delivered key, ChangeKey, woken waiters: Props.C11Sys.holds_model, Props.C11SysCompose.response_passes_oracle)")
PROPS["C12"]["full_statement_status"] += "; 'every client served completely' also refuted by C07-b (torn response of the filling request) with proved partial (Props.C07Sched.no_torn_partial)"

# C08-c (stale-if-error on a force_revalidate rule: unbounded re-entry): witness / regression stream on sysc's machinery
for _pid in ("C05", "C08", "C13"):
    PROPS[_pid]["streams"] += [S("kf.C08-c", 3, 3, 1)]

# C09-g (negative stored lifetime + 304: unbounded re-entry): witness / regression stream on sysc's machinery
for _pid in ("C05", "C09", "C13"):
    PROPS[_pid]["streams"] += [S("kf.C09-g", 3, 3, 1)]

# C02 at system level (stream sysu): what the selected destination is asked for
p = _ensure("C02", "Destination URL = rule destination + wildcard capture; query kept verbatim")
p["streams"] += [S("sysu", 3000, 40000)]
p["trivial_labels"] = list(p.get("trivial_labels", [])) + ["outside-S1:flag", "rules-rejected"]
p["rule"] += _SYS_RULE + "; oracle C02 on the request-target the selected destination received (raw client -> net/http -> completeURL -> Rules.Match -> createOutgoingURLs -> NewRequest): it is UrlEsc.requestURI of the rule's destination with the capture taken from the request-target AS SENT (escaped spellings that decode to clean paths: %2F, %41, %3A, %40, sub-delims, bare '?'), query verbatim (class C02-a excluded); requests with and without any Connection header"
p["trusted_base"] += _SYS_TB

# C19 at system level (stream sysu): reloads around and DURING a request
p = _ensure("C19", "Configurations are accepted or rejected whole; a reload keeps the last good one")
p["streams"] += [S("sysu", 3000, 40000)]
p["trivial_labels"] = list(p.get("trivial_labels", [])) + ["outside-S1:flag", "rules-rejected"]
p["rule"] += _SYS_RULE + "; 30 % of the cases carry a reload (Router.SetRules) between a sibling rule set (one rule's enabled flag, host or scheme constraint changed) and the case's rules: before the request (handled under the rules loaded last) or from inside the performer's first Do (in flight: the request is finished under the rules it started with); oracle C19: with a reload in the case the implementation behaves exactly like the model under the case's rules alone"
p["trusted_base"] += _SYS_TB

# C12 / C13: the notifier's critical section is one hold of the lock-table mutex
for _pid in ("C12", "C13"):
    p = PROPS[_pid]
    if "RrProofs.Pins" not in p["modules"]:
        p["modules"] += ["RrProofs.Pins"]
    p["theorems"] += [T("Pins.readerNotifierShape", "pin", "readerNotifier: waiters read, woken and the key removed under ONE hold of waitingReadersLock (whole function body pinned; the model's notify step is atomic because of it)")]
