# The cached request path for a rule WITH response_headers: Model.SysCacheRH (a wrapper around Model.SysCache), tied to the real
# server by correspondence stream `syscrh`; regression stream kf.C05-e for the repaired finding C05-e.

_RH_RULE = (" | syscrh: the histories of stream sysc on a cache-enabled rule that carries response_headers. Mode N (the rule's names are none the cache reads: X-Edge, Content-Type, "
            "Content-Language, X-A, x-lower): all history oracles of sysc, applied to the origin answers with the rule's lines on top. Mode C (the rule sets Cache-Control: storing forbidden - "
            "no-store/private/no-cache/max-age=0/s-maxage=0 - or a lifetime of its own): one origin answer per path (status in the storage gate, complete body, optional validator + 304), plain GET/HEAD "
            "requests with ticks; oracle: every response, whatever row produced it, is that answer, complete (C05; C07 when no origin was contacted). Model tokens (Model.SysCacheRH.runRH) compared on every history")
_RH_TB = ["Model.SysCacheRH: declared domain - the rule's response header names are none of richie-edge-cache, Age, Content-Length, Content-Range (the names cachingFunc itself puts into alwaysInclude)"]
_RH_THS = [
    T("Props.SysCacheRH.stepOnceRH_nil", "full", "refinement: with no response headers on the rule one activation of Model.SysCacheRH is one activation of Model.SysCache (every argument)"),
    T("Props.SysCacheRH.cachingFuncRH_nil", "full", "... and so is every request, for every fuel"),
    T("Props.SysCacheRH.runRH_nil", "full", "... and every history: all theorems about Model.SysCache speak about Model.SysCacheRH at rh = []"),
    T("Props.SysCacheRH.rule_forbids_passes_body", "full", "C05 under a rule whose response headers forbid storing (finding C05-e, repaired): for every configuration, clock, disk, writer (fresh / revalidating, disk writes on / off), "
      "alwaysInclude map and origin answer - except the 304 that confirms a stored entry and the 416 of a Range request - the writer row answers at once, leaves the disk untouched and hands the client the origin's status and every byte its body reader hands out"),
    T("Props.SysCacheRH.Ex.repaired_passes_body", "witness", "non-vacuity: Cache-Control: no-store on the rule, a cacheable 200 with ten bytes: all ten go out, label w:uncacheable-rule"),
    T("Props.SysCacheRH.Ex.prefix_drops_body", "witness", "the defect as it was: the row WITHOUT the repair's branch answers 200 with Content-Length: 10 and an empty body (w:invalidated)"),
]
for _pid in ("C05", "C07", "C09", "C10"):
    p = PROPS[_pid]
    p["streams"] += [S("syscrh", 2500, 30000)]
    p["rule"] += _RH_RULE
    p["trusted_base"] += [x for x in _RH_TB if x not in p["trusted_base"]]
    if "RrProofs.Props.SysCacheRH" not in p["modules"]:
        p["modules"].append("RrProofs.Props.SysCacheRH")
    p["theorems"] += (_RH_THS if _pid == "C05" else _RH_THS[:3])
PROPS["C05"]["streams"] += [S("kf.C05-e", 4, 4, 1)]
PROPS["C05"]["full_statement_status"] += "; rules with response_headers: Model.SysCacheRH (refinement of Model.SysCache at rh = [], rule_forbids_passes_body), stream syscrh; finding C05-e repaired (fix: 192a2d9)"

# C06 reads stream sysc as well: encodings that PASS THROUGH (no recompression on the rule) and are stored, revalidated by 304 and replayed
PROPS["C06"]["streams"] += [S("sysc", 6000, 80000)]
PROPS["C06"]["rule"] += (" | sysc (see C05): origin answers labelled Content-Encoding: gzip / br on a rule without recompression, stored, revalidated by 304, replayed; oracle for C06: a response that the "
                         "C05 / C07 history oracles judge wrong in body or framing, outside every listed class, for a resource whose origin answer carries a Content-Encoding")
PROPS["C06"]["trivial_labels"] = list(PROPS["C06"].get("trivial_labels", [])) + ["no-origin", "unparsed"]

# The system-level theorems of Model.SysCache lifted to Model.SysCacheRH for ARBITRARY response_headers (Props.SysCacheRHLift; helper lemmas Lemmas.SysCacheRH:
# stepOnceRH_eq - one activation of the wrapper is the base activation with ai (row f:304), or with applyRH rh ai, or the answer w:uncacheable-rule)
_RHL_TERM = [
    T("Props.SysCacheRHLift.reenter_skip_true_RH", "full", "Model.SysCacheRH, every rh: every Step.reenter produced by stepOnceRH carries skipRevalidate = true"),
    T("Props.SysCacheRHLift.skip_activation_answers_RH", "full", "Model.SysCacheRH, every rh: an activation with skipRevalidate = true answers (every disk, header, origin, clock)"),
    T("Props.SysCacheRHLift.fuel_two_suffices_RH", "full", "TERMINATION for rules with response_headers, unconditional: for every cfg, rh, origin, clock, request, disk, headers and fuel >= 2, cachingFuncRH with that fuel equals cachingFuncRH with fuel 2"),
    T("Props.SysCacheRHLift.answered_RH", "full", "for fuel >= 2 the label of cachingFuncRH never ends in `fuel`"),
    T("Props.SysCacheRHLift.run_answered_RH", "full", "no observation of any history runRH (every rh, every state) has a label ending in `fuel`"),
    T("Props.SysCacheRHLift.Ex.one_unit_not_enough_RH", "witness", "the bound 2 is sharp under a rule with a response header: fuel 1 gives w:304>fuel, fuel 2 gives w:304>f:hit"),
]
_RHL_C10 = [
    T("Props.SysCacheRHLift.other_methods_bypass_RH", "full", "Model.SysCacheRH, every rh: a method other than GET/HEAD leaves the disk as it was, makes exactly one contact (the client's own header), answers on the plain stack with the rule's headers Set into alwaysInclude (u:pass / u:err)"),
    T("Props.SysCacheRHLift.authorization_never_stores_RH", "full", "Model.SysCacheRH, every rh, every fuel: a request with Authorization only ever removes files (Shrinks)"),
    T("Props.SysCacheRHLift.doNotCache_answer_never_stored_RH", "full", "Model.SysCacheRH, every rh: in a writer row an origin answer whose directives forbid storing ends the activation with the disk exactly as it was (w:416 or w:uncacheable)"),
    T("Props.SysCacheRHLift.rule_forbids_only_removes_unless_304", "full", "ruleForbids rh: every activation of stepOnceRH only removes files (Shrinks) unless it is the re-entry w:304> of a RevalidatingWriter (the origin confirmed an entry that was ALREADY stored: republish rewrites its xattr)"),
    T("Props.SysCacheRHLift.rule_forbids_never_stores", "full", "ruleForbids rh: for every activation (every disk, request, origin, clock) every cell of the disk afterwards is the cell before, or empty, or the same BODY with a rewritten xattr (NoNewBody): no path gets a file, no body byte is written"),
    T("Props.SysCacheRHLift.rule_forbids_skip_only_removes", "full", "ruleForbids rh: an activation with skipRevalidate = true (every re-entry) only removes files"),
    T("Props.SysCacheRHLift.rule_forbids_never_stores_cachingFuncRH", "full", "... lifted to whole requests, every fuel"),
    T("Props.SysCacheRHLift.rule_forbids_never_stores_history", "full", "... and to every state of every history (stateAfterRH): NoNewBody relative to the starting disk"),
    T("Props.SysCacheRHLift.rule_forbids_cache_stays_empty", "full", "from the empty cache, under a rule whose response headers forbid storing, the disk is empty in every state of every history"),
    T("Props.SysCacheRHLift.Ex.forbids_miss_stores_nothing", "witness", "non-vacuity: rule Cache-Control: no-store, cacheable origin answer: label w:uncacheable-rule, the whole body, nothing on the disk"),
    T("Props.SysCacheRHLift.Ex.forbids_304_not_shrinks", "witness", "the exception is real: an entry stored earlier, due, a conditional origin: under the forbidding rule the activation re-publishes it (plain Shrinks fails, the body is unchanged)"),
]
_RHL_C07 = [
    T("Props.SysCacheRHLift.hit_replays_entry_RH", "full", "Model.SysCacheRH, every rh: a hit (GET/HEAD, no Range) answers at once, without contact, with the stored status, the first Metadata.Size bytes of the file and the header suffixETag (copyHeaders stored (applyRH rh ai + cache status + Age))"),
    T("Props.SysCacheRHLift.rule_header_wins", "full", "on such a hit, for a name k other than richie-edge-cache / Age / Etag, the client's header carries exactly [v] for the LAST pair (k, v) of rh with that canonical name, whatever the stored entry says under it (ai Normal: [] at request start)"),
    T("Props.SysCacheRHLift.rule_header_wins_nodup", "full", "... for every pair of a rule whose names have pairwise different canonical forms"),
    T("Props.SysCacheRHLift.Ex.last_pair_wins", "witness", "X-Rule: 1 ... x-rule: 2 on the rule: the hit carries x-rule = 2"),
    T("Props.SysCacheRHLift.Ex.rule_overrides_stored", "witness", "the rule's Cache-Control: private replaces the stored Cache-Control: max-age=60 in the hit's header"),
]
for _pid, _ths in (("C05", _RHL_TERM), ("C10", _RHL_C10), ("C07", _RHL_C07)):
    p = PROPS[_pid]
    if "RrProofs.Props.SysCacheRHLift" not in p["modules"]:
        p["modules"].append("RrProofs.Props.SysCacheRHLift")
    p["theorems"] += _ths
