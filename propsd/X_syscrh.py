# The cached request path for a rule WITH response_headers: Model.SysCacheRH (a wrapper around Model.SysCache), tied to the real
# server by correspondence stream `syscrh`; regression stream kf.C05-e for the repaired finding C05-e.

_RH_RULE = (" | syscrh: the histories of stream sysc on a cache-enabled rule that carries response_headers. Mode N (the rule's names are none the cache reads: X-Edge, Content-Type, "
            "Content-Language, X-A, x-lower): all history oracles of sysc, applied to the origin answers with the rule's lines on top. Mode C (the rule sets Cache-Control: storing forbidden - "
            "no-store/private/no-cache/max-age=0/s-maxage=0 - or a lifetime of its own): one origin answer per path (status in the storage gate, complete body, optional validator + 304), plain GET/HEAD "
            "requests with ticks; oracle: every response, whatever row produced it, is that answer, complete (C05; C07 when no origin was contacted). Model tokens (Model.SysCacheRH.runRH) compared on every history")
_RH_TB = ["Model.SysCacheRH: declared domain - the rule's response header names are none of richie-edge-cache, Age, Content-Length, Content-Range (the names cachingFunc itself puts into alwaysInclude)"]
_RH_THS = [
    T("Props.SysCacheRH.stepOnceRH_nil", "full", "refinement: with no response headers on the rule one activation of Model.SysCacheRH is one activation of Model.SysCache (every argument)"),
    T("Props.SysCacheRH.cachingFuncRH_nil", "full", "... and so is every request, for every fuel"),
    T("Props.SysCacheRH.runRH_nil", "full", "... and every history: all theorems about Model.SysCache speak about Model.SysCacheRH at rh = []"),
    T("Props.SysCacheRH.rule_forbids_passes_body", "full", "C05 under a rule whose response headers forbid storing (finding C05-e, repaired): for every configuration, clock, disk, writer (fresh / revalidating, disk writes on / off), "
      "alwaysInclude map and origin answer - except the 304 that confirms a stored entry and the 416 of a Range request - the writer row answers at once, leaves the disk untouched and hands the client the origin's status and every byte its body reader hands out"),
    T("Props.SysCacheRH.Ex.repaired_passes_body", "witness", "non-vacuity: Cache-Control: no-store on the rule, a cacheable 200 with ten bytes: all ten go out, label w:uncacheable-rule"),
    T("Props.SysCacheRH.Ex.prefix_drops_body", "witness", "the defect as it was: the row WITHOUT the repair's branch answers 200 with Content-Length: 10 and an empty body (w:invalidated)"),
]
for _pid in ("C05", "C07", "C09", "C10"):
    p = PROPS[_pid]
    p["streams"] += [S("syscrh", 2500, 30000)]
    p["rule"] += _RH_RULE
    p["trusted_base"] += [x for x in _RH_TB if x not in p["trusted_base"]]
    if "RrProofs.Props.SysCacheRH" not in p["modules"]:
        p["modules"].append("RrProofs.Props.SysCacheRH")
    p["theorems"] += (_RH_THS if _pid == "C05" else _RH_THS[:3])
PROPS["C05"]["streams"] += [S("kf.C05-e", 4, 4, 1)]
PROPS["C05"]["full_statement_status"] += "; rules with response_headers: Model.SysCacheRH (refinement of Model.SysCache at rh = [], rule_forbids_passes_body), stream syscrh; finding C05-e repaired (fix: 192a2d9)"

# C06 reads stream sysc as well: encodings that PASS THROUGH (no recompression on the rule) and are stored, revalidated by 304 and replayed
PROPS["C06"]["streams"] += [S("sysc", 6000, 80000)]
PROPS["C06"]["rule"] += (" | sysc (see C05): origin answers labelled Content-Encoding: gzip / br on a rule without recompression, stored, revalidated by 304, replayed; oracle for C06: a response that the "
                         "C05 / C07 history oracles judge wrong in body or framing, outside every listed class, for a resource whose origin answer carries a Content-Encoding")
PROPS["C06"]["trivial_labels"] = list(PROPS["C06"].get("trivial_labels", [])) + ["no-origin", "unparsed"]
