# C18 on cache-enabled rules and warm caches: model RrModel/RedirectCache.lean (on top of Model.Redirect),
# oracle RrModel/Spec/C18Cache.lean, stream sysrc (histories on one cache through the real server).

p = PROPS["C18"]
p["modules"] += ["RrProofs.Props.C18Cache"]
p["theorems"] += [
    T("Props.C18Cache.found_reentry", "full", "the Found site of cachingFunc (fresh stored redirect, restart_on_redirect of the effective rule) while the counter allows another redirect: run (n+1) a = run n a' — no URL is compared with any other (no urlEquals), nothing contacted, no lock taken, the store untouched, alwaysInclude reset, the counter one higher; for every rule set, origin, store, lock set"),
    T("Props.C18Cache.found_bound_508", "full", "the Found site with the counter exhausted (hops + 1 > maxRedirects): 508 Loop detected, nothing contacted, the store untouched"),
    T("Props.C18Cache.found_loop_508", "full", "(was found_cycle_runs_away, finding C18-c) a run of Found re-entries that is still going on when the counter is exhausted ends in 508 Loop detected for EVERY fuel that covers the counter: not one origin contact, the store untouched"),
    T("Props.C18Cache.cycle2_508", "witness", "(was cycle2_runs_away) 2-cycle /a -> /b -> /a stored hop by hop through the non-restarting prefix /p (the store is computed by the model's own history), read through /f: 508 without contact for every fuel >= 11"),
    T("Props.C18Cache.self_508", "witness", "(was self_runs_away) a plain self-redirect stored through /p and read through /f: 508 without contact for every fuel >= 11"),
    T("Props.C18Cache.run_not_runaway", "full", "for every rule set, origin, clock, lock set, store and activation: fuel > 0 and fuel + hops >= maxRedirects + 1 => the run is not cut as runaway (every re-entry of cachingFunc in the slice is a counted redirect; induction on the fuel over all branches of run)"),
    T("Props.C18Cache.cached_terminates", "full", "CachedTerminationStatement at FULL strength (after the fix: commit for C18-a/C18-c; was CachedTerminationStatement_false): for every rule set, origin, bound, fuel N >= maxRedirects + 1, clock, initial store and history, no request is cut as runaway"),
    T("Props.C18Cache.hit_replays_entry", "full", "a fresh stored answer that is not a redirect to be followed is replayed as stored (status, body, Location) without contact; the store stays as it is"),
    T("Props.C18Cache.fill_stores_entry", "full", "writer branch, cacheable non-redirect answer inside the status gate: the answer goes to the client (miss / revalidated, Age 0) and exactly this entry is published under the key"),
    T("Props.C18Cache.fill_then_hit", "full", "warm = cold for a request answered by its first hop: for every rule set, origin, store and activation, if the cold run fills the cache and the entry is fresh at that instant, the immediate repeat returns the same status and body, contacts nobody and leaves the store as the fill left it"),
    T("Props.C18Cache.uncacheable_redirect_not_followed", "full", "writer branch, answer with a do-not-cache directive: handed to the client as it is (also a redirect under restart_on_redirect), nothing stored (finding C18-d on the model)"),
    T("Props.C18Cache.fails_witness_d", "witness", "oracle on the model's outcomes for 302 + no-store on a cache-enabled restarting rule: the client gets the 302 instead of the target, cold and on the repeat (decide)"),
]
p["streams"] += [S("sysrc", 6000, 30000), S("kf.C18-c", 5, 5, 1)]
p["trivial_labels"] = list(p.get("trivial_labels", [])) + ["rules-rejected"]
# the base entry (propsd/C18.py) describes stream sysr: say so where it speaks of the cached sites as missing
p["domain_restrictions"] = [d.replace("uncached rules only,", "sysr: uncached rules only,")
                             .replace("are a later slice", "are stream sysrc")
                            for d in p.get("domain_restrictions", [])]
p["full_statement_status"] = p.get("full_statement_status", "").replace("; cached hops: later slice", "")
p["domain_restrictions"] = list(p.get("domain_restrictions", [])) + [
    "sysrc: ids 0-4319 = ALL 1440 functional graphs over 1-4 URLs x the 3 uniform Location forms, each in one PRNG-chosen mode (root rule with cache; for the absolute and rooted forms also two prefixes sharing one cache), per-node rule / its cache (none, c1, c2) / Cache-Control of every answer (max-age=60, none, no-store) / history (cold, warm[, tick, again]) from the case PRNG",
    "sysrc: GET only, no Range, no conditional request headers, no Authorization / Origin / Accept-Encoding, origin answers without validators, Vary, Expires or stale-* directives, statuses 200 / 404 / 301-308 with non-empty bodies, no copy rules, retry_rule, response_headers, force_revalidate; sequential histories (one request at a time): the waiter path after a SUCCESSFUL wait needs two requests in flight and is not generated",
    "sysrc, two-prefix mode: no relative Locations (the code resolves a relative Location against the CLIENT's request path, which a prefix-stripping rule makes different from the path asked of the destination); a Location back to the edge host is sent to the edge host itself on the cached path (overrideURL), which the scripted origin refuses: such requests are not judged",
]
p["rule"] += (" | sysrc: histories of 2-4 client requests (same or another prefix / node) with clock ticks (1/30/59/60/61/100 s) on ONE cache through the real server "
              "(sysx.World: real disk cache c1/c2 emptied per case, injected clock, scripted origin keyed by request path, every answer with Cache-Control max-age=60 / none / no-store). "
              "Rules: per-node exact-path rules (none / without cache / cache c1 / c2, x-hop + x-via-N request-header overrides, hostheader modes) in front of the entry rules: root mode {host h.test, /* -> d0.test/$1, cache c1/c2/none}, "
              "or two prefixes /p/* and /f/* (no host) -> d0.test/$1 sharing one cache with restart_on_redirect off/on, so that a hop stored through one rule is read through the other. "
              "Locations: absolute (destination host, the edge host through a prefix, the target's own destination host, https, nobody's host), /rooted, relative, with queries. "
              "Guard (protection of the harness only; `runaway` is not expected any more: rrrouter counts the redirects it follows per client request at every re-entry site and answers 508 after maxRedirects = 10): a verifhook handler counts activations of cachingFunc per request (40, then the request is ended by a panic that the handler's sentry.Recover swallows => `runaway`) and ends a request that parks in the 30 s sub-resource wait, "
              "which in a sequential history can only be waiting for a key its own stack is writing (=> `selfwait`); a history ends at the first cut. "
              "Compared with Model.RedirectCache.history (cachingFunc with fuel 40 and bound Facts.maxRedirects over a reference store: key string, status, body, Location, Cache-Control, RedirectedURL string, fill time; lock set of the ancestors): "
              "per request status/framing/body/Location/richie-edge-cache/Age + every contact's URL host, request-target, Host field, failed flag, X-Hop, X-Via set. "
              "Oracle Spec.C18Cache.holds on the implementation, for requests whose whole chain runs under restart_on_redirect rules: F the client gets the sink's status and body whatever is cached, expired or stored by another rule; "
              "T a looping chain gets an error status within 12 contacts and is never cut by the guard; H a contact made for a hop carries the x-hop override of the rule the hop's URL matches; "
              "W (all rules cached) an immediate repeat of a served request contacts no node whose answer may be stored. "
              "kf.C18-c: the three witness histories of the repaired finding C18-c (2-cycle, self-redirect, 3-cycle with max-age after a tick, each stored hop by hop through the non-restarting prefix and read through the restarting one) as regression cases that must pass: 508 Loop detected without a single contact; plus two cases added with the repair, the counter striking below nested writer activations: a 12-cycle fetched cold through a cache-enabled restarting rule (ten nested writers with client writes disabled, 508 from the writer site after 11 contacts, the ten hops stored while the stack unwinds; the repeat follows the stored hops and is answered 508 after one contact) and a cold hop leading into a stored 2-cycle (508 from the Found site below a writer) — exactly one response reaches the client")
p["assumptions"] = [a for a in p.get("assumptions", []) if not a.startswith("slice: uncached path")] + [
    "sysrc: a request cut as `selfwait` is not judged: uncut, the code parks for 30 s on its own lock and then answers 503 Subresource fetch timed out (measured once by hand: 30.0 s, 503, 3 contacts, 4 activations; the loop is written to the cache while the stack unwinds; the NEXT request follows the stored hops until the redirect counter answers 508)",
    "sysrc: the activation guard (40) and the termination bound of the oracle (12 contacts) are harness parameters; the code's bound (11 activations) lies within both",
    "cached redirect sites covered: f:redir (Found), w:redir / w:508 (writer); the r:redir site (`case NotFoundReader, RevalidatingReader` with a reader) cannot be reached with the real cache: after a wait cache.Get answers Found or a writer, the reader kinds never carry a file",
]
p["full_statement_status"] += ("; cached hops (stream sysrc, model RedirectCache): termination proved at full strength after the fix: commit for C18-a/C18-c (cached_terminates: no run is cut as runaway; found_loop_508: a loop through stored hops ends in 508 without contact); "
                               "a cold loop through cache-enabled hops still parks on its own lock (`selfwait`: 30 s, then 503 — an error response, late; not judged); an uncacheable redirect on a cache-enabled rule is not followed (finding C18-d, proved on the model: uncacheable_redirect_not_followed); warm = cold: proved for a request answered by its first hop (fill_then_hit), oracle-checked on the implementation over whole chains, and stated for whole chains on the model in Scratch/C18Cache_statements.lean (unproved)")

# C18: a destination that canonicalises its query with a redirect (two URLs that differ in their query are two URLs)
p = PROPS["C18"]
p["streams"] += [S("canonq", 36, 144)]
p["rule"] += " | canonq: /s?<query> on a restarting rule; the destination answers 302 to /s?a=1&b=2 (rooted or absolute Location) unless the query is already that, then 200; 9 spellings of the query (reordered, trailing &, empty pair, extra key, escaped value, ';' separator, empty, bare '?', repeated key) x 2 Location forms, enumerated; compared with Model.Redirect.follow under a query-sensitive origin; oracle: the client receives the 200"
