# C16 / C17 on the REAL size-limiter goroutine (stream limgo): caching.NewDiskStorage with runSizeLimiter running,
# driven through GetWriter/ChangeKey/WriteHeader/Write/Close, storage.Get, the flush tick, Update and restarts on one directory.
# Model RrModel/LimiterLoop.lean (the loop with its real-clock gate as an input) over RrModel/Limiter.lean,
# handler Driver/H/LimGo.lean, stream harness/streams/limgo.go, theorems RrProofs/Props/C16Loop.lean.
# Needs the hooks of repo-hooks.patch (verifNow around the two time.Now().Unix() of closeFinisher / setAccessTime,
# VerifStorageView / SendFlush / ChanLen in caching/verif_export.go).

_LIMGO_RULE = (" | limgo: the REAL storage (caching.NewDiskStorage on a temp dir inside the run directory) with its size-limiter goroutine running; nothing of the loop is transcribed. "
               "Op scripts of 1-50 ops over 2-7 entries (requests without Origin: one key; with Origin: stored under the opaque-origin key and looked up as [full, opaque]; "
               "with Origin and Vary: Origin: writer opened for the opaque key and re-keyed by ChangeKey as server.go does): "
               "fill = GetWriter(key,false) [ChangeKey] WriteHeader(200) Write Close (closeFinisher sends opAdd); hit = storage.Get(keys) (setAccessTime sends opAccessTime); "
               "flush tick = the ticker's send; regrow = GetWriter(key,true) … Close (a 200 answer to a revalidation); delete behind the limiter's back = os.Remove or storage.Get's self-heal on a damaged file; "
               "restart = a new NewDiskStorage on the same directory (readFiles + readStorableAccessTimes in the new goroutine); Update = a changed size limit. "
               "Two scripts in seven are directed (warm-up fills, hits and flushes with a log small enough to be trimmed, flush + restart up to twice, then fills or a lowered limit as space pressure). Sizes 1 B … 1 MiB (whole KiB in most profiles), limits 0 … 1 GiB, stray files at start (x.tmp, .healthcheck, files off their item path), ATIME_LOG_SIZE_BYTES in {unset, 0, 1, 50, 100, 120, 200, 1000}, "
               "injected clock (verifhook.SetClock: startedAt, closeFinisher, setAccessTime). The goroutine parks at hook point limiter.loop before every receive; after each action the harness lets it run "
               "one iteration per queued item and reads sizeBytes, the three maps and the directory while it is parked again (no sleeps). The loop's gate reads the real monotonic clock: "
               "VerifLimiterPeriod = 1 ns opens it at every iteration (3 lifetimes in 4), 24 h only at the first iteration of a storage's life. "
               "Compared with Model.LimiterLoop.stepG (switch, gate as input, pass) per iteration: items received, bytes stored before, files removed, sizeBytes, all maps, all files with sizes, the log after each flush; "
               "the map orders Go chose are read off the maps (items gone), completed to a valid enumeration and checked (INVALID-CHOICE otherwise). "
               "Oracles: Spec.C16.passOk / Spec.C17.passOk on what the IMPLEMENTATION's directory showed for every iteration at which a pass was due (an item arrived and the gate was open). "
               "A failing pass is attributed to the listed classes of the history only if the model's pass (the code as it stands) fails the oracle there too")

for _p in ("C16", "C17"):
    p = PROPS[_p]
    p["streams"] += [S("limgo", 4000, 20000)]
    p["rule"] += _LIMGO_RULE
    p["trusted_base"] += [
        "limgo: verifhook.Point(limiter.loop) as the only synchronisation with the limiter goroutine; len(itemsChan) tells how many iterations to let run; "
        "the limiter's maps are read through caching.VerifStorageView while the goroutine is parked; the clock hook replaces time.Now().Unix() in closeFinisher/setAccessTime (repo-hooks.patch)",
        "limgo: xattr-capable file system under the run directory; net/http only for building requests/headers (KeysFromRequest)"]
    p["assumptions"] += [
        "limgo: 'a pass is due' = an item reached the limiter and its period has passed (gate open); lowering the limit with Update counts as exceeding it",
        "limgo: a stray atimes-truncated file is not generated (a trimming flush consumes it inside the iteration of the pass; stream limiter covers it); the flush ticker and signal listener goroutines are off (ATIME_DISABLE), the tick is sent by the script"]
    p["domain_restrictions"] = list(p.get("domain_restrictions", [])) + ["limgo: entry sizes 1 B … 1 MiB, base names of 3+ bytes (a shorter one makes the real goroutine panic: covered by stream limiter)"]

_LOOP_REFINE = [
    T("Props.C16Loop.stepG_eq_step", "full", "refinement, for ALL states, ops and map orders: the loop machine (receive, switch, gate, pass) run with the gate the script clock computes IS Model.Limiter.step - the value-level theorems speak about the loop"),
    T("Props.C16Loop.stepG_eq_loopStep", "full", "refinement: an op that sends an item (fill that wrote a file: opAdd; Get that found one: opAccessTime; flush tick) is its own effect on the directory followed by ONE iteration loopStep of the goroutine on that item, for either gate"),
    T("Props.C16Loop.stepG_no_item", "full", "fill of a present entry, hit on a missing one, regrow, delete, restart send nothing: the goroutine does not run"),
]
p = PROPS["C16"]
p["modules"] += ["RrProofs.Props.C16Loop"]
p["theorems"] += _LOOP_REFINE + [
    T("Props.C16Loop.tail_open_eq_pass", "full", "gate open = the value-level pass (whenever the script clock opens that one too); tail_closed: gate closed = the iteration ends after the switch"),
    T("Props.C16Loop.runG_clean", "partial", "induction over op lists of the LOOP machine with ARBITRARY gates (the real clock is unconstrained): under H (no step in C16-a..f) the accounting invariant Inv is kept by every iteration and every pass record satisfies Spec.C16.passOk"),
    T("Props.C16Loop.loop_accounting_partial", "partial", "after every clean run of the loop, any gates, any valid map orders: sizeBytes = sum of kb*1024 over withAccessTime + withoutAccessTime = bytes stored, and the maps name only files that exist"),
    T("Props.C16Loop.loop_accounting_from_start", "partial", "the same from the goroutine's start-up on any clean directory"),
    T("Props.C16Loop.loop_holds_partial", "partial", "Spec.C16.holds accepts the loop's log of every clean run"),
    T("Props.C16Loop.open_gate_returns_partial", "partial", "under the invariant one iteration with the gate open ends with sizeBytes = bytes stored <= max, or has freed >= min(excess, maxPurgeBytes)"),
]
p = PROPS["C17"]
p["modules"] += ["RrProofs.Props.C16Loop"]
p["theorems"] += _LOOP_REFINE

# C16 reads stream reload as well: which storages are in service after a reload, and which of them were told they are replaced
# (a storage that stays in service but was marked replaced has no size limiter any more - seeded change C16-m8)
PROPS["C16"]["streams"] += [S("reload", 480, 2400)]
PROPS["C16"]["rule"] += " | reload (see C19): reload sequences through the real ParseStorageConfigs / SetStorageConfigs; the storages in service afterwards and their replaced flags are compared with the reload model"
