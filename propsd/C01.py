PROPS["C01"] = {
    "title": "Requests are routed by the first matching enabled rule, in file order",
    "modules": ["RrProofs.Props.C01", "RrProofs.Pins"],
    "theorems": [
        T("Props.C01.attemptMatch_isSome_iff", "full", "attemptMatch succeeds iff scheme/host constraints hold and the declarative path relation holds"),
        T("Props.C01.match_proxy_first", "full", "(matchRules rs q).proxy index = first index of an enabled, method-allowing, matching proxy rule (findIdx?), for all rs q"),
        T("Props.C01.match_proxy_target", "full", "the target handed on is attemptMatch of the chosen rule"),
        T("Props.C01.match_suffix_irrelevant", "full", "once a proxy rule is selected, any rules appended after the inspected prefix leave the whole result unchanged"),
        T("Props.C01.matchLoop_skip_irrelevant", "full", "a rule that does not apply (disabled / method / mismatch) can be inserted anywhere without changing the proxied target"),
        T("Props.C01.holds_model", "full", "Statement: for all rule lists, requests, origin statuses the oracle Spec.C01.holds accepts the model's observable (404 and no proxy contact when nothing matches)"),
        T("Pins.matchLoopShape", "pin", "normalised AST of the RulesLoop body in proxy/ruleconfig.go equals the shape Model.matchLoop mirrors"),
        T("Pins.knownMethods", "pin", "knownMethodsMap keys"),
    ],
    "streams": [S("match", 20000, 250000), S("dropport", 2000, 20000), S("scheme", 200, 2000)],
    "trivial_labels": ["rules-rejected", "unparsable", "nomatch"],
    "rule": "rule lists of 1-8 rules over a shared vocabulary of path segments/hosts/schemes/methods (so prefixes overlap, rules shadow each other, disabled/method-filtered/copy rules are interleaved) x matched strings derived from the rule set's own prefixes; public ParseRules + Rules.Match vs Model.matchRules; a case is non-trivial when some rule matches (label other than nomatch/rules-rejected/unparsable); distinct = distinct input token strings",
    "trusted_base": LEAN_TB + ["net/url.Parse and URL.RequestURI (the matched triple scheme/host/request-target is taken from Go's parser, not modelled in this stream)"],
    "assumptions": ["the string handed to Rules.Match is parsed by net/url as Go does (not modelled here; C02 covers the construction of that string)",
                    "System-level 404/no-contact clause is proved on the model (modelObs) and validated by the L2 sys stream when present"],
    "full_statement_status": "proved (Props.C01.holds_model) for the model",
}

