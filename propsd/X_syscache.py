# System-level theorems on the sequential system model of the cached request path (RrModel/SysCache.lean), tied to the
# real server by correspondence stream `sysc`.  Every theorem is for an ARBITRARY disk, clock, origin map and request,
# hence for every state of every history of `Model.SysCache.run`.

_SC_TB = ["Model.SysCache: one request at a time (lock table empty at the start of a request; schedules are C12/C13's model Conc), one cache-enabled rule without recompression / response_headers / request_headers / retry_rule / restart_on_redirect",
          "net/http's server as far as `wire` states it (status and header map as written, 1xx/204/304 and HEAD without body, Content-Length enforcement); SHA-1 injective on the key strings in play (the disk is keyed by key string)"]
_SC_STATUS = "; cached request path: proved on the sequential system model Model.SysCache (theorems Props.C08Sys / C10Sys / C07Sys / SysCacheTerm, every disk and history) and tied by correspondence stream sysc"

def _add(pid, mods, ths):
    p = PROPS[pid]
    for m in mods:
        if m not in p["modules"]:
            p["modules"].append(m)
    have = {t["name"] for t in p["theorems"]}
    p["theorems"] += [t for t in ths if t["name"] not in have]
    p["trusted_base"] += [x for x in _SC_TB if x not in p["trusted_base"]]
    if _SC_STATUS not in p["full_statement_status"]:
        p["full_statement_status"] += _SC_STATUS

_TERM = [
    T("Props.SysCacheTerm.reenter_skip_true", "full", "every re-entry of cachingFunc (after a 304, after stale-if-error) runs with skipRevalidate = true (since the fix: commit for the two-values loop)"),
    T("Props.SysCacheTerm.skip_activation_answers", "full", "an activation with skipRevalidate = true always answers (found row, or NotFound writer row): it never re-enters"),
    T("Props.SysCacheTerm.fuel_two_suffices", "full", "TERMINATION: for every configuration, origin, clock, request, disk and fuel >= 2, cachingFunc with that fuel equals cachingFunc with fuel 2: one re-entry is always the last (unconditional since the repair; before it the statement was refuted by the two-values witness, now Ex.two_values_answered)"),
    T("Props.SysCacheTerm.answered", "full", "for fuel >= 2 the answer's label never ends in `fuel`: every request is answered"),
    T("Props.SysCacheTerm.run_answered", "full", "every observation of every history is an answer (never out of fuel)"),
    T("Props.SysCacheTerm.lockedReentry_found_answers", "full", "the re-entry that finds its own key held (Authorization + 304) hangs only when nothing is found: a found entry is answered"),
    T("Props.SysCacheTerm.Ex.two_values_answered", "witness", "the former unbounded re-entry (two Cache-Control lines, first max-age=0, second max-age=5; reachable disk): now answered at fuel 2 with label w:304>f:hit:stale and ONE contact"),
    T("Props.SysCacheTerm.Ex.one_unit_not_enough", "witness", "the bound 2 is sharp"),
]
_C08 = [
    T("Props.C08Sys.served_without_contact", "full", "a request answered without any origin contact is GET/HEAD, answered by its first activation from an entry storage.Get found and cache.Get judged NOT due (or the run-time panic row): decision 304 or fresh, shouldRevalidate = false"),
    T("Props.C08Sys.served_without_contact_is_fresh_partial", "partial", "... and that entry is fresh in the sense of Spec.C08.isFresh, outside finding C08-a (hypotheses: zero time < now, inClass_C08_a = false)"),
    T("Props.C08Sys.ServedWithoutContactIsFreshStatement_false", "negation", "without the class hypothesis the statement fails: C08-a on a concrete disk built with Codec.encode (served 99940 s after Expires)"),
    T("Props.C08Sys.fresh_not_contacted", "full", "converse: an entry found and not due is answered with contacts = [] and the disk as storage.Get left it"),
    T("Props.C08Sys.fresh_not_contacted_partial", "partial", "... from Spec.C08.isFresh, outside finding C08-b"),
    T("Props.C08Sys.FreshNotContactedStatement_false", "negation", "C08-b on a concrete disk: contacted 10 s into max-age=3600"),
    T("Props.C08Sys.stale_served_only_within_allowances", "full", "an answer marked stale implies, in this very request, a failed revalidation inside the stored stale-if-error allowance, or a revalidation the origin confirmed with 304 (recorded, or unrecordable because disk writes are disabled)"),
    T("Props.C08Sys.stale_served_contacts_ne_nil", "full", "a stale copy is never served without an origin contact"),
    T("Props.C08Sys.history_served_without_contact", "full", "the lift of served_without_contact to every observation of every history"),
    T("Props.C08Sys.history_fresh_not_contacted", "full", "the lift of the converse to histories"),
]
_C10 = [
    T("Props.C10Sys.other_methods_bypass", "full", "a method other than GET/HEAD: the disk is untouched, exactly one contact, the answer is the origin's (plain stack) - never anything read from the cache"),
    T("Props.C10Sys.authorization_never_stores", "full", "a request with Authorization never writes or changes a file, for every fuel (files may only disappear through storage.Get's clean-up)"),
    T("Props.C10Sys.doNotCache_answer_never_stored", "full", "an origin answer whose directives forbid storing (any status, a 304 included) leaves the disk exactly as it was"),
    T("Props.C10Sys.cachingFill_gate", "full", "every cell after cachingFill is the old cell, empty, the PUBLISHED answer (status in the gate, not doNotCache, body complete), or the re-published old entry (defect C09-e)"),
    T("Props.C10Sys.store_provenance", "full", "one activation: a cell that is new or changed and non-empty implies GET/HEAD, no Authorization, an origin contact, and an answer that does not forbid storing"),
    T("Props.C10Sys.cachingFunc_store_provenance", "full", "the same for whole requests, any fuel"),
    T("Props.C10Sys.step_uncacheable_request", "full", "the same for every state of every history"),
    T("Props.C10Sys.client_header_directives", "full", "the header map the storage writer tests (the one sent to the client) carries exactly the origin's Cache-Control / Vary directives (canonical origin maps, clean alwaysInclude)"),
    T("Props.C10Sys.step_diskOK", "partial", "invariant DiskOK (no stored entry reads back as doNotCache) is preserved by every step under codec fidelity of the metadata written (finding C07-a excluded: RoundTripsCC)"),
    T("Props.SysCacheTerm.Ex.stored_doNotCache_reachable", "witness", "... and without that hypothesis it fails in a reachable state (two Cache-Control lines: the codec keeps the first)"),
]
_C07 = [
    T("Props.C07Sys.hit_replays_entry", "full", "a hit (no Range) answers with the stored status, the stored headers under the documented additions, and the file's bytes"),
    T("Props.C07Sys.hit_replays_whole_file_sizeOK", "full", "... the WHOLE file, in every state reachable from the empty cache (SizeOK)"),
    T("Props.C07Sys.sizeOK_reachable", "full", "invariant: in every reachable state the stored size equals the file length, with no codec hypothesis"),
    T("Props.C07Sys.hit_wire_complete_sizeOK", "full", "... and through net/http's framing the client reads a COMPLETE response with exactly the file's bytes when the stored Content-Length is absent or consistent"),
    T("Props.C07Sys.hit_wire_cutshort", "full", "the condition is precise: an inconsistent stored Content-Length gives exactly the cut-short / empty observation stated"),
    T("Props.C07Sys.fill_then_hit", "partial", "a miss filled by a complete, storable 200 followed by the same request at the same clock is a hit with no contact, the same status and the origin's body (codec decodes what it encoded; freshness of the decoded metadata)"),
    T("Props.C07Sys.fill_then_hit_history", "partial", "the same as a two-request history through run and wire: both observations complete, w:fill with one contact then f:hit with none"),
    T("Props.C07Sys.fill_then_hit_representable", "partial", "the same from the decidable hypotheses Representable + inRange (complement of finding C07-a)"),
]
_C13 = [
    T("Props.C07Sys.failed_fill_publishes_nothing", "full", "an origin body that breaks off: the disk only shrinks, nothing is sent from the file, the key's cell is empty (or the untouched complete old entry of a non-revalidating writer)"),
    T("Props.C07Sys.failed_fill_key_empty_false", "negation", "the naive form (the cell is always empty) is false: a re-keyed non-revalidating writer leaves the complete old entry"),
    T("Props.C07Sys.failed_fetch_poisons_nothing", "full", "after a failed fetch on a miss every key of the request is free and the NEXT lookup, at any later clock, starts a fresh fetch"),
    T("Props.C07Sys.bodies_step", "full", "invariant over every step, no hypotheses: every file afterwards has the body of a file that was there before or the COMPLETE body of an origin answer that ended without error: a truncated body never enters the cache"),
    T("Props.C07Sys.published_body_is_complete", "full", "whenever cachingFill leaves a new body in a cell it is the complete body of an answer with readErr = false"),
]
_add("C08", ["RrProofs.Props.C08Sys", "RrProofs.Props.SysCacheTerm"], _C08 + _TERM[:4])
_add("C10", ["RrProofs.Props.C10Sys", "RrProofs.Props.C10SysInv", "RrProofs.Props.SysCacheTerm"], _C10)
_add("C07", ["RrProofs.Props.C07Sys"], _C07)
_add("C13", ["RrProofs.Props.C07Sys", "RrProofs.Props.SysCacheTerm"], _C13 + _TERM)
_add("C05", ["RrProofs.Props.C07Sys", "RrProofs.Props.SysCacheTerm"], [_TERM[2], _TERM[3], _TERM[4], _C07[3], _C07[6]])
_add("C09", ["RrProofs.Props.C08Sys", "RrProofs.Props.SysCacheTerm"], [_TERM[2], _TERM[6], _C08[6]])

# regression streams of the repaired two-values loop
for _pid in ("C05", "C08", "C09", "C13"):
    PROPS[_pid]["streams"] += [S("kf.C07-a.loop", 2, 2, 1)]
