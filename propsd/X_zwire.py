# The real transport: stream wire (C01 C02). Every other system stream replaces http.Transport by a scripted performer.
_W_RULE = (" | wire: proxy.NewRouter with ITS OWN http.Transport (dialer, resolver, connection pool as NewRouter configures them) behind server.ConfigureServeMux, 2-3 real local listeners as destinations "
           "(each answers with its index, the request-target and the Host it was sent), named by host name (localhost:<port>) or IP literal, 2-4 wildcard rules with prefixes and hostheader policies, "
           "histories of 4-8 GET requests on ONE router with destinations closing connections at random (fresh dials in mid-history); compared with Model.Redirect.outgoing (rule chosen, target, preq.Host); "
           "oracle: the listener that RECEIVED the request is the one written in the chosen rule; a request no rule matches is not proxied")
for _pid in ("C01", "C02"):
    p = PROPS[_pid]
    p["streams"] += [S("wire", 1500, 20000, 2)]
    p["rule"] += _W_RULE
    p["trivial_labels"] = list(p.get("trivial_labels", [])) + ["rules-rejected"]
    p["trusted_base"] += ["stream wire: the loopback interface and the name `localhost` of the sandbox; net/http's Transport itself (what is checked is NewRouter's configuration and use of it)"]

# whole-shape pins of three small functions the streams rest on (round 5)
PROPS["C01"]["theorems"] += [T("Pins.newRouterShape", "pin", "NewRouter: net/http's Transport over the standard library's dialer, whole function body pinned (stream wire drives it)")]
PROPS["C02"]["theorems"] += [T("Pins.newRouterShape", "pin", "NewRouter: net/http's Transport over the standard library's dialer, whole function body pinned (stream wire drives it)")]
PROPS["C03"]["theorems"] += [T("Pins.retryableShape", "pin", "retryable: every method but POST, whatever the body - both callers (body buffering in routeRequest, the repeat loop in performRequest) ask the same question")]
PROPS["C05"]["theorems"] += [T("Pins.writeErrorShape", "pin", "writeError: user error = its code + JSON message, failed client write = nothing, everything else (a cancelled request context included) a bare 500")]

# C20 under concurrency (free-running search support)
PROPS["C20"]["streams"] += [S("conccopy", 16, 64, 2)]
PROPS["C20"]["rule"] += " | conccopy: 8 goroutines x 200 requests, GET and POST for ONE url through one router at once, each as the server does it (GetRoutingFlavors then RouteRequest); the copy rule mirrors POST and PUT only; every POST is copied exactly once, no GET ever, every request reaches the proxy destination (free-running: search support; seeded change C20-m8)"

_PIN_WB = T("Pins.writeBodyShape", "pin", "writeBody (the copy loop of every writer stack): a reader error other than io.EOF ends the transfer as an error (writer closed, errCleanup run) - a body that breaks off is never taken for a complete one; whole function body pinned (seeded change C06-m8)")
for _pid in ("C05", "C06", "C13"):
    PROPS[_pid]["theorems"] += [_PIN_WB]
