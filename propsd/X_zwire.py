# The real transport: stream wire (C01 C02). Every other system stream replaces http.Transport by a scripted performer.
_W_RULE = (" | wire: proxy.NewRouter with ITS OWN http.Transport (dialer, resolver, connection pool as NewRouter configures them) behind server.ConfigureServeMux, 2-3 real local listeners as destinations "
           "(each answers with its index, the request-target and the Host it was sent), named by host name (localhost:<port>) or IP literal, 2-4 wildcard rules with prefixes and hostheader policies, "
           "histories of 4-8 GET requests on ONE router with destinations closing connections at random (fresh dials in mid-history); compared with Model.Redirect.outgoing (rule chosen, target, preq.Host); "
           "oracle: the listener that RECEIVED the request is the one written in the chosen rule; a request no rule matches is not proxied")
for _pid in ("C01", "C02"):
    p = PROPS[_pid]
    p["streams"] += [S("wire", 1500, 20000, 2)]
    p["rule"] += _W_RULE
    p["trivial_labels"] = list(p.get("trivial_labels", [])) + ["rules-rejected"]
    p["trusted_base"] += ["stream wire: the loopback interface and the name `localhost` of the sandbox; net/http's Transport itself (what is checked is NewRouter's configuration and use of it)"]
