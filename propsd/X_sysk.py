# C11 at system level (stream sysk): the real server + disk cache + coalescing, where the key in hand changes
# during a request (Vary: Origin re-keying, `key = waitedKeyInfo.Key` after a coalescing wait).
# Model RrModel/KeySys.lean, oracle RrModel/Spec/C11Sys.lean, handler Driver/H/SysK.lean, stream harness/streams/sysk.go.

p = PROPS["C11"]
p["modules"] += ["RrProofs.Props.C11Sys"]
p["theorems"] += [
    T("Props.C11Sys.holds_model", "full", "system level, on the reference keyed cache Model.KeySys, for ALL rule sets and ALL histories (single requests, clock ticks, overlapped pairs with coalescing hand-over of the key and Vary: Origin re-keying): "
      "every response carries the echo of the receiver's own request (it was fetched for it) or the echo of a request of the history that shares an ENTRY NAME with the receiver (some key of each has the same FsName) in the same cache storage — "
      "the machinery around the keys adds no sharing beyond equality of entry names; with Props.C11.key_determines_resource_partial (equal names => equal resource outside C11-a/b/c) this is C11 for the model outside the three classes"),
    T("Props.C11Sys.fill_spec", "full", "the writer branch stores only under the name of one of the request's OWN keys (its preferred key, the delivered key of equal name after a coalescing wait, or its own full-origin key after ChangeKey) and answers with the request's own echo"),
    T("Props.C11Sys.route_keys", "full", "the keys of a routed request of the system model are Spec.C11.modelKeys of the same request with its routing decision (bridge to the function-level theorems)"),
]
p["streams"] += [S("sysk", 8000, 60000)]
p["trivial_labels"] = list(p.get("trivial_labels", [])) + ["rules-rejected"]
p["rule"] += (" | sysk: SYSTEM level — the real server.ConfigureServeMux handler behind a real listener, raw-TCP clients, the real disk cache (storages c1, c2) with its lock table and notifier goroutine, "
              "an origin stub in place of the transport that ECHOES what it was asked (destination host, request-target, method, Accept-Encoding lines, Authorization, Origin) in a response header and in the body, "
              "and sets Cache-Control (max-age=60 / public, max-age=600 / none / no-store) and Vary (Origin / Accept-Encoding, Origin / Accept-Encoding / none) as a function of the request-target; injected clock. "
              "Rule sets (1-3 cache-enabled rules): one wildcard rule; two client paths onto equal destination paths of DIFFERENT hosts (C11-b) / of one host (control) / in different cache storages; destination without $1 (C11-c); "
              "a host-constrained rule (client path keyed) beside an unconstrained rule mapping another client path onto it; destination with a path prefix. "
              "A case = a history of 3-7 client requests that are variants of one base request differing in one or two key fields (GET/HEAD; Accept-Encoding absent / one value / two lines / the two values glued; Authorization; "
              "Origin absent / A / B / empty line; query; client path prefix; Host incl. the HEAD-prefixed host; path tails that move text across a field boundary, C11-a), clock ticks (total below every max-age), "
              "and OVERLAPPED pairs: the second request is issued while the origin holds the first one's answer; the answer is released when the second request has completed or has been parked as a coalescing waiter "
              "(hook point srv.wait); a woken waiter that goes to the origin itself is answered after the first request's end; the notifier is drained by a barrier message after every step (nothing is timed). "
              "30 % of the cases are directed: two sites (Origin A / Origin B) overlapped on one URL, then later requests from both sites. "
              "Compared with Model.KeySys.run (reference keyed cache over the key model of RrModel/Key.lean: lookup order [full-origin key, opaque-origin key], the key the writer locks, ChangeKey incl. the method-less old key, "
              "the notifications a writer sends and the key a woken waiter continues with, what a HEAD fill stores): per response status, richie-edge-cache, Age, the echoed request, body kind, framing, Vary, Cache-Control, "
              "number of origin contacts; per pair how the second request met the first (seq / free / parked). "
              "Oracle Spec.C11Sys.mismatch on every response of the IMPLEMENTATION that carries an echo: the echoed request must agree with the client's own request on destination host, path, query, GET vs HEAD, "
              "Accept-Encoding, Authorization, Origin presence, and Origin value when the delivered response varies by Origin; a failing response is attributed to a known class only through the pair "
              "(request of the history it was generated for, request that received it)")
p["trusted_base"] += [
    "net/http server framing and request parsing, net/http ServeMux (requests of stream sysk use clean origin-form targets)",
    "the echoing origin stub stands in for http.Transport and for the destinations; its Vary / Cache-Control are a fixed function of the request-target, mirrored in Model.KeySys.varyOf / ccOf",
    "stream sysk drives the overlap through the origin stub and the verif hook point srv.wait; at most two requests are in flight at once"]
p["assumptions"] += [
    "system level (stream sysk): every response that carries the origin's echo is judged (fills as well as hits); the destination URL of a request is Spec.C11.dest for the first matching rule (C01/C02)",
    "system level: the Origin VALUE is compared when the delivered response declares Vary: Origin (or *), or the origin stub is known to vary its answer for the echoed URL by Origin"]
p["domain_restrictions"] = list(p.get("domain_restrictions", [])) + [
    "sysk: GET/HEAD on cache-enabled rules, origin answers 200 with a non-empty body and no validators, entries never expire within a history, at most two overlapped requests (three requests in flight race for one lock and are not deterministic)"]

# C09 on coalesced requests (stream condpair; world and overlap of sysk)
p = PROPS["C09"]
p["streams"] += [S("condpair", 400, 6000)]
p["rule"] += (" | condpair: two clients with independent If-None-Match values (none, matching, weak, list, *, other) coalesced on one fetch of a resource with an ETag "
              "(r2 is issued while the origin holds r1's answer, deterministic three-phase overlap), then two sequential requests; compared with the handler model "
              "(the waiter is answered by the writer's validator); oracle: 304 only for a client whose own validator matches")
p["trusted_base"] += ["condpair: the overlap is produced by the scripted origin and the srv.wait hook, not by timing"]

# the composed corollary: system model x function-level theorem (proof agent; found finding C11-d on the way)
p = PROPS["C11"]
p["modules"] += ["RrProofs.Props.C11SysCompose"]
p["theorems"] += [
    T("Props.C11SysCompose.response_passes_oracle", "partial", "for every rule set and history: every response of the system model passes the generated-for oracle (Spec.C11Sys.mismatch = none) when, for the requests sharing an entry name with the receiver, SHA-1 is injective on the key strings involved (NamesInjectiveOn), the pairs are outside C11-a/b/c (OutsideClasses), no request in another storage has an unflagged key with the name of one of the receiver's opaque-origin keys (NoForeignFlagClash: finding C11-d) and the destination is defined"),
    T("Props.C11SysCompose.response_passes_oracle_up_to_origin_value", "partial", "without NoForeignFlagClash every field but the Origin value agrees"),
    T("Props.C11SysCompose.briefStatement_false", "negation", "without NoForeignFlagClash the corollary is false of the model (and of the code: kf.C11-d): the lock table is keyed by name only, across storages"),
    T("Props.C11SysCompose.pair_passes", "full", "one generator/receiver pair with equal key strings in one storage outside the three classes agrees on every field the oracle tests"),
]


# C12 reads the same stream: a coalesced client (overlapped pair) that is handed a response fetched for another resource,
# outside the classes listed for C11, did not receive "the complete, correct response" (seeded change C12-m7)
p = PROPS["C12"]
p["streams"] += [S("sysk", 4000, 30000)]
p["rule"] += (" | sysk (see C11): overlapped pairs on Vary: Origin resources with the echoing origin; oracle for C12: in a case with an overlapped pair no response outside C11's listed classes "
              "carries the echo of another resource's request")
p["trivial_labels"] = list(p.get("trivial_labels", [])) + ["rules-rejected"]
# ... and stream fresh (the public Cache.Get on prepared entries, with the key held by "another request" in part of the cases): a fifth of
# the lookups run under a request context that is cancelled already; what the lookup returns and does to the lock table must not depend on it
p["streams"] += [S("fresh", 10000, 100000)]
p["rule"] += " | fresh (see C08): public Cache.Get on prepared entries, key held by another request in part of the cases, a fifth of the lookups under a cancelled request context (seeded change C12-m8)"
