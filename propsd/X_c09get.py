# The client-validator clause of C09 (inside cache.Get) was built with the freshness slice: extend C09's entry.
if "C09" in PROPS:
    p = PROPS["C09"]
    p["modules"] += ["RrProofs.Props.C09Get"]
    p["streams"] += [S("fresh", 40000, 300000)]
    p["trivial_labels"] = list(p.get("trivial_labels", [])) + ["undecodable"]
    p["theorems"] += [
        T("Props.C09Get.fails_witness_a", "witness", "stored ETag abc, If-None-Match: Wabc: cache.Get answers 304 (finding C09-a)"),
        T("Props.C09Get.fails_witness_a_suffix", "witness", "stored ETag Wabc, ETAG_SUFFIX=-rr, If-None-Match: W/abc-rr: 304"),
        T("Props.C09Get.Statement_false", "negation", "the clause `304 from cache.Get -> matching validator` is false for the code as it is"),
        T("Props.C09Get.client_304_only_if_match_partial", "partial", "all entries/clocks/rule settings/validators/suffix tokens (non-empty, no quote) outside class C09-a: decide = 304 -> If-None-Match (suffix removed) weakly equals the stored ETag, or If-Modified-Since equals stored Last-Modified"),
        T("Props.C09Get.client_304_only_if_match_wellformed", "partial", "same for well-formed tags (empty, quoted, W/-quoted) on both sides"),
        T("Props.C09Get.wellFormed_not_in_class", "full", "well-formed tags are outside class C09-a"),
        T("Props.C09Get.get_304_only_if_match_partial", "partial", "same through Freshness.get, lock held or not"),
        T("Props.C09Get.no_validator_no_304", "full", "no If-None-Match and no If-Modified-Since -> decide is never 304 (no side condition)"),
        T("Props.C09Get.no_validator_no_304_get", "full", "same through Freshness.get"),
    ]
    p["assumptions"] = list(p.get("assumptions", [])) + ["ETAG_SUFFIX is a non-empty token without a double quote",
                         "an empty opaque tag (W/ alone, or the bare suffix) is read as matching an entry without an ETag (lenient reading)"]
