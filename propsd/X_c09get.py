# The client-validator clause of C09 (inside cache.Get) was built with the freshness slice: extend C09's entry.
if "C09" in PROPS:
    p = PROPS["C09"]
    p["modules"] += ["RrProofs.Props.C09Get"]
    # kf.C09-a: the three witness cases of the repaired finding C09-a, now a regression stream (every case must pass)
    p["streams"] += [S("fresh", 40000, 300000), S("kf.C09-a", 3, 3, 1)]
    p["trivial_labels"] = list(p.get("trivial_labels", [])) + ["undecodable"]
    p["theorems"] += [
        T("Props.C09Get.client_304_only_if_match", "full", "Statement at full strength (after the fix: commit for C09-a; was client_304_only_if_match_partial with the hypothesis `outside class C09-a`): all entries/clocks/rule settings/validators/suffix tokens (non-empty, no quote): decide = 304 -> If-None-Match (suffix removed) weakly equals the stored ETag, or If-Modified-Since equals stored Last-Modified"),
        T("Props.C09Get.get_304_only_if_match", "full", "same through Freshness.get, lock held or not (was get_304_only_if_match_partial)"),
        T("Props.C09Get.holds_model", "full", "the oracle Spec.C09Get.holds accepts the model's decision for every input with an admissible suffix"),
        T("Props.C09Get.etagCheck_sound", "full", "etagCheck = ok true -> Spec.C09Get.etagMatches, for ALL tags and every admissible suffix (normalizeEtag = one W/ prefix removed = the specification's opaque-tag)"),
        T("Props.C09Get.no_validator_no_304", "full", "no If-None-Match and no If-Modified-Since -> decide is never 304 (no side condition)"),
        T("Props.C09Get.no_validator_no_304_get", "full", "same through Freshness.get"),
    ]
    p["rule"] = p.get("rule", "") + "; fresh: see C08 (public caching.Cache.Get on an entry prepared on disk, ETag forms incl. unquoted tags with leading W and / on either side); kf.C09-a: the three witness cases of the repaired finding C09-a (Wabc vs stored abc, abc vs /abc, W/abc-rr vs Wabc with ETAG_SUFFIX=-rr) as regression cases that must be served in full"
    p["assumptions"] = list(p.get("assumptions", [])) + ["ETAG_SUFFIX is a non-empty token without a double quote",
                         "an empty opaque tag (W/ alone, or the bare suffix) is read as matching an entry without an ETag (lenient reading)"]
