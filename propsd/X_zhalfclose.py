# C05 under a client fault: the client is done sending, shuts down the sending side of its connection and waits, while the
# destination has taken the request and does not answer (seeded change C05-m7).
p = PROPS["C05"]
p["streams"] += [S("halfclose", 300, 3000, 2)]
p["rule"] += (" | halfclose: plain and cache-enabled rule, GET/HEAD/POST/PUT/DELETE, optional prior fill (fresh: the request is a hit; stale: the revalidation is the pending request); "
              "the scripted destination takes the request and returns only when the request's context is cancelled, with that context's error (as http.Transport does); the client half-closes "
              "(TCP shutdown of the sending side) once the destination has the request and reads the answer; model: bare 500 after one contact (hit: the stored answer, no contact); "
              "oracle: a request whose destination never answered is answered with a well-formed error status, never a success status without the origin's content")
p["trusted_base"] += ["net/http's server cancels the request context when the client's sending side ends (background read) and still delivers the handler's response on the open half"]
