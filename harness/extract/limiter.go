package extract

// Facts of the size limiter (caching/disk.go) for C16/C17: the purge period, the per-pass
// purge bound, the KB divisor, and the normalised text of every arithmetic expression the
// model Limiter.lean mirrors (KB truncation, uint32 multiplication, re-basing, log trimming).

import (
	"go/ast"
	"go/token"
	"strconv"
)

// limConstProduct evaluates an expression made of int literals, `*` and parentheses.
func limConstProduct(e ast.Expr) (int, bool) {
	switch x := e.(type) {
	case *ast.BasicLit:
		return intLit(x)
	case *ast.ParenExpr:
		return limConstProduct(x.X)
	case *ast.BinaryExpr:
		if x.Op != token.MUL {
			return 0, false
		}
		a, ok1 := limConstProduct(x.X)
		b, ok2 := limConstProduct(x.Y)
		return a * b, ok1 && ok2
	}
	return 0, false
}

func limConstExpr(f *file, name string) ast.Expr {
	var out ast.Expr
	ast.Inspect(f.f, func(n ast.Node) bool {
		if vs, ok := n.(*ast.ValueSpec); ok {
			for i, id := range vs.Names {
				if id.Name == name && i < len(vs.Values) {
					out = vs.Values[i]
				}
			}
		}
		return true
	})
	return out
}

// limAssignsTo collects, in source order, the normalised text of every assignment under node whose
// first left-hand side renders as one of the given names.
func limAssignsTo(node ast.Node, names ...string) []string {
	out := []string{}
	if node == nil {
		return out
	}
	want := map[string]bool{}
	for _, n := range names {
		want[n] = true
	}
	ast.Inspect(node, func(n ast.Node) bool {
		if as, ok := n.(*ast.AssignStmt); ok && len(as.Lhs) >= 1 && want[exprText(as.Lhs[0])] {
			out = append(out, stmtShape(as))
		}
		return true
	})
	return out
}

func limiterFacts(e *emitter, diskGo *file) {
	interval, maxPurge, kbDiv := 0, 0, 0
	arith := []string{}
	flush := []string{}
	if diskGo != nil {
		// sleepTime := time.Second * 5
		if fd := diskGo.funcDecl("runSizeLimiter"); fd != nil {
			ast.Inspect(fd.Body, func(n ast.Node) bool {
				as, ok := n.(*ast.AssignStmt)
				if !ok || len(as.Lhs) != 1 || len(as.Rhs) != 1 || exprText(as.Lhs[0]) != "sleepTime" {
					return true
				}
				if be, ok := as.Rhs[0].(*ast.BinaryExpr); ok && be.Op == token.MUL && exprText(be.X) == "time.Second" {
					if v, ok := intLit(be.Y); ok {
						interval = v
					}
				}
				return true
			})
			arith = append(arith, limAssignsTo(fd.Body, "s.sizeBytes", "lastRun", "sizeKb")...)
			// the guards of the pass
			ast.Inspect(fd.Body, func(n ast.Node) bool {
				if is, ok := n.(*ast.IfStmt); ok {
					c := exprText(is.Cond)
					if c == "(time.Now().Sub(lastRun)<sleepTime)" || c == "(s.sizeBytes>s.maxSizeBytes)" {
						arith = append(arith, "if "+c)
					}
				}
				return true
			})
		}
		if ce := limConstExpr(diskGo, "maxPurgeBytes"); ce != nil {
			if v, ok := limConstProduct(ce); ok {
				maxPurge = v
			}
		}
		// readFiles: item{sizeKilobytes: uint32(size / 1024)}
		if fd := diskGo.funcDecl("readFiles"); fd != nil {
			ast.Inspect(fd.Body, func(n ast.Node) bool {
				if be, ok := n.(*ast.BinaryExpr); ok && be.Op == token.QUO && exprText(be.X) == "size" {
					if v, ok := intLit(be.Y); ok {
						kbDiv = v
					}
				}
				return true
			})
			arith = append(arith, limAssignsTo(fd.Body, "sizeBytes", "s.sizeBytes", "withoutAccessTime[itemName((prefixWithItemName(name)+name))]")...)
		}
		if fd := diskGo.funcDecl("GetWriter"); fd != nil {
			ast.Inspect(fd.Body, func(n ast.Node) bool {
				if kv, ok := n.(*ast.KeyValueExpr); ok && exprText(kv.Key) == "closeFinisher" {
					if fl, ok := kv.Value.(*ast.FuncLit); ok {
						for _, st := range fl.Body.List {
							arith = append(arith, "closeFinisher:"+stmtShape(st))
						}
					}
				}
				return true
			})
		}
		if fd := diskGo.funcDecl("setAccessTime"); fd != nil {
			arith = append(arith, limAssignsTo(fd.Body, "item", "storableItem")...)
		}
		if fd := diskGo.funcDecl("purgeableItemNames"); fd != nil {
			arith = append(arith, limAssignsTo(fd.Body, "purgeBytes", "bytesFound")...)
			ast.Inspect(fd.Body, func(n ast.Node) bool {
				if is, ok := n.(*ast.IfStmt); ok {
					arith = append(arith, "if "+exprText(is.Cond))
				}
				return true
			})
		}
		if fd := diskGo.funcDecl("readStorableAccessTimes"); fd != nil {
			arith = append(arith, limAssignsTo(fd.Body, "atime", "size", "parts", "l")...)
		}
		if fd := diskGo.funcDecl("flushStorableAccessTimes"); fd != nil {
			flush = append(flush, limAssignsTo(fd.Body, "maxLength", "bytesToTrim", "delimPos", "tp", "s")...)
			ast.Inspect(fd.Body, func(n ast.Node) bool {
				if is, ok := n.(*ast.IfStmt); ok {
					c := exprText(is.Cond)
					if c == "(length>maxLength)" || c == "(delimPos==-1)" || c == "(len(s.storableAccessedItems)==0)" {
						flush = append(flush, "if "+c)
					}
				}
				if ce, ok := n.(*ast.CallExpr); ok {
					t := exprText(ce)
					switch exprText(ce.Fun) {
					case "os.Remove", "os.Rename", "os.Create", "os.OpenFile", "f.Seek":
						flush = append(flush, t)
					}
				}
				return true
			})
		}
	}
	if interval == 0 {
		e.miss("runSizeLimiter sleepTime")
	}
	if maxPurge == 0 {
		e.miss("maxPurgeBytes")
	}
	if kbDiv == 0 {
		e.miss("readFiles size / 1024")
	}
	e.def("purgeIntervalSec", "Nat", strconv.Itoa(interval), "caching/disk.go runSizeLimiter: sleepTime := time.Second * N")
	e.def("maxPurgeBytes", "Nat", strconv.Itoa(maxPurge), "caching/disk.go const maxPurgeBytes")
	e.def("kbDivisor", "Nat", strconv.Itoa(kbDiv), "caching/disk.go readFiles: uint32(size / N)")
	e.def("limiterArith", "List Bytes", leanStrList(arith), "caching/disk.go runSizeLimiter, readFiles, GetWriter.closeFinisher, setAccessTime, purgeableItemNames, readStorableAccessTimes: normalised accounting statements")
	e.def("atimeFlushShape", "List Bytes", leanStrList(flush), "caching/disk.go flushStorableAccessTimes: normalised trim arithmetic and file effects, source order")
}
