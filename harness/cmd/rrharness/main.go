// rrharness: the Go side of the correspondence check. Built with -tags verif from /repo's
// current working tree on every run.
package main

import (
	"flag"
	"fmt"
	"os"
	"sort"
	"strconv"
	"strings"

	"rrverif/harness/extract"
	"rrverif/harness/hx"
	"rrverif/harness/streams"
)

func main() {
	if len(os.Args) < 2 {
		fmt.Fprintln(os.Stderr, "usage: rrharness fn|list ...")
		os.Exit(2)
	}
	switch os.Args[1] {
	case "list":
		names := []string{}
		for n := range streams.Registry {
			names = append(names, n)
		}
		sort.Strings(names)
		for _, n := range names {
			fmt.Println(n)
		}
	case "extract":
		fs := flag.NewFlagSet("extract", flag.ExitOnError)
		repo := fs.String("repo", "/repo", "repository root")
		out := fs.String("out", "", "Facts.lean to (re)write; only touched when its content changes")
		fs.Parse(os.Args[2:])
		text, missing := extract.Generate(*repo)
		for _, m := range missing {
			fmt.Fprintln(os.Stderr, "unrecognised:", m)
		}
		old, _ := os.ReadFile(*out)
		if string(old) != text {
			if err := os.WriteFile(*out, []byte(text), 0644); err != nil {
				fmt.Fprintln(os.Stderr, err)
				os.Exit(2)
			}
			fmt.Println("facts: rewritten")
		} else {
			fmt.Println("facts: unchanged")
		}
	case "fn":
		fs := flag.NewFlagSet("fn", flag.ExitOnError)
		stream := fs.String("stream", "", "stream name")
		seed := fs.Uint64("seed", 1, "seed")
		n := fs.Int("n", 100, "number of cases")
		first := fs.Int("first", 0, "first case id")
		out := fs.String("out", "", "case file to write")
		inFile := fs.String("in", "", "pre-generated inputs (lines `stream id tokens…`) for replay streams")
		fs.Parse(os.Args[2:])
		if *inFile != "" {
			rs, ok := streams.Replays[*stream]
			if !ok {
				fmt.Fprintf(os.Stderr, "unknown replay stream %q\n", *stream)
				os.Exit(2)
			}
			data, err := os.ReadFile(*inFile)
			if err != nil {
				fmt.Fprintln(os.Stderr, err)
				os.Exit(2)
			}
			cw, err := hx.NewCaseWriter(*out)
			if err != nil {
				fmt.Fprintln(os.Stderr, err)
				os.Exit(2)
			}
			stalls := 0
			for _, line := range strings.Split(string(data), "\n") {
				f := strings.Fields(line)
				if len(f) < 2 {
					continue
				}
				id, _ := strconv.Atoi(f[1])
				if stalls >= 4 {
					// repeated stalls: the implementation wedges; a few witnesses are enough, the rest of
					// the shard is not replayed (each stall costs the controller's full time-out)
					cw.Put(hx.Case{Stream: *stream, ID: id, In: f[2:], Impl: []string{"skipped-after-repeated-stalls"}})
					continue
				}
				c := rs(f[2:], id)
				for _, t := range c.Impl {
					if strings.Contains(t, "stall") || t == "stuck" {
						stalls++
						break
					}
				}
				cw.Put(c)
			}
			streams.CloseWorld()
			if err := cw.Close(); err != nil {
				fmt.Fprintln(os.Stderr, err)
				os.Exit(2)
			}
			return
		}
		s, ok := streams.Registry[*stream]
		if !ok {
			fmt.Fprintf(os.Stderr, "unknown stream %q\n", *stream)
			os.Exit(2)
		}
		cw, err := hx.NewCaseWriter(*out)
		if err != nil {
			fmt.Fprintln(os.Stderr, err)
			os.Exit(2)
		}
		root := hx.NewGen(*seed)
		for i := *first; i < *first+*n; i++ {
			// every case has its own generator: case i of seed s replays alone
			cw.Put(s(root.Sub(uint64(i)), i))
		}
		streams.CloseWorld()
		if err := cw.Close(); err != nil {
			fmt.Fprintln(os.Stderr, err)
			os.Exit(2)
		}
	default:
		fmt.Fprintf(os.Stderr, "unknown command %q\n", os.Args[1])
		os.Exit(2)
	}
}
