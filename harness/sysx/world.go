// Package sysx: the sequential system-level (L2) harness: the real server.ConfigureServeMux
// handler behind a real listener, the real disk cache on a temp directory, a scripted origin
// in place of the HTTP transport (proxy.NewRouterWithPerformer), a raw-TCP client.
package sysx

import (
	"bufio"
	"bytes"
	"errors"
	"fmt"
	"io"
	"io/ioutil"
	"net"
	"net/http"
	"net/http/httptest"
	"os"
	"runtime"
	"sort"
	"strconv"
	"strings"
	"sync"
	"sync/atomic"
	"time"

	apexlog "github.com/apex/log"

	"github.com/richiefi/rrrouter/caching"
	"github.com/richiefi/rrrouter/config"
	"github.com/richiefi/rrrouter/proxy"
	"github.com/richiefi/rrrouter/server"
)

type discard struct{}

func (discard) HandleLog(*apexlog.Entry) error { return nil }

var Logger = &apexlog.Logger{Handler: discard{}, Level: apexlog.FatalLevel}

// OriginResp is one scripted origin answer.
type OriginResp struct {
	Status        int
	Header        [][2]string // in order, repeated names allowed
	Body          []byte
	Chunked       bool  // no Content-Length, ContentLength = -1
	ConnectErrors int   // this many attempts fail with a connection error first
	DrainOnFail   bool  // a failing attempt reads the request body to its end first (the destination took the request, then dropped the connection)
	ReadErrAt     int   // >= 0: body read fails after this many bytes
	ReadSizes     []int // body handed out in reads of these sizes (then the rest)
	TrackFetch    bool  // count this answer in the performer's fetch log
	CountOnly     bool  // …but not as in flight (uncacheable answers are outside the single-flight claim)
	StallBody     bool  // the body never ends: Read blocks until the body is closed
	Pend          bool  // the destination takes the request and never answers: Do returns when the request's context is done, with its error (as http.Transport does)
	CancelAt      int   // > 0: after this many bytes Read blocks until the request's context is done (the client went away) and returns its error, as http.Transport does
}

// cancelBody: the first `at` bytes arrive, the rest never does; when the context of the request
// ends (the server cancels it when the client goes away) Read returns the context's error.
type cancelBody struct {
	data    []byte
	at      int
	off     int
	blocked chan struct{} // receives one token when the body has handed out its first part and waits for the client to go away
	ctx  interface {
		Done() <-chan struct{}
		Err() error
	}
}

func (c *cancelBody) Read(b []byte) (int, error) {
	if c.off < c.at {
		n := copy(b, c.data[c.off:c.at])
		c.off += n
		return n, nil
	}
	select {
	case c.blocked <- struct{}{}:
	default:
	}
	select {
	case <-c.ctx.Done():
		return 0, c.ctx.Err()
	case <-time.After(15 * time.Second):
		return 0, io.ErrUnexpectedEOF
	}
}
func (c *cancelBody) Close() error { return nil }

// stallBody: headers arrive, the body never does.
type stallBody struct {
	ch   chan struct{}
	once sync.Once
}

func (s *stallBody) Read(b []byte) (int, error) {
	select {
	case <-s.ch:
		return 0, io.ErrUnexpectedEOF
	case <-time.After(30 * time.Second):
		return 0, io.ErrUnexpectedEOF
	}
}
func (s *stallBody) Close() error { s.once.Do(func() { close(s.ch) }); return nil }

// chunkReader hands the body out in the scripted read sizes (each Read = one Write of writeBody).
type chunkReader struct {
	data  []byte
	sizes []int
}

func (c *chunkReader) Read(b []byte) (int, error) {
	if len(c.data) == 0 {
		return 0, io.EOF
	}
	n := len(c.data)
	if len(c.sizes) > 0 {
		if c.sizes[0] < n {
			n = c.sizes[0]
		}
		c.sizes = c.sizes[1:]
	}
	if n > len(b) {
		n = len(b)
	}
	copy(b, c.data[:n])
	c.data = c.data[n:]
	return n, nil
}
func (c *chunkReader) Close() error { return nil }

// Contact is one request that reached the performer.
type Contact struct {
	URL     string
	Scheme  string
	URLHost string
	Path    string // request-target as it would be sent
	Host    string // req.Host ("" = URL host is used)
	Method  string
	Header  http.Header
	Body    []byte
	Failed  bool // answered with a connection error
}

// Performer stands in for http.Transport.
type Performer struct {
	mu       sync.Mutex
	Script   func(req *http.Request) *OriginResp
	Contacts []Contact
	failed   map[string]int
	Limit    int // watchdog: contacts beyond this are refused
	// fetch log: answered contacts whose body has not been read to the end yet
	inFlight    int
	MaxInFlight int
	Fetches     int
	// Blocked receives a token when a CancelAt body has handed out its first part and waits
	Blocked chan struct{}
	// Pending receives a token when a Pend answer has taken the request and waits for the client to go away
	Pending chan struct{}
}

type trackedBody struct {
	io.ReadCloser
	p    *Performer
	once sync.Once
}

func (t *trackedBody) finish() {
	t.once.Do(func() {
		t.p.mu.Lock()
		t.p.inFlight--
		t.p.mu.Unlock()
	})
}
func (t *trackedBody) Read(b []byte) (int, error) {
	n, err := t.ReadCloser.Read(b)
	if err != nil {
		t.finish()
	}
	return n, err
}
func (t *trackedBody) Close() error { t.finish(); return t.ReadCloser.Close() }

func NewPerformer() *Performer {
	return &Performer{failed: map[string]int{}, Limit: 300, Blocked: make(chan struct{}, 4), Pending: make(chan struct{}, 4)}
}

func (p *Performer) Reset(script func(req *http.Request) *OriginResp) {
	p.mu.Lock()
	defer p.mu.Unlock()
	p.Script = script
	p.Contacts = nil
	p.failed = map[string]int{}
	p.inFlight, p.MaxInFlight, p.Fetches = 0, 0, 0
}

func (p *Performer) Take() []Contact {
	p.mu.Lock()
	defer p.mu.Unlock()
	c := p.Contacts
	p.Contacts = nil
	return c
}

type errReader struct {
	data []byte
	at   int
	pos  int
}

func (e *errReader) Read(b []byte) (int, error) {
	if e.pos >= e.at {
		return 0, errors.New("verif: origin connection reset")
	}
	n := copy(b, e.data[e.pos:e.at])
	e.pos += n
	return n, nil
}
func (e *errReader) Close() error { return nil }

func (p *Performer) CloseIdleConnections() {}

func (p *Performer) Do(req *http.Request) (*http.Response, error) {
	p.mu.Lock()
	defer p.mu.Unlock()
	if len(p.Contacts) >= p.Limit {
		return nil, errors.New("verif: watchdog, too many origin contacts")
	}
	c := Contact{URL: req.URL.String(), Scheme: req.URL.Scheme, URLHost: req.URL.Host, Path: req.URL.RequestURI(), Host: req.Host, Method: req.Method, Header: req.Header.Clone()}
	r := p.Script(req)
	key := req.URL.Host
	if r == nil || p.failed[key] < r.ConnectErrors {
		p.failed[key]++
		c.Failed = true
		p.Contacts = append(p.Contacts, c)
		if r != nil && r.DrainOnFail && req.Body != nil {
			ioutil.ReadAll(req.Body)
		}
		return nil, &net.OpError{Op: "dial", Net: "tcp", Err: errors.New("verif: connection refused")}
	}
	if req.Body != nil {
		b, _ := ioutil.ReadAll(req.Body)
		c.Body = b
	}
	p.Contacts = append(p.Contacts, c)
	if r.Pend {
		p.mu.Unlock()
		select {
		case p.Pending <- struct{}{}:
		default:
		}
		<-req.Context().Done()
		p.mu.Lock()
		return nil, req.Context().Err()
	}
	h := http.Header{}
	for _, kv := range r.Header {
		h.Add(kv[0], kv[1])
	}
	resp := &http.Response{
		Status: strconv.Itoa(r.Status) + " " + http.StatusText(r.Status), StatusCode: r.Status,
		Proto: "HTTP/1.1", ProtoMajor: 1, ProtoMinor: 1, Header: h, Request: req,
	}
	if r.Status == 304 {
		// as http.Transport delivers a 304: no body, length 0; a Content-Length line only if the origin wrote one
		resp.ContentLength = 0
	} else if r.Chunked {
		resp.ContentLength = -1
		resp.TransferEncoding = []string{"chunked"}
		h.Del("Content-Length")
	} else {
		resp.ContentLength = int64(len(r.Body))
		h.Set("Content-Length", strconv.Itoa(len(r.Body)))
	}
	if req.Method == "HEAD" {
		resp.Body = http.NoBody
	} else if r.CancelAt > 0 && r.CancelAt < len(r.Body) {
		resp.Body = &cancelBody{data: r.Body, at: r.CancelAt, ctx: req.Context(), blocked: p.Blocked}
	} else if r.StallBody {
		resp.Body = &stallBody{ch: make(chan struct{})}
	} else if r.ReadErrAt >= 0 && r.ReadErrAt < len(r.Body) {
		resp.Body = &errReader{data: r.Body, at: r.ReadErrAt}
	} else if len(r.ReadSizes) > 0 {
		resp.Body = &chunkReader{data: append([]byte{}, r.Body...), sizes: append([]int{}, r.ReadSizes...)}
	} else {
		resp.Body = ioutil.NopCloser(bytes.NewReader(r.Body))
	}
	if r.TrackFetch && r.CountOnly {
		p.Fetches++
	} else if r.TrackFetch {
		p.Fetches++
		p.inFlight++
		if p.inFlight > p.MaxInFlight {
			p.MaxInFlight = p.inFlight
		}
		resp.Body = &trackedBody{ReadCloser: resp.Body, p: p}
	}
	return resp, nil
}

// World: one cache + listener per worker process, re-configured per case.
type World struct {
	Dir     string
	Cache   caching.Cache
	now     int64
	Perf    *Performer
	Ctl     *Controller // when set, request goroutines carrying X-Verif-Actor are registered with it
	srv     *httptest.Server
	handler atomic.Value
	Router  proxy.Router
	active  int64 // request handlers that have not returned yet
}

func (w *World) Now() time.Time   { return time.Unix(atomic.LoadInt64(&w.now), 0) }
func (w *World) SetNow(t int64)   { atomic.StoreInt64(&w.now, t) }
func (w *World) Advance(dt int64) { atomic.AddInt64(&w.now, dt) }
func (w *World) NowUnix() int64   { return atomic.LoadInt64(&w.now) }

type handlerBox struct{ h http.Handler }

// NewWorld creates the cache (ids c1 and c2 on sub-directories of a fresh temp dir) and the listener.
func NewWorld(withCache bool) (*World, error) {
	dir := ""
	if withCache {
		d, err := ioutil.TempDir("", "rrverif-cache-")
		if err != nil {
			return nil, err
		}
		dir = d
	}
	return NewWorldAt(dir, time.Now().Unix())
}

// NewWorldAt creates a world whose caches live under dir ("" = no cache), clock at now.
func NewWorldAt(dir string, now int64) (*World, error) {
	os.Setenv("ATIME_DISABLE", "true")
	w := &World{Perf: NewPerformer()}
	w.SetNow(now)
	if dir != "" {
		w.Dir = dir
		w.Cache = caching.NewCacheWithOptions([]caching.StorageConfiguration{
			{Id: "c1", Path: dir + "/c1", Size: 1 << 40},
			{Id: "c2", Path: dir + "/c2", Size: 1 << 40},
		}, Logger, w.Now)
	} else {
		w.Cache = caching.NewCacheWithOptions(nil, Logger, w.Now)
	}
	w.handler.Store(handlerBox{http.NotFoundHandler()})
	w.srv = httptest.NewUnstartedServer(http.HandlerFunc(func(rw http.ResponseWriter, r *http.Request) {
		atomic.AddInt64(&w.active, 1)
		defer atomic.AddInt64(&w.active, -1)
		if c := w.Ctl; c != nil {
			if name := r.Header.Get("X-Verif-Actor"); name != "" {
				c.Register(name)
				defer c.Finished()
			}
		}
		w.handler.Load().(handlerBox).h.ServeHTTP(rw, r)
	}))
	w.srv.Config.ErrorLog = nil
	w.srv.Start()
	return w, nil
}

func (w *World) Close() {
	w.srv.Close()
	if w.Dir != "" {
		retireDir(w.Dir)
	}
}

// Every storage starts a size-limiter goroutine that scans its directory once and PANICS when the
// directory has vanished under it. On a loaded machine that scan may not have run yet when a short
// case is over, so a world's directory is not removed at once: it is retired, and removed only
// after retireLag younger worlds have come and gone (CleanupDirs removes the rest at process exit).
const retireLag = 48

var (
	retiredMu sync.Mutex
	retired   []string
)

func retireDir(d string) {
	retiredMu.Lock()
	retired = append(retired, d)
	var old string
	if len(retired) > retireLag {
		old, retired = retired[0], retired[1:]
	}
	retiredMu.Unlock()
	if old != "" {
		os.RemoveAll(old)
	}
}

// WaitLimitersIdle returns once no size-limiter goroutine is inside (or still before) its start-up
// scan, as seen in the goroutine dump; bounded.
func WaitLimitersIdle(timeout time.Duration) {
	buf := make([]byte, 8<<20)
	deadline := time.Now().Add(timeout)
	for time.Now().Before(deadline) {
		n := runtime.Stack(buf, true)
		busy := false
		for _, g := range strings.Split(string(buf[:n]), "\n\n") {
			if !strings.Contains(g, "runSizeLimiter") {
				continue
			}
			head := strings.SplitN(g, "\n", 2)[0]
			if strings.Contains(g, "readFiles") || !(strings.Contains(head, "chan receive") || strings.Contains(head, "select")) {
				busy = true
				break
			}
		}
		if !busy {
			return
		}
		time.Sleep(time.Millisecond)
	}
}

// CleanupDirs removes every retired directory; called when the harness process ends.
func CleanupDirs() {
	WaitLimitersIdle(5 * time.Second)
	retiredMu.Lock()
	ds := retired
	retired = nil
	retiredMu.Unlock()
	for _, d := range ds {
		os.RemoveAll(d)
	}
}

// Configure installs a rule set and configuration (a new router and mux over the shared cache).
func (w *World) Configure(rules *proxy.Rules, conf *config.Config) {
	w.Router = proxy.NewRouterWithPerformer(rules, Logger, conf, w.Perf)
	mux := http.NewServeMux()
	server.ConfigureServeMux(mux, conf, w.Router, Logger, w.Cache)
	w.handler.Store(handlerBox{mux})
}

// ClientView is the wire-level view of one response.
type ClientView struct {
	Status  int
	Header  [][2]string // in wire order
	Body    []byte
	Framing string // complete | cutshort | noresponse | malformed
}

// Do sends raw request bytes over a fresh TCP connection (Connection: close is the caller's
// business) and reads the whole response.
func (w *World) Do(raw []byte, isHead bool) ClientView {
	// the listener is in this very process: a connect that fails says something about the load on
	// the machine, nothing about rrrouter - it is tried again rather than reported as "no response"
	var conn net.Conn
	var err error
	for try := 0; try < 6; try++ {
		conn, err = net.DialTimeout("tcp", w.srv.Listener.Addr().String(), 5*time.Second)
		if err == nil {
			break
		}
		time.Sleep(50 * time.Millisecond)
	}
	if err != nil {
		return ClientView{Framing: "noresponse"}
	}
	defer conn.Close()
	conn.SetDeadline(time.Now().Add(20 * time.Second))
	// A server may answer - and close - before it has read a large request body (ServeMux's own redirect, a 404 or 407 that
	// needs no body): the rest of the write then fails. What was answered is still there to be read; a failed write is not
	// "no response".
	conn.Write(raw)
	all, _ := ioutil.ReadAll(conn)
	return ParseResponse(all, isHead)
}

// DoHalfClose sends the request, waits until the destination has taken it (the performer's Pend answer), then shuts down
// the SENDING side of the connection only (a client that is done writing and waits for the answer) and reads whatever the
// server still sends. net/http's background read sees the end of the stream and cancels the request's context.
func (w *World) DoHalfClose(raw []byte, isHead bool) ClientView {
	for len(w.Perf.Pending) > 0 {
		<-w.Perf.Pending
	}
	conn, err := net.DialTimeout("tcp", w.srv.Listener.Addr().String(), 5*time.Second)
	if err != nil {
		return ClientView{Framing: "noresponse"}
	}
	defer conn.Close()
	conn.SetDeadline(time.Now().Add(20 * time.Second))
	if _, err := conn.Write(raw); err != nil {
		return ClientView{Framing: "noresponse"}
	}
	select {
	case <-w.Perf.Pending:
	case <-time.After(3 * time.Second):
		// the destination was not asked (a hit, an error before routing): the half-close changes nothing
	}
	if tc, ok := conn.(*net.TCPConn); ok {
		tc.CloseWrite()
	}
	all, _ := ioutil.ReadAll(conn)
	return ParseResponse(all, isHead)
}

// DoAbort sends the request, reads until the header block and at least minBody body bytes have
// arrived (or nothing more comes for 5 s), then closes the connection: a client going away mid-body.
func (w *World) DoAbort(raw []byte, minBody int) ClientView {
	for len(w.Perf.Blocked) > 0 {
		<-w.Perf.Blocked
	}
	conn, err := net.DialTimeout("tcp", w.srv.Listener.Addr().String(), 5*time.Second)
	if err != nil {
		return ClientView{Framing: "noresponse"}
	}
	defer conn.Close()
	if _, err := conn.Write(raw); err != nil {
		return ClientView{Framing: "noresponse"}
	}
	// the client goes away when the origin's answer has stopped half way (on a cache-enabled rule the
	// body reaches the client only after the fill, so there may be nothing to read yet), or when it
	// has read the header block and minBody bytes, or after 5 s
	got := make(chan struct{}, 1)
	go func() {
		var all []byte
		buf := make([]byte, 4096)
		conn.SetReadDeadline(time.Now().Add(5 * time.Second))
		for {
			if i := bytes.Index(all, []byte("\r\n\r\n")); i >= 0 && minBody > 0 && len(all)-(i+4) >= minBody {
				break
			}
			n, err := conn.Read(buf)
			all = append(all, buf[:n]...)
			if err != nil {
				break
			}
		}
		got <- struct{}{}
	}()
	select {
	case <-w.Perf.Blocked:
	case <-got:
	case <-time.After(5 * time.Second):
	}
	return ClientView{Framing: "aborted"}
}

func ParseResponse(all []byte, isHead bool) ClientView {
	if len(all) == 0 {
		return ClientView{Framing: "noresponse"}
	}
	br := bufio.NewReader(bytes.NewReader(all))
	line, err := br.ReadString('\n')
	if err != nil {
		return ClientView{Framing: "malformed"}
	}
	parts := strings.SplitN(strings.TrimRight(line, "\r\n"), " ", 3)
	if len(parts) < 2 {
		return ClientView{Framing: "malformed"}
	}
	st, err := strconv.Atoi(parts[1])
	if err != nil {
		return ClientView{Framing: "malformed"}
	}
	v := ClientView{Status: st, Framing: "complete"}
	cl := int64(-1)
	chunked := false
	for {
		l, err := br.ReadString('\n')
		if err != nil {
			v.Framing = "malformed"
			return v
		}
		l = strings.TrimRight(l, "\r\n")
		if l == "" {
			break
		}
		i := strings.Index(l, ":")
		if i < 0 {
			v.Framing = "malformed"
			return v
		}
		k, val := l[:i], strings.TrimSpace(l[i+1:])
		v.Header = append(v.Header, [2]string{k, val})
		switch strings.ToLower(k) {
		case "content-length":
			if n, err := strconv.ParseInt(val, 10, 64); err == nil {
				cl = n
			}
		case "transfer-encoding":
			if strings.Contains(strings.ToLower(val), "chunked") {
				chunked = true
			}
		}
	}
	rest, _ := ioutil.ReadAll(br)
	noBody := isHead || st == 304 || st == 204 || (st >= 100 && st < 200)
	switch {
	case noBody:
		v.Body = nil
	case chunked:
		body, ok := dechunk(rest)
		v.Body = body
		if !ok {
			v.Framing = "cutshort"
		}
	case cl >= 0:
		v.Body = rest
		if int64(len(rest)) < cl {
			v.Framing = "cutshort"
		} else if int64(len(rest)) > cl {
			v.Body = rest[:cl]
		}
	default:
		v.Body = rest
	}
	return v
}

func dechunk(b []byte) ([]byte, bool) {
	br := bufio.NewReader(bytes.NewReader(b))
	var out []byte
	for {
		l, err := br.ReadString('\n')
		if err != nil {
			return out, false
		}
		l = strings.TrimSpace(l)
		if i := strings.Index(l, ";"); i >= 0 {
			l = l[:i]
		}
		n, err := strconv.ParseInt(l, 16, 64)
		if err != nil {
			return out, false
		}
		if n == 0 {
			return out, true
		}
		chunk := make([]byte, n)
		if _, err := io.ReadFull(br, chunk); err != nil {
			return append(out, chunk...), false
		}
		out = append(out, chunk...)
		br.ReadString('\n')
	}
}

// SortedHeaderTokens renders a header list canonically: names canonicalised, sorted by name,
// value order kept; names in drop are omitted (case-insensitive).
func SortedHeaderPairs(h [][2]string, drop map[string]bool) [][2]string {
	out := make([][2]string, 0, len(h))
	for _, kv := range h {
		k := http.CanonicalHeaderKey(kv[0])
		if drop[strings.ToLower(k)] {
			continue
		}
		out = append(out, [2]string{k, kv[1]})
	}
	sort.SliceStable(out, func(i, j int) bool { return out[i][0] < out[j][0] })
	return out
}

func HeaderPairs(h http.Header) [][2]string {
	out := [][2]string{}
	for k, vs := range h {
		for _, v := range vs {
			out = append(out, [2]string{k, v})
		}
	}
	sort.SliceStable(out, func(i, j int) bool { return out[i][0] < out[j][0] })
	return out
}

func (c ClientView) String() string {
	return fmt.Sprintf("%d %s %d bytes %v", c.Status, c.Framing, len(c.Body), c.Header)
}

// Quiesce returns when the exchange that just ended has no after-effects left: every request
// handler has returned, and the cache's notifier goroutine has worked off every release sent to
// it. The notifier is one goroutine reading an unbuffered channel, so when the SECOND of two probe
// releases (for a reserved key nobody waits on) has been taken, the first one and everything
// before it have been processed completely. Sequential histories are then really sequential,
// whatever the load on the machine.
func (w *World) Quiesce() {
	deadline := time.Now().Add(5 * time.Second)
	for atomic.LoadInt64(&w.active) != 0 && time.Now().Before(deadline) {
		time.Sleep(100 * time.Microsecond)
	}
	if w.Cache == nil {
		return
	}
	done := make(chan struct{})
	go func() {
		defer close(done)
		defer func() { recover() }()
		w.Cache.Finish(quiesceKey, Logger)
		w.Cache.Finish(quiesceKey, Logger)
	}()
	select {
	case <-done:
	case <-time.After(5 * time.Second):
	}
}

var quiesceKey = func() caching.Key {
	req, _ := http.NewRequest("GET", "http://quiesce.invalid/rrverif-quiesce-probe", nil)
	return caching.KeysFromRequest(req)[0]
}()
