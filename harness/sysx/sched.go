package sysx

import (
	"bytes"
	"fmt"
	"runtime"
	"strconv"
	"sync"
	"time"

	"github.com/richiefi/rrrouter/verifhook"
)

// Controller walks the real goroutines of the server along a schedule: every registered actor
// (a request goroutine, the cache's notifier goroutine) parks at the verifhook points of the
// parking set until the controller lets it run to its next parking point.
type Controller struct {
	mu       sync.Mutex
	byGID    map[int64]*actor
	byName   map[string]*actor
	notifier *actor
	active   bool
	Timeout  time.Duration
}

type actor struct {
	name     string
	arrive   chan string   // parked at this point (or "fin")
	release  chan struct{} // let it continue
	parkedAt string
	lastPark string
	done     bool
}

func NewController() *Controller {
	c := &Controller{byGID: map[int64]*actor{}, byName: map[string]*actor{}, Timeout: 8 * time.Second}
	c.notifier = &actor{name: "notifier", arrive: make(chan string, 4), release: make(chan struct{}, 1)}
	return c
}

func gid() int64 {
	b := make([]byte, 64)
	b = b[:runtime.Stack(b, false)]
	b = bytes.TrimPrefix(b, []byte("goroutine "))
	i := bytes.IndexByte(b, ' ')
	n, _ := strconv.ParseInt(string(b[:i]), 10, 64)
	return n
}

var requestParking = map[string]bool{
	"srv.after-flavors": true, "grw.before-lock": true, "srv.before-route": true, "wh.before-create": true,
	"write.before": true, "close.enter": true, "notify.before-send": true, "finish.before-send": true,
	"srv.before-sendbody": true, "delete.before-remove": true, "srv.wait": true,
}

// Install makes the controller the verifhook handler.
func (c *Controller) Install() {
	c.mu.Lock()
	c.active = true
	c.mu.Unlock()
	verifhook.SetHandler(c.point)
}

func (c *Controller) Uninstall() {
	c.mu.Lock()
	c.active = false
	c.mu.Unlock()
	verifhook.SetHandler(nil)
}

// Register binds the calling goroutine to a request actor; call from the HTTP handler.
func (c *Controller) Register(name string) {
	a := &actor{name: name, arrive: make(chan string, 4), release: make(chan struct{}, 1)}
	c.mu.Lock()
	c.byGID[gid()] = a
	c.byName[name] = a
	c.mu.Unlock()
}

// Finished reports that the handler of the calling goroutine returned.
func (c *Controller) Finished() {
	c.mu.Lock()
	a := c.byGID[gid()]
	delete(c.byGID, gid())
	c.mu.Unlock()
	if a != nil {
		a.arrive <- "fin"
	}
}

func (c *Controller) point(name, key string) {
	c.mu.Lock()
	if !c.active {
		c.mu.Unlock()
		return
	}
	a := c.byGID[gid()]
	c.mu.Unlock()
	if a == nil {
		// the notifier goroutine parks only after it has received a message
		if name == "notifier.got" {
			c.notifier.arrive <- name
			<-c.notifier.release
		} else if name == "notifier.done" {
			c.notifier.arrive <- name
		}
		return
	}
	if !requestParking[name] {
		return
	}
	if name == "srv.before-sendbody" && key != "" {
		return // Found path: not a writer's step
	}
	if name == "srv.after-flavors" && a.lastPark != "" {
		return // re-entry of cachingFunc
	}
	if name == "srv.before-sendbody" && a.lastPark == "close.enter" {
		return // Close failed without publishing (no notify): the re-open attempt belongs to the close step
	}
	if name == "delete.before-remove" && a.lastPark == "srv.before-sendbody" {
		return // the written file could not be re-opened: errCleanup belongs to the sendBody step
	}
	if name == "delete.before-remove" && a.lastPark == "close.enter" {
		return // Delete from inside a failing Close: part of the close step
	}
	a.lastPark = name
	a.arrive <- name
	<-a.release
}

// await waits for the actor's next parking point (or "fin"); "stall" on time-out.
func (c *Controller) await(a *actor) string {
	select {
	case p := <-a.arrive:
		a.parkedAt = p
		if p == "fin" {
			a.done = true
		}
		return p
	case <-time.After(c.Timeout):
		return "stall"
	}
}

// AwaitStart waits until the named request actor has parked at its first point.
func (c *Controller) AwaitStart(name string) string {
	deadline := time.Now().Add(c.Timeout)
	for {
		c.mu.Lock()
		a := c.byName[name]
		c.mu.Unlock()
		if a != nil {
			return c.await(a)
		}
		if time.Now().After(deadline) {
			return "stall"
		}
		time.Sleep(time.Millisecond)
	}
}

// StepThread lets a request actor run to its next parking point. If it was parked at a
// notification point its step is the rendezvous with the notifier: the notifier must then
// arrive at notifier.got as well.
func (c *Controller) StepThread(name string) string {
	c.mu.Lock()
	a := c.byName[name]
	c.mu.Unlock()
	if a == nil || a.done {
		return "gone"
	}
	wasNotify := a.parkedAt == "notify.before-send" || a.parkedAt == "finish.before-send"
	select {
	case a.release <- struct{}{}:
	default:
		return "stuck" // an earlier step of this actor stalled: it never consumed its release
	}
	if wasNotify {
		if p := c.await(c.notifier); p != "notifier.got" {
			return "stall:notifier:" + p
		}
	}
	return c.await(a)
}

// StepNotifier lets the notifier process the message it holds (fan out, delete the lock entry).
func (c *Controller) StepNotifier() string {
	if c.notifier.parkedAt != "notifier.got" {
		return "notifier-not-holding"
	}
	select {
	case c.notifier.release <- struct{}{}:
	default:
		return "stuck"
	}
	p := c.await(c.notifier)
	if p == "notifier.done" {
		c.notifier.parkedAt = ""
	}
	return p
}

// Drain releases everything that is still parked until all given actors have finished.
func (c *Controller) Drain(names []string) {
	c.mu.Lock()
	c.active = false
	c.mu.Unlock()
	verifhook.SetHandler(nil)
	release := func(a *actor) {
		select {
		case a.release <- struct{}{}:
		default:
		}
	}
	for i := 0; i < 50; i++ {
		all := true
		c.mu.Lock()
		as := []*actor{}
		for _, n := range names {
			if a := c.byName[n]; a != nil && !a.done {
				as = append(as, a)
				all = false
			}
		}
		c.mu.Unlock()
		release(c.notifier)
		for _, a := range as {
			release(a)
			select {
			case p := <-a.arrive:
				if p == "fin" {
					a.done = true
				}
			case <-time.After(20 * time.Millisecond):
			}
		}
		select {
		case <-c.notifier.arrive:
		default:
		}
		if all {
			return
		}
	}
}

func (c *Controller) String() string { return fmt.Sprintf("controller(%d actors)", len(c.byName)) }
