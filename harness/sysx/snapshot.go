package sysx

import (
	"io/ioutil"
	"os"
	"path/filepath"

	"github.com/pkg/xattr"
)

// Snapshot copies a cache directory tree with its user.rrrouter xattrs: exactly what a process
// crash at this instant leaves behind (completed syscalls persist; the code never relies on fsync).
func Snapshot(src string) (string, error) {
	dst, err := ioutil.TempDir("", "rrverif-snap-")
	if err != nil {
		return "", err
	}
	err = filepath.Walk(src, func(p string, fi os.FileInfo, err error) error {
		if err != nil {
			return nil // a file renamed/removed while walking: the crash image simply lacks it
		}
		rel, _ := filepath.Rel(src, p)
		t := filepath.Join(dst, rel)
		if fi.IsDir() {
			return os.MkdirAll(t, 0755)
		}
		data, rerr := ioutil.ReadFile(p)
		if rerr != nil {
			return nil
		}
		if werr := ioutil.WriteFile(t, data, 0644); werr != nil {
			return werr
		}
		if b, xerr := xattr.Get(p, "user.rrrouter"); xerr == nil {
			xattr.Set(t, "user.rrrouter", b)
		}
		return nil
	})
	return dst, err
}

// XattrOf returns the metadata attribute of a cache file, if any.
func XattrOf(path string) ([]byte, bool) {
	b, err := xattr.Get(path, "user.rrrouter")
	return b, err == nil
}
