module rrverif/harness

go 1.21

require (
	github.com/apex/log v1.9.0
	github.com/richiefi/rrrouter v0.0.0
)

require (
	github.com/itchio/go-brotli v0.0.0-20190702114328-3f28d645a45c // indirect
	github.com/pkg/errors v0.9.1 // indirect
	github.com/satori/go.uuid v1.2.0 // indirect
	gopkg.in/yaml.v2 v2.3.0 // indirect
)

replace github.com/richiefi/rrrouter => /repo
