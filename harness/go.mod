module rrverif/harness

go 1.21

require (
	github.com/apex/log v1.9.0
	github.com/c2h5oh/datasize v0.0.0-20200825124411-48ed595a09d2
	github.com/itchio/go-brotli v0.0.0-20190702114328-3f28d645a45c
	github.com/pkg/xattr v0.4.3
	github.com/richiefi/rrrouter v0.0.0
	gopkg.in/yaml.v2 v2.3.0
)

require (
	github.com/getsentry/sentry-go v0.11.0 // indirect
	github.com/pkg/errors v0.9.1 // indirect
	github.com/satori/go.uuid v1.2.0 // indirect
	golang.org/x/sys v0.0.0-20201101102859-da207088b7d1 // indirect
)

replace github.com/richiefi/rrrouter => /repo
