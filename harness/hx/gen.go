// Package hx: shared pieces of the verification harness: PRNG, token encoding, case writer.
package hx

import (
	"bufio"
	"crypto/sha1"
	"encoding/hex"
	"fmt"
	"os"
	"strconv"
	"strings"
)

// Gen is a splitmix64 PRNG; every random choice of a run derives from one seed.
type Gen struct{ s uint64 }

func NewGen(seed uint64) *Gen { return &Gen{s: seed*0x9E3779B97F4A7C15 + 0x1234567} }

func (g *Gen) U64() uint64 {
	g.s += 0x9E3779B97F4A7C15
	z := g.s
	z = (z ^ (z >> 30)) * 0xBF58476D1CE4E5B9
	z = (z ^ (z >> 27)) * 0x94D049BB133111EB
	return z ^ (z >> 31)
}
func (g *Gen) Intn(n int) int {
	if n <= 0 {
		return 0
	}
	return int(g.U64() % uint64(n))
}
func (g *Gen) Bool() bool          { return g.U64()&1 == 1 }
func (g *Gen) Chance(pct int) bool { return g.Intn(100) < pct }
func (g *Gen) Pick(xs []string) string {
	return xs[g.Intn(len(xs))]
}

// Str draws a string of length 0..maxLen over alphabet.
func (g *Gen) Str(alphabet string, maxLen int) string {
	n := g.Intn(maxLen + 1)
	b := make([]byte, n)
	for i := range b {
		b[i] = alphabet[g.Intn(len(alphabet))]
	}
	return string(b)
}

// Sub derives an independent generator (for sharding / per-case replay).
func (g *Gen) Sub(k uint64) *Gen { return NewGen(g.s ^ (k+1)*0xD6E8FEB86659FD93) }

// X encodes a byte string as a protocol token.
func X(s string) string  { return "x" + hex.EncodeToString([]byte(s)) }
func I(i int) string     { return strconv.Itoa(i) }
func I64(i int64) string { return strconv.FormatInt(i, 10) }
func B(b bool) string {
	if b {
		return "1"
	}
	return "0"
}

// Case is one line of a case file: stream, id, input tokens, implementation result tokens.
type Case struct {
	Stream string
	ID     int
	In     []string
	Impl   []string
}

func (c Case) Line() string {
	return fmt.Sprintf("%s %d %s | %s", c.Stream, c.ID, strings.Join(c.In, " "), strings.Join(c.Impl, " "))
}

type CaseWriter struct {
	f *os.File
	w *bufio.Writer
}

func NewCaseWriter(path string) (*CaseWriter, error) {
	f, err := os.Create(path)
	if err != nil {
		return nil, err
	}
	return &CaseWriter{f, bufio.NewWriterSize(f, 1<<20)}, nil
}
// Put writes one finished case and flushes: when the code under test takes the whole process down (a panic in a goroutine
// of its own), the file names every case that was completed and the runner knows which one was running.
func (cw *CaseWriter) Put(c Case) { cw.w.WriteString(c.Line()); cw.w.WriteByte('\n'); cw.w.Flush() }
func (cw *CaseWriter) Close() error {
	if err := cw.w.Flush(); err != nil {
		return err
	}
	return cw.f.Close()
}

// Guard runs f and maps a run-time panic to the token "panic".
func Guard(f func() []string) (out []string) {
	defer func() {
		if r := recover(); r != nil {
			out = []string{"panic"}
		}
	}()
	return f()
}

// Blob encodes a body: hex when short, otherwise an opaque atom `h<len>_<sha1>` (the model only
// ever compares bodies for equality at system level).
func Blob(b []byte) string {
	if len(b) <= 256 {
		return X(string(b))
	}
	sum := sha1.Sum(b)
	return "h" + strconv.Itoa(len(b)) + "_" + hex.EncodeToString(sum[:8])
}
