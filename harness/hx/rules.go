package hx

import (
	"encoding/json"
	"sort"
)

// RuleSpec mirrors proxy.RuleSource; it is rendered to JSON for the public ParseRules and to
// protocol tokens for the Lean model.
type RuleSpec struct {
	Enabled           *bool
	Methods           []string
	Scheme, Host      string
	Path, Dest        string
	Internal          bool
	Type              *string
	HostHeader        string
	Recompression     bool
	Cache             string
	ForceRevalidate   int
	RequestHeaders    map[string]*string // nil value = delete
	ResponseHeaders   map[string]string
	RestartOnRedirect bool
	Retry             *RuleSpec
}

func (r RuleSpec) JSONMap() map[string]interface{} {
	m := map[string]interface{}{"path": r.Path, "destination": r.Dest}
	if r.Enabled != nil {
		m["enabled"] = *r.Enabled
	}
	if r.Methods != nil {
		m["methods"] = r.Methods
	}
	if r.Scheme != "" {
		m["scheme"] = r.Scheme
	}
	if r.Host != "" {
		m["host"] = r.Host
	}
	if r.Internal {
		m["internal"] = true
	}
	if r.Type != nil {
		m["type"] = *r.Type
	}
	if r.HostHeader != "" {
		m["hostheader"] = r.HostHeader
	}
	if r.Recompression {
		m["recompression"] = true
	}
	if r.Cache != "" {
		m["cache"] = r.Cache
	}
	if r.ForceRevalidate != 0 {
		m["force_revalidate"] = r.ForceRevalidate
	}
	if r.RequestHeaders != nil {
		rh := map[string]interface{}{}
		for k, v := range r.RequestHeaders {
			if v == nil {
				rh[k] = nil
			} else {
				rh[k] = *v
			}
		}
		m["request_headers"] = rh
	}
	if r.ResponseHeaders != nil {
		m["response_headers"] = r.ResponseHeaders
	}
	if r.RestartOnRedirect {
		m["restart_on_redirect"] = true
	}
	if r.Retry != nil {
		m["retry_rule"] = r.Retry.JSONMap()
	}
	return m
}

func RulesJSON(rs []RuleSpec) []byte {
	l := make([]interface{}, 0, len(rs))
	for _, r := range rs {
		l = append(l, r.JSONMap())
	}
	b, err := json.Marshal(map[string]interface{}{"rules": l})
	if err != nil {
		panic(err)
	}
	return b
}

func (r RuleSpec) IsCopy() bool    { return r.Type != nil && *r.Type == "copy_traffic" }
func (r RuleSpec) IsEnabled() bool { return r.Enabled == nil || *r.Enabled }

// Tokens: fixed-order encoding of one rule for the Lean side (Driver/Proto.lean: pRule).
func (r RuleSpec) Tokens() []string {
	t := []string{B(r.IsEnabled()), X(r.Scheme), X(r.Host), X(r.Path), X(r.Dest), B(r.Internal)}
	if r.Type == nil {
		t = append(t, X("proxy"))
	} else {
		t = append(t, X(*r.Type))
	}
	t = append(t, I(len(r.Methods)))
	for _, m := range r.Methods {
		t = append(t, X(m))
	}
	t = append(t, B(r.Recompression), X(r.HostHeader), X(r.Cache), I(r.ForceRevalidate))
	keys := make([]string, 0, len(r.RequestHeaders))
	for k := range r.RequestHeaders {
		keys = append(keys, k)
	}
	sort.Strings(keys)
	t = append(t, I(len(keys)))
	for _, k := range keys {
		v := r.RequestHeaders[k]
		if v == nil {
			t = append(t, X(k), "0", X(""))
		} else {
			t = append(t, X(k), "1", X(*v))
		}
	}
	keys = keys[:0]
	for k := range r.ResponseHeaders {
		keys = append(keys, k)
	}
	sort.Strings(keys)
	t = append(t, I(len(keys)))
	for _, k := range keys {
		t = append(t, X(k), X(r.ResponseHeaders[k]))
	}
	t = append(t, B(r.RestartOnRedirect))
	if r.Retry != nil {
		t = append(t, "1")
		t = append(t, r.Retry.Tokens()...)
	} else {
		t = append(t, "0")
	}
	return t
}

func RulesTokens(rs []RuleSpec) []string {
	t := []string{I(len(rs))}
	for _, r := range rs {
		t = append(t, r.Tokens()...)
	}
	return t
}

// (mixed case: patterns are matched case-sensitively in their prefix; "$5": client text that looks like a placeholder)
var Segs = []string{"a", "b", "ab", "img", "x.y", "API", "Img", "aB", "c$5"}
var Hosts = []string{"h1.test", "h2.test", "h3.test"}
var KnownMethods = []string{"GET", "HEAD", "POST", "PUT", "DELETE", "OPTIONS", "TRACE"}

// GenPathPattern draws a rule path: exact or trailing wildcard over the shared vocabulary, so
// that prefixes overlap; rarely an invalid pattern.
func GenPathPattern(g *Gen) string {
	switch g.Intn(20) {
	case 0:
		return "*"
	case 1:
		return "/*"
	case 2:
		return "/a/*/b" // invalid: wildcard not last
	case 3:
		return "/*/*" // invalid: two wildcards
	}
	p := ""
	n := g.Intn(4)
	for i := 0; i < n; i++ {
		p += "/" + g.Pick(Segs)
	}
	switch g.Intn(5) {
	case 0, 1:
		return p + "/*"
	case 2:
		if p == "" {
			return "/"
		}
		return p + "*"
	default:
		if p == "" {
			return "/"
		}
		if g.Chance(20) {
			return p + "/"
		}
		return p
	}
}

func GenDest(g *Gen, i int) string {
	base := "http://d" + I(i) + ".test"
	switch g.Intn(6) {
	case 0:
		return base + "/"
	case 1:
		return base + "/pre/$1"
	case 2:
		return base + ":8080/$1"
	case 3:
		return "https://d" + I(i) + ".test/p/$1/s"
	case 4:
		return base + "/fixed"
	default:
		return base + "/$1"
	}
}

// GenRule draws a routing rule for the matching streams.
func GenRule(g *Gen, i int) RuleSpec {
	r := RuleSpec{Path: GenPathPattern(g), Dest: GenDest(g, i)}
	if g.Chance(20) {
		f := false
		r.Enabled = &f
	} else if g.Chance(20) {
		tr := true
		r.Enabled = &tr
	}
	if g.Chance(30) {
		n := 1 + g.Intn(3)
		for k := 0; k < n; k++ {
			r.Methods = append(r.Methods, g.Pick(KnownMethods))
		}
	}
	if g.Chance(25) {
		r.Host = g.Pick(Hosts)
	}
	if g.Chance(20) {
		r.Scheme = g.Pick([]string{"http", "https"})
	}
	if g.Chance(25) {
		c := "copy_traffic"
		r.Type = &c
	} else if g.Chance(20) {
		p := "proxy"
		r.Type = &p
	}
	return r
}
