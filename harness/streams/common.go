package streams

import (
	apexlog "github.com/apex/log"
)

type discard struct{}

func (discard) HandleLog(*apexlog.Entry) error { return nil }

// Logger swallows everything rrrouter logs.
var Logger = &apexlog.Logger{Handler: discard{}, Level: apexlog.FatalLevel}
