package streams

import (
	"fmt"
	"net/http"
	"strconv"
	"strings"
	"sync"

	"github.com/richiefi/rrrouter/config"
	"github.com/richiefi/rrrouter/proxy"
	"github.com/richiefi/rrrouter/verifhook"

	"rrverif/harness/hx"
	"rrverif/harness/sysx"
)

func init() {
	registerReplay("sched", schedReplay)
	for _, n := range []string{"kf.C12-a", "kf.C12-b", "kf.C12-c", "kf.C13-a", "kf.C07-b"} {
		name := n
		registerReplay(name, func(in []string, id int) hx.Case {
			c := schedReplay(in, id)
			c.Stream = name
			return c
		})
	}
}

// every version has its own length (newer ones are shorter), so that a Size or Content-Length taken from one
// version never fits another's body
func schedBody(v int) []byte {
	return []byte(fmt.Sprintf("body-of-version-%d-0123456789abcdef%s", v, strings.Repeat("+", 9-v%10)))
}

// schedReplay walks the real goroutines along a schedule chosen by the interleaving model.
// input: n, faults[n] (0 none, 1 connectErr, 2 readErr, 3 uncacheable), k, then k tokens:
//
//	t<i> one step of request i; T<i> two steps (wait → lock → next); nf notifier; ex expire; oc origin change
//
// output: per step the point the actor parked at next; then per request its client view; then
// number of origin fetches and the maximum in flight at once.
func schedReplay(in []string, id int) hx.Case {
	c := hx.Case{Stream: "sched", ID: id, In: in}
	c.Impl = schedOnce(in, id)
	for try := 0; try < 2 && schedStalled(c.Impl); try++ {
		// a stall may be load on the machine: the case is repeated alone; only a stall that
		// repeats is reported
		c.Impl = schedOnce(in, id)
	}
	return c
}

func schedStalled(impl []string) bool {
	for _, t := range impl {
		if strings.Contains(t, "stall") || t == "stuck" {
			return true
		}
	}
	return false
}

func schedOnce(in []string, id int) []string {
	return hx.Guard(func() []string {
		if len(in) < 2 {
			return []string{"err:input"}
		}
		n, _ := strconv.Atoi(in[0])
		faults := make([]int, n)
		for i := 0; i < n; i++ {
			faults[i], _ = strconv.Atoi(in[1+i])
		}
		k, _ := strconv.Atoi(in[1+n])
		steps := in[2+n : 2+n+k]

		rules, err := proxy.ParseRules([]byte(cacheRule), sysx.Logger)
		if err != nil {
			return []string{"err:rules"}
		}
		w, err := sysx.NewWorld(true)
		if err != nil {
			return []string{"err:world"}
		}
		defer w.Close()
		verifhook.SetClock(func() int64 { return w.NowUnix() })
		defer verifhook.SetClock(nil)
		w.Configure(rules, &config.Config{RetryTimes: []int{}})
		var vmu sync.Mutex
		version := 1
		w.Perf.Reset(func(req *http.Request) *sysx.OriginResp {
			f, _ := strconv.Atoi(req.Header.Get("X-Verif-Fault"))
			if f == 1 {
				return nil // connection refused
			}
			vmu.Lock()
			v := version
			vmu.Unlock()
			r := &sysx.OriginResp{Status: 200, Body: schedBody(v), ReadErrAt: -1, TrackFetch: true,
				Header: [][2]string{{"Cache-Control", "max-age=1000"}, {"Content-Type", "text/plain"}, {"ETag", "\"v" + strconv.Itoa(v) + "\""}}}
			if f == 2 {
				r.ReadErrAt = len(r.Body) / 2
			}
			if f == 3 {
				r.Header[0] = [2]string{"Cache-Control", "no-store"}
				r.CountOnly = true
			}
			return r
		})
		ctl := sysx.NewController()
		w.Ctl = ctl
		ctl.Install()
		views := make([]sysx.ClientView, n)
		var wg sync.WaitGroup
		names := []string{}
		out := []string{}
		for i := 0; i < n; i++ {
			name := "t" + strconv.Itoa(i)
			names = append(names, name)
			raw := []byte("GET /c/sched" + strconv.Itoa(id) + " HTTP/1.1\r\nHost: h1.test\r\nConnection: close\r\nX-Verif-Actor: " + name +
				"\r\nX-Verif-Fault: " + strconv.Itoa(faults[i]) + "\r\n\r\n")
			wg.Add(1)
			go func(i int) {
				defer wg.Done()
				views[i] = w.Do(raw, false)
			}(i)
			// requests are admitted one by one so that actor names and arrival order are fixed
			if p := ctl.AwaitStart(name); p != "srv.after-flavors" {
				out = append(out, "start:"+p)
			}
		}
		for _, s := range steps {
			if len(out) > 0 && schedStalled(out[len(out)-1:]) {
				break // the rest of the schedule is meaningless after a stall
			}
			switch {
			case s == "nf":
				out = append(out, ctl.StepNotifier())
			case s == "ex":
				w.Advance(2000)
				out = append(out, "ok")
			case s == "oc":
				vmu.Lock()
				version++
				vmu.Unlock()
				out = append(out, "ok")
			case strings.HasPrefix(s, "t"):
				out = append(out, ctl.StepThread(s))
			case strings.HasPrefix(s, "T"):
				name := "t" + s[1:]
				if p := ctl.StepThread(name); p != "grw.before-lock" {
					out = append(out, "first:"+p)
				} else {
					out = append(out, ctl.StepThread(name))
				}
			default:
				out = append(out, "bad-token")
			}
		}
		ctl.Drain(names)
		wg.Wait()
		out = append(out, "|views")
		for i := 0; i < n; i++ {
			out = append(out, schedView(views[i]))
		}
		fetches, maxIn := w.Perf.Fetches, w.Perf.MaxInFlight
		out = append(out, hx.I(fetches), hx.I(maxIn))
		return out
	})
}

// schedView classifies a client view: C<v>[s] complete (stale), T<v> truncated, H headers only,
// E<code>, N nothing, M<b>/<e> body (or a prefix of it) of version b under the ETag of version e (a
// response no origin ever sent)
func schedView(v sysx.ClientView) string {
	if v.Framing == "noresponse" || v.Status == 0 {
		return "N"
	}
	if v.Status >= 400 {
		return "E" + hx.I(v.Status)
	}
	stale := ""
	if edgeStatus(v) == "stale" {
		stale = "s"
	}
	for ver := 1; ver < 20; ver++ {
		b := schedBody(ver)
		if string(v.Body) == string(b) && v.Framing == "complete" {
			if e := etagVersion(v); e != ver {
				return "M" + hx.I(ver) + "/" + hx.I(e)
			}
			return "C" + hx.I(ver) + stale
		}
		if len(v.Body) > 0 && len(v.Body) < len(b) && string(b[:len(v.Body)]) == string(v.Body) && etagVersion(v) == ver {
			return "T" + hx.I(ver)
		}
	}
	if len(v.Body) == 0 {
		return "H" + hx.I(etagVersion(v))
	}
	for ver := 1; ver < 20; ver++ {
		b := schedBody(ver)
		if len(v.Body) <= len(b) && string(b[:len(v.Body)]) == string(v.Body) {
			return "M" + hx.I(ver) + "/" + hx.I(etagVersion(v))
		}
	}
	return "X"
}

func etagVersion(v sysx.ClientView) int {
	for _, kv := range v.Header {
		if strings.EqualFold(kv[0], "ETag") {
			s := strings.Trim(kv[1], "\"v")
			n, _ := strconv.Atoi(s)
			return n
		}
	}
	return 0
}
