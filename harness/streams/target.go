package streams

import (
	"bufio"
	"net/http"
	"net/url"
	"strings"

	"github.com/richiefi/rrrouter/config"
	"github.com/richiefi/rrrouter/proxy"

	"rrverif/harness/hx"
)

func init() {
	register("urlsplit", urlSplitStream)
	register("outurl", outURLStream)
	register("kf.C02-a", kfC02a)
}

// every byte class net/url's shouldEscape distinguishes, plus '%'
const pathAlphabet = "abAB09-._~$&+,/:;=@!*'()%|\"<>^{}`[] ?#\\"
const queryAlphabet = "ab09=&+%/:?@;,#[]|\" <>"

func genPathText(g *hx.Gen) string {
	var sb strings.Builder
	n := g.Intn(5)
	for i := 0; i < n; i++ {
		sb.WriteByte('/')
		switch g.Intn(8) {
		case 0:
			sb.WriteString("%2F")
		case 1:
			sb.WriteString("%zz")
		case 2:
			sb.WriteString("..")
		case 3:
			sb.WriteString("@evil.test")
		case 4:
			sb.WriteString(g.Str(pathAlphabet, 4))
		default:
			sb.WriteString(g.Pick(hx.Segs))
		}
	}
	if g.Chance(10) {
		sb.WriteString("//x")
	}
	return sb.String()
}

func genQueryText(g *hx.Gen) string {
	switch g.Intn(6) {
	case 0:
		return ""
	case 1:
		return "a=1&b=2"
	case 2:
		return "a#b"
	case 3:
		return "u=http://x/?y"
	default:
		return g.Str(queryAlphabet, 8)
	}
}

func urlFields(u *url.URL, raw string) []string {
	auth := u.Host
	if !strings.Contains(raw, u.Host) {
		// net/url percent-DECODES non-ASCII escapes in a host (//1%a1 has host "1\xa1"); rrrouter's
		// destinations are not written that way: such a host is outside the compared domain
		auth = "*"
	} else if u.User != nil {
		// Userinfo.String() re-escapes the user name and password ("@." prints as "%40."); rrrouter never
		// looks at the userinfo, so when the printed form is not the text that was parsed only the host is compared.
		ui := u.User.String()
		if !strings.Contains(raw, ui+"@"+u.Host) {
			ui = "*"
		}
		auth = ui + "@" + u.Host
	}
	return []string{"ok", hx.X(u.Scheme), hx.X(auth), hx.X(u.RawQuery), hx.B(u.ForceQuery), hx.X(u.Opaque)}
}

func urlSplitStream(g *hx.Gen, id int) hx.Case {
	var s string
	switch g.Intn(5) {
	case 0: // a destination with a substituted capture
		s = strings.Replace(hx.GenDest(g, g.Intn(3)), "$1", strings.TrimPrefix(genPathText(g), "/"), 1)
		if g.Bool() {
			s += "?" + genQueryText(g)
		}
	case 1:
		s = g.Pick([]string{"http", "https", "HTTP", "h2+x", "1http", "", ":", "ht tp"}) + g.Pick([]string{"://", ":", ":/", ":///", "//", ""}) +
			g.Pick([]string{"d.test", "d.test:80", "u:p@d.test", "", "[::1]:8", "d.test:x"}) + genPathText(g)
		if g.Bool() {
			s += "?" + genQueryText(g)
		}
	case 2:
		s = genPathText(g) + "?" + genQueryText(g)
	case 3:
		s = g.Str("ah:/?#@.%1", 10)
	default:
		s = "http://" + g.Pick(hx.Hosts) + genPathText(g)
		if g.Chance(30) {
			s += "#" + g.Str("ab#?/", 4)
		}
		if g.Chance(30) {
			s += "?"
		}
	}
	impl := hx.Guard(func() []string {
		u, err := url.Parse(s)
		if err != nil {
			return []string{"err"}
		}
		return urlFields(u, s)
	})
	return hx.Case{Stream: "urlsplit", ID: id, In: []string{hx.X(s)}, Impl: impl}
}

func outURLCase(stream string, id int, rs []hx.RuleSpec, method, target, host string) hx.Case {
	raw := method + " " + target + " HTTP/1.1\r\nHost: " + host + "\r\n\r\n"
	in := hx.RulesTokens(rs)
	req, rerr := http.ReadRequest(bufio.NewReader(strings.NewReader(raw)))
	if rerr != nil {
		in = append(in, hx.X(target), "0", hx.X(""), hx.X(""), hx.X(""), hx.X(method), hx.X(""))
		return hx.Case{Stream: stream, ID: id, In: in, Impl: []string{"rejected"}}
	}
	impl := hx.Guard(func() []string {
		full := proxy.VerifCompleteURL(req)
		reqdst := proxy.VerifDestinationString(full)
		u, perr := url.Parse(reqdst)
		if perr != nil {
			in = append(in, hx.X(target), "2", hx.X(""), hx.X(""), hx.X(""), hx.X(method), hx.X(req.URL.RawQuery))
		} else {
			in = append(in, hx.X(target), "1", hx.X(u.Scheme), hx.X(u.Host), hx.X(u.RequestURI()), hx.X(method), hx.X(req.URL.RawQuery))
		}
		rules, err := proxy.ParseRules(hx.RulesJSON(rs), Logger)
		if err != nil {
			return []string{"err:rules"}
		}
		conf := &config.Config{RetryTimes: []int{}}
		um, err := proxy.VerifCreateOutgoingURLs(rules, conf, full, method)
		if err != nil {
			return []string{"err:outurl"}
		}
		if um.URL == nil {
			return []string{"nomatch"}
		}
		out := []string{"ok", hx.X(um.URL.Scheme), hx.X(um.URL.Host), hx.X(um.URL.RawQuery)}
		preq, err := proxy.VerifCreateProxyRequest(rules, conf, req, false, proxy.HostHeader{}, um.URL)
		if err != nil {
			return append(out, "err:proxyreq")
		}
		return append(out, hx.X(preq.URL.Scheme), hx.X(preq.URL.Host), hx.X(preq.URL.RawQuery))
	})
	if len(in) == len(hx.RulesTokens(rs)) { // panic before the inputs were appended
		in = append(in, hx.X(target), "3", hx.X(""), hx.X(""), hx.X(""), hx.X(method), hx.X(""))
	}
	return hx.Case{Stream: stream, ID: id, In: in, Impl: impl}
}

func outURLStream(g *hx.Gen, id int) hx.Case {
	n := 1 + g.Intn(4)
	rs := make([]hx.RuleSpec, n)
	for i := range rs {
		rs[i] = hx.GenRule(g, i)
		rs[i].Type = nil
		rs[i].Enabled = nil
		rs[i].Methods = nil
		if strings.Count(rs[i].Path, "*") > 1 || (strings.Contains(rs[i].Path, "*") && !strings.HasSuffix(rs[i].Path, "*")) {
			rs[i].Path = "/*"
		}
	}
	if g.Chance(60) {
		rs[n-1].Path = "/*"
		rs[n-1].Host, rs[n-1].Scheme = "", ""
	}
	path := genPathText(g)
	if path == "" {
		path = "/"
	}
	if g.Chance(50) {
		p := strings.TrimSuffix(rs[g.Intn(n)].Path, "*")
		if strings.HasPrefix(p, "/") {
			path = p + strings.TrimPrefix(path, "/")
		}
	}
	target := path
	if g.Chance(60) {
		target += "?" + genQueryText(g)
	}
	host := g.Pick(hx.Hosts)
	if g.Chance(20) {
		host += ":8080"
	}
	return outURLCase("outurl", id, rs, "GET", target, host)
}

// C02-a witnesses: queries containing '#'
func kfC02a(g *hx.Gen, id int) hx.Case {
	rs := []hx.RuleSpec{{Path: "/q/*", Dest: "http://d0.test/$1"}}
	targets := []string{"/q/x?a=1#b=2", "/q/x?#", "/q/y?u=http://z/#frag&k=v"}
	return outURLCase("kf.C02-a", id, rs, "GET", targets[id%len(targets)], "h1.test")
}
