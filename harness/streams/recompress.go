package streams

// C06 — recompression. Streams:
//
//	recomp     util.GetRecompression + proxy.VerifCanTransform + util.ContentEncodingFromCompressionType,
//	           the complete class table x representative strings per class (exhaustive by case id),
//	           then random strings
//	recomphdr  the whole response path: server.ConfigureServeMux + proxy.NewRouterWithPerformer with a
//	           scripted performer, httptest.NewRecorder (handler-level view: exactly the headers and
//	           bytes the handler produced, no net/http framing on top)
//	codeclaw   the codec laws the theorems assume, sampled against compress/gzip and the real brotli
//	           encoder/decoder (labelled as a test, not a proof)
//	kf.C06-*   fixed witness tables of the known findings (recomphdr cases); kf.C06-a and kf.C06-d
//	           are repaired findings' tables and run as regression streams (every case must pass)
//
// Bodies travel through the protocol in a *canonical codec-term form*: the harness peels real
// gzip / brotli layers with independent decoders (compress/gzip, itchio/go-brotli/dec) and writes
//
//	(nothing)              no bytes
//	0x00 ++ bytes          bytes that are neither a gzip nor a brotli stream
//	0x01 ++ canon(inner)   a complete gzip stream whose content is inner
//	0x02 ++ canon(inner)   a complete brotli stream whose content is inner
//
// which is exactly the representation of the model's toy codec (Model.Recompress.toyExt).

import (
	"bytes"
	"compress/gzip"
	"errors"
	"io"
	"net/http"
	"net/http/httptest"
	"sort"
	"strconv"
	"strings"

	"github.com/itchio/go-brotli/dec"
	"github.com/itchio/go-brotli/enc"

	"github.com/richiefi/rrrouter/config"
	"github.com/richiefi/rrrouter/proxy"
	"github.com/richiefi/rrrouter/server"
	"github.com/richiefi/rrrouter/util"

	"rrverif/harness/hx"
)

func init() {
	register("recomp", recompStream)
	register("recomphdr", recompHdrStream)
	register("codeclaw", codecLawStream)
	register("kf.C06-a", func(g *hx.Gen, id int) hx.Case { return kfCase("kf.C06-a", kfC06a, id) })
	register("kf.C06-b", func(g *hx.Gen, id int) hx.Case { return kfCase("kf.C06-b", kfC06b, id) })
	register("kf.C06-c", func(g *hx.Gen, id int) hx.Case { return kfCase("kf.C06-c", kfC06c, id) })
	register("kf.C06-d", func(g *hx.Gen, id int) hx.Case { return kfCase("kf.C06-d", kfC06d, id) })
	register("kf.C05-d", func(g *hx.Gen, id int) hx.Case { return kfCase("kf.C05-d", kfC05d, id) })
}

// ---------------------------------------------------------------------------------------------
// real codecs (harness side only)

func gz(b []byte, level int) []byte {
	var buf bytes.Buffer
	w, err := gzip.NewWriterLevel(&buf, level)
	if err != nil {
		panic(err)
	}
	w.Write(b)
	w.Close()
	return buf.Bytes()
}

func br(b []byte, q int) []byte {
	out, err := enc.CompressBuffer(b, &enc.BrotliWriterOptions{Quality: q, LGWin: 0})
	if err != nil {
		panic(err)
	}
	return out
}

// ungz decodes a complete gzip stream: one or more members (RFC 1952 §2.2: a gzip file is a series
// of members; `cat a.gz b.gz` is legal) with nothing after the last one.
func ungz(b []byte) ([]byte, error) {
	rd := bytes.NewReader(b)
	r, err := gzip.NewReader(rd)
	if err != nil {
		return nil, err
	}
	out, err := io.ReadAll(r)
	if err != nil {
		return nil, err
	}
	if rd.Len() != 0 {
		return nil, errors.New("trailing bytes")
	}
	return out, nil
}

func unbr(b []byte) ([]byte, error) {
	if len(b) == 0 {
		return nil, errors.New("empty")
	}
	r := dec.NewBrotliReader(bytes.NewReader(b))
	defer r.Close()
	return io.ReadAll(r)
}

func canon(d []byte, depth int) []byte {
	if len(d) == 0 {
		return []byte{} // no bytes: opaque to every decoder, also in the toy codec
	}
	if depth < 4 {
		if p, err := ungz(d); err == nil {
			return append([]byte{1}, canon(p, depth+1)...)
		}
		if p, err := unbr(d); err == nil {
			return append([]byte{2}, canon(p, depth+1)...)
		}
	}
	return append([]byte{0}, d...)
}

// plainBody makes sure b is opaque to both decoders (so that canon(b) = 0x00 ++ b).
func plainBody(b string) []byte {
	p := []byte(b)
	for len(p) > 0 && canon(p, 0)[0] != 0 {
		p = append([]byte("#"), p...)
	}
	return p
}

// ---------------------------------------------------------------------------------------------
// vocabulary: representatives of every class of the decision table

var aeReps = []string{
	// other
	"", "identity", "deflate", "*", "GZIP", "BR", "compress, deflate",
	// gzip
	"gzip", "gzip, deflate", "deflate, gzip", "x-gzip", "gzipped",
	// brotli
	"br", "gzip, deflate, br", "br, gzip", "abracadabra", "vibrato", "deflate, sbr",
	// broken client
	"gzip;q=1.0", "br;q=1.0, gzip;q=0.8, *;q=0.1", ";", "gzip; q=0", "identity;q=1, *;q=0",
}
var ceReps = []string{"", "identity", "gzip", "br", "deflate", "GZIP", "gzip, br", "x-gzip", "Identity"}
var ctReps = []string{"application/json", "text/html", "text/", "text/plain; charset=utf-8",
	"", "image/png", "application/json; charset=utf-8", "TEXT/html", "application/javascript", "xtext/plain"}
var ccReps = []string{"", "no-transform", "public", "public, max-age=60, No-Transform", "max-age=0,no-transform",
	"no-transformx", "no transform", "NO-TRANSFORM"}

// size of the exhaustive part of stream recomp: the complete product of the representatives
var recompTable = len(aeReps) * len(ceReps) * len(ctReps) * len(ccReps)

var aeAlphabet = []string{";", "br", "gzip", ",", " ", "q=", "0.5", "deflate", "*", "identity", "a", "b", "r", "g", "z", "i", "p", "x-", "1"}
var ceAlphabet = []string{"gzip", "br", "identity", "deflate", ",", " ", "x-", "g", "b", "r"}
var ctAlphabet = []string{"text/", "application/json", "text", "/", "html", "plain", ";", " ", "charset=utf-8", "json", "application", "x"}
var ccAlphabet = []string{"no-transform", "no-", "transform", "NO-TRANSFORM", "No-Transform", ",", " ", "public", "max-age=60", "private", "=", "\""}

func randFrom(g *hx.Gen, alphabet []string, maxTok int) string {
	n := g.Intn(maxTok + 1)
	var sb strings.Builder
	for i := 0; i < n; i++ {
		sb.WriteString(g.Pick(alphabet))
	}
	return sb.String()
}

func genAE(g *hx.Gen) string {
	switch g.Intn(4) {
	case 0:
		return g.Pick(aeReps)
	case 1: // a well-formed list
		n := 1 + g.Intn(3)
		parts := []string{}
		for i := 0; i < n; i++ {
			t := g.Pick([]string{"gzip", "br", "deflate", "identity", "*", "compress", "x-gzip", "zstd"})
			if g.Chance(25) {
				t += g.Pick([]string{";q=0.5", ";q=0", "; q=1", ";q=1.0"})
			}
			parts = append(parts, t)
		}
		return strings.Join(parts, g.Pick([]string{", ", ",", " , "}))
	}
	return randFrom(g, aeAlphabet, 5)
}

// ---------------------------------------------------------------------------------------------
// recomp (L1)

func recompStream(g *hx.Gen, id int) hx.Case {
	var ae, ce, ct, cc string
	if id < recompTable {
		k := id
		ae = aeReps[k%len(aeReps)]
		k /= len(aeReps)
		ce = ceReps[k%len(ceReps)]
		k /= len(ceReps)
		ct = ctReps[k%len(ctReps)]
		k /= len(ctReps)
		cc = ccReps[k%len(ccReps)]
	} else {
		ae = genAE(g)
		if g.Chance(60) {
			ce = g.Pick(ceReps)
		} else {
			ce = randFrom(g, ceAlphabet, 3)
		}
		if g.Chance(60) {
			ct = g.Pick(ctReps)
		} else {
			ct = randFrom(g, ctAlphabet, 4)
		}
		if g.Chance(50) {
			cc = g.Pick(ccReps)
		} else {
			cc = randFrom(g, ccAlphabet, 4)
		}
	}
	impl := hx.Guard(func() []string {
		rc := util.GetRecompression(ae, ce, ct)
		return []string{hx.I(int(rc.Add)), hx.I(int(rc.Remove)),
			hx.X(util.ContentEncodingFromCompressionType(rc.Add)), hx.B(proxy.VerifCanTransform(cc))}
	})
	return hx.Case{Stream: "recomp", ID: id, In: []string{hx.X(ae), hx.X(ce), hx.X(ct), hx.X(cc)}, Impl: impl}
}

// ---------------------------------------------------------------------------------------------
// recomphdr (whole response path)

type hline struct{ k, v string }

// hdrCase is one scripted exchange: the client's Accept-Encoding, the rule flag, the origin's
// header lines and raw body.
type hdrCase struct {
	flag  bool
	hasAE bool
	ae    string
	lines []hline
	body  []byte // raw origin bytes
}

type scriptedPerformer struct {
	lines []hline
	body  []byte
}

func (p *scriptedPerformer) Do(req *http.Request) (*http.Response, error) {
	h := http.Header{}
	for _, l := range p.lines {
		h.Add(l.k, l.v)
	}
	cl := int64(-1)
	if v := h.Get("Content-Length"); v != "" {
		if n, err := strconv.ParseInt(v, 10, 64); err == nil {
			cl = n
		}
	}
	return &http.Response{
		Status: "200 OK", StatusCode: 200, Proto: "HTTP/1.1", ProtoMajor: 1, ProtoMinor: 1,
		Header: h, Body: io.NopCloser(bytes.NewReader(p.body)), ContentLength: cl, Request: req,
	}, nil
}
func (p *scriptedPerformer) CloseIdleConnections() {}

var recompRulesJSON = []byte(`{"rules":[
 {"path":"/on/*","destination":"http://origin.test/$1","recompression":true},
 {"path":"/off/*","destination":"http://origin.test/$1"}]}`)

var recompConf = &config.Config{GZipLevel: 1, BrotliLevel: 0, RetryTimes: []int{}}

func runHdrCase(c hdrCase) []string {
	return hx.Guard(func() []string {
		rules, err := proxy.ParseRules(recompRulesJSON, Logger)
		if err != nil {
			return []string{"err:rules"}
		}
		router := proxy.NewRouterWithPerformer(rules, Logger, recompConf, &scriptedPerformer{c.lines, c.body})
		mux := http.NewServeMux()
		server.ConfigureServeMux(mux, recompConf, router, Logger, nil)
		path := "/off/doc"
		if c.flag {
			path = "/on/doc"
		}
		req := httptest.NewRequest("GET", "http://front.test"+path, nil)
		if c.hasAE {
			req.Header.Set("Accept-Encoding", c.ae)
		}
		rec := httptest.NewRecorder()
		mux.ServeHTTP(rec, req)
		res := rec.Result()
		out := []string{hx.I(res.StatusCode)}
		out = append(out, headerTokens(res.Header)...)
		out = append(out, hx.X(string(canon(rec.Body.Bytes(), 0))))
		// are the delivered bytes literally the origin's (cross-check of the canonical form)
		out = append(out, hx.B(bytes.Equal(rec.Body.Bytes(), c.body)))
		// C05: a Content-Length that reaches the client equals the bytes delivered
		clOK := true
		if v := res.Header.Get("Content-Length"); v != "" {
			n, err := strconv.Atoi(v)
			clOK = err == nil && n == len(rec.Body.Bytes())
		}
		out = append(out, hx.B(clOK))
		return out
	})
}

func headerTokens(h http.Header) []string {
	keys := []string{}
	for k, vs := range h {
		if len(vs) > 0 {
			keys = append(keys, k)
		}
	}
	sort.Strings(keys)
	out := []string{hx.I(len(keys))}
	for _, k := range keys {
		out = append(out, hx.X(k), hx.I(len(h[k])))
		for _, v := range h[k] {
			out = append(out, hx.X(v))
		}
	}
	return out
}

func (c hdrCase) tokens() []string {
	in := []string{hx.B(c.flag), hx.B(c.hasAE), hx.X(c.ae), hx.I(len(c.lines))}
	for _, l := range c.lines {
		in = append(in, hx.X(l.k), hx.X(l.v))
	}
	return append(in, hx.X(string(canon(c.body, 0))))
}

var plainPool = []string{
	"", "a", "hello world", `{"k":[1,2,3],"s":"abracadabra"}`, "<html><body>" + strings.Repeat("<p>lorem ipsum</p>", 40) + "</body></html>",
	strings.Repeat("0123456789abcdef", 200), "\x1f\x8b not really gzip",
}

// larger than writeBody's 32 KB buffer
var bigPlain = strings.Repeat("xyz\n", 8300)

var hdrAE = []string{"", "identity", "gzip", "gzip, deflate", "br", "gzip, deflate, br", "abracadabra", "gzipped",
	"gzip;q=1.0, br;q=0.5", "deflate;q=0.5", "*", "BR", "x-gzip", "deflate"}
var hdrCE = []string{"-", "", "identity", "gzip", "br", "deflate", "GZIP"}
var hdrCT = []string{"application/json", "text/html", "text/plain; charset=utf-8", "image/png", "-"}
var hdrCC = [][]string{{}, {"no-transform"}, {"public"}, {"public, max-age=60, No-Transform"}, {"max-age=60", "no-transform"}, {"no-transform", "public"}}
var hdrVary = [][]string{{}, {"Origin"}, {"Accept-Encoding"}, {"Origin, Accept-Encoding"}, {"Origin", "Accept-Encoding"},
	{"Accept-Encoding", "Origin"}, {"accept-encoding"}, {"*"}, {"Origin,Cookie"}, {"X-Accept-Encoding-Hint"}, {""}, {"", "Origin"},
	{"Accept-Encoding, Accept-Encoding"}, {"Cookie", "Origin"}}

// sizes of the two exhaustive parts of stream recomphdr
var hdrTableA = 2 * len(hdrAE) * len(hdrCE) * len(hdrCT) * len(hdrCC) // flag x AE x CE x CT x Cache-Control
var hdrTableB = 4 * 3 * 2 * len(hdrVary) * 2                          // AE{gzip,br,"gzip, deflate, br","gzip, deflate"} x CE{-,identity,gzip} x CT{json,text} x Vary x CL

// encodeAs builds the raw origin bytes that honestly carry Content-Encoding ce.
func encodeAs(ce string, plain []byte, k int) []byte {
	switch ce {
	case "gzip", "GZIP":
		if len(plain) >= 4 && k%2 == 1 {
			// two gzip members: the decoded content is the concatenation
			h := len(plain) / 2
			return append(gz(plain[:h], 6), gz(plain[h:], 1)...)
		}
		return gz(plain, []int{1, 6, 9}[k%3])
	case "br":
		return br(plain, []int{0, 5, 11}[k%3])
	}
	return plain
}

func buildHdrCase(flag bool, hasAE bool, ae, ce, ct string, cc, vary []string, withCL bool, extra bool, body []byte) hdrCase {
	lines := []hline{}
	if ct != "-" {
		lines = append(lines, hline{"Content-Type", ct})
	}
	if ce != "-" {
		lines = append(lines, hline{"Content-Encoding", ce})
	}
	for _, v := range cc {
		lines = append(lines, hline{"Cache-Control", v})
	}
	for _, v := range vary {
		lines = append(lines, hline{"Vary", v})
	}
	if withCL {
		lines = append(lines, hline{"Content-Length", strconv.Itoa(len(body))})
	}
	if extra {
		lines = append(lines, hline{"X-Origin-Header", "kept"}, hline{"Last-Modified", "Mon, 02 Jan 2006 15:04:05 GMT"})
	}
	return hdrCase{flag: flag, hasAE: hasAE, ae: ae, lines: lines, body: body}
}

func genHdrCase(g *hx.Gen, id int) hdrCase {
	if id < hdrTableA {
		k := id
		flag := k%2 == 0
		k /= 2
		ae := hdrAE[k%len(hdrAE)]
		k /= len(hdrAE)
		ce := hdrCE[k%len(hdrCE)]
		k /= len(hdrCE)
		ct := hdrCT[k%len(hdrCT)]
		k /= len(hdrCT)
		cc := hdrCC[k%len(hdrCC)]
		plain := plainBody(plainPool[(id/2)%5]) // the small and medium bodies; the big ones come in the random part
		return buildHdrCase(flag, ae != "" || id%3 == 0, ae, ce, ct, cc, hdrVary[(id/7)%len(hdrVary)], (id/5)%2 == 0, (id/11)%2 == 0,
			encodeAs(ce, plain, id))
	}
	if id < hdrTableA+hdrTableB {
		k := id - hdrTableA
		ae := []string{"gzip", "br", "gzip, deflate, br", "gzip, deflate"}[k%4]
		k /= 4
		ce := []string{"-", "identity", "gzip"}[k%3]
		k /= 3
		ct := []string{"application/json", "text/html"}[k%2]
		k /= 2
		vary := hdrVary[k%len(hdrVary)]
		k /= len(hdrVary)
		withCL := k%2 == 0
		plain := plainBody(plainPool[id%4])
		return buildHdrCase(true, true, ae, ce, ct, nil, vary, withCL, id%3 == 0, encodeAs(ce, plain, id))
	}
	// random part
	flag := g.Chance(85)
	hasAE := g.Chance(92)
	ae := ""
	if hasAE {
		ae = genAE(g)
	}
	// weighted towards cells in which something is removed or added
	ce := g.Pick([]string{"-", "-", "", "identity", "gzip", "gzip", "br", "deflate", "GZIP"})
	if g.Chance(8) {
		ce = randFrom(g, ceAlphabet, 2)
	}
	ct := g.Pick([]string{"application/json", "text/html", "text/plain; charset=utf-8", "text/css", "image/png", "-"})
	if g.Chance(15) {
		ct = g.Pick(ctReps)
	}
	var cc []string
	switch r := g.Intn(100); {
	case r < 45:
	case r < 60:
		cc = []string{"public"}
	case r < 70:
		cc = []string{g.Pick([]string{"max-age=60", "public, max-age=31536000, immutable", "private", "no-cache"})}
	case r < 90:
		cc = hdrCC[g.Intn(len(hdrCC))]
	default:
		cc = []string{randFrom(g, ccAlphabet, 4)}
	}
	vary := hdrVary[g.Intn(len(hdrVary))]
	var plain []byte
	if g.Chance(3) {
		plain = plainBody(bigPlain)
	} else if g.Chance(80) {
		plain = plainBody(g.Pick(plainPool))
	} else {
		plain = plainBody(g.Str("abc{}\":, \n<>/=01", 300))
	}
	var body []byte
	switch r := g.Intn(100); {
	case r < 82: // honest origin
		body = encodeAs(ce, plain, g.Intn(3))
	case r < 88: // label says gzip/br, bytes are not (gzip reader fails on the header)
		body = plain
	case r < 94: // content that is itself a compressed file, labelled or not
		body = encodeAs(ce, gz(plain, 6), g.Intn(3))
	default:
		body = encodeAs(ce, br(plain, 5), g.Intn(3))
	}
	return buildHdrCase(flag, hasAE, ae, ce, ct, cc, vary, g.Bool(), g.Chance(30), body)
}

func recompHdrStream(g *hx.Gen, id int) hx.Case {
	c := genHdrCase(g, id)
	return hx.Case{Stream: "recomphdr", ID: id, In: c.tokens(), Impl: runHdrCase(c)}
}

// ---------------------------------------------------------------------------------------------
// known-finding witnesses

// kfC06a: the former finding C06-a (gzip-class client, origin br: Brotli on top of Brotli), repaired
// in util.GetRecompression; regression cases: the origin's br stream must arrive unchanged.
var kfC06a = []hdrCase{
	buildHdrCase(true, true, "gzip", "br", "text/html", nil, nil, true, false, br([]byte("hello world"), 5)),
	buildHdrCase(true, true, "gzip, deflate", "br", "image/png", nil, []string{"Accept-Encoding"}, false, false, br([]byte(`{"k":1}`), 0)),
	buildHdrCase(true, true, "x-gzip", "br", "application/json", []string{"public"}, nil, true, true, br([]byte(strings.Repeat("abc", 500)), 11)),
}
var kfC06b = []hdrCase{
	buildHdrCase(true, true, "gzip", "-", "text/html", nil, []string{"Origin, Accept-Encoding"}, true, false, []byte("hello world")),
	buildHdrCase(true, true, "br", "-", "application/json", nil, []string{"Accept-Encoding, Origin"}, true, false, []byte(`{"k":1}`)),
	buildHdrCase(true, true, "gzip, deflate, br", "gzip", "text/html", nil, []string{"Accept-Encoding", "Cookie"}, false, false, gz([]byte("hello world"), 6)),
	buildHdrCase(true, true, "gzip", "identity", "text/plain", nil, []string{"Cookie", "Origin"}, false, false, []byte("hello world")),
}
var kfC06c = []hdrCase{
	buildHdrCase(true, true, "abracadabra", "-", "text/html", nil, nil, true, false, []byte("hello world")),
	buildHdrCase(true, true, "gzipped", "identity", "application/json", nil, nil, false, false, []byte(`{"k":1}`)),
	buildHdrCase(true, true, "vibrato, deflate", "gzip", "image/png", nil, nil, true, false, gz([]byte("hello world"), 6)),
}

// kfC06d: the former finding C06-d (no-transform on a Cache-Control line other than the first was
// missed by Header.Get), repaired in proxy.go (the gate tests all Cache-Control lines); regression
// cases: the origin's response must arrive unchanged.
var kfC06d = []hdrCase{
	buildHdrCase(true, true, "gzip", "-", "text/html", []string{"max-age=60", "no-transform"}, nil, true, false, []byte("hello world")),
	buildHdrCase(true, true, "br", "gzip", "image/png", []string{"public", "no-transform"}, nil, true, false, gz([]byte("hello world"), 6)),
}

// kfC05d: the origin labels a body gzip that is not gzip; the self-made 500 goes out under the origin's
// headers, Content-Length included, with no body
var kfC05d = []hdrCase{
	buildHdrCase(true, true, "gzip;q=1.0, identity;q=0.5", "gzip", "text/plain", nil, nil, true, false, []byte("this is not a gzip stream at all")),
	buildHdrCase(true, true, "br", "gzip", "application/json", nil, []string{"Accept-Encoding"}, true, true, []byte(`{"k":[1,2,3]}`)),
}

func kfCase(name string, table []hdrCase, id int) hx.Case {
	c := table[id%len(table)]
	return hx.Case{Stream: name, ID: id, In: c.tokens(), Impl: runHdrCase(c)}
}

// ---------------------------------------------------------------------------------------------
// codeclaw: the hypotheses of the theorems, sampled on the real libraries

func codecLawStream(g *hx.Gen, id int) hx.Case {
	var b []byte
	if id < len(plainPool) {
		b = []byte(plainPool[id])
	} else if g.Chance(50) {
		b = []byte(g.Str("abc{}\":, \n<>/=01", 2000))
	} else {
		n := g.Intn(600)
		b = make([]byte, n)
		for i := range b {
			b[i] = byte(g.Intn(256))
		}
	}
	gl := []int{1, 6, 9, -1}[g.Intn(4)]
	bq := []int{0, 5, 11}[g.Intn(3)]
	impl := hx.Guard(func() []string {
		d1, e1 := ungz(gz(b, gl))
		d2, e2 := unbr(br(b, bq))
		// the encoders as rrrouter configures them
		var w1, w2 bytes.Buffer
		gw, err := util.NewGzipEncodingWriter(&w1, gl)
		if err != nil {
			return []string{"err:gzipwriter"}
		}
		gw.Write(b)
		gw.Close()
		bw := util.NewBrotliEncodingWriter(&w2, bq)
		bw.Write(b)
		bw.Close()
		d3, e3 := ungz(w1.Bytes())
		d4, e4 := unbr(w2.Bytes())
		return []string{hx.B(e1 == nil && bytes.Equal(d1, b)), hx.B(e2 == nil && bytes.Equal(d2, b)),
			hx.B(e3 == nil && bytes.Equal(d3, b)), hx.B(e4 == nil && bytes.Equal(d4, b))}
	})
	return hx.Case{Stream: "codeclaw", ID: id, In: []string{hx.X(string(b))}, Impl: impl}
}
