package streams

import (
	"bufio"
	"bytes"
	"encoding/json"
	"net/http"
	"net/url"
	"strconv"
	"strings"
	"sync"

	"github.com/richiefi/rrrouter/config"
	"github.com/richiefi/rrrouter/proxy"

	"rrverif/harness/hx"
	"rrverif/harness/sysx"
)

func init() {
	register("sysu", sysuStream)
	register("kf.C03-a", kfC03a)
	register("kf.C04-a", kfC04a)
}

var (
	worldOnce sync.Once
	world     *sysx.World
)

func theWorld() *sysx.World {
	worldOnce.Do(func() {
		w, err := sysx.NewWorld(true)
		if err != nil {
			panic(err)
		}
		world = w
	})
	return world
}

// CloseWorld removes the temp cache directory (called by main at exit).
func CloseWorld() {
	if world != nil {
		world.Close()
	}
	sysx.CleanupDirs()
}

// SysReq is a client request as sent on the wire.
type SysReq struct {
	Method  string
	Target  string
	Host    string
	Header  [][2]string
	Body    []byte
	Chunked bool // body sent with Transfer-Encoding: chunked (no Content-Length)
	// KeepAlive: the request carries NO Connection header at all (what Go clients and HTTP/2 front ends send:
	// seeded changes C04-m5 / C20-m5 live on the path where nothing hop-by-hop has to be filtered). The raw client
	// still reads to end of stream: a second, deliberately incomplete request (no Host) follows on the same
	// connection, which net/http answers 400 by itself - the handler is never called for it - and closes.
	KeepAlive bool
}

func (r SysReq) Raw() []byte {
	var b bytes.Buffer
	b.WriteString(r.Method + " " + r.Target + " HTTP/1.1\r\nHost: " + r.Host + "\r\n")
	if !r.KeepAlive {
		b.WriteString("Connection: close\r\n")
	}
	end := ""
	if r.KeepAlive {
		end = "GET / HTTP/1.1\r\nConnection: close\r\n\r\n"
	}
	for _, kv := range r.Header {
		b.WriteString(kv[0] + ": " + kv[1] + "\r\n")
	}
	if r.Chunked {
		b.WriteString("Transfer-Encoding: chunked\r\n\r\n")
		rest := r.Body
		for len(rest) > 0 {
			n := len(rest)
			if n > 4096 {
				n = 4096
			}
			b.WriteString(strconv.FormatInt(int64(n), 16) + "\r\n")
			b.Write(rest[:n])
			b.WriteString("\r\n")
			rest = rest[n:]
		}
		b.WriteString("0\r\n\r\n" + end)
		return b.Bytes()
	}
	if len(r.Body) > 0 || r.Method == "POST" || r.Method == "PUT" {
		b.WriteString("Content-Length: " + hx.I(len(r.Body)) + "\r\n")
	}
	b.WriteString("\r\n")
	b.Write(r.Body)
	b.WriteString(end)
	return b.Bytes()
}

func (r SysReq) Tokens() []string {
	t := []string{hx.X(r.Method), hx.X(r.Target), hx.X(r.Host), hx.I(len(r.Header))}
	for _, kv := range r.Header {
		t = append(t, hx.X(kv[0]), hx.X(kv[1]))
	}
	return append(t, hx.Blob(r.Body))
}

// ScriptEntry: origin behaviour for one destination host.
type ScriptEntry struct {
	Host string
	Resp sysx.OriginResp
}

func scriptTokens(es []ScriptEntry) []string {
	t := []string{hx.I(len(es))}
	for _, e := range es {
		t = append(t, hx.X(e.Host), hx.I(e.Resp.Status), hx.I(len(e.Resp.Header)))
		for _, kv := range e.Resp.Header {
			t = append(t, hx.X(kv[0]), hx.X(kv[1]))
		}
		t = append(t, hx.Blob(e.Resp.Body), hx.B(e.Resp.Chunked), hx.I(e.Resp.ConnectErrors), hx.I(e.Resp.ReadErrAt))
	}
	return t
}

func scriptFunc(es []ScriptEntry) func(*http.Request) *sysx.OriginResp {
	return func(req *http.Request) *sysx.OriginResp {
		for i := range es {
			if es[i].Host == req.URL.Host {
				return &es[i].Resp
			}
		}
		return nil // unknown destination: connection refused
	}
}

// matchedTriple: what the matching must be done on, computed from the request text WITHOUT
// rrrouter's own helpers (net/http's request parser and net/url are trusted): scheme from
// X-Forwarded-Proto, host = Host header without port, request-target = escaped path + "?" + raw
// query. flag 1 = ok; 0 = net/http rejects the request; 2 = rrrouter's own string (completeURL →
// destinationString → url.Parse, still computed for comparison) is unparsable; 3 = panic while
// building it; 4 = the independent triple and rrrouter's own differ.
func matchedTriple(raw []byte) (flag int, scheme, host, uri, rawQuery, decodedPath string) {
	req, err := http.ReadRequest(bufio.NewReader(bytes.NewReader(raw)))
	if err != nil {
		return 0, "", "", "", "", ""
	}
	decodedPath = req.URL.Path
	rawQuery = req.URL.RawQuery
	scheme = "http"
	if strings.ToLower(req.Header.Get("X-Forwarded-Proto")) == "https" {
		scheme = "https"
	}
	host = specDropPort(req.Host)
	uri = req.URL.RequestURI()
	if i := strings.IndexByte(uri, '#'); i >= 0 {
		uri = uri[:i]
	}
	flag = 3
	func() {
		defer func() { recover() }()
		s := proxy.VerifDestinationString(proxy.VerifCompleteURL(req))
		u, perr := url.Parse(s)
		if perr != nil {
			flag = 2
			return
		}
		flag = 1
		if u.Scheme != scheme || u.Host != host || u.RequestURI() != uri {
			flag = 4
		}
	}()
	return
}

// specDropPort: the Host header without its port, as the README describes host matching.
func specDropPort(h string) string {
	if h == "" || h[0] == ':' {
		return h
	}
	if h[0] == '[' {
		if i := strings.LastIndex(h, "]"); i >= 1 {
			return h[1:i]
		}
		return h
	}
	if i := strings.LastIndex(h, ":"); i >= 0 {
		return h[:i]
	}
	return h
}

var userErrorStatuses = map[int]bool{400: true, 404: true, 407: true, 499: true, 502: true, 503: true, 508: true}

// viewTokens: compared part (status framing body) and observation-only part (headers).
func viewTokens(v sysx.ClientView) (cmp []string, obs []string) {
	body := hx.Blob(v.Body)
	ct := ""
	for _, kv := range v.Header {
		if strings.EqualFold(kv[0], "Content-Type") {
			ct = kv[1]
		}
	}
	if ct == "application/json" && userErrorStatuses[v.Status] {
		var m map[string]interface{}
		if json.Unmarshal(v.Body, &m) == nil {
			if msg, ok := m["Message"].(string); ok {
				body = "j" + hx.X(msg)[1:]
			}
		}
	}
	if v.Status == 301 && (len(v.Body) == 0 || bytes.HasPrefix(v.Body, []byte("<a href="))) && muxRedirect(v) {
		body = "rmux"
	}
	cmp = []string{hx.I(v.Status), v.Framing, body}
	hs := sysx.SortedHeaderPairs(v.Header, map[string]bool{"date": true, "connection": true})
	obs = []string{hx.I(len(hs))}
	for _, kv := range hs {
		obs = append(obs, hx.X(kv[0]), hx.X(kv[1]))
	}
	return
}

// muxRedirect recognises net/http ServeMux's own path-cleaning redirect: a 301 with a Location
// and without the richie-edge-cache header every response of rrrouter's handler carries.
func muxRedirect(v sysx.ClientView) bool {
	loc, edge := false, false
	for _, kv := range v.Header {
		if strings.EqualFold(kv[0], "Location") {
			loc = true
		}
		if strings.EqualFold(kv[0], "Richie-Edge-Cache") {
			edge = true
		}
	}
	return loc && !edge
}

func contactTokens(cs []sysx.Contact) (cmp []string, obs []string) {
	cmp = []string{hx.I(len(cs))}
	obs = []string{hx.I(len(cs))}
	for _, c := range cs {
		cmp = append(cmp, hx.X(c.URLHost), hx.X(c.Method), hx.B(c.Failed), hx.Blob(c.Body))
		hs := sysx.HeaderPairs(c.Header)
		obs = append(obs, hx.X(c.Scheme), hx.X(c.Path), hx.X(c.Host), hx.I(len(hs)))
		for _, kv := range hs {
			obs = append(obs, hx.X(kv[0]), hx.X(kv[1]))
		}
	}
	return
}

type sysCase struct {
	// Sibling: when non-nil the router is first built with THESE rules and then reloaded (Router.SetRules) with
	// Rules - a rule set that differs from Rules in one rule's enabled flag, host or scheme constraint only. Whatever
	// was loaded before, a request is handled under the rules loaded last (seeded change C01-m5: a reload skipped
	// when the rule list "looks unchanged"). The model sees Rules only.
	Sibling []hx.RuleSpec
	// InFlight: the reload goes the other way round and lands WHILE the request is with its first destination: the
	// router is built with Rules, and the sibling set is loaded (Router.SetRules) from inside the performer's first Do.
	// "Each request is handled entirely under one version of the rules" (C19): the request started under Rules and
	// must be finished under them (seeded change C19-m6: the flavours of the response looked up again after the round trip)
	InFlight   bool
	Rules      []hx.RuleSpec
	Secrets    []string // nil = not configured
	SecretsNil bool
	Retries    int
	Req        SysReq
	Script     []ScriptEntry
}

func (c sysCase) conf() *config.Config {
	conf := &config.Config{RetryTimes: make([]int, c.Retries)}
	if !c.SecretsNil {
		conf.RoutingSecrets = append([]string{}, c.Secrets...)
	}
	return conf
}

func (c sysCase) inputTokens() []string {
	in := hx.RulesTokens(c.Rules)
	in = append(in, hx.B(c.SecretsNil), hx.I(len(c.Secrets)))
	for _, s := range c.Secrets {
		in = append(in, hx.X(s))
	}
	in = append(in, hx.I(c.Retries))
	in = append(in, c.Req.Tokens()...)
	flag, sch, host, uri, rq, dp := matchedTriple(c.Req.Raw())
	in = append(in, hx.I(flag), hx.X(sch), hx.X(host), hx.X(uri), hx.X(rq), hx.X(dp))
	in = append(in, scriptTokens(c.Script)...)
	// reload mode (trailing, optional for the handler): 0 none, 1 reloaded before the request, 2 reloaded in flight
	mode := 0
	if c.Sibling != nil {
		mode = 1
		if c.InFlight {
			mode = 2
		}
	}
	return append(in, hx.I(mode))
}

// runOnce configures the world with rs and performs the request.
func (c sysCase) runOnce(rs []hx.RuleSpec) (sysx.ClientView, []sysx.Contact, bool) {
	w := theWorld()
	rules, err := proxy.ParseRules(hx.RulesJSON(rs), sysx.Logger)
	if err != nil {
		return sysx.ClientView{}, nil, false
	}
	script := scriptFunc(c.Script)
	if c.Sibling != nil && len(rs) == len(c.Rules) {
		if other, err2 := proxy.ParseRules(hx.RulesJSON(c.Sibling), sysx.Logger); err2 == nil {
			if c.InFlight {
				w.Configure(rules, c.conf())
				router, once, inner := w.Router, false, script
				script = func(req *http.Request) *sysx.OriginResp {
					if !once {
						once = true
						router.SetRules(other)
					}
					return inner(req)
				}
			} else {
				w.Configure(other, c.conf())
				w.Router.SetRules(rules)
			}
		} else {
			w.Configure(rules, c.conf())
		}
	} else {
		w.Configure(rules, c.conf())
	}
	w.Perf.Reset(script)
	if pr, ok := c.primer(); ok {
		// the router is not fresh: it has just handled a request that differs from this one in the scheme or the host only
		// (a function of the case, nothing drawn: the case line replays it). Requests are handled independently of each
		// other - the model knows nothing of the primer (seeded change C01-m7: a match memo keyed without the scheme).
		w.Do(pr.Raw(), pr.Method == "HEAD")
		w.Perf.Take()
		w.Perf.Reset(script)
	}
	v := w.Do(c.Req.Raw(), c.Req.Method == "HEAD")
	return v, w.Perf.Take(), true
}

// primer: for a third of the cases (no reload in them, no request body) the same request with the forwarded scheme flipped
// (even case ids) or with another Host (odd ones)
func (c sysCase) primer() (SysReq, bool) {
	if c.Sibling != nil || len(c.Req.Body) > 0 || c.Req.Chunked || len(c.Req.Target)%3 != 0 {
		return SysReq{}, false
	}
	pr := c.Req
	pr.KeepAlive = false
	pr.Header = nil
	https := false
	for _, kv := range c.Req.Header {
		if strings.EqualFold(kv[0], "X-Forwarded-Proto") {
			https = https || strings.EqualFold(kv[1], "https")
			continue
		}
		if strings.EqualFold(kv[0], "Connection") {
			continue
		}
		pr.Header = append(pr.Header, kv)
	}
	if len(c.Req.Header)%2 == 0 {
		if !https {
			pr.Header = append(pr.Header, [2]string{"X-Forwarded-Proto", "https"})
		}
	} else {
		if https {
			pr.Header = append(pr.Header, [2]string{"X-Forwarded-Proto", "https"})
		}
		if strings.HasPrefix(strings.ToLower(pr.Host), "h1") {
			pr.Host = "h2.test"
		} else {
			pr.Host = "h1.test"
		}
		if i := strings.Index(pr.Target, "://"); i >= 0 {
			return SysReq{}, false // absolute-form target names the host itself
		}
	}
	return pr, true
}

// siblingOf: the same rules with ONE rule's enabled flag flipped, or its host / scheme constraint changed
func siblingOf(g *hx.Gen, rs []hx.RuleSpec) []hx.RuleSpec {
	out := append([]hx.RuleSpec{}, rs...)
	k := g.Intn(len(out))
	r := out[k]
	switch g.Intn(3) {
	case 0:
		f := r.Enabled != nil && !*r.Enabled // flip: disabled <-> enabled
		r.Enabled = &f
	case 1:
		r.Host = g.Pick([]string{"", "h1.test", "h2.test", "other.test"})
	default:
		r.Scheme = g.Pick([]string{"", "https", "http"})
	}
	out[k] = r
	return out
}

func withoutCopy(rs []hx.RuleSpec) []hx.RuleSpec {
	out := []hx.RuleSpec{}
	for _, r := range rs {
		if !r.IsCopy() {
			out = append(out, r)
		}
	}
	return out
}

func (c sysCase) run(stream string, id int) hx.Case {
	in := c.inputTokens()
	impl := hx.Guard(func() []string {
		v, cs, ok := c.runOnce(c.Rules)
		if !ok {
			return []string{"err:rules"}
		}
		vc, vo := viewTokens(v)
		cc, co := contactTokens(cs)
		out := append(vc, cc...)
		out = append(out, "||")
		out = append(out, vo...)
		out = append(out, co...)
		// the same request with the copy rules removed (C20 non-interference, two-run check)
		nc := withoutCopy(c.Rules)
		if len(nc) != len(c.Rules) && len(nc) > 0 {
			v2, _, ok2 := c.runOnce(nc)
			if ok2 {
				v2c, v2o := viewTokens(v2)
				out = append(out, "1")
				out = append(out, v2c...)
				out = append(out, v2o...)
				return out
			}
		}
		return append(out, "0")
	})
	return hx.Case{Stream: stream, ID: id, In: in, Impl: impl}
}

var reqHeaderVocab = [][2]string{
	{"Accept", "text/html, */*"}, {"accept-language", "fi"}, {"X-Custom", "1"}, {"X-Custom", "two, three"},
	{"Connection", "keep-alive"}, {"Keep-Alive", "timeout=5"}, {"Proxy-Authorization", "Basic xx"}, {"TE", "trailers"},
	{"Upgrade", "h2c"}, {"Proxy-Authenticate", "x"}, {"Trailers", "x"},
	{"Cookie", "a=b; c=d"}, {"User-Agent", "verif/1"}, {"X-Forwarded-Proto", "https"}, {"X-Forwarded-Proto", "HTTPS"},
	{"X-Forwarded-For", "10.0.0.1, 10.0.0.2"}, {"X-Real-Ip", "10.1.1.1"}, {"Cf-Connecting-Ip", "10.2.2.2"},
	{"Authorization", "Bearer t"}, {"x-MiXed-CaSe", "v"}, {"If-None-Match", "\"e1\""}, {"Range", "bytes=0-1"},
}

var respHeaderVocab = [][2]string{
	{"Content-Type", "text/plain"}, {"Content-Type", "application/octet-stream"}, {"Set-Cookie", "a=1"}, {"Set-Cookie", "b=2; Path=/"},
	{"Cache-Control", "max-age=60"}, {"ETag", "\"v1\""}, {"X-Origin", "o"}, {"Vary", "Origin"}, {"Last-Modified", "Mon, 02 Jan 2006 15:04:05 GMT"},
	{"Content-Language", "fi"}, {"X-Empty", ""},
}

func genBody(g *hx.Gen) []byte {
	switch g.Intn(8) {
	case 0:
		return nil
	case 1:
		return []byte{0}
	case 2:
		return []byte{0xff, 0x00, 0x80, '\r', '\n'}
	case 3:
		b := make([]byte, 70000)
		for i := range b {
			b[i] = byte('a' + i%23)
		}
		return b
	default:
		return []byte(g.Str("abcdefghij \n", 40))
	}
}

func genOriginResp(g *hx.Gen, statuses []int) sysx.OriginResp {
	r := sysx.OriginResp{Status: statuses[g.Intn(len(statuses))], ReadErrAt: -1}
	n := g.Intn(4)
	for i := 0; i < n; i++ {
		r.Header = append(r.Header, respHeaderVocab[g.Intn(len(respHeaderVocab))])
	}
	if r.Status != 204 && r.Status != 304 {
		r.Body = genBody(g)
	}
	if r.Status >= 301 && r.Status <= 308 {
		r.Header = append(r.Header, [2]string{"Location", g.Pick([]string{"/elsewhere", "http://x.test/y", "rel/z"})})
	}
	r.Chunked = g.Chance(25)
	return r
}

var allStatuses = []int{200, 200, 200, 201, 204, 206, 301, 302, 307, 400, 401, 403, 404, 404, 410, 418, 429, 500, 502, 503}

func sysuStream(g *hx.Gen, id int) hx.Case {
	c := sysCase{}
	main := hx.RuleSpec{Path: "/m/*", Dest: "http://d0.test/$1"}
	switch g.Intn(5) {
	case 0:
		main.HostHeader = "original"
	case 1:
		main.HostHeader = "destination"
	case 2:
		main.HostHeader = "override.test"
	}
	main.Internal = g.Chance(35)
	if g.Chance(30) {
		main.RequestHeaders = map[string]*string{}
		if g.Bool() {
			v := "forced"
			main.RequestHeaders["X-Custom"] = &v
		}
		if g.Bool() {
			main.RequestHeaders[" Cookie "] = nil
		}
		if g.Chance(30) {
			v := "added"
			main.RequestHeaders["x-added"] = &v
		}
	}
	if g.Chance(25) {
		main.ResponseHeaders = map[string]string{"X-Rule": " r1 "}
	}
	if g.Chance(35) {
		rr := hx.RuleSpec{Path: "/m/*", Dest: "http://r0.test/fb/$1", Internal: g.Chance(30)}
		if g.Chance(12) {
			// a retry rule that is switched off, or answers some methods only: an accepted configuration (seeded change C19-m8:
			// the skip path of Rules.Match on the ad-hoc rule list of the retry branch)
			f := false
			rr.Enabled = &f
		} else if g.Chance(14) {
			rr.Methods = [][]string{{"GET"}, {"POST", "PUT"}, {"GET", "HEAD", "DELETE"}}[g.Intn(3)]
		}
		if g.Chance(20) {
			rr2 := hx.RuleSpec{Path: "/*", Dest: "http://r1.test/$1"}
			rr.Retry = &rr2
		}
		main.Retry = &rr
	}
	if g.Chance(15) {
		f := false
		c.Rules = append(c.Rules, hx.RuleSpec{Path: "/m/*", Dest: "http://off.test/$1", Enabled: &f})
	}
	if g.Chance(40) {
		ct := "copy_traffic"
		cp := hx.RuleSpec{Path: "/m/*", Dest: "http://c0.test/cp/$1", Type: &ct, Internal: g.Chance(30)}
		if g.Chance(20) {
			cp.HostHeader = "original"
		}
		c.Rules = append(c.Rules, cp)
	}
	if g.Chance(15) {
		c.Rules = append(c.Rules, hx.RuleSpec{Path: "/m/post/*", Dest: "http://d2.test/$1", Methods: []string{"POST"}})
	}
	if g.Chance(20) {
		// a scheme-constrained rule in front of the main one: it is the first match exactly for requests
		// whose scheme (X-Forwarded-Proto; the listener is plain HTTP) is https
		c.Rules = append(c.Rules, hx.RuleSpec{Path: "/m/*", Dest: "http://s0.test/$1", Scheme: g.Pick([]string{"https", "https", "http"})})
	}
	if g.Chance(15) {
		c.Rules = append(c.Rules, hx.RuleSpec{Path: "/m/*", Dest: "http://s1.test/$1", Host: g.Pick([]string{"h1.test", "h2.test"})})
	}
	if g.Chance(30) {
		// an exact pattern in front of the wildcard: it must match the request-target INCLUDING the
		// query, so "/m/ab?q=1" falls through to the wildcard rule
		c.Rules = append(c.Rules, hx.RuleSpec{Path: "/m/ab", Dest: "http://d4.test/fixed"})
	}
	if g.Chance(15) {
		// an exact pattern that is the DECODED form of an escaped request-target of the vocabulary: "/m/a%2Fb" is not "/m/a/b"
		c.Rules = append(c.Rules, hx.RuleSpec{Path: "/m/a/b", Dest: "http://d4.test/decoded"})
	}
	if g.Chance(12) {
		// the main rule answers some methods only (seeded change C02-m6: a HEAD request that no rule matches must get
		// 404 and contact nobody, whatever a flavour lookup with another method would find)
		main.Methods = [][]string{{"GET"}, {"GET", "POST"}, {"POST", "PUT"}}[g.Intn(3)]
	}
	c.Rules = append(c.Rules, main)
	if g.Chance(20) {
		c.Rules = append(c.Rules, hx.RuleSpec{Path: "/*", Dest: "http://d3.test/$1"})
	}
	switch g.Intn(3) {
	case 0:
		c.SecretsNil = true
	case 1:
		c.Secrets = []string{"s1"}
	default:
		c.Secrets = []string{"s1", "s0"}
	}
	c.Retries = g.Intn(3)

	c.Req.Method = g.Pick([]string{"GET", "GET", "POST", "POST", "PUT", "DELETE", "HEAD", "OPTIONS"})
	switch g.Intn(8) {
	case 0:
		c.Req.Target = "/nomatch/x"
		if len(c.Rules) > 0 && c.Rules[len(c.Rules)-1].Path == "/*" {
			c.Req.Target = "/zzz"
		}
	case 1:
		c.Req.Target = "/m/post/a?k=v"
	default:
		c.Req.Target = "/m/" + g.Pick(hx.Segs) + g.Pick([]string{"", "/x", "?q=1", "/%2Fy?a=b&c"})
	case 2:
		// request-targets whose as-sent path is not Go's canonical encoding of the decoded path, yet decodes to a
		// CLEAN path (so net/http's mux lets it through): rules are matched against the text the client sent
		// (seeded changes C01-m6 / C02-m5: completeURL rebuilt from the decoded path), and a bare "?"
		c.Req.Target = "/m/" + g.Pick([]string{"a%2Fb", "%41b", "x%3Ay", "p%40q", "(a)*!'", "a%2fb/c", "%69d", "a%20b", "seg?", "a%2Fb?k=%2F"})
	}
	for _, r := range c.Rules {
		if r.Path == "/m/a/b" && g.Chance(60) {
			// the escaped spelling of that exact pattern: it must fall through to the wildcard rule
			c.Req.Target = g.Pick([]string{"/m/a%2Fb", "/m/a%2fb", "/m/a%2Fb?k=v"})
		}
	}
	c.Req.Host = g.Pick([]string{"h1.test", "h1.test:8080", "H2.Test"})
	if g.Chance(12) {
		// absolute-form request-target (RFC 9112 3.2.2), possibly naming another scheme than the one the
		// request arrived with / was forwarded with
		c.Req.Target = g.Pick([]string{"http", "http", "https"}) + "://" + c.Req.Host + c.Req.Target
	}
	nh := g.Intn(6)
	for i := 0; i < nh; i++ {
		c.Req.Header = append(c.Req.Header, reqHeaderVocab[g.Intn(len(reqHeaderVocab))])
	}
	switch g.Intn(10) {
	case 0:
		c.Req.Header = append(c.Req.Header, [2]string{"Richie-Routing-Secret", "s1"})
	case 1:
		c.Req.Header = append(c.Req.Header, [2]string{"Richie-Routing-Secret", "wrong"})
	case 2:
		c.Req.Header = append(c.Req.Header, [2]string{"Richie-Request-ID", "client-id"})
	case 3:
		c.Req.Header = append(c.Req.Header, [2]string{"richie-routing-secret", "s0"}, [2]string{"Richie-Originating-IP", "9.9.9.9"})
	}
	if g.Chance(6) {
		// the client names the routing headers as connection options (RFC 9110 7.6.1: "hop-by-hop" by the
		// client's say-so): whatever the proxy does with such a header, the secret check sees what was sent
		c.Req.Header = append(c.Req.Header, [2]string{"Connection", g.Pick([]string{"Richie-Routing-Secret", "close, richie-routing-secret", "Richie-Request-ID, Richie-Originating-IP", "RICHIE-ROUTING-SECRET, Richie-Request-ID"})})
		if g.Chance(70) {
			c.Req.Header = append(c.Req.Header, [2]string{"Richie-Routing-Secret", g.Pick([]string{"guess", "s1", "s0", "wrong"})})
		}
		if g.Chance(40) {
			c.Req.Header = append(c.Req.Header, [2]string{"Richie-Request-ID", "client-id"})
		}
	}
	if g.Chance(30) {
		c.Sibling = siblingOf(g, c.Rules)
		c.InFlight = g.Chance(40)
	}
	c.Req.KeepAlive = g.Chance(35)
	if c.Req.KeepAlive {
		// nothing hop-by-hop at all
		kept := c.Req.Header[:0]
		for _, kv := range c.Req.Header {
			switch strings.ToLower(kv[0]) {
			case "connection", "keep-alive", "proxy-authenticate", "proxy-authorization", "te", "trailers", "transfer-encoding", "upgrade":
			default:
				kept = append(kept, kv)
			}
		}
		c.Req.Header = kept
	}
	if c.Req.Method == "POST" || c.Req.Method == "PUT" || g.Chance(10) {
		c.Req.Body = genBody(g)
		if g.Chance(4) {
			// an upload above 1 MiB (seeded change C03-m7: large uploads "passed through rather than buffered for a repeat")
			b := make([]byte, 1<<20+4096+g.Intn(999))
			for i := range b {
				b[i] = byte('A' + i%31)
			}
			c.Req.Body = b
		}
		c.Req.Chunked = len(c.Req.Body) > 0 && g.Chance(35)
	}
	for _, h := range []string{"d0.test", "c0.test", "r0.test", "r1.test", "d2.test", "d3.test", "d4.test", "s0.test", "s1.test"} {
		if h == "r1.test" && g.Chance(50) {
			continue // unreachable: no script entry
		}
		e := ScriptEntry{Host: h, Resp: genOriginResp(g, allStatuses)}
		if g.Chance(25) {
			e.Resp.ConnectErrors = 1 + g.Intn(4)
			// (half of the failing destinations read the request before they drop the connection: invisible
			//  to the model - a failed attempt leaves nothing behind - unless a repeat forgets to re-arm the body)
			e.Resp.DrainOnFail = g.Bool()
		}
		if h == "c0.test" && g.Chance(4) {
			// a copy destination that sends its headers and then never finishes its body
			e.Resp.StallBody = true
			e.Resp.ConnectErrors = 0
		}
		if h == "d0.test" && g.Chance(8) && len(e.Resp.Body) > 2 && len(e.Resp.Body) <= 256 {
			e.Resp.ReadErrAt = len(e.Resp.Body) / 2
		}
		c.Script = append(c.Script, e)
	}
	return c.run("sysu", id)
}

// C04-a witnesses: two Richie-Routing-Secret lines, the first valid, a later one unknown
func kfC04a(g *hx.Gen, id int) hx.Case {
	main := hx.RuleSpec{Path: "/m/*", Dest: "http://d0.test/$1", Internal: true}
	hdr := [][2]string{{"Richie-Routing-Secret", "s1"}, {"Richie-Routing-Secret", "wrong"}}
	if id%2 == 1 {
		hdr = [][2]string{{"richie-routing-secret", "s0"}, {"Accept", "*/*"}, {"Richie-Routing-Secret", "guess"}, {"Richie-Routing-Secret", "s1"}}
	}
	c := sysCase{Rules: []hx.RuleSpec{main}, Secrets: []string{"s1", "s0"}, Retries: 0,
		Req: SysReq{Method: "GET", Target: "/m/a", Host: "h1.test", Header: hdr}}
	c.Script = []ScriptEntry{{Host: "d0.test", Resp: sysx.OriginResp{Status: 200, Body: []byte("ok"), ReadErrAt: -1}}}
	return c.run("kf.C04-a", id)
}

// C03-a witnesses: retry_rule fallback after a 4xx / unreachable main destination, with a body
func kfC03a(g *hx.Gen, id int) hx.Case {
	rr := hx.RuleSpec{Path: "/m/*", Dest: "http://r0.test/fb/$1"}
	main := hx.RuleSpec{Path: "/m/*", Dest: "http://d0.test/$1", Retry: &rr}
	methods := []string{"PUT", "POST", "PUT"}
	c := sysCase{Rules: []hx.RuleSpec{main}, SecretsNil: true, Retries: 0,
		Req: SysReq{Method: methods[id%3], Target: "/m/a", Host: "h1.test", Body: []byte("payload-123")}}
	d0 := sysx.OriginResp{Status: 404, Body: []byte("nf"), ReadErrAt: -1}
	if id%3 == 2 {
		d0.ConnectErrors = 9
	}
	c.Script = []ScriptEntry{{Host: "d0.test", Resp: d0}, {Host: "r0.test", Resp: sysx.OriginResp{Status: 200, Body: []byte("fallback"), ReadErrAt: -1}}}
	return c.run("kf.C03-a", id)
}

// C01-a / C05-c witnesses: request paths net/http's ServeMux canonicalises are answered 301 by
// the mux itself and never routed
func kfC01a(g *hx.Gen, id int) hx.Case {
	targets := []string{"/m//x", "/m/./x", "/m/a/%2Fb", "/m/a/../b"}
	c := sysCase{Rules: []hx.RuleSpec{{Path: "/m/*", Dest: "http://d0.test/$1"}}, SecretsNil: true,
		Req:    SysReq{Method: "GET", Target: targets[id%len(targets)], Host: "h1.test"},
		Script: []ScriptEntry{{Host: "d0.test", Resp: sysx.OriginResp{Status: 200, Body: []byte("ok"), ReadErrAt: -1}}}}
	return c.run("kf.C01-a", id)
}

// kfC20a: the former finding C20-a (external proxy rule + internal copy rule + client
// Richie-Request-ID / Richie-Originating-IP without a secret: 407 only because of the copy rule),
// repaired in createOutgoingRequests; regression cases: the copy request cannot be built, the copy
// is skipped and the client gets the main destination's answer, as without the copy rule.
func kfC20a(g *hx.Gen, id int) hx.Case {
	ct := "copy_traffic"
	hdr := [][2]string{{"Richie-Request-ID", "client-id"}}
	if id%2 == 1 {
		hdr = [][2]string{{"Richie-Originating-IP", "9.9.9.9"}}
	}
	c := sysCase{Rules: []hx.RuleSpec{{Path: "/m/*", Dest: "http://c0.test/$1", Type: &ct, Internal: true}, {Path: "/m/*", Dest: "http://d0.test/$1"}},
		Secrets: []string{"s1"},
		Req:     SysReq{Method: "GET", Target: "/m/a", Host: "h1.test", Header: hdr},
		Script: []ScriptEntry{{Host: "d0.test", Resp: sysx.OriginResp{Status: 200, Body: []byte("ok"), ReadErrAt: -1}},
			{Host: "c0.test", Resp: sysx.OriginResp{Status: 200, Body: []byte("copy"), ReadErrAt: -1}}}}
	return c.run("kf.C20-a", id)
}

func init() {
	register("kf.C01-a", kfC01a)
	register("kf.C20-a", kfC20a)
}
