package streams

// Stream sysr (C18): redirect graphs behind restart_on_redirect, on the UNCACHED path of
// server.cachingFunc, through the real server (sysx.World).  One case = one functional graph over
// ≤ 4 URLs (each URL redirects to one target or answers 200/404) × Location form × per-hop rule
// variant × redirect status × restart flag; the origin is keyed by request path (any known
// host answers).  rrrouter counts the redirects it follows per client request and answers 508 Loop
// detected after maxRedirects (10) of them (the repair of findings C18-a / C18-c): a looping graph
// costs 11 contacts.  The performer's watchdog (srLimit contacts) stays as protection of the
// harness process; `runaway` is not expected on any case any more.
//
// Case ids 0 … srExhaustive-1 enumerate ALL 1440 functional graphs over 1-4 nodes × the three
// uniform Location forms (absolute, /rooted, relative) with restart_on_redirect on; the per-hop
// rule variant, the redirect statuses and the hostheader modes are drawn from the case PRNG.
// Ids ≥ srExhaustive are fully random (mixed forms, absolute Locations to other hosts / https,
// queries, missing and unparsable Locations, restart flags per rule, start node, host port).

import (
	"net/http"
	"strings"
	"sync/atomic"

	"github.com/richiefi/rrrouter/config"
	"github.com/richiefi/rrrouter/proxy"

	"rrverif/harness/hx"
	"rrverif/harness/sysx"
)

func init() {
	register("sysr", srStream)
	register("kf.C18-a", srKfA)
	register("kf.C18-b", srKfB)
}

const (
	srLimit      = 40
	srGraphs     = 3 + 16 + 125 + 1296 // functional graphs over 1, 2, 3, 4 nodes
	srExhaustive = 3 * srGraphs
	srShown      = 8 // contacts printed for a run the watchdog had to end (never expected)
)

var srPaths = []string{"/n0", "/s/n1", "/s/n2", "/n3"}

const (
	srFormAbs = iota
	srFormRooted
	srFormRel
)

type srNode struct {
	Path     string
	Redirect bool
	Status   int
	Body     string
	HasLoc   bool
	Location string
	// Intended: the node the Location is meant to name (the spec's edge); -1 for a final node,
	// -2 when the property text does not say (missing/unparsable Location, foreign host)
	Intended int
	RuleIdx  int // index of this node's own rule in the rule list, -1 = none
}

// srUnanswered counts, per harness process, the requests that got no response at all
var srUnanswered int32

type srCase struct {
	Rules  []hx.RuleSpec
	Target string
	Host   string
	Nodes  []srNode
	Known  []string
}

// srDecodeGraph: graph number k (0 ≤ k < srGraphs) → per node its choice c: c < n redirect to
// node c, c = n answers 200, c = n+1 answers 404.
func srDecodeGraph(k int) []int {
	sizes := []int{3, 16, 125, 1296}
	n := 1
	for _, s := range sizes {
		if k < s {
			break
		}
		k -= s
		n++
	}
	out := make([]int, n)
	for i := 0; i < n; i++ {
		out[i] = k % (n + 2)
		k /= n + 2
	}
	return out
}

func srDir(p string) string { return p[:strings.LastIndex(p, "/")+1] }

// srLocation renders the edge from → to in the wanted form; a relative reference is only used
// when it needs no dot segments (else the rooted form is used).
func srLocation(form int, from, to string, absHost string, scheme string) string {
	switch form {
	case srFormAbs:
		return scheme + "://" + absHost + to
	case srFormRel:
		if d := srDir(from); strings.HasPrefix(to, d) && len(to) > len(d) {
			return to[len(d):]
		}
	}
	return to
}

func srNodeRule(i int, g *hx.Gen, restart bool, wild bool) hx.RuleSpec {
	hop := "r" + hx.I(i)
	one := "1"
	// an exact-path rule (a trailing-wildcard pattern only matches when it captures ≥ 1 byte, i.e.
	// here only a request with a query: the rarer variant)
	r := hx.RuleSpec{Path: srPaths[i], Dest: "http://e" + hx.I(i) + ".test" + srPaths[i],
		RequestHeaders:    map[string]*string{"x-hop": &hop, "x-via-" + hx.I(i): &one},
		RestartOnRedirect: restart}
	if wild {
		r.Path, r.Dest = srPaths[i]+"*", "http://e"+hx.I(i)+".test"+srPaths[i]+"$1"
	}
	r.HostHeader = g.Pick([]string{"", "", "original", "ov.test", "destination"})
	return r
}

func srBuild(g *hx.Gen, choice []int, forms []int, hasRule []bool, restart []bool, start int, wildPct int) srCase {
	n := len(choice)
	c := srCase{Host: "h.test", Target: srPaths[start], Known: []string{"d0.test", "e0.test", "e1.test", "e2.test", "e3.test"}}
	statuses := []int{301, 302, 303, 307, 308}
	for i := 0; i < n; i++ {
		nd := srNode{Path: srPaths[i], Intended: -1, RuleIdx: -1}
		switch {
		case choice[i] < n:
			nd.Redirect, nd.Status, nd.Intended, nd.HasLoc = true, statuses[g.Intn(5)], choice[i], true
			nd.Body = "moved-" + hx.I(i)
			nd.Location = srLocation(forms[i], srPaths[i], srPaths[choice[i]], "d0.test", "http")
		case choice[i] == n:
			nd.Status, nd.Body = 200, "body-"+hx.I(i)
		default:
			nd.Status, nd.Body = 404, "nf-"+hx.I(i)
		}
		if hasRule[i] {
			nd.RuleIdx = len(c.Rules)
			c.Rules = append(c.Rules, srNodeRule(i, g, restart[i], g.Chance(wildPct)))
		}
		c.Nodes = append(c.Nodes, nd)
	}
	root := hx.RuleSpec{Host: "h.test", Path: "/*", Dest: "http://d0.test/$1", RestartOnRedirect: restart[n]}
	root.HostHeader = g.Pick([]string{"", "", "original", "ov.test"})
	c.Rules = append(c.Rules, root)
	return c
}

func srStream(g *hx.Gen, id int) hx.Case {
	if id < srExhaustive {
		choice := srDecodeGraph(id % srGraphs)
		n := len(choice)
		form := id / srGraphs
		forms, hasRule, restart := make([]int, n), make([]bool, n), make([]bool, n+1)
		for i := range forms {
			forms[i], hasRule[i] = form, g.Bool()
		}
		for i := range restart {
			restart[i] = true
		}
		return srBuild(g, choice, forms, hasRule, restart, 0, 0).run("sysr", id)
	}
	n := 1 + g.Intn(4)
	choice, forms, hasRule, restart := make([]int, n), make([]int, n), make([]bool, n), make([]bool, n+1)
	on := !g.Chance(12)
	for i := 0; i < n; i++ {
		choice[i], forms[i], hasRule[i] = g.Intn(n+2), g.Intn(3), g.Chance(45)
		if g.Chance(45) { // redirects are what this stream is about
			choice[i] = g.Intn(n)
		}
	}
	for i := range restart {
		restart[i] = on
		if g.Chance(8) {
			restart[i] = !on
		}
	}
	c := srBuild(g, choice, forms, hasRule, restart, g.Intn(n), 30)
	if g.Chance(15) {
		c.Host = "h.test:8080"
	}
	// variations of single edges
	for i := range c.Nodes {
		nd := &c.Nodes[i]
		if !nd.Redirect {
			continue
		}
		to := srPaths[nd.Intended]
		switch g.Intn(14) {
		case 0: // upgrade redirect: https on a plain-http destination
			nd.Location = srLocation(srFormAbs, nd.Path, to, "d0.test", "https")
		case 1: // absolute, back to the edge host (matches the catch-all rule again)
			nd.Location = srLocation(srFormAbs, nd.Path, to, "h.test", "http")
		case 2: // absolute, to the target node's own destination host
			nd.Location = srLocation(srFormAbs, nd.Path, to, "e"+hx.I(nd.Intended)+".test", "http")
		case 3: // absolute, to a host nobody answers for (502 unless the target has its own rule)
			nd.Location = srLocation(srFormAbs, nd.Path, to, "nowhere.test", "http")
			// (a trailing-wildcard rule does not match the bare path: fallback as well)
			if ri := c.Nodes[nd.Intended].RuleIdx; ri < 0 || strings.HasSuffix(c.Rules[ri].Path, "*") {
				nd.Intended = -2
			}
		case 4: // with a query
			nd.Location = srLocation(forms[i], nd.Path, to, "d0.test", "http") + "?q=" + hx.I(i)
		case 5: // redirect status without a Location header
			nd.HasLoc, nd.Location, nd.Intended = false, "", -2
		case 6: // Location that url.Parse rejects
			nd.Location, nd.Intended = ":bad", -2
		}
	}
	return c.run("sysr", id)
}

func (c srCase) inputTokens() []string {
	in := hx.RulesTokens(c.Rules)
	in = append(in, hx.X(c.Target), hx.X(c.Host), hx.I(len(c.Nodes)))
	for _, n := range c.Nodes {
		in = append(in, hx.X(n.Path), hx.B(n.Redirect), hx.I(n.Status), hx.X(n.Body), hx.B(n.HasLoc), hx.X(n.Location), hx.I(n.Intended), hx.I(n.RuleIdx))
	}
	in = append(in, hx.I(len(c.Known)))
	for _, h := range c.Known {
		in = append(in, hx.X(h))
	}
	return append(in, hx.I(srLimit))
}

func (c srCase) script() func(*http.Request) *sysx.OriginResp {
	known := map[string]bool{}
	for _, h := range c.Known {
		known[h] = true
	}
	// When EVERY rule of the case restarts on redirect, no redirect answer is ever handed to the client (it is followed, or
	// the request ends in 508 / an error): its body is never needed. In one case out of eight of those the redirect answers
	// announce a body that never arrives (the destination stalls after the header block): a function of the case, not drawn;
	// the model knows nothing of it (seeded change C18-m8: an unbounded drain of the redirect's body before following it).
	allRestart := len(c.Rules) > 0
	for _, r := range c.Rules {
		allRestart = allRestart && r.RestartOnRedirect && r.Retry == nil && !r.IsCopy()
	}
	// (a server that drains such a body never answers: every case of that kind costs the client's whole deadline, so after three
	// unanswered requests in this process the stalls are switched off - three witnesses are enough)
	stall := allRestart && (len(c.Target)+len(c.Nodes)+len(c.Nodes[0].Location))%8 == 0 && atomic.LoadInt32(&srUnanswered) < 3
	resps := map[string]*sysx.OriginResp{}
	for _, n := range c.Nodes {
		r := &sysx.OriginResp{Status: n.Status, Body: []byte(n.Body), ReadErrAt: -1}
		if n.HasLoc {
			r.Header = append(r.Header, [2]string{"Location", n.Location})
		}
		if stall && n.Redirect && n.HasLoc && len(n.Body) > 0 {
			r.StallBody = true
		}
		resps[n.Path] = r
	}
	unknown := &sysx.OriginResp{Status: 404, Body: []byte("unknown"), ReadErrAt: -1}
	return func(req *http.Request) *sysx.OriginResp {
		if !known[req.URL.Host] {
			return nil // connection refused
		}
		if r, ok := resps[req.URL.Path]; ok {
			return r
		}
		return unknown
	}
}

func srContactTokens(cs []sysx.Contact) []string {
	out := []string{hx.I(len(cs))}
	for _, c := range cs {
		via := []string{}
		for i := 0; i < 4; i++ {
			if c.Header.Get("X-Via-"+hx.I(i)) != "" {
				via = append(via, hx.I(i))
			}
		}
		out = append(out, hx.X(c.URLHost), hx.X(c.Path), hx.X(c.Host), hx.B(c.Failed), hx.X(c.Header.Get("X-Hop")), hx.X(strings.Join(via, ",")))
	}
	return out
}

func (c srCase) run(stream string, id int) hx.Case {
	in := c.inputTokens()
	impl := hx.Guard(func() []string {
		w := theWorld()
		rules, err := proxy.ParseRules(hx.RulesJSON(c.Rules), sysx.Logger)
		if err != nil {
			return []string{"err:rules"}
		}
		w.Configure(rules, &config.Config{RetryTimes: []int{}})
		old := w.Perf.Limit
		w.Perf.Limit = srLimit
		defer func() { w.Perf.Limit = old }()
		w.Perf.Reset(c.script())
		v := w.Do(SysReq{Method: "GET", Target: c.Target, Host: c.Host}.Raw(), false)
		cs := w.Perf.Take()
		if v.Framing == "noresponse" {
			atomic.AddInt32(&srUnanswered, 1)
			// the raw client's deadline expired (or the connection was dropped): never expected
			return append([]string{"noresponse"}, srContactTokens(cs[:srMin(len(cs), srShown)])...)
		}
		if len(cs) >= srLimit && v.Status == 502 {
			// the watchdog ended an unbounded recursion: srLimit contacts, then "Destination unreachable"
			return append([]string{"runaway"}, srContactTokens(cs[:srShown])...)
		}
		vc, _ := viewTokens(v)
		loc := ""
		for _, kv := range v.Header {
			if strings.EqualFold(kv[0], "Location") {
				loc = kv[1]
			}
		}
		out := append(vc, hx.X(loc))
		return append(out, srContactTokens(cs)...)
	})
	return hx.Case{Stream: stream, ID: id, In: in, Impl: impl}
}

func srMin(a, b int) int {
	if a < b {
		return a
	}
	return b
}

// srFixed builds a witness case from explicit nodes over the catch-all rule alone.
func srFixed(nodes []srNode) srCase {
	c := srCase{Host: "h.test", Target: nodes[0].Path, Known: []string{"d0.test"}, Nodes: nodes,
		Rules: []hx.RuleSpec{{Host: "h.test", Path: "/*", Dest: "http://d0.test/$1", RestartOnRedirect: true}}}
	for i := range c.Nodes {
		c.Nodes[i].RuleIdx = -1
		if c.Nodes[i].Redirect {
			c.Nodes[i].HasLoc = true
			if c.Nodes[i].Status == 0 {
				c.Nodes[i].Status = 302
			}
		} else {
			c.Nodes[i].Intended = -1
		}
	}
	return c
}

// kf.C18-a: the witnesses of the former finding C18-a — a 2-cycle, a 3-cycle, an absolute
// self-redirect (https upgrade on a plain-http destination): none is caught by urlEquals, the
// handler used to recurse until the watchdog cut it.  Repaired by the redirect counter in
// cachingFunc; regression cases: 508 Loop detected after 11 contacts.
func srKfA(g *hx.Gen, id int) hx.Case {
	var c srCase
	switch id % 3 {
	case 0:
		c = srFixed([]srNode{{Path: "/a", Redirect: true, Location: "/b", Intended: 1}, {Path: "/b", Redirect: true, Location: "/a", Intended: 0}})
	case 1:
		c = srFixed([]srNode{{Path: "/a", Redirect: true, Status: 301, Location: "b", Intended: 1}, {Path: "/b", Redirect: true, Status: 307, Location: "http://d0.test/c", Intended: 2},
			{Path: "/c", Redirect: true, Status: 308, Location: "/a", Intended: 0}})
	default:
		c = srFixed([]srNode{{Path: "/a", Redirect: true, Status: 301, Location: "https://d0.test/a", Intended: 0}})
	}
	return c.run("kf.C18-a", id)
}

// kf.C18-b: the witnesses of the former finding C18-b (a relative Location below a request path of
// two or more segments was joined onto the parent directory WITHOUT a separator: /s/a + b ⇒ /sb
// instead of /s/b), repaired in util.RedirectedURL; regression cases: the client must get the
// target's answer.
func srKfB(g *hx.Gen, id int) hx.Case {
	var c srCase
	switch id % 3 {
	case 0:
		c = srFixed([]srNode{{Path: "/s/a", Redirect: true, Location: "b", Intended: 1}, {Path: "/s/b", Status: 200, Body: "target"}})
	case 1:
		c = srFixed([]srNode{{Path: "/x/y/z", Redirect: true, Status: 307, Location: "w?k=v", Intended: 1}, {Path: "/x/y/w", Status: 200, Body: "target"}})
	default:
		// the formerly mis-resolved URL exists and answers: the client must not receive its document
		c = srFixed([]srNode{{Path: "/s/a", Redirect: true, Location: "b", Intended: 1}, {Path: "/s/b", Status: 200, Body: "target"}, {Path: "/sb", Status: 200, Body: "other"}})
	}
	return c.run("kf.C18-b", id)
}
