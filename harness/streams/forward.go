package streams

// Streams for C04 (routing-secret firewall) and the header half of C03:
//   ensure     proxy.VerifEnsureInternalHeaders — the first EnsureSpace ids enumerate the whole
//              declared space (id ↦ id-th combination), later ids draw random variations
//   reqip      util.RequestIP
//   filter     proxy.VerifFilterHeader
//   preprocess server.VerifPreprocessHeaders
//   proxyreq   http.ReadRequest(raw text) → server.VerifPreprocessHeaders → proxy.VerifCreateProxyRequest

import (
	"bufio"
	"net"
	"net/http"
	"net/textproto"
	"net/url"
	"regexp"
	"sort"
	"strings"

	"github.com/richiefi/rrrouter/config"
	"github.com/richiefi/rrrouter/proxy"
	"github.com/richiefi/rrrouter/server"
	"github.com/richiefi/rrrouter/usererror"
	"github.com/richiefi/rrrouter/util"

	"rrverif/harness/hx"
)

func init() {
	register("ensure", ensureStream)
	register("reqip", reqIPStream)
	register("filter", filterStream)
	register("preprocess", preprocessStream)
	register("proxyreq", proxyReqStream)
}

const (
	fwHSecret = "Richie-Routing-Secret"
	fwHReqID  = "Richie-Request-ID"
	fwHOrigIP = "Richie-Originating-IP"
)

var fwUUIDRe = regexp.MustCompile(`^[0-9a-f]{8}-[0-9a-f]{4}-[0-9a-f]{4}-[0-9a-f]{4}-[0-9a-f]{12}$`)

// fwHeaderTokens: number of keys, then per key (sorted): key, number of values, values.
// skipEmpty drops keys without values (nothing of them is observable on the wire).
func fwHeaderTokens(h http.Header, skipEmpty bool) []string {
	keys := make([]string, 0, len(h))
	for k, vs := range h {
		if skipEmpty && len(vs) == 0 {
			continue
		}
		keys = append(keys, k)
	}
	sort.Strings(keys)
	t := []string{hx.I(len(keys))}
	for _, k := range keys {
		t = append(t, hx.X(k), hx.I(len(h[k])))
		for _, v := range h[k] {
			t = append(t, hx.X(v))
		}
	}
	return t
}

// fwOutHeaderTokens renders an outgoing header map; a request id that was not among the
// client's id values and has UUID shape is a minted one and is replaced by the text "UUID".
func fwOutHeaderTokens(out http.Header, clientIDs []string) []string {
	c := out.Clone()
	k := textproto.CanonicalMIMEHeaderKey(fwHReqID)
	if vs, ok := c[k]; ok {
		nv := make([]string, len(vs))
		for i, v := range vs {
			nv[i] = v
			if fwUUIDRe.MatchString(v) && !util.StringInSlice(clientIDs, v) {
				nv[i] = "UUID"
			}
		}
		c[k] = nv
	}
	return fwHeaderTokens(c, true)
}

func fwErrTokens(err error) []string {
	if ue, ok := err.(*usererror.UserError); ok {
		return []string{"err:usererror:" + hx.I(ue.Code)}
	}
	return []string{"err:other"}
}

func fwSecretsTokens(s []string) []string {
	t := []string{hx.B(s != nil), hx.I(len(s))}
	for _, x := range s {
		t = append(t, hx.X(x))
	}
	return t
}

// ---------------------------------------------------------------- ensure

const (
	fwSecA   = "s3cr3t-A"
	fwSecB   = "s3cr3t-B"
	fwSecBad = "not-a-secret"
)

var fwSecretVals = []string{"", fwSecA, fwSecB, fwSecBad}

// 21 states: absent, 4 single values, 16 pairs
func fwSecretState(i int) []string {
	switch {
	case i == 0:
		return nil
	case i <= 4:
		return []string{fwSecretVals[i-1]}
	default:
		j := i - 5
		return []string{fwSecretVals[j/4], fwSecretVals[j%4]}
	}
}

// 7 states: absent, [""], [x], ["",""], ["",x], [x,""], [x,y]
func fwPlainState(i int, x, y string) []string {
	switch i {
	case 0:
		return nil
	case 1:
		return []string{""}
	case 2:
		return []string{x}
	case 3:
		return []string{"", ""}
	case 4:
		return []string{"", x}
	case 5:
		return []string{x, ""}
	default:
		return []string{x, y}
	}
}

var fwSecretLists = [][]string{nil, {}, {fwSecA}, {fwSecA, fwSecB}}

// EnsureSpace is the size of the enumerated space of the ensure stream.
const EnsureSpace = 21 * 7 * 7 * 4 * 2 * 3

// fwReadIPVariant builds the request util.RequestIP is run on: 0 = an address, 1 = nothing
// determinable (""), 2 = X-Real-Ip "[bad" (an unclosed bracket: handed on unchanged; DropPort
// panicked there before the fix for finding C05-b).
func fwReadIPVariant(v int) *http.Request {
	req, _ := http.NewRequest("GET", "http://h/", nil)
	req.RemoteAddr = ""
	switch v {
	case 0:
		req.Header.Set("X-Real-Ip", " 10.1.2.3:99 ")
	case 2:
		req.Header.Set("X-Real-Ip", "[bad")
	}
	return req
}

func ensureStream(g *hx.Gen, id int) hx.Case {
	h := http.Header{}
	var secrets []string
	var pass bool
	var ipv int
	put := func(name string, vs []string) {
		if vs != nil {
			h[textproto.CanonicalMIMEHeaderKey(name)] = vs
		}
	}
	if id < EnsureSpace {
		n := id
		ss := n % 21
		n /= 21
		is := n % 7
		n /= 7
		ps := n % 7
		n /= 7
		secrets = fwSecretLists[n%4]
		n /= 4
		pass = n%2 == 1
		n /= 2
		ipv = n % 3
		put(fwHSecret, fwSecretState(ss))
		put(fwHReqID, fwPlainState(is, "client-id-1", "client-id-2"))
		put(fwHOrigIP, fwPlainState(ps, "198.51.100.7", "203.0.113.9"))
		h["X-Other"] = []string{"keep"}
		h["Accept"] = []string{"a, b", "c"}
	} else {
		// random variations: other secret texts, three values, UUID-shaped client ids, extra headers
		pool := []string{"", fwSecA, fwSecB, fwSecBad, "S3CR3T-A", " s3cr3t-A", "s3cr3t-A,s3cr3t-B", "x"}
		switch g.Intn(5) {
		case 0:
			secrets = nil
		case 1:
			secrets = []string{}
		case 2:
			secrets = []string{fwSecA}
		case 3:
			secrets = []string{fwSecA, fwSecB}
		default:
			secrets = []string{"", fwSecB, "x"}
		}
		draw := func(pool []string) []string {
			k := g.Intn(4)
			if k == 0 {
				return nil
			}
			vs := make([]string, k)
			for i := range vs {
				vs[i] = g.Pick(pool)
			}
			return vs
		}
		put(fwHSecret, draw(pool))
		put(fwHReqID, draw([]string{"", "client-id", "6ba7b810-9dad-11d1-80b4-00c04fd430c8", "UUID"}))
		put(fwHOrigIP, draw([]string{"", "198.51.100.7", "::1"}))
		if g.Bool() {
			h["X-Other"] = []string{"keep"}
		}
		if g.Chance(30) {
			h["Richie-Routing-Secrets"] = []string{"decoy"}
		}
		pass = g.Bool()
		ipv = g.Intn(3)
	}
	ipreq := fwReadIPVariant(ipv)
	ipTok := hx.Guard(func() []string { return []string{"1", hx.X(util.RequestIP(ipreq))} })
	if len(ipTok) == 1 {
		ipTok = []string{"0", hx.X("")}
	}
	in := fwHeaderTokens(h, false)
	in = append(in, hx.B(pass))
	in = append(in, fwSecretsTokens(secrets)...)
	in = append(in, ipTok...)
	clientIDs := append([]string{}, h[textproto.CanonicalMIMEHeaderKey(fwHReqID)]...)
	work := h.Clone()
	impl := hx.Guard(func() []string {
		err := proxy.VerifEnsureInternalHeaders(work, pass, secrets, func() string { return util.RequestIP(ipreq) })
		if err != nil {
			return fwErrTokens(err)
		}
		return append([]string{"ok"}, fwOutHeaderTokens(work, clientIDs)...)
	})
	return hx.Case{Stream: "ensure", ID: id, In: in, Impl: impl}
}

// ---------------------------------------------------------------- reqip

func fwRemoteTokens(remoteAddr string) []string {
	ip, _, err := net.SplitHostPort(strings.TrimSpace(remoteAddr))
	if err != nil {
		return []string{"0", hx.X("")}
	}
	return []string{"1", hx.X(ip)}
}

var fwRemoteAddrs = []string{"10.9.8.7:1234", "[2001:db8::1]:443", "", "garbage", " 9.9.9.9:1 ", "h:", ":1", "[::1]:80", "1.2.3.4"}

func reqIPStream(g *hx.Gen, id int) hx.Case {
	req, _ := http.NewRequest("GET", "http://h/", nil)
	draw := func(name string, pool []string) {
		k := g.Intn(4)
		if k == 3 {
			k = 1
		}
		for i := 0; i < k; i++ {
			req.Header.Add(name, g.Pick(pool))
		}
	}
	if g.Chance(35) {
		draw("cf-connecting-ip", []string{"", "1.2.3.4", " 1.2.3.4", "[::1]:80", "2001:db8::2"})
	}
	if g.Chance(55) {
		draw("X-Real-Ip", []string{"", "  ", "10.0.0.1", " 10.0.0.1:80 ", "[::1]:80", "[::1", ":80", "\t10.0.0.2\r\n", "a:b:c", "[", "[]", "]x[", " [fe80::1]:9\t"})
	}
	if g.Chance(55) {
		draw("X-Forwarded-For", []string{"", "a, b", " 1.1.1.1 , 2.2.2.2", ",x", " , ", "[fe80::1]:1, z", "[bad, x", "3.3.3.3:80", "3.3.3.3", "\t4.4.4.4 ,", ":5, 6"})
	}
	req.RemoteAddr = g.Pick(fwRemoteAddrs)
	in := fwHeaderTokens(req.Header, false)
	in = append(in, fwRemoteTokens(req.RemoteAddr)...)
	impl := hx.Guard(func() []string { return []string{"ok", hx.X(util.RequestIP(req))} })
	return hx.Case{Stream: "reqip", ID: id, In: in, Impl: impl}
}

// ---------------------------------------------------------------- filter

// header-name classes; one casing variant per class is used in a map, so that no two raw keys
// share a canonical form (Go's map iteration order would otherwise be observable)
var fwNameClasses = [][]string{
	{"Accept", "accept", "ACCEPT", "aCCept"},
	{"X-Custom-Thing", "x-custom-thing", "X-CUSTOM-THING", "x-Custom-thing"},
	{"Connection", "connection", "CONNECTION"},
	{"Keep-Alive", "keep-alive", "Keep-alive"},
	{"Te", "TE", "te", "tE"},
	{"Trailers", "trailers"},
	{"Trailer", "trailer"},
	{"Transfer-Encoding", "transfer-encoding"},
	{"Upgrade", "upgrade", "UPGRADE"},
	{"Proxy-Authenticate", "proxy-authenticate"},
	{"Proxy-Authorization", "proxy-authorization", "Proxy-authorization"},
	{"Host", "host", "HOST"},
	{"Richie-Routing-Secret", "richie-routing-secret", "RICHIE-ROUTING-SECRET"},
	{"Richie-Request-Id", "Richie-Request-ID", "richie-request-id"},
	{"Richie-Originating-Ip", "Richie-Originating-IP", "richie-originating-ip"},
	{"X-A", "x-a"},
	{"X--B-", "x--b-"},
	{"-", "-x", "-X"},
	{"X_Under_score", "x_under_score"},
	{"A1-b2", "a1-B2"},
	{"Cookie", "cookie"},
	{"X Sp ace", "x sp ace"}, // not a token: never canonicalised
	{"X-Ütf", "x-ütf"},       // not a token
	{"x:colon"},
	{""},
}

var fwValuePool = []string{"", "v", "a, b", "text/html, application/json;q=0.9", "close", "keep-alive", "trailers", "x=1; y=2", "\"q,uoted\"", "W/\"etag\"", "0"}

func filterStream(g *hx.Gen, id int) hx.Case {
	h := http.Header{}
	for _, cl := range fwNameClasses {
		if !g.Chance(30) {
			continue
		}
		k := g.Pick(cl)
		n := g.Intn(4) // 0 = key with an empty value list
		vs := make([]string, n)
		for i := range vs {
			vs[i] = g.Pick(fwValuePool)
		}
		h[k] = vs
	}
	var names []string
	switch g.Intn(4) {
	case 0:
		names = []string{"Host", "Connection", "Keep-Alive", "Proxy-Authenticate", "Proxy-Authorization", "TE", "Trailers", "Transfer-Encoding", "Upgrade"}
	default:
		n := g.Intn(6)
		for i := 0; i < n; i++ {
			names = append(names, g.Pick(fwNameClasses[g.Intn(len(fwNameClasses))]))
		}
	}
	in := fwHeaderTokens(h, false)
	in = append(in, hx.I(len(names)))
	for _, n := range names {
		in = append(in, hx.X(n))
	}
	impl := hx.Guard(func() []string { return fwHeaderTokens(proxy.VerifFilterHeader(h, names), true) })
	return hx.Case{Stream: "filter", ID: id, In: in, Impl: impl}
}

// ---------------------------------------------------------------- preprocess

var fwOverrideKeys = []string{"accept", "x-custom-thing", "authorization", "connection", "host", "cookie", "x-new", "x--b-", "te", "x sp ace", "range", "user-agent"}

func fwGenOverrides(g *hx.Gen, keys []string, pct int) map[string]*string {
	if g.Chance(35) {
		return nil
	}
	m := map[string]*string{}
	for _, k := range keys {
		if !g.Chance(pct) {
			continue
		}
		if g.Chance(40) {
			m[k] = nil
		} else {
			v := g.Pick([]string{"", "forced", "a, b", "override.example"})
			m[k] = &v
		}
	}
	return m
}

func fwOverrideTokens(m map[string]*string) []string {
	keys := make([]string, 0, len(m))
	for k := range m {
		keys = append(keys, k)
	}
	sort.Strings(keys)
	t := []string{hx.I(len(keys))}
	for _, k := range keys {
		if m[k] == nil {
			t = append(t, hx.X(k), "0", hx.X(""))
		} else {
			t = append(t, hx.X(k), "1", hx.X(*m[k]))
		}
	}
	return t
}

func preprocessStream(g *hx.Gen, id int) hx.Case {
	req, _ := http.NewRequest("GET", "http://h/", nil)
	for _, cl := range fwNameClasses[:21] {
		if !g.Chance(30) {
			continue
		}
		k := cl[0] // canonical, as net/http hands headers over
		if g.Chance(10) {
			k = g.Pick(cl) // a map built by hand may hold any raw key
		}
		n := 1 + g.Intn(3)
		for i := 0; i < n; i++ {
			req.Header[k] = append(req.Header[k], g.Pick(fwValuePool))
		}
	}
	ov := fwGenOverrides(g, fwOverrideKeys, 30)
	in := fwHeaderTokens(req.Header, false)
	in = append(in, fwOverrideTokens(ov)...)
	impl := hx.Guard(func() []string { return fwHeaderTokens(server.VerifPreprocessHeaders(req, ov).Header, true) })
	return hx.Case{Stream: "preprocess", ID: id, In: in, Impl: impl}
}

// ---------------------------------------------------------------- proxyreq

type fwWireLine struct{ name, value string }

var fwWireOrdinary = [][]string{
	{"Accept", "accept", "ACCEPT", "aCcEpT"},
	{"Accept-Language", "accept-language"},
	{"User-Agent", "user-agent", "USER-AGENT"},
	{"X-Custom-Thing", "x-custom-thing", "X-CUSTOM-THING", "x-cUSTOM-tHING"},
	{"Cookie", "cookie"},
	{"Authorization", "authorization"},
	{"Range", "range"},
	{"If-None-Match", "if-none-match"},
	{"Cache-Control", "cache-control"},
	{"X-Forwarded-Proto", "x-forwarded-proto"},
	{"Trailer", "trailer"},
	{"ETag", "Etag", "etag"},
	{"X-A", "x-a"},
	{"Content-Length"},
}
var fwWireHop = [][]string{
	{"Connection", "connection", "CONNECTION"},
	{"Keep-Alive", "keep-alive", "Keep-alive"},
	{"Proxy-Authenticate", "proxy-authenticate"},
	{"Proxy-Authorization", "PROXY-AUTHORIZATION"},
	{"TE", "Te", "te"},
	{"Trailers", "trailers"},
	{"Upgrade", "upgrade"},
}
var fwWireIP = [][]string{
	{"CF-Connecting-IP", "cf-connecting-ip", "Cf-Connecting-Ip"},
	{"X-Real-Ip", "X-Real-IP", "x-real-ip"},
	{"X-Forwarded-For", "x-forwarded-for"},
}
var fwWireRichie = [][]string{
	{fwHSecret, "richie-routing-secret", "RICHIE-ROUTING-SECRET", "Richie-routing-Secret"},
	{fwHReqID, "Richie-Request-Id", "richie-request-id", "RICHIE-REQUEST-ID"},
	{fwHOrigIP, "Richie-Originating-Ip", "richie-originating-ip", "RICHIE-ORIGINATING-IP"},
}

func fwWireValue(g *hx.Gen, name string) string {
	switch strings.ToLower(name) {
	case "content-length":
		return "0"
	case "connection":
		return g.Pick([]string{"keep-alive", "close", "Upgrade", "keep-alive, TE"})
	case "te":
		return "trailers"
	case "upgrade":
		return "websocket"
	case "accept":
		return g.Pick([]string{"text/html, application/json;q=0.9", "*/*", "a,b", ""})
	case "cookie":
		return g.Pick([]string{"a=1; b=2", "s=x,y"})
	case "cf-connecting-ip":
		return g.Pick([]string{"192.0.2.1", "", "[::1]:9"})
	case "x-real-ip":
		return g.Pick([]string{"192.0.2.2", "192.0.2.2:8080", "[2001:db8::5]:80", "192.0.2.2", "[2001:db8::5]", "[2001:db8::5", ""})
	case "x-forwarded-for":
		return g.Pick([]string{"192.0.2.3, 10.0.0.1", "192.0.2.3", ", 10.0.0.1", "[::1]:4, x", "192.0.2.3:80,x", "10.0.0.1 , 10.0.0.2", "[::1, x"})
	case "x-forwarded-proto":
		return g.Pick([]string{"https", "http"})
	}
	return g.Pick([]string{"v1", "v2", "a, b", "x;y=\"1,2\"", "", "W/\"t\"", "bytes=0-1"})
}

var fwDestPool = []string{
	"http://d1.test/x", "https://d2.test:8443/p?q=1", "http://d3.test:/empty-port", "http://[::1]:8080/",
	"http://[::1]:/", "http://D4.TEST/Upper", "http://user:pw@d5.test/", "http://d6.test", "https://d7.test:443/a%20b",
}

func proxyReqStream(g *hx.Gen, id int) hx.Case {
	// ---- the client request on the wire
	method := g.Pick(hx.KnownMethods)
	if g.Chance(4) {
		method = g.Pick([]string{"PATCH", "get", "M-SEARCH"})
	}
	target := g.Pick([]string{"/", "/a/b?x=1", "/img/x.y", "*"})
	if target == "*" {
		method = "OPTIONS"
	}
	var lines []fwWireLine
	hostName := g.Pick([]string{"Host", "host", "HOST", "hOsT"})
	clientHost := g.Pick([]string{"h1.test", "h2.test:8080", "H1.Test", "[::1]:80"})
	hasHost := !g.Chance(5)
	add := func(classes [][]string, pct int, maxRep int) {
		for _, cl := range classes {
			if !g.Chance(pct) {
				continue
			}
			rep := 1
			if cl[0] != "Content-Length" && g.Chance(35) {
				rep = 1 + g.Intn(maxRep)
			}
			for i := 0; i < rep; i++ {
				n := g.Pick(cl)
				lines = append(lines, fwWireLine{n, fwWireValue(g, n)})
			}
		}
	}
	add(fwWireOrdinary, 25, 3)
	add(fwWireHop, 25, 2)
	add(fwWireIP, 25, 2)
	// the three internal headers: absent / empty / valid / rotated / invalid, once or twice
	secrets := [][]string{nil, nil, {}, {fwSecA}, {fwSecA, fwSecB}, {fwSecA, fwSecB}}[g.Intn(6)]
	richieMode := []int{0, 0, 0, 0, 1, 1, 1, 2, 2, 2}[g.Intn(10)] // 0 none, 1 coherent internal hop, 2 arbitrary
	for i, cl := range fwWireRichie {
		switch richieMode {
		case 0:
		case 1:
			var v string
			switch i {
			case 0:
				v = g.Pick([]string{fwSecA, fwSecB, fwSecA, fwSecA, fwSecB, fwSecBad})
			case 1:
				v = g.Pick([]string{"client-id-1", "6ba7b810-9dad-11d1-80b4-00c04fd430c8", ""})
			default:
				v = g.Pick([]string{"198.51.100.7", ""})
			}
			if g.Chance(80) {
				lines = append(lines, fwWireLine{g.Pick(cl), v})
			}
		default:
			if g.Chance(45) {
				rep := 1 + g.Intn(2)
				for k := 0; k < rep; k++ {
					var v string
					if i == 0 {
						v = g.Pick(fwSecretVals)
					} else {
						v = g.Pick([]string{"", "client-val-1", "client-val-2"})
					}
					lines = append(lines, fwWireLine{g.Pick(cl), v})
				}
			}
		}
	}
	// shuffle the header lines (Fisher-Yates on the case PRNG)
	for i := len(lines) - 1; i > 0; i-- {
		j := g.Intn(i + 1)
		lines[i], lines[j] = lines[j], lines[i]
	}
	var sb strings.Builder
	sb.WriteString(method + " " + target + " HTTP/1.1\r\n")
	if hasHost {
		sb.WriteString(hostName + ": " + clientHost + "\r\n")
	}
	for _, l := range lines {
		sep := ": "
		if g.Chance(10) {
			sep = ":"
		} else if g.Chance(10) {
			sep = ":  \t"
		}
		sb.WriteString(l.name + sep + l.value + "\r\n")
	}
	chunked := g.Chance(6)
	if chunked {
		sb.WriteString("Transfer-Encoding: chunked\r\n\r\n0\r\n\r\n")
	} else {
		sb.WriteString("\r\n")
	}
	remoteAddr := g.Pick(fwRemoteAddrs)

	// ---- the rule and the configuration
	ovKeys := []string{"accept", "x-custom-thing", "authorization", "connection", "host", "x-new", "user-agent", "x-real-ip"}
	ov := fwGenOverrides(g, ovKeys, 20)
	internal := g.Bool()
	hh := proxy.HostHeader{}
	switch g.Intn(5) {
	case 0:
		hh.Behavior = proxy.HostHeaderDefault
	case 1:
		hh.Behavior = proxy.HostHeaderOriginal
	case 2:
		hh.Behavior = proxy.HostHeaderDestination
	default:
		hh.Behavior = proxy.HostHeaderOverride
		hh.Override = g.Pick([]string{"override.example", "o.test:81", ""})
	}
	dest := g.Pick(fwDestPool)
	conf := &config.Config{RoutingSecrets: secrets}

	// ---- input tokens
	in := []string{hx.I(len(lines))}
	for _, l := range lines {
		in = append(in, hx.X(l.name), hx.X(l.value))
	}
	req, perr := http.ReadRequest(bufio.NewReader(strings.NewReader(sb.String())))
	u, uerr := url.Parse(dest)
	if perr != nil || uerr != nil {
		in = append(in, "0")
		return hx.Case{Stream: "proxyreq", ID: id, In: in, Impl: []string{"err:parse"}}
	}
	req.RemoteAddr = remoteAddr
	in = append(in, "1", hx.X(req.Method))
	in = append(in, fwHeaderTokens(req.Header, false)...)
	in = append(in, hx.X(req.Host))
	in = append(in, fwRemoteTokens(remoteAddr)...)
	in = append(in, fwOverrideTokens(ov)...)
	in = append(in, hx.B(internal), hx.I(int(hh.Behavior)), hx.X(hh.Override))
	in = append(in, fwSecretsTokens(secrets)...)
	if u2, err := url.Parse(u.String()); err != nil {
		in = append(in, "0", hx.X(""))
	} else {
		in = append(in, "1", hx.X(u2.Host))
	}
	impl := hx.Guard(func() []string {
		r2 := server.VerifPreprocessHeaders(req, ov)
		clientIDs := append([]string{}, r2.Header[textproto.CanonicalMIMEHeaderKey(fwHReqID)]...)
		preq, err := proxy.VerifCreateProxyRequest(nil, conf, r2, internal, hh, u)
		if err != nil {
			if _, ok := err.(*usererror.UserError); ok {
				return fwErrTokens(err)
			}
			return []string{"err:newrequest"}
		}
		out := []string{"ok", hx.X(preq.Method), hx.X(preq.Host), hx.X(preq.URL.Host)}
		return append(out, fwOutHeaderTokens(preq.Header, clientIDs)...)
	})
	// what the router determines as the client address (an input of the C04 oracle); computed
	// after the overrides, as createProxyRequest sees the request
	ipTok := hx.Guard(func() []string { return []string{"1", hx.X(util.RequestIP(req))} })
	if len(ipTok) == 1 {
		ipTok = []string{"0", hx.X("")}
	}
	in = append(in, ipTok...)
	return hx.Case{Stream: "proxyreq", ID: id, In: in, Impl: impl}
}
