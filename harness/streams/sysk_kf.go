package streams

import (
	"rrverif/harness/hx"
)

// kf.C11-d: the lock table is keyed by the entry NAME only, not by storage: a request in storage c2 is
// parked behind a request in storage c1 whose plain key has the same name as its opaque-origin key
// (C11-a collision "…opaqueOrigin"), is handed that UNFLAGGED key, fills with it, and - because
// re-keying by Origin value happens only for a key in hand that carries the opaque-origin flag - its
// Vary: Origin response stays under the name every Origin shares: the next site is served site A's
// response. (Found by the composed proof Props.C11SysCompose: briefStatement_false.)
func init() {
	register("kf.C11-d", skKfD)
}

func skKfD(g *hx.Gen, id int) hx.Case {
	mk := func(path, dest, cache string) hx.RuleSpec { return hx.RuleSpec{Path: path, Dest: dest, Cache: cache} }
	rs := []hx.RuleSpec{mk("/a/*", "http://d0.test/$1", "c1"), mk("/b/*", "http://d0.test/$1", "c2")}
	host := "h" + hx.I(900000+id) + ".test"
	seg := []string{"xvo", "vo"}[id%2]
	r1 := skReq{Method: "GET", Host: host, Target: "/a/" + seg + "opaqueOrigin"}
	r2 := skReq{Method: "GET", Host: host, Target: "/b/" + seg, Hdr: [][2]string{{"Origin", skOriginA}}}
	r3 := skReq{Method: "GET", Host: host, Target: "/b/" + seg, Hdr: [][2]string{{"Origin", skOriginB}}}
	return skRun("kf.C11-d", id, rs, []skStep{{kind: 'P', a: r1, b: r2}, {kind: 'R', a: r3}, {kind: 'R', a: r2}})
}
