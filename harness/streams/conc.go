package streams

import (
	"context"
	"io"
	"io/ioutil"
	"net/http"
	"net/http/httptest"
	"net/url"
	"strconv"
	"strings"
	"sync"
	"sync/atomic"

	"github.com/richiefi/rrrouter/caching"
	"github.com/richiefi/rrrouter/config"
	mets "github.com/richiefi/rrrouter/metrics"
	"github.com/richiefi/rrrouter/proxy"
	"github.com/richiefi/rrrouter/verifhook"

	"rrverif/harness/hx"
	"rrverif/harness/sysx"
)

// Free-running concurrency streams (no scheduler): many goroutines released from a barrier into
// the real code. They cannot prove anything and cannot reproduce an interleaving; they belong to
// the SEARCH for a failing input around the proved interleaving/lock theorems (C12) and the
// per-request isolation of the outgoing URL (C02). The model's answer is a constant.
func init() {
	register("concget", concGetStream)
	register("concroute", concRouteStream)
	register("conccopy", concCopyStream)
	register("concrefresh", concRefreshStream)
}

// concget: per round, 8 goroutines call the public Cache.Get for one fresh key at the same moment;
// exactly one may become the writer. Output: rounds, maximum number of writers seen in a round.
func concGetStream(g *hx.Gen, id int) hx.Case {
	rounds := 150
	impl := hx.Guard(func() []string {
		w := theWorld()
		maxWriters := 0
		for r := 0; r < rounds; r++ {
			req := httptest.NewRequest("GET", "http://h1.test/c/conc"+strconv.Itoa(id)+"-"+strconv.Itoa(r), nil)
			keys := caching.KeysFromRequest(req)
			const n = 8
			var start, done sync.WaitGroup
			start.Add(1)
			kinds := make([]caching.CacheResultKind, n)
			errs := make([]error, n)
			for i := 0; i < n; i++ {
				done.Add(1)
				go func(i int) {
					defer done.Done()
					start.Wait()
					ctx := context.WithValue(context.Background(), "metrics", mets.NewMetrics("x", nil, nil))
					cr, _, err := w.Cache.Get(ctx, "c1", 0, false, keys, httptest.NewRecorder(), sysx.Logger)
					kinds[i], errs[i] = cr.Kind, err
				}(i)
			}
			start.Done()
			done.Wait()
			writers := 0
			for i := 0; i < n; i++ {
				if errs[i] == nil && (kinds[i] == caching.NotFoundWriter || kinds[i] == caching.RevalidatingWriter) {
					writers++
				}
			}
			if writers > maxWriters {
				maxWriters = writers
			}
			w.Cache.Finish(keys[0], sysx.Logger) // release the round's lock entry, wake the waiters
			w.Quiesce()
		}
		return []string{hx.I(rounds), hx.I(maxWriters)}
	})
	return hx.Case{Stream: "concget", ID: id, In: []string{hx.I(rounds)}, Impl: impl}
}

type concPerformer struct {
	mu  sync.Mutex
	bad int
	n   int
}

func (p *concPerformer) CloseIdleConnections() {}
func (p *concPerformer) Do(req *http.Request) (*http.Response, error) {
	want := req.Header.Get("X-Own-Query")
	p.mu.Lock()
	p.n++
	if req.URL.RawQuery != want {
		p.bad++
	}
	p.mu.Unlock()
	return &http.Response{StatusCode: 200, Status: "200 OK", Proto: "HTTP/1.1", ProtoMajor: 1, ProtoMinor: 1,
		Header: http.Header{}, Body: http.NoBody, Request: req}, nil
}

// concroute: 8 goroutines route requests with DIFFERENT queries through one router at the same
// time; every outgoing request must carry its own query (C02: byte for byte, whatever else is in
// flight). Output: contacts, contacts that carried another request's query.
func concRouteStream(g *hx.Gen, id int) hx.Case {
	dest := []string{"http://d0.test/fixed", "http://d0.test/$1", "http://d0.test/p/$1"}[id%3]
	impl := hx.Guard(func() []string {
		rules, err := proxy.ParseRules(hx.RulesJSON([]hx.RuleSpec{{Path: "/q/*", Dest: dest}}), sysx.Logger)
		if err != nil {
			return []string{"err:rules"}
		}
		perf := &concPerformer{}
		router := proxy.NewRouterWithPerformer(rules, sysx.Logger, &config.Config{RetryTimes: []int{}}, perf)
		var wg sync.WaitGroup
		for k := 0; k < 8; k++ {
			wg.Add(1)
			go func(k int) {
				defer wg.Done()
				for i := 0; i < 300; i++ {
					q := "w=" + strconv.Itoa(k) + "&i=" + strconv.Itoa(i)
					req, _ := http.NewRequest("GET", "/q/x?"+q, nil)
					req.URL, _ = url.ParseRequestURI("/q/x?" + q)
					req.Host = "h1.test"
					req.Body = http.NoBody // the server never hands a nil Body to the router
					req.Header.Set("X-Own-Query", q)
					router.RouteRequest(context.Background(), req, nil, nil)
				}
			}(k)
		}
		wg.Wait()
		return []string{hx.I(perf.n), hx.I(perf.bad)}
	})
	return hx.Case{Stream: "concroute", ID: id, In: []string{hx.X(dest)}, Impl: impl}
}

// concrefresh: one goroutine refreshes an entry over and over (the entry expires, a revalidating
// writer stores the next version - another length, another validator - through <name>.tmp and
// rename) while 6 goroutines read it as plain hits (Cache.Get with skipRevalidate, then the body
// through the descriptor they were handed, as server.sendBody does). A hit must be ONE stored
// response: the validator in its metadata, its Size and its bytes belong to the same version
// (C07). Output: refreshes done, hits read, hits whose parts belong to different versions.
func concRefreshStream(g *hx.Gen, id int) hx.Case {
	rounds := 1200
	impl := hx.Guard(func() []string {
		w := theWorld()
		verifhook.SetClock(func() int64 { return w.NowUnix() })
		defer verifhook.SetClock(nil)
		req := httptest.NewRequest("GET", "http://h1.test/c/refresh"+strconv.Itoa(id), nil)
		keys := caching.KeysFromRequest(req)
		body := func(v int) []byte {
			return []byte("refresh-body-v" + strconv.Itoa(v) + "-" + strings.Repeat("x", 10+v%7*13))
		}
		ctx := func() context.Context {
			return context.WithValue(context.Background(), "metrics", mets.NewMetrics("x", nil, nil))
		}
		store := func(v int) bool {
			cr, _, err := w.Cache.Get(ctx(), "c1", 0, false, keys, httptest.NewRecorder(), sysx.Logger)
			if err != nil || cr.Writer == nil {
				return false
			}
			h := cr.Writer.Header()
			h.Set("Cache-Control", "max-age=100")
			h.Set("ETag", "\"v"+strconv.Itoa(v)+"\"")
			h.Set("Content-Length", strconv.Itoa(len(body(v))))
			cr.Writer.WriteHeader(200)
			cr.Writer.Write(body(v))
			if c, ok := cr.Writer.(io.Closer); ok {
				c.Close()
			}
			w.Cache.Finish(keys[0], sysx.Logger)
			return true
		}
		if !store(1) {
			return []string{"err:first-fill"}
		}
		var stop int32
		var hits, torn int64
		var wg sync.WaitGroup
		for i := 0; i < 6; i++ {
			wg.Add(1)
			go func() {
				defer wg.Done()
				for atomic.LoadInt32(&stop) == 0 {
					cr, _, err := w.Cache.Get(ctx(), "c1", 0, true, keys, httptest.NewRecorder(), sysx.Logger)
					if err != nil || cr.Kind != caching.Found || cr.Reader == nil {
						if cr.Reader != nil {
							cr.Reader.Close()
						}
						continue
					}
					b, _ := ioutil.ReadAll(io.LimitReader(cr.Reader, cr.Metadata.Size))
					cr.Reader.Close()
					v, _ := strconv.Atoi(strings.Trim(cr.Metadata.Header.Get("Etag"), "\"v"))
					atomic.AddInt64(&hits, 1)
					if string(b) != string(body(v)) {
						atomic.AddInt64(&torn, 1)
					}
				}
			}()
		}
		done := 0
		for v := 2; v < 2+rounds; v++ {
			w.Advance(1000) // the entry expires: the next Get without skipRevalidate revalidates
			if store(v) {
				done++
			}
		}
		atomic.StoreInt32(&stop, 1)
		wg.Wait()
		w.Quiesce()
		t := atomic.LoadInt64(&torn)
		label := "0"
		if t > 0 {
			label = "1"
		}
		_ = hits
		// the numbers of refreshes and hits depend on the machine; only "any torn hit" is compared
		return []string{label}
	})
	return hx.Case{Stream: "concrefresh", ID: id, In: []string{hx.I(rounds)}, Impl: impl}
}

// conccopy (C20): 8 goroutines send GET and POST requests for ONE url through one router at the same time, each the way
// the server does it (GetRoutingFlavors, then RouteRequest); a copy rule mirrors POST and PUT only. Every POST is
// copied exactly once, no GET ever is, every request reaches the proxy destination (free-running: search support;
// seeded change C20-m8: a one-slot match memo between the two calls, keyed without the method).
// Output: requests, proxy contacts, copy contacts, copy contacts with a method the copy rule excludes, POSTs sent.
type concCopyPerformer struct {
	mu                   sync.Mutex
	proxy, copies, wrong int
}

func (p *concCopyPerformer) CloseIdleConnections() {}
func (p *concCopyPerformer) Do(req *http.Request) (*http.Response, error) {
	p.mu.Lock()
	if req.URL.Host == "c0.test" {
		p.copies++
		if req.Method != "POST" && req.Method != "PUT" {
			p.wrong++
		}
	} else {
		p.proxy++
	}
	p.mu.Unlock()
	return &http.Response{StatusCode: 200, Status: "200 OK", Proto: "HTTP/1.1", ProtoMajor: 1, ProtoMinor: 1,
		Header: http.Header{}, Body: http.NoBody, Request: req}, nil
}

func concCopyStream(g *hx.Gen, id int) hx.Case {
	impl := hx.Guard(func() []string {
		ct := "copy_traffic"
		rules, err := proxy.ParseRules(hx.RulesJSON([]hx.RuleSpec{
			{Path: "/q/*", Dest: "http://c0.test/cp/$1", Type: &ct, Methods: []string{"POST", "PUT"}},
			{Path: "/q/*", Dest: "http://d0.test/$1"}}), sysx.Logger)
		if err != nil {
			return []string{"err:rules"}
		}
		perf := &concCopyPerformer{}
		router := proxy.NewRouterWithPerformer(rules, sysx.Logger, &config.Config{RetryTimes: []int{}}, perf)
		var wg sync.WaitGroup
		posts := 0
		for k := 0; k < 8; k++ {
			wg.Add(1)
			method := []string{"GET", "POST"}[k%2]
			if method == "POST" {
				posts += 200
			}
			go func(method string) {
				defer wg.Done()
				for i := 0; i < 200; i++ {
					req, _ := http.NewRequest(method, "/q/x", nil)
					req.URL, _ = url.ParseRequestURI("/q/x")
					req.Host = "h1.test"
					req.Body = http.NoBody
					router.GetRoutingFlavors(req)
					router.RouteRequest(context.Background(), req, nil, nil)
				}
			}(method)
		}
		wg.Wait()
		return []string{"1600", hx.I(perf.proxy), hx.I(perf.copies), hx.I(perf.wrong), hx.I(posts)}
	})
	return hx.Case{Stream: "conccopy", ID: id, In: []string{hx.I(id % 4)}, Impl: impl}
}
