package streams

// Stream `limgo` (C16, C17): op sequences against a REAL storage (caching.NewDiskStorage) whose
// size-limiter goroutine (runSizeLimiter, disk.go:530-637) is running.  Nothing of the loop is
// transcribed here: fills go through GetWriter → (ChangeKey) → WriteHeader → Write → Close
// (closeFinisher sends opAdd), hits through storage.Get (setAccessTime sends opAccessTime), the
// flush tick is the ticker's send (VerifLimiter.SendFlush), a restart is a new NewDiskStorage on the
// same directory (readFiles + readStorableAccessTimes run in the new goroutine).
//
// Synchronisation: the goroutine parks at the hook point `limiter.loop` before every receive.  After
// an action the harness lets it run exactly one iteration per queued item (ChanLen) and waits until
// it is back at the hook point; the limiter's state is read only while it is parked.  No sleeps.
// Clock: verifhook.SetClock (startedAt, closeFinisher, setAccessTime).  The gate of the loop reads
// the real monotonic clock: VerifLimiterPeriod = 1 ns opens it at every iteration (mode 0), 24 h
// only at the first iteration of a storage's life (mode 1).
//
// Input tokens:  max start logSize mode  nPre (path size)*  nOps op*
//   op: 0 name size dt (fill) | 1 name dt (hit) | 2 dt (flush tick) | 3 name size (regrow by a
//       200-revalidation) | 4 name (delete behind the limiter's back) | 5 dt mode (restart) | 6 max (Update)
// Implementation tokens:
//   S <state> <files>
//   F n [<iter>] | H n [<iter>] | L 1 <iter> hasAtimes atimes | G did | D did | R <state> <files> | M
//   E <state> <files> hasAtimes atimes
//   n       = items the limiter received for the op (0 or 1)
//   <iter>  = before nRemoved name* <state> <files>     (before: bytes stored when the iteration starts)
//   <state> = sizeBytes nWith (name atime kb)* nWithout (name kb)* nStorable (name unix kb)* disk
//   <files> = n (path size)*      (all regular files except the access-time log)

import (
	"context"
	"net/http"
	"net/url"
	"os"
	"path/filepath"
	"sort"
	"sync"
	"sync/atomic"
	"time"

	"github.com/c2h5oh/datasize"
	"github.com/richiefi/rrrouter/caching"
	"github.com/richiefi/rrrouter/verifhook"

	"rrverif/harness/hx"
)

func init() {
	register("limgo", limgoStream)
}

const (
	lgPlain  = 0 // request without Origin: one key
	lgOpaque = 1 // request with Origin, response does not vary: stored under the opaque-origin key (keys[1])
	lgVary   = 2 // request with Origin, response with Vary: Origin: writer opened for the opaque key, re-keyed to keys[0]
)

type lgEntry struct {
	kind  int
	host  string
	path  string
	keys  []caching.Key
	store caching.Key // the key the entry is stored under
	open  caching.Key // the key the writer is opened with
	name  string      // store.FsName()
}

func lgMkEntry(kind int, host, path string) lgEntry {
	r := &http.Request{Method: "GET", Host: host, URL: &url.URL{Path: path}, Header: http.Header{}}
	if kind != lgPlain {
		r.Header.Set("Origin", "https://site.example")
	}
	e := lgEntry{kind: kind, host: host, path: path, keys: caching.KeysFromRequest(r)}
	switch kind {
	case lgPlain:
		e.store, e.open = e.keys[0], e.keys[0]
	case lgOpaque:
		e.open = caching.VerifNotFoundPreferredKey(e.keys)
		e.store = e.open
	default:
		e.open = caching.VerifNotFoundPreferredKey(e.keys)
		e.store = e.keys[0]
	}
	e.name = e.store.FsName()
	return e
}

type lgOp struct {
	kind int
	ent  int
	size int64
	dt   int64
	mode int
	max  int64
	via  int // delete: 0 = os.Remove, 1 = storage.Get's self-heal on a damaged file
}

type lgScript struct {
	max, start int64
	logSize    int64
	mode       int
	pre        []limFile
	ents       []lgEntry
	ops        []lgOp
}

const (
	lgOpFill = iota
	lgOpHit
	lgOpFlush
	lgOpRegrow
	lgOpDelete
	lgOpRestart
	lgOpSetMax
)

func (s lgScript) tokens() []string {
	t := []string{hx.I64(s.max), hx.I64(s.start), hx.I64(s.logSize), hx.I(s.mode), hx.I(len(s.pre))}
	for _, f := range s.pre {
		t = append(t, hx.X(f.path), hx.I64(f.size))
	}
	t = append(t, hx.I(len(s.ops)))
	for _, o := range s.ops {
		switch o.kind {
		case lgOpFill:
			t = append(t, "0", hx.X(s.ents[o.ent].name), hx.I64(o.size), hx.I64(o.dt))
		case lgOpHit:
			t = append(t, "1", hx.X(s.ents[o.ent].name), hx.I64(o.dt))
		case lgOpFlush:
			t = append(t, "2", hx.I64(o.dt))
		case lgOpRegrow:
			t = append(t, "3", hx.X(s.ents[o.ent].name), hx.I64(o.size))
		case lgOpDelete:
			t = append(t, "4", hx.X(s.ents[o.ent].name))
		case lgOpRestart:
			t = append(t, "5", hx.I64(o.dt), hx.I(o.mode))
		case lgOpSetMax:
			t = append(t, "6", hx.I64(o.max))
		}
	}
	return t
}

// ---- the controller of the limiter goroutines ----

type lgCtl struct {
	parked  chan struct{}
	release chan struct{}
}

var (
	lgCtls   sync.Map // storage id -> *lgCtl
	lgSeq    int64
	lgRetMu  sync.Mutex
	lgRetire []string
)

func lgHandler(name, key string) {
	if name != "limiter.loop" {
		return
	}
	if v, ok := lgCtls.Load(key); ok {
		c := v.(*lgCtl)
		c.parked <- struct{}{}
		<-c.release
	}
}

const lgWatchdog = 60 * time.Second // not a synchronisation: a wedged limiter becomes a `stall` token

type lgLife struct {
	id   string
	st   caching.Storage
	view *caching.VerifLimiter
	ctl  *lgCtl
}

func (l *lgLife) waitParked() bool {
	select {
	case <-l.ctl.parked:
		return true
	case <-time.After(lgWatchdog):
		return false
	}
}

// drain lets the goroutine run one iteration per queued item; returns the number of iterations.
func (l *lgLife) drain() (int, bool) {
	n := 0
	for l.view.ChanLen() > 0 {
		l.ctl.release <- struct{}{}
		if !l.waitParked() {
			return n, false
		}
		n++
		if n > 16 {
			break
		}
	}
	return n, true
}

// end: the goroutine leaves its loop after one more item (SetIsReplaced is only looked at there).
func (l *lgLife) end() {
	l.st.SetIsReplaced()
	l.view.SendFlush()
	lgCtls.Delete(l.id)
	select {
	case l.ctl.release <- struct{}{}:
	case <-time.After(time.Second):
	}
}

func lgFilesTokens(dir string) []string {
	_, files := limDiskState(dir)
	t := []string{hx.I(len(files))}
	for _, f := range files {
		t = append(t, hx.X(f.path), hx.I64(f.size))
	}
	return t
}

func lgRetireDir(d string) {
	lgRetMu.Lock()
	lgRetire = append(lgRetire, d)
	var old string
	if len(lgRetire) > 8 {
		old, lgRetire = lgRetire[0], lgRetire[1:]
	}
	lgRetMu.Unlock()
	if old != "" {
		os.RemoveAll(old)
	}
}

func runLimgoScript(s lgScript) []string {
	dir, err := os.MkdirTemp("", "rrlimgo")
	if err != nil {
		return []string{"err:tmpdir"}
	}
	defer lgRetireDir(dir)
	oldLog, hadLog := os.LookupEnv("ATIME_LOG_SIZE_BYTES")
	if s.logSize >= 0 {
		os.Setenv("ATIME_LOG_SIZE_BYTES", hx.I64(s.logSize))
	} else {
		os.Unsetenv("ATIME_LOG_SIZE_BYTES")
	}
	os.Setenv("ATIME_DISABLE", "true") // no ticker, no signal listener: flush ticks are sent by the script
	oldPeriod := caching.VerifLimiterPeriod
	var now int64 = s.start
	verifhook.SetClock(func() int64 { return atomic.LoadInt64(&now) })
	verifhook.SetHandler(lgHandler)
	lives := []*lgLife{}
	defer func() {
		for _, l := range lives {
			l.end()
		}
		verifhook.SetHandler(nil)
		verifhook.SetClock(nil)
		caching.VerifLimiterPeriod = oldPeriod
		if hadLog {
			os.Setenv("ATIME_LOG_SIZE_BYTES", oldLog)
		} else {
			os.Unsetenv("ATIME_LOG_SIZE_BYTES")
		}
	}()
	for _, f := range s.pre {
		if err := limWriteSized(filepath.Join(dir, f.path), f.size); err != nil {
			return []string{"err:prefile"}
		}
	}
	clock := func() time.Time { return time.Unix(atomic.LoadInt64(&now), 0) }
	max := s.max
	out := []string{}
	var cur *lgLife

	start := func(tag string, mode int) bool {
		if mode == 0 {
			caching.VerifLimiterPeriod = time.Nanosecond
		} else {
			caching.VerifLimiterPeriod = 24 * time.Hour
		}
		id := "limgo-" + hx.I64(atomic.AddInt64(&lgSeq, 1))
		c := &lgCtl{parked: make(chan struct{}), release: make(chan struct{})}
		lgCtls.Store(id, c)
		st := caching.NewDiskStorage(id, dir, max, Logger, clock)
		l := &lgLife{id: id, st: st, view: caching.VerifStorageView(st), ctl: c}
		lives = append(lives, l)
		cur = l
		if l.view == nil || !l.waitParked() { // start-up scan done, the goroutine is before its first receive
			out = append(out, tag, "stall")
			return false
		}
		out = append(out, tag)
		out = append(out, limStateTokens(l.view, dir)...)
		out = append(out, lgFilesTokens(dir)...)
		return true
	}

	// iterate: the goroutine consumes what the action queued; what the iteration did to the directory
	iterate := func(tag string) bool {
		before, filesBefore := limDiskState(dir)
		n, ok := cur.drain()
		if !ok {
			out = append(out, tag, "stall")
			return false
		}
		out = append(out, tag, hx.I(n))
		if n == 0 {
			return true
		}
		_, filesAfter := limDiskState(dir)
		have := map[string]bool{}
		for _, f := range filesAfter {
			have[f.path] = true
		}
		removed := []string{}
		for _, f := range filesBefore {
			if !have[f.path] {
				removed = append(removed, f.path)
			}
		}
		sort.Strings(removed)
		out = append(out, hx.I64(before), hx.I(len(removed)))
		for _, r := range removed {
			out = append(out, hx.X(r))
		}
		out = append(out, limStateTokens(cur.view, dir)...)
		out = append(out, lgFilesTokens(dir)...)
		return true
	}

	if !start("S", s.mode) {
		return out
	}
	for _, o := range s.ops {
		switch o.kind {
		case lgOpFill:
			atomic.AddInt64(&now, o.dt)
			e := s.ents[o.ent]
			if _, err := os.Stat(filepath.Join(dir, e.name)); err == nil {
				out = append(out, "F", "0") // the look-up that precedes a fill would have hit
				continue
			}
			w := cur.st.GetWriter(e.open, false, nil)
			if w == nil {
				out = append(out, "F", "0")
				continue
			}
			h := http.Header{}
			h.Set("Cache-Control", "max-age=600")
			if e.kind == lgVary {
				h.Set("Vary", "Origin")
				// server.go:458-467: the response varies by origin and the writer holds the opaque key
				for _, k := range e.keys {
					if k.HasFullOrigin() {
						if err := w.ChangeKey(k); err != nil {
							return append(out, "err:changekey")
						}
					}
				}
			}
			w.WriteHeader(200, h)
			if _, err := w.Write(make([]byte, o.size)); err != nil {
				return append(out, "err:write")
			}
			w.Close()
			if !iterate("F") {
				return out
			}
		case lgOpHit:
			atomic.AddInt64(&now, o.dt)
			e := s.ents[o.ent]
			f, _, _, err := cur.st.Get(context.Background(), e.keys)
			if err == nil && f != nil {
				f.Close()
			}
			if !iterate("H") {
				return out
			}
		case lgOpFlush:
			atomic.AddInt64(&now, o.dt)
			cur.view.SendFlush()
			if !iterate("L") {
				return out
			}
			b, err := os.ReadFile(filepath.Join(dir, "atimes"))
			out = append(out, hx.B(err == nil), hx.X(string(b)))
		case lgOpRegrow:
			e := s.ents[o.ent]
			if fi, err := os.Stat(filepath.Join(dir, e.name)); err != nil || fi.IsDir() {
				out = append(out, "G", "0")
				continue
			}
			w := cur.st.GetWriter(e.store, true, nil) // a 200 answer to a revalidation rewrites the entry
			if w == nil {
				out = append(out, "G", "0")
				continue
			}
			h := http.Header{}
			h.Set("Cache-Control", "max-age=600")
			w.WriteHeader(200, h)
			if _, err := w.Write(make([]byte, o.size)); err != nil {
				return append(out, "err:write")
			}
			w.Close()
			out = append(out, "G", "1")
			if n, _ := cur.drain(); n != 0 { // closeFinisher returns early on revalidate: nothing is queued
				out = append(out, "unexpected-items", hx.I(n))
			}
		case lgOpDelete:
			e := s.ents[o.ent]
			p := filepath.Join(dir, e.name)
			fi, err := os.Stat(p)
			if err != nil {
				out = append(out, "D", "0")
				continue
			}
			if o.via == 1 {
				// a damaged file (size on disk != recorded size): storage.Get removes it and reports a miss
				os.Truncate(p, fi.Size()+1)
				f, _, _, err := cur.st.Get(context.Background(), e.keys)
				if err == nil && f != nil {
					f.Close()
				}
				if n, _ := cur.drain(); n != 0 {
					out = append(out, "unexpected-items", hx.I(n))
				}
				_, err = os.Stat(p)
				out = append(out, "D", hx.B(err != nil))
			} else {
				err := os.Remove(p)
				out = append(out, "D", hx.B(err == nil))
			}
		case lgOpRestart:
			atomic.AddInt64(&now, o.dt)
			// the old storage stays parked (its goroutine would only leave the loop after one more op)
			if !start("R", o.mode) {
				return out
			}
		case lgOpSetMax:
			max = o.max
			cur.st.Update(caching.StorageConfiguration{Id: cur.id, Path: dir, Size: datasize.ByteSize(o.max)})
			out = append(out, "M")
		}
	}
	out = append(out, "E")
	out = append(out, limStateTokens(cur.view, dir)...)
	out = append(out, lgFilesTokens(dir)...)
	b, err := os.ReadFile(filepath.Join(dir, "atimes"))
	out = append(out, hx.B(err == nil), hx.X(string(b)))
	return out
}

var lgHosts = []string{"a.example", "b.example"}
var lgPaths = []string{"/img/1.png", "/img/2.png", "/css/site.css", "/js/app.js", "/index.html", "/v/clip.mp4", "/api/list", "/font.woff"}
var lgKBSizes = []int64{1024, 2048, 4096, 4096, 8192, 65536, 1 << 20}
var lgAnySizes = []int64{1, 1023, 1024, 1025, 2047, 4096, 5000, 8192, 65536, 1 << 20}
var lgDts = []int64{0, 1, 1, 2, 3, 5, 7, 30}

// genLimgoDirected: the shape of a cache's life the property speaks about — warm up, use, flush (with a log
// small enough to be trimmed), restart, then use under space pressure.  Still drawn from g.
func genLimgoDirected(g *hx.Gen) lgScript {
	s := lgScript{start: 1700000000 + int64(g.Intn(1000)), logSize: -1}
	if g.Chance(60) {
		s.logSize = []int64{50, 100, 120, 200, 400}[g.Intn(5)]
	}
	nEnts := 3 + g.Intn(3)
	used := map[string]bool{}
	for len(s.ents) < nEnts {
		kind := lgPlain
		switch r := g.Intn(100); {
		case r < 20:
			kind = lgOpaque
		case r < 40:
			kind = lgVary
		}
		h, p := lgHosts[g.Intn(len(lgHosts))], lgPaths[g.Intn(len(lgPaths))]
		if used[h+p] {
			continue
		}
		used[h+p] = true
		s.ents = append(s.ents, lgMkEntry(kind, h, p))
	}
	unit := []int64{2048, 4096, 4096, 8192}[g.Intn(4)]
	s.max = unit * int64(2+g.Intn(nEnts-1))
	dt := func() int64 { return 1 + int64(g.Intn(6)) }
	warm := 2 + g.Intn(nEnts-1)
	for i := 0; i < warm; i++ {
		s.ops = append(s.ops, lgOp{kind: lgOpFill, ent: i, size: unit, dt: dt()})
	}
	use := func(k int, fills bool) {
		for i := 0; i < k; i++ {
			switch r := g.Intn(100); {
			case r < 55:
				s.ops = append(s.ops, lgOp{kind: lgOpHit, ent: g.Intn(nEnts), dt: dt()})
			case r < 75:
				s.ops = append(s.ops, lgOp{kind: lgOpFlush, dt: dt()})
			case r < 80 && fills:
				s.ops = append(s.ops, lgOp{kind: lgOpDelete, ent: g.Intn(nEnts), via: g.Intn(2)})
			default:
				if fills {
					s.ops = append(s.ops, lgOp{kind: lgOpFill, ent: g.Intn(nEnts), size: unit, dt: dt()})
				} else {
					s.ops = append(s.ops, lgOp{kind: lgOpHit, ent: g.Intn(nEnts), dt: dt()})
				}
			}
		}
	}
	lives := 1 + g.Intn(3)
	for l := 0; l < lives; l++ {
		use(2+g.Intn(6), l > 0 || g.Chance(30))
		if l < lives-1 {
			s.ops = append(s.ops, lgOp{kind: lgOpFlush, dt: 1})
			s.ops = append(s.ops, lgOp{kind: lgOpRestart, dt: dt()})
		}
	}
	// space pressure at the end: new entries, or a lower limit and any op
	if g.Chance(30) {
		s.ops = append(s.ops, lgOp{kind: lgOpSetMax, max: unit * int64(1+g.Intn(2))})
		s.ops = append(s.ops, lgOp{kind: lgOpHit, ent: g.Intn(nEnts), dt: dt()})
	}
	for i := 0; i < 1+g.Intn(4); i++ {
		s.ops = append(s.ops, lgOp{kind: lgOpFill, ent: g.Intn(nEnts), size: unit, dt: dt()})
	}
	s.ops = append(s.ops, lgOp{kind: lgOpFlush, dt: dt()})
	return s
}

func genLimgoScript(g *hx.Gen) lgScript {
	profile := g.Intn(7) // 0,1: clean sizes, no behind-the-back ops; 2: clean sizes, restarts; 3,4: everything; 5,6: directed
	if profile >= 5 {
		return genLimgoDirected(g)
	}
	s := lgScript{start: 1700000000 + int64(g.Intn(1000)), logSize: -1}
	if g.Chance(25) {
		s.mode = 1
	}
	clean := profile <= 1
	sizes := lgAnySizes
	if profile <= 2 || g.Bool() {
		sizes = lgKBSizes
	}
	pickSize := func() int64 {
		if g.Chance(80) {
			return sizes[g.Intn(min(5, len(sizes)))]
		}
		return sizes[g.Intn(len(sizes))]
	}
	nEnts := 2 + g.Intn(6)
	used := map[string]bool{}
	for len(s.ents) < nEnts {
		kind := lgPlain
		switch r := g.Intn(100); {
		case r < 22:
			kind = lgOpaque
		case r < 44:
			kind = lgVary
		}
		h, p := lgHosts[g.Intn(len(lgHosts))], lgPaths[g.Intn(len(lgPaths))]
		if used[h+p] {
			continue
		}
		used[h+p] = true
		s.ents = append(s.ents, lgMkEntry(kind, h, p))
	}
	if !clean && g.Chance(25) {
		// (no stray atimes-truncated here: a trimming flush consumes it inside the same iteration as the
		// pass, and an observer of the directory cannot tell the two apart; stream `limiter` covers it)
		odd := []limFile{{"x.tmp", 700}, {"zz/qrs7", 4096}, {".healthcheck", 0}, {"q/r/s/qrs8", 1024}, {"y/qrs9.bak", 2048}}
		k := 1 + g.Intn(2)
		for i := 0; i < k; i++ {
			f := odd[g.Intn(len(odd))]
			dup := false
			for _, e := range s.pre {
				if e.path == f.path {
					dup = true
				}
			}
			if !dup {
				s.pre = append(s.pre, f)
			}
		}
	}
	limits := []int64{0, 3000, 4096, 8192, 8192, 12288, 16384, 20000, 1 << 20, 3 << 20, 1 << 30}
	s.max = limits[g.Intn(len(limits))]
	if profile >= 2 && g.Chance(40) {
		s.logSize = []int64{0, 1, 50, 100, 120, 200, 1000}[g.Intn(7)]
	}
	nOps := 1 + g.Intn(50)
	for i := 0; i < nOps; i++ {
		dt := lgDts[g.Intn(len(lgDts))]
		e := g.Intn(nEnts)
		r := g.Intn(100)
		switch {
		case r < 34:
			s.ops = append(s.ops, lgOp{kind: lgOpFill, ent: e, size: pickSize(), dt: dt})
		case r < 58:
			s.ops = append(s.ops, lgOp{kind: lgOpHit, ent: e, dt: dt})
		case r < 70:
			s.ops = append(s.ops, lgOp{kind: lgOpFlush, dt: dt})
		case r < 76:
			s.ops = append(s.ops, lgOp{kind: lgOpSetMax, max: limits[g.Intn(len(limits))]})
		case r < 81:
			if clean {
				s.ops = append(s.ops, lgOp{kind: lgOpFlush, dt: dt})
			} else {
				s.ops = append(s.ops, lgOp{kind: lgOpRegrow, ent: e, size: pickSize()})
			}
		case r < 88:
			if clean {
				s.ops = append(s.ops, lgOp{kind: lgOpHit, ent: e, dt: dt})
			} else {
				s.ops = append(s.ops, lgOp{kind: lgOpDelete, ent: e, via: g.Intn(2)})
			}
		default:
			if profile <= 1 {
				s.ops = append(s.ops, lgOp{kind: lgOpFill, ent: e, size: pickSize(), dt: dt})
			} else {
				if g.Chance(75) { // the property's histories restart after a flush
					s.ops = append(s.ops, lgOp{kind: lgOpFlush, dt: 1})
				}
				m := 0
				if g.Chance(25) {
					m = 1
				}
				s.ops = append(s.ops, lgOp{kind: lgOpRestart, dt: 1 + dt, mode: m})
			}
		}
	}
	return s
}

func limgoStream(g *hx.Gen, id int) hx.Case {
	s := genLimgoScript(g)
	impl := hx.Guard(func() []string { return runLimgoScript(s) })
	return hx.Case{Stream: "limgo", ID: id, In: s.tokens(), Impl: impl}
}
