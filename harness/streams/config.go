package streams

// C19 — configuration parsing and reload.
//
//	config     one generated document tree, rendered to block YAML (scalars quoted so that YAML
//	           keeps their type), to JSON (which ParseRules also reads through the YAML parser)
//	           and to JSON behind a key no YAML parser accepts (the json.Unmarshal fallback);
//	           public proxy.ParseRules / caching.ParseStorageConfigs on each text; canonical rule
//	           dump; a batch of queries routed under every spelling.
//	configraw  the same trees with plain (unquoted) YAML scalars: the tree the model is given is
//	           the one yaml.Unmarshal really produced; agreement with the JSON spelling is
//	           reported in the label only (differential).
//	reqpath    an accepted configuration × one request through destinationString (DropPort),
//	           Rules.Match and createProxyRequest (secrets[0]).
//	reload     the reload state machine: the real ParseRules / SetRules / ParseStorageConfigs /
//	           SetStorageConfigs driven in the order read off configReloader's source.
//	kf.C19-*   fixed witnesses of the known findings (kf.C19-d) and, as regression cases that must
//	           pass, of the repaired ones (kf.C19-a, kf.C19-b, kf.C19-host).

import (
	"encoding/json"
	"errors"
	"fmt"
	"go/ast"
	"go/parser"
	"go/token"
	"net/http"
	"net/url"
	"os"
	"sort"
	"strconv"
	"strings"
	"sync/atomic"
	"time"

	apexlog "github.com/apex/log"
	yaml "gopkg.in/yaml.v2"

	"github.com/richiefi/rrrouter/caching"
	"github.com/richiefi/rrrouter/config"
	"github.com/richiefi/rrrouter/proxy"
	"github.com/richiefi/rrrouter/util"

	"rrverif/harness/hx"
)

func init() {
	register("config", func(g *hx.Gen, id int) hx.Case { return configCase(g, id, "config", false) })
	register("configraw", func(g *hx.Gen, id int) hx.Case { return configCase(g, id, "configraw", true) })
	register("reqpath", func(g *hx.Gen, id int) hx.Case { return reqPathCase("reqpath", id, genReqPath(g)) })
	register("reload", func(g *hx.Gen, id int) hx.Case { return reloadCase("reload", id, genReloadScript(g)) })
	register("kf.C19-a", func(g *hx.Gen, id int) hx.Case { return reloadCase("kf.C19-a", id, kfReloadA[id%len(kfReloadA)]()) })
	register("kf.C19-b", func(g *hx.Gen, id int) hx.Case { return reloadCase("kf.C19-b", id, kfReloadB[id%len(kfReloadB)]()) })
	register("kf.C19-d", func(g *hx.Gen, id int) hx.Case { return reloadCase("kf.C19-d", id, kfReloadD[id%len(kfReloadD)]()) })
	register("kf.C19-host", func(g *hx.Gen, id int) hx.Case { return reqPathCase("kf.C19-host", id, kfHost[id%len(kfHost)]()) })
}

// ------------------------------------------------------------------------------------------
// document trees

type ckind int

const (
	cNull ckind = iota
	cBool
	cInt
	cOther
	cStr
	cList
	cMap
)

type cnode struct {
	k   ckind
	b   bool
	i   int64
	s   string // cStr: the string; cOther: what fmt's %v prints for the parsed Go value
	lit string // cOther: the literal written into the documents
	l   []*cnode
	m   []centry
}

type centry struct {
	k *cnode
	v *cnode
}

func nNull() *cnode            { return &cnode{k: cNull} }
func nBool(b bool) *cnode      { return &cnode{k: cBool, b: b} }
func nInt(i int64) *cnode      { return &cnode{k: cInt, i: i} }
func nStr(s string) *cnode     { return &cnode{k: cStr, s: s} }
func nList(l ...*cnode) *cnode { return &cnode{k: cList, l: l} }
func nMap(kv ...interface{}) *cnode {
	n := &cnode{k: cMap}
	for i := 0; i+1 < len(kv); i += 2 {
		var k *cnode
		switch x := kv[i].(type) {
		case string:
			k = nStr(x)
		case *cnode:
			k = x
		}
		n.m = append(n.m, centry{k, kv[i+1].(*cnode)})
	}
	return n
}

// nOther: a number that is not a Go int (a float, or an integer beyond int64).
func nOther(lit string) *cnode {
	if u, err := strconv.ParseUint(lit, 10, 64); err == nil {
		return &cnode{k: cOther, lit: lit, s: fmt.Sprintf("%v", u)}
	}
	f, err := strconv.ParseFloat(lit, 64)
	if err != nil {
		panic("bad other literal " + lit)
	}
	return &cnode{k: cOther, lit: lit, s: fmt.Sprintf("%v", f)}
}

func (n *cnode) set(key string, v *cnode) *cnode {
	for i := range n.m {
		if n.m[i].k.k == cStr && n.m[i].k.s == key {
			n.m[i].v = v
			return n
		}
	}
	n.m = append(n.m, centry{nStr(key), v})
	return n
}

func (n *cnode) del(key string) *cnode {
	for i := range n.m {
		if n.m[i].k.k == cStr && n.m[i].k.s == key {
			n.m = append(n.m[:i:i], n.m[i+1:]...)
			return n
		}
	}
	return n
}

func (n *cnode) tokens(out *[]string) {
	switch n.k {
	case cNull:
		*out = append(*out, "0")
	case cBool:
		*out = append(*out, "1", hx.B(n.b))
	case cInt:
		*out = append(*out, "2", hx.I64(n.i))
	case cOther:
		*out = append(*out, "3", hx.X(n.s))
	case cStr:
		*out = append(*out, "4", hx.X(n.s))
	case cList:
		*out = append(*out, "5", hx.I(len(n.l)))
		for _, c := range n.l {
			c.tokens(out)
		}
	case cMap:
		*out = append(*out, "6", hx.I(len(n.m)))
		for _, e := range n.m {
			e.k.tokens(out)
			e.v.tokens(out)
		}
	}
}

// sprintV is what cleanupInterfaceMap makes of a key.
func (n *cnode) sprintV() string {
	switch n.k {
	case cNull:
		return "<nil>"
	case cBool:
		return strconv.FormatBool(n.b)
	case cInt:
		return strconv.FormatInt(n.i, 10)
	}
	return n.s
}

func jsonStr(s string) string {
	b, _ := json.Marshal(s)
	return string(b)
}

func (n *cnode) json(sb *strings.Builder) {
	switch n.k {
	case cNull:
		sb.WriteString("null")
	case cBool:
		sb.WriteString(strconv.FormatBool(n.b))
	case cInt:
		sb.WriteString(strconv.FormatInt(n.i, 10))
	case cOther:
		sb.WriteString(n.lit)
	case cStr:
		sb.WriteString(jsonStr(n.s))
	case cList:
		sb.WriteByte('[')
		for i, c := range n.l {
			if i > 0 {
				sb.WriteByte(',')
			}
			c.json(sb)
		}
		sb.WriteByte(']')
	case cMap:
		sb.WriteByte('{')
		for i, e := range n.m {
			if i > 0 {
				sb.WriteString(", ")
			}
			sb.WriteString(jsonStr(e.k.sprintV())) // JSON keys are strings
			sb.WriteString(": ")
			e.v.json(sb)
		}
		sb.WriteByte('}')
	}
}

var plainSafe = func() [256]bool {
	var t [256]bool
	for c := 'a'; c <= 'z'; c++ {
		t[c] = true
	}
	for c := 'A'; c <= 'Z'; c++ {
		t[c] = true
	}
	for c := '0'; c <= '9'; c++ {
		t[c] = true
	}
	for _, c := range "/._$*:-+~" {
		t[c] = true
	}
	return t
}()

// yamlScalar renders a scalar. raw: strings are written plain (unquoted) where YAML's syntax
// allows it, so that the YAML resolver decides their type.
func (n *cnode) yamlScalar(raw bool) string {
	switch n.k {
	case cNull:
		return "null"
	case cBool:
		return strconv.FormatBool(n.b)
	case cInt:
		return strconv.FormatInt(n.i, 10)
	case cOther:
		return n.lit
	case cStr:
		if raw && n.s != "" {
			ok := n.s[0] != '*' && n.s[0] != '-' && n.s[0] != ':' && n.s[len(n.s)-1] != ':'
			for i := 0; i < len(n.s) && ok; i++ {
				ok = plainSafe[n.s[i]]
			}
			if ok {
				return n.s
			}
		}
		return strconv.Quote(n.s) // ASCII only: Go's escapes are YAML double-quoted escapes
	}
	panic("not a scalar")
}

func (n *cnode) compoundNonEmpty() bool {
	return (n.k == cList && len(n.l) > 0) || (n.k == cMap && len(n.m) > 0)
}

func (n *cnode) yamlInline(raw bool) string {
	switch n.k {
	case cList:
		return "[]"
	case cMap:
		return "{}"
	}
	return n.yamlScalar(raw)
}

// yamlLines renders a non-empty list or map in block style at the given indentation.
func (n *cnode) yamlLines(indent int, raw bool) []string {
	pad := strings.Repeat(" ", indent)
	var out []string
	switch n.k {
	case cList:
		for _, c := range n.l {
			if c.compoundNonEmpty() {
				sub := c.yamlLines(indent+2, raw)
				sub[0] = pad + "- " + strings.TrimLeft(sub[0], " ")
				out = append(out, sub...)
			} else {
				out = append(out, pad+"- "+c.yamlInline(raw))
			}
		}
	case cMap:
		for _, e := range n.m {
			k := e.k.yamlScalar(raw)
			if e.v.compoundNonEmpty() {
				out = append(out, pad+k+":")
				out = append(out, e.v.yamlLines(indent+2, raw)...)
			} else {
				out = append(out, pad+k+": "+e.v.yamlInline(raw))
			}
		}
	}
	return out
}

func (n *cnode) yamlText(raw bool) string {
	if !n.compoundNonEmpty() {
		return n.yamlInline(raw) + "\n"
	}
	return strings.Join(n.yamlLines(0, raw), "\n") + "\n"
}

func (n *cnode) jsonText() string {
	var sb strings.Builder
	n.json(&sb)
	return sb.String()
}

// jsonFallbackText: the JSON text behind a 1100-character key. yaml.v2 rejects it (a simple
// key is limited to 1024 characters), so ParseRules falls back to json.Unmarshal on the raw
// text; the extra key is unknown to both typed decodes.
func (n *cnode) jsonFallbackText() string {
	t := n.jsonText()
	long := `"` + strings.Repeat("k", 1100) + `": 0`
	if n.k == cMap {
		if len(n.m) == 0 {
			return "{" + long + "}"
		}
		return "{" + long + ", " + t[1:]
	}
	return t
}

// fromYAML converts what yaml.Unmarshal produced into a tree (map entries sorted by the %v
// of the key: Go map order is random).
func fromYAML(v interface{}) *cnode {
	switch x := v.(type) {
	case nil:
		return nNull()
	case bool:
		return nBool(x)
	case int:
		return nInt(int64(x))
	case string:
		return nStr(x)
	case []interface{}:
		n := &cnode{k: cList}
		for _, e := range x {
			n.l = append(n.l, fromYAML(e))
		}
		return n
	case map[interface{}]interface{}:
		n := &cnode{k: cMap}
		for k, e := range x {
			n.m = append(n.m, centry{fromYAML(k), fromYAML(e)})
		}
		sort.Slice(n.m, func(i, j int) bool {
			a, b := n.m[i].k, n.m[j].k
			if a.sprintV() != b.sprintV() {
				return a.sprintV() < b.sprintV()
			}
			return a.k < b.k
		})
		return n
	}
	return &cnode{k: cOther, s: fmt.Sprintf("%v", v), lit: fmt.Sprintf("%v", v)}
}

// sameTree: structural equality up to the order of map entries.
func sameTree(a, b *cnode) bool {
	if a.k != b.k {
		return false
	}
	switch a.k {
	case cBool:
		return a.b == b.b
	case cInt:
		return a.i == b.i
	case cOther, cStr:
		return a.s == b.s
	case cList:
		if len(a.l) != len(b.l) {
			return false
		}
		for i := range a.l {
			if !sameTree(a.l[i], b.l[i]) {
				return false
			}
		}
	case cMap:
		if len(a.m) != len(b.m) {
			return false
		}
		used := make([]bool, len(b.m))
	outer:
		for _, ea := range a.m {
			for j, eb := range b.m {
				if !used[j] && sameTree(ea.k, eb.k) && sameTree(ea.v, eb.v) {
					used[j] = true
					continue outer
				}
			}
			return false
		}
	}
	return true
}

// yamlParse is the third-party parser's verdict on a text: ok + the tree it produced.
func yamlParse(text string) (bool, *cnode) {
	var data map[interface{}]interface{}
	if err := yaml.Unmarshal([]byte(text), &data); err != nil {
		return false, nil
	}
	return true, fromYAML(data)
}

// ------------------------------------------------------------------------------------------
// generators

var cfgHeaderKeys = []string{"X-A", " x-b ", "Accept", "X-Long-Header-Name", "authorization", "\tX-Tab", "via"}
var cfgHeaderVals = []string{"v", "", " padded ", "a, b", "gzip", "W/\"x\""}
var cfgCacheIds = []string{"a", "b", "c", "d"}

func pickNode(g *hx.Gen, xs []*cnode) *cnode { return xs[g.Intn(len(xs))] }

func shuffleEntries(g *hx.Gen, m []centry) {
	for i := len(m) - 1; i > 0; i-- {
		j := g.Intn(i + 1)
		m[i], m[j] = m[j], m[i]
	}
}

func genWrong(g *hx.Gen, not ckind) *cnode {
	for {
		var n *cnode
		switch g.Intn(8) {
		case 0:
			n = nInt(int64(g.Intn(7)) - 2)
		case 1:
			n = nBool(g.Bool())
		case 2:
			n = nStr(g.Pick([]string{"x", "true", "5", "", "GET"}))
		case 3:
			n = nList()
		case 4:
			n = nList(nStr("GET"))
		case 5:
			n = nMap()
		case 6:
			n = nMap("k", nStr("v"))
		case 7:
			n = nOther(g.Pick([]string{"1.5", "-0.5", "1e+06", "2.5e-07", "100.0", "1e2", "9223372036854775808"}))
		}
		if n.k != not {
			return n
		}
	}
}

func keyCase(g *hx.Gen, k string) string {
	switch g.Intn(40) {
	case 0:
		return strings.ToUpper(k)
	case 1:
		return strings.ToUpper(k[:1]) + k[1:]
	}
	return k
}

func genHeaderMap(g *hx.Gen, request bool, clean bool) *cnode {
	n := &cnode{k: cMap}
	used := map[string]bool{}
	cnt := g.Intn(4)
	for i := 0; i < cnt; i++ {
		k := g.Pick(cfgHeaderKeys)
		norm := strings.ToLower(strings.TrimSpace(k))
		if used[norm] {
			continue
		}
		used[norm] = true
		var v *cnode
		switch {
		case g.Chance(70):
			v = nStr(g.Pick(cfgHeaderVals))
		case g.Chance(50):
			v = nNull()
		case clean:
			v = nStr("c")
		case request:
			v = genWrong(g, cStr)
		default:
			if g.Chance(50) {
				v = genWrong(g, cStr)
			} else {
				v = nStr("w")
			}
		}
		n.m = append(n.m, centry{nStr(k), v})
	}
	if !clean && g.Chance(20) && !used["7"] {
		// a YAML key that is not a string
		n.m = append(n.m, centry{pickNode(g, []*cnode{nInt(7), nBool(true), nNull(), nOther("1.5")}), nStr("k")})
	}
	return n
}

// genRuleNode draws one rule object; anomalies > 0 perturbs that many fields.
func genRuleNode(g *hx.Gen, idx int, depth int, anomalies int) *cnode {
	spec := hx.GenRule(g, idx)
	for anomalies == 0 && (strings.Count(spec.Path, "*") > 1 || (strings.Contains(spec.Path, "*") && !strings.HasSuffix(spec.Path, "*"))) {
		spec.Path = hx.GenPathPattern(g)
	}
	n := nMap()
	n.set("path", nStr(spec.Path)).set("destination", nStr(spec.Dest))
	if spec.Enabled != nil {
		n.set("enabled", nBool(*spec.Enabled))
	}
	if spec.Methods != nil {
		ms := nList()
		for _, m := range spec.Methods {
			ms.l = append(ms.l, nStr(m))
		}
		n.set("methods", ms)
	}
	if spec.Host != "" {
		n.set("host", nStr(spec.Host))
	}
	if spec.Scheme != "" {
		n.set("scheme", nStr(spec.Scheme))
	}
	if spec.Type != nil {
		n.set("type", nStr(*spec.Type))
	}
	if g.Chance(15) {
		n.set("internal", nBool(g.Bool()))
	}
	if g.Chance(20) {
		n.set("hostheader", nStr(g.Pick([]string{"", "original", "destination", "other.test", "Original"})))
	}
	if g.Chance(15) {
		n.set("recompression", nBool(g.Bool()))
	}
	if g.Chance(30) {
		n.set("cache", nStr(g.Pick(cfgCacheIds)))
	}
	if g.Chance(25) {
		n.set("force_revalidate", nInt([]int64{0, 5, 60, -3, 2147483648, 9223372036854775807, -9223372036854775808}[g.Intn(7)]))
	}
	if g.Chance(25) {
		n.set("request_headers", genHeaderMap(g, true, anomalies == 0))
	}
	if g.Chance(20) {
		n.set("response_headers", genHeaderMap(g, false, anomalies == 0))
	}
	if g.Chance(15) {
		n.set("restart_on_redirect", nBool(g.Bool()))
	}
	if depth < 3 && g.Chance(22) {
		n.set("retry_rule", genRuleNode(g, idx, depth+1, 0))
	}
	if g.Chance(10) {
		n.set(g.Pick([]string{"comment", "x-unknown", "paths", "rule"}), pickNode(g, []*cnode{nStr("text"), nInt(3), nList(nStr("a")), nMap("k", nStr("v")), nBool(true)}))
	}
	for a := 0; a < anomalies; a++ {
		perturbRule(g, n, idx, depth)
	}
	// letter case of keys (encoding/json matches field names case-insensitively)
	for i := range n.m {
		if n.m[i].k.k == cStr {
			n.m[i].k = nStr(keyCase(g, n.m[i].k.s))
		}
	}
	if g.Chance(30) {
		shuffleEntries(g, n.m)
	}
	return n
}

var ruleStringFields = []string{"scheme", "host", "path", "destination", "hostheader", "cache"}
var ruleBoolFields = []string{"internal", "recompression", "restart_on_redirect"}

func perturbRule(g *hx.Gen, n *cnode, idx, depth int) {
	switch g.Intn(16) {
	case 0:
		n.del(g.Pick([]string{"path", "destination"}))
	case 1:
		n.set(g.Pick([]string{"path", "destination"}), nStr(""))
	case 2:
		n.set(g.Pick(ruleStringFields), nNull())
	case 3:
		n.set(g.Pick(ruleStringFields), genWrong(g, cStr))
	case 4:
		n.set("path", nStr(g.Pick([]string{"/a/*/b", "/*/*", "**", "*", "/*", "/A/*", " /a", "/" + strings.Repeat("p", 300) + "/*", "/a*b*"})))
	case 5:
		n.set(g.Pick(ruleBoolFields), genWrong(g, cBool))
	case 6:
		n.set(g.Pick(ruleBoolFields), nNull())
	case 7:
		n.set("enabled", pickNode(g, []*cnode{nNull(), nStr("yes"), nInt(1), nInt(0), nList()}))
	case 8:
		n.set("methods", pickNode(g, []*cnode{nNull(), nList(), nStr("GET"), nList(nStr("get")), nList(nStr("GET"), nStr("PATCH")),
			nList(nNull()), nList(nStr("")), nList(nInt(1)), nList(nStr("GET"), nStr("GET")), nMap("GET", nBool(true)), nList(nList(nStr("GET")))}))
	case 9:
		n.set("type", pickNode(g, []*cnode{nNull(), nStr(""), nStr("Proxy"), nStr("copy"), nStr("copy_traffic "), nInt(1), nBool(true), nList()}))
	case 10:
		n.set("force_revalidate", pickNode(g, []*cnode{nNull(), nStr("5"), nBool(true), nOther("1.5"), nOther("1e2"), nOther("100.0"),
			nOther("9223372036854775808"), nList(), nMap()}))
	case 11:
		n.set("request_headers", pickNode(g, []*cnode{nNull(), nList(), nStr("x"), nInt(1), nMap(), nMap("X-A", nMap("deep", nList(nInt(1))))}))
	case 12:
		n.set("response_headers", pickNode(g, []*cnode{nNull(), nList(), nStr("x"), nMap(), nMap("X-A", nInt(1)), nMap("X-A", nNull()), nMap("X-A", nMap())}))
	case 13:
		n.set("retry_rule", pickNode(g, []*cnode{nNull(), nStr("x"), nList(), nInt(0), nMap(), nBool(false), nList(nMap("path", nStr("/r"), "destination", nStr("d")))}))
	case 14:
		if depth < 3 {
			n.set("retry_rule", genRuleNode(g, idx, depth+1, 1))
		}
	case 15:
		// a non-string key (YAML only; JSON spells it as a string); never two of them: equal
		// keys in one mapping are outside the declared domain
		for _, e := range n.m {
			if e.k.k != cStr {
				return
			}
		}
		n.m = append(n.m, centry{pickNode(g, []*cnode{nInt(1), nBool(false), nNull(), nOther("2.5")}), genWrong(g, cNull)})
	}
}

func genCacheEntry(g *hx.Gen) *cnode {
	n := nMap("id", nStr(g.Pick(cfgCacheIds)), "path", nStr("/S/p"+hx.I(g.Intn(4))),
		"size", nStr(g.Pick([]string{"300G", "1M", "10kb", "12", "5 GB", "1kilobyte", "7 e", "0"})))
	if g.Chance(30) {
		switch g.Intn(12) {
		case 0:
			n.set("size", nStr(g.Pick([]string{"x", "", "5 Gb", "-1", "1.5G", " 1G", "18446744073709551616", "18446744073709551615", "17e", "16e", "1 parsec", "G"})))
		case 1:
			n.set("size", pickNode(g, []*cnode{nInt(300), nNull(), nOther("1.5"), nBool(true), nList()}))
		case 2:
			n.del("size")
		case 3:
			n.del(g.Pick([]string{"id", "path"}))
		case 4:
			n.set(g.Pick([]string{"id", "path"}), nStr(""))
		case 5:
			n.set(g.Pick([]string{"id", "path"}), nNull())
		case 6:
			n.set(g.Pick([]string{"id", "path"}), genWrong(g, cStr))
		case 7:
			n.set("comment", genWrong(g, cNull))
		case 8:
			n.m[0].k = nStr("ID")
		case 9:
			return pickNode(g, []*cnode{nNull(), nStr("x"), nList(), nMap(), nInt(1)})
		case 10:
			n.set("size", nStr(g.Pick([]string{"1M", "x"})))
			n.set("path", nStr("/S/p0"))
		case 11:
			n.set("id", nStr("a"))
		}
	}
	return n
}

func genCachesNode(g *hx.Gen) *cnode {
	switch g.Intn(14) {
	case 0:
		return pickNode(g, []*cnode{nNull(), nStr("nope"), nMap(), nMap("id", nStr("a")), nInt(0), nList()})
	}
	n := nList()
	cnt := g.Intn(5)
	for i := 0; i < cnt; i++ {
		n.l = append(n.l, genCacheEntry(g))
	}
	return n
}

// genDoc draws a whole document.
func genDoc(g *hx.Gen) *cnode {
	doc := nMap()
	var rules *cnode
	switch g.Intn(25) {
	case 0:
		rules = pickNode(g, []*cnode{nNull(), nList(), nStr("x"), nMap(), nInt(3), nMap("path", nStr("/a"), "destination", nStr("d"))})
	case 1:
		rules = nil // no `rules` key at all
	default:
		rules = nList()
		cnt := 1 + g.Intn(6)
		if g.Chance(4) {
			cnt = 0
		}
		// 60% of the documents are clean; the others carry anomalies in one or two of their rules
		dirty := map[int]bool{}
		if g.Chance(40) && cnt > 0 {
			dirty[g.Intn(cnt)] = true
			if g.Chance(30) {
				dirty[g.Intn(cnt)] = true
			}
		}
		for i := 0; i < cnt; i++ {
			switch {
			case dirty[i] && g.Chance(8):
				rules.l = append(rules.l, pickNode(g, []*cnode{nNull(), nStr("rule"), nList(), nInt(1)}))
			case dirty[i]:
				rules.l = append(rules.l, genRuleNode(g, i, 0, 1+g.Intn(2)))
			default:
				rules.l = append(rules.l, genRuleNode(g, i, 0, 0))
			}
		}
	}
	if g.Chance(10) {
		doc.set(g.Pick([]string{"version", "comment", "cache", "Rule"}), genWrong(g, cNull))
	}
	if rules != nil {
		doc.set(keyCase(g, "rules"), rules)
	}
	if g.Chance(45) {
		doc.set(keyCase(g, "caches"), genCachesNode(g))
	}
	if g.Chance(4) {
		doc.m = append(doc.m, centry{pickNode(g, []*cnode{nInt(1), nBool(true), nNull()}), nStr("k")})
	}
	if g.Chance(20) {
		shuffleEntries(g, doc.m)
	}
	return doc
}

// ------------------------------------------------------------------------------------------
// canonical dumps

func ruleDump(r *proxy.Rule, out *[]string) {
	v := proxy.VerifView(r)
	wci := -1
	if len(v.Wci) == 1 {
		wci = v.Wci[0]
	} else if len(v.Wci) > 1 {
		wci = -2
	}
	*out = append(*out, hx.B(v.Enabled), hx.X(v.Scheme), hx.X(v.Host), hx.X(v.Path), hx.I(wci), hx.X(v.Dest), hx.B(v.Internal))
	ms := []string{}
	for m, on := range v.Methods {
		if on {
			ms = append(ms, m)
		}
	}
	sort.Strings(ms)
	*out = append(*out, hx.I(len(ms)))
	for _, m := range ms {
		*out = append(*out, hx.X(m))
	}
	*out = append(*out, hx.B(v.IsCopy), hx.B(v.Recompression), hx.I(int(v.HostHeader.Behavior)), hx.X(v.HostHeader.Override),
		hx.X(v.CacheId), hx.I(v.ForceRevalidate))
	ks := []string{}
	for k := range v.RequestHeaders {
		ks = append(ks, k)
	}
	sort.Strings(ks)
	*out = append(*out, hx.I(len(ks)))
	for _, k := range ks {
		if p := v.RequestHeaders[k]; p == nil {
			*out = append(*out, hx.X(k), "0", hx.X(""))
		} else {
			*out = append(*out, hx.X(k), "1", hx.X(*p))
		}
	}
	ks = ks[:0]
	for k := range v.ResponseHeaders {
		ks = append(ks, k)
	}
	sort.Strings(ks)
	*out = append(*out, hx.I(len(ks)))
	for _, k := range ks {
		*out = append(*out, hx.X(k), hx.X(v.ResponseHeaders[k]))
	}
	*out = append(*out, hx.B(v.RestartOnRedirect))
	if v.RetryRule != nil {
		*out = append(*out, "1")
		ruleDump(v.RetryRule, out)
	} else {
		*out = append(*out, "0")
	}
}

func ruleErrKind(err error) string {
	s := err.Error()
	switch {
	case strings.Contains(s, "at least one rule is required"):
		return "err:norules"
	case strings.HasPrefix(s, "error parsing rules configuration"):
		return "err:decode"
	case strings.HasPrefix(s, "rule had empty path"):
		return "err:emptyfield"
	case strings.HasPrefix(s, "rule had bad methods"):
		return "err:badmethod"
	case strings.HasPrefix(s, "unrecognized rule type"):
		return "err:badtype"
	case s == "Empty path":
		return "err:emptypath"
	case s == "Empty destination":
		return "err:emptydest"
	case s == "Wildcard count in path > 1":
		return "err:wildcardcount"
	case strings.HasPrefix(s, "Wildcard must be placed"):
		return "err:wildcardnotlast"
	}
	return "err:other"
}

func rulesOutcome(text string) ([]string, *proxy.Rules) {
	var rules *proxy.Rules
	out := hx.Guard(func() []string {
		rs, err := proxy.ParseRules([]byte(text), Logger)
		if err != nil {
			return []string{ruleErrKind(err)}
		}
		rules = rs
		ptrs := proxy.VerifRulePtrs(rs)
		o := []string{"ok", hx.I(len(ptrs))}
		for _, r := range ptrs {
			ruleDump(r, &o)
		}
		return o
	})
	return out, rules
}

func storageOutcome(text string, unbase func(string) string) []string {
	return hx.Guard(func() []string {
		cfgs, err := caching.ParseStorageConfigs([]byte(text))
		if err != nil {
			return []string{"err"}
		}
		o := []string{"ok", hx.I(len(cfgs))}
		for _, c := range cfgs {
			o = append(o, hx.X(c.Id), hx.X(unbase(c.Path)), strconv.FormatUint(uint64(c.Size), 10))
		}
		return o
	})
}

func section(dst *[]string, toks []string) {
	*dst = append(*dst, hx.I(len(toks)))
	*dst = append(*dst, toks...)
}

// ------------------------------------------------------------------------------------------
// config / configraw

func ruleSpecsOfDoc(doc *cnode) []hx.RuleSpec {
	// the path patterns in the document, for query generation
	var out []hx.RuleSpec
	for _, e := range doc.m {
		if e.k.k == cStr && strings.EqualFold(e.k.s, "rules") && e.v.k == cList {
			for _, r := range e.v.l {
				if r.k != cMap {
					continue
				}
				for _, f := range r.m {
					if f.k.k == cStr && strings.EqualFold(f.k.s, "path") && f.v.k == cStr {
						out = append(out, hx.RuleSpec{Path: f.v.s})
					}
				}
			}
		}
	}
	return out
}

func configCase(g *hx.Gen, id int, stream string, raw bool) hx.Case {
	doc := genDoc(g)
	texts := []string{doc.yamlText(raw), doc.jsonText(), doc.jsonFallbackText()}
	if os.Getenv("VERIF_DEBUG_TEXT") != "" {
		fmt.Fprintf(os.Stderr, "---- %s %d\n%s---- json\n%s\n", stream, id, texts[0], texts[1])
	}
	tree := doc
	in := []string{}
	bug := ""
	oks := make([]bool, 3)
	var parsed [3]*cnode
	for i, t := range texts {
		oks[i], parsed[i] = yamlParse(t)
	}
	if raw {
		// the tree is whatever the YAML resolver made of the plain scalars
		if oks[0] {
			tree = parsed[0]
		}
	} else {
		// the quoted rendering must come back as the very tree that was generated
		if !oks[0] || !sameTree(doc, parsed[0]) {
			bug = "harness:yaml-rendering-does-not-parse-back"
		}
	}
	tree.tokens(&in)
	if raw {
		// the JSON spellings of the raw stream are rendered from the generated tree, not from
		// the resolved one: they are compared differentially only (label), so the model is
		// given the tree the YAML parser made of each JSON text as well
		in = append(in, hx.B(oks[0]))
	} else {
		for _, ok := range oks {
			in = append(in, hx.B(ok))
		}
	}
	// queries
	specs := ruleSpecsOfDoc(doc)
	nq := 3
	in = append(in, hx.I(nq))
	type query struct{ s, method string }
	qs := make([]query, nq)
	for i := range qs {
		qs[i] = query{genMatchedString(g, specs), genMethod(g)}
		u, err := url.Parse(qs[i].s)
		if err != nil {
			in = append(in, "0", hx.X(""), hx.X(""), hx.X(""), hx.X(qs[i].method))
		} else {
			in = append(in, "1", hx.X(u.Scheme), hx.X(u.Host), hx.X(u.RequestURI()), hx.X(qs[i].method))
		}
	}
	nsp := 3
	if raw {
		nsp = 1 // only the YAML text is predicted; the JSON spelling is compared differentially below
	}
	impl := []string{}
	if bug != "" {
		impl = append(impl, bug)
	}
	rules := make([]*proxy.Rules, nsp)
	for i := 0; i < nsp; i++ {
		o, rs := rulesOutcome(texts[i])
		rules[i] = rs
		section(&impl, o)
	}
	for i := 0; i < nsp; i++ {
		section(&impl, storageOutcome(texts[i], func(s string) string { return s }))
	}
	for _, q := range qs {
		for i := 0; i < nsp; i++ {
			if rules[i] == nil {
				section(&impl, []string{"-"})
				continue
			}
			rs := rules[i]
			section(&impl, hx.Guard(func() []string {
				pi, pt, ci, ct, err := proxy.VerifMatch(rs, q.s, q.method)
				if err != nil {
					return []string{"err:match"}
				}
				return []string{hx.I(pi), hx.X(pt), hx.I(ci), hx.X(ct)}
			}))
		}
	}
	if raw {
		// differential only: does the JSON spelling of the generated tree get the same verdict?
		_, jr := rulesOutcome(texts[1])
		v := func(b bool) string {
			if b {
				return "accept"
			}
			return "reject"
		}
		section(&impl, []string{"yaml-" + v(rules[0] != nil), "json-" + v(jr != nil)})
	}
	return hx.Case{Stream: stream, ID: id, In: in, Impl: impl}
}

// ------------------------------------------------------------------------------------------
// reqpath

type reqPathScript struct {
	doc                   *cnode
	secrets               []string // nil = RoutingSecrets unset
	hasSecrets            bool
	tls                   bool
	xfp                   string
	host, uri, method     string
	secret, reqID, origIP string
}

func simpleDoc(rules ...*cnode) *cnode { return nMap("rules", nList(rules...)) }

func simpleRule(path, dest string, kv ...interface{}) *cnode {
	n := nMap("path", nStr(path), "destination", nStr(dest))
	for i := 0; i+1 < len(kv); i += 2 {
		n.set(kv[i].(string), kv[i+1].(*cnode))
	}
	return n
}

func genReqPath(g *hx.Gen) reqPathScript {
	var rules []*cnode
	n := 1 + g.Intn(4)
	for i := 0; i < n; i++ {
		var r *cnode
		for try := 0; ; try++ { // mostly accepted configurations: redraw a rule the parser rejects
			r = genRuleNode(g, i, 0, 0)
			if _, err := proxy.ParseRules([]byte(simpleDoc(r).yamlText(false)), Logger); err == nil || try == 6 {
				break
			}
		}
		if g.Chance(40) {
			r.set("internal", nBool(true))
		}
		rules = append(rules, r)
	}
	sc := reqPathScript{doc: simpleDoc(rules...), method: genMethod(g)}
	switch g.Intn(5) {
	case 0:
	case 1:
		sc.hasSecrets = true
		sc.secrets = []string{}
	default:
		sc.hasSecrets = true
		sc.secrets = []string{"s1", "s0"}[:1+g.Intn(2)]
	}
	sc.xfp = g.Pick([]string{"", "", "https", "HTTPS", "http"})
	s := genMatchedString(g, ruleSpecsOfDoc(sc.doc))
	u, _ := url.Parse(s)
	sc.uri = u.RequestURI()
	sc.host = u.Host
	switch g.Intn(10) {
	case 0:
		sc.host = g.Pick([]string{"[::1]:8080", "[::1]", "[", "[abc", "[::1", "[]", "]", "a]", "[a]b]:9", ":80", "", "h1.test:", "h1.test:80:90"})
	case 1:
		sc.host += ":" + hx.I(g.Intn(70000))
	case 2:
		sc.host = "[" + g.Str("abc:]1", 6)
	}
	if g.Chance(25) {
		sc.secret = g.Pick([]string{"s1", "s0", "wrong"})
	}
	if g.Chance(15) {
		sc.reqID = "rid"
	}
	if g.Chance(10) {
		sc.origIP = "10.0.0.1"
	}
	return sc
}

func reqPathCase(stream string, id int, sc reqPathScript) hx.Case {
	in := []string{}
	sc.doc.tokens(&in)
	in = append(in, hx.B(sc.hasSecrets), hx.I(len(sc.secrets)))
	for _, s := range sc.secrets {
		in = append(in, hx.X(s))
	}
	in = append(in, hx.B(sc.tls), hx.X(sc.xfp), hx.X(sc.host), hx.X(sc.uri), hx.X(sc.method), hx.X(sc.secret), hx.X(sc.reqID), hx.X(sc.origIP))
	text := sc.doc.yamlText(false)
	rules, err := proxy.ParseRules([]byte(text), Logger)
	if err != nil {
		in = append(in, "0", hx.X(""), hx.X(""), hx.X(""))
		return hx.Case{Stream: stream, ID: id, In: in, Impl: []string{"rejected"}}
	}
	conf := &config.Config{}
	if sc.hasSecrets {
		conf.RoutingSecrets = append([]string{}, sc.secrets...)
	}
	mkReq := func() *http.Request {
		req, _ := http.NewRequest(sc.method, "http://placeholder"+sc.uri, nil)
		req.Host = sc.host
		if sc.xfp != "" {
			req.Header.Set("X-Forwarded-Proto", sc.xfp)
		}
		if sc.secret != "" {
			req.Header.Set("Richie-Routing-Secret", sc.secret)
		}
		if sc.reqID != "" {
			req.Header.Set("Richie-Request-ID", sc.reqID)
		}
		if sc.origIP != "" {
			req.Header.Set("Richie-Originating-IP", sc.origIP)
		}
		req.RemoteAddr = "192.0.2.1:999"
		return req
	}
	// the URL String()/Parse round trip is not modelled here: its result is an input
	reparsed := hx.Guard(func() []string {
		s := proxy.VerifDestinationString(proxy.VerifCompleteURL(mkReq()))
		u, err := url.Parse(s)
		if err != nil {
			return []string{"0", hx.X(""), hx.X(""), hx.X("")}
		}
		return []string{"1", hx.X(u.Scheme), hx.X(u.Host), hx.X(u.RequestURI())}
	})
	if len(reparsed) == 1 { // a panic while building the matched string (DropPort did, before the fix for C05-b)
		reparsed = []string{"0", hx.X(""), hx.X(""), hx.X("")}
	}
	in = append(in, reparsed...)
	impl := hx.Guard(func() []string {
		req := mkReq()
		s := proxy.VerifDestinationString(proxy.VerifCompleteURL(req))
		pi, pt, ci, ct, err := proxy.VerifMatch(rules, s, sc.method)
		if err != nil {
			return []string{"ok", "-1", "-1"}
		}
		ptrs := proxy.VerifRulePtrs(rules)
		for _, m := range []struct {
			i int
			t string
		}{{ci, ct}, {pi, pt}} {
			if m.i < 0 {
				continue
			}
			u, err := url.Parse(m.t)
			if err != nil {
				continue
			}
			v := proxy.VerifView(ptrs[m.i])
			// createProxyRequest → ensureInternalHeaders: the status it returns (407) is a
			// well-formed answer; only a panic matters here
			proxy.VerifCreateProxyRequest(rules, conf, mkReq(), v.Internal, v.HostHeader, u)
		}
		return []string{"ok", hx.I(pi), hx.I(ci)}
	})
	return hx.Case{Stream: stream, ID: id, In: in, Impl: impl}
}

// witnesses of the repaired finding C05-b (DropPort panicked on `[` without `]`): regression cases
var kfHost = []func() reqPathScript{
	func() reqPathScript {
		return reqPathScript{doc: simpleDoc(simpleRule("/a/*", "http://d0.test/$1")), host: "[abc", uri: "/a/x", method: "GET"}
	},
	func() reqPathScript {
		return reqPathScript{doc: simpleDoc(simpleRule("/*", "http://d0.test/$1")), host: "[", uri: "/", method: "GET"}
	},
	func() reqPathScript {
		return reqPathScript{doc: simpleDoc(simpleRule("/x", "http://d0.test/y", "methods", nList(nStr("POST")))), host: "[::1", uri: "/nomatch", method: "POST"}
	},
}

// ------------------------------------------------------------------------------------------
// reload

type fetchStep struct {
	fail bool   // readMapping returns an error
	doc  *cnode // nil with !fail: a text neither parser accepts
	json bool   // spelling
}

type reloadScript struct {
	initial *cnode
	steps   []fetchStep
}

var reloadProbes = []struct{ host, uri, method string }{
	{"h1.test", "/a/x", "GET"}, {"h1.test", "/b/x", "GET"}, {"h1.test", "/a/b/x", "GET"}, {"h1.test", "/x", "GET"}, {"h2.test", "/zzz", "POST"},
}

func reloadRules(g *hx.Gen, gen int) []*cnode {
	var out []*cnode
	n := 1 + g.Intn(3)
	for i := 0; i < n; i++ {
		p := g.Pick([]string{"/a/*", "/b/*", "/a/b/*", "/x", "/*"})
		dest := fmt.Sprintf("http://g%dr%d.test/", gen, i)
		if strings.HasSuffix(p, "*") {
			dest += "$1"
		} else {
			dest += "fixed"
		}
		r := simpleRule(p, dest)
		if g.Chance(50) {
			r.set("cache", nStr(g.Pick(cfgCacheIds)))
		}
		if g.Chance(15) {
			r.set("type", nStr("copy_traffic"))
		}
		if g.Chance(10) {
			r.set("enabled", nBool(false))
		}
		out = append(out, r)
	}
	return out
}

func reloadCaches(g *hx.Gen) *cnode {
	n := nList()
	ids := append([]string{}, cfgCacheIds...)
	cnt := g.Intn(4)
	for i := 0; i < cnt; i++ {
		j := g.Intn(len(ids))
		id := ids[j]
		ids = append(ids[:j], ids[j+1:]...)
		path := "/S/" + id
		if g.Chance(15) {
			path = "/S/" + id + "2"
		}
		e := nMap("id", nStr(id), "path", nStr(path), "size", nStr(g.Pick([]string{"1M", "300G", "2M"})))
		if g.Chance(8) {
			e.set("size", nStr("x")) // dropped entry
		}
		n.l = append(n.l, e)
	}
	return n
}

func genGoodDoc(g *hx.Gen, gen int) *cnode {
	d := simpleDoc(reloadRules(g, gen)...)
	if g.Chance(85) {
		d.set("caches", reloadCaches(g))
	}
	return d
}

func genReloadScript(g *hx.Gen) reloadScript {
	sc := reloadScript{initial: genGoodDoc(g, 0)}
	n := 2 + g.Intn(4)
	var last *cnode = sc.initial
	for i := 1; i <= n; i++ {
		st := fetchStep{json: g.Chance(30)}
		switch k := g.Intn(20); {
		case k < 7:
			st.doc = genGoodDoc(g, i)
			last = st.doc
		case k < 9:
			st.fail = true
		case k < 11:
			st.doc = last // same text as the last good one (usually the one serving)
			st.json = false
		case k < 12:
			st.doc = nil // syntax error
		case k < 15: // rules do not validate
			st.doc = genGoodDoc(g, i)
			rl := st.doc.m[0].v
			switch g.Intn(5) {
			case 0:
				rl.l[g.Intn(len(rl.l))].set("methods", nList(nStr("FETCH")))
			case 1:
				rl.l[g.Intn(len(rl.l))].set("path", nStr("/a/*/b"))
			case 2:
				rl.l[g.Intn(len(rl.l))].set("destination", nStr(""))
			case 3:
				rl.l[g.Intn(len(rl.l))].set("path", nInt(5))
			case 4:
				st.doc.set("rules", nList())
			}
		case k < 18: // the cache section does not decode
			st.doc = genGoodDoc(g, i)
			switch g.Intn(4) {
			case 0:
				st.doc.set("caches", nStr("nope"))
			case 1:
				st.doc.set("caches", nList(nMap("id", nStr("a"), "path", nStr("/S/a"), "size", nInt(300))))
			case 2:
				st.doc.set("caches", nList(nMap("id", nStr("b"), "path", nStr("/S/b"), "size", nStr("1M")), nStr("c")))
			case 3:
				st.doc.set("caches", nMap("id", nStr("a")))
			}
		default: // duplicate id or path
			st.doc = genGoodDoc(g, i)
			switch g.Intn(3) {
			case 0:
				st.doc.set("caches", nList(nMap("id", nStr("a"), "path", nStr("/S/a"), "size", nStr("1M")),
					nMap("id", nStr("a"), "path", nStr("/S/a2"), "size", nStr("1M"))))
			case 1:
				st.doc.set("caches", nList(nMap("id", nStr("b"), "path", nStr("/S/b"), "size", nStr("1M")),
					nMap("id", nStr("c"), "path", nStr("/S/b"), "size", nStr("x"))))
			case 2:
				st.doc.set("caches", nList(nMap("id", nStr("d"), "path", nStr("/S/d"), "size", nStr("x")),
					nMap("id", nStr("d"), "path", nStr("/S/d"), "size", nStr("1M"))))
			}
		}
		sc.steps = append(sc.steps, st)
	}
	return sc
}

func cacheEntry(id, path, size string) *cnode {
	return nMap("id", nStr(id), "path", nStr(path), "size", nStr(size))
}

// witnesses of the repaired finding C19-a (SetRules ran before ParseStorageConfigs): regression cases
var kfReloadA = []func() reloadScript{
	func() reloadScript { // `size: 300` — a YAML integer where the decoder wants a string
		return reloadScript{
			initial: simpleDoc(simpleRule("/a/*", "http://old.test/$1", "cache", nStr("a"))).set("caches", nList(cacheEntry("a", "/S/a", "1M"))),
			steps: []fetchStep{{doc: simpleDoc(simpleRule("/a/*", "http://new.test/$1", "cache", nStr("b"))).set("caches",
				nList(nMap("id", nStr("b"), "path", nStr("/S/b"), "size", nInt(300))))}},
		}
	},
	func() reloadScript { // `caches: nope`
		return reloadScript{
			initial: simpleDoc(simpleRule("/x", "http://old.test/fixed")),
			steps:   []fetchStep{{doc: simpleDoc(simpleRule("/b/*", "http://new.test/$1")).set("caches", nStr("nope")), json: true}},
		}
	},
}

// witnesses of the repaired finding C19-b (duplicate id/path panicked in the reloader): regression cases
var kfReloadB = []func() reloadScript{
	func() reloadScript {
		return reloadScript{
			initial: simpleDoc(simpleRule("/a/*", "http://old.test/$1")),
			steps: []fetchStep{{doc: simpleDoc(simpleRule("/a/*", "http://new.test/$1")).set("caches",
				nList(cacheEntry("a", "/S/a", "1M"), cacheEntry("a", "/S/a2", "1M")))}},
		}
	},
	func() reloadScript { // same path under two ids
		return reloadScript{
			initial: simpleDoc(simpleRule("/a/*", "http://old.test/$1", "cache", nStr("a"))).set("caches", nList(cacheEntry("a", "/S/a", "1M"))),
			steps: []fetchStep{{doc: simpleDoc(simpleRule("/a/*", "http://old.test/$1", "cache", nStr("a"))).set("caches",
				nList(cacheEntry("a", "/S/a", "1M"), cacheEntry("b", "/S/a", "2M"))), json: true}},
		}
	},
}

var kfReloadD = []func() reloadScript{
	func() reloadScript { // cache a stays in the configuration, cache b is added: a is gone
		return reloadScript{
			initial: simpleDoc(simpleRule("/a/*", "http://o.test/$1", "cache", nStr("a"))).set("caches", nList(cacheEntry("a", "/S/a", "1M"))),
			steps: []fetchStep{{doc: simpleDoc(simpleRule("/a/*", "http://o.test/$1", "cache", nStr("a")), simpleRule("/b/*", "http://o.test/$1", "cache", nStr("b"))).set("caches",
				nList(cacheEntry("a", "/S/a", "1M"), cacheEntry("b", "/S/b", "1M")))}},
		}
	},
	func() reloadScript {
		return reloadScript{
			initial: simpleDoc(simpleRule("/x", "http://o.test/fixed")).set("caches", nList(cacheEntry("c", "/S/c", "1M"), cacheEntry("d", "/S/d", "1M"))),
			steps: []fetchStep{{doc: simpleDoc(simpleRule("/x", "http://o.test/fixed")).set("caches",
				nList(cacheEntry("a", "/S/a", "1M"), cacheEntry("d", "/S/d", "2M"), cacheEntry("c", "/S/c", "1M")))}},
		}
	},
}

// limiterLog counts the size limiters that finished reading their directory (the goroutine
// panics if the directory is removed before that).
type limiterLog struct{ n int64 }

func (l *limiterLog) HandleLog(e *apexlog.Entry) error {
	if strings.HasPrefix(e.Message, "Read sizes of") {
		atomic.AddInt64(&l.n, 1)
	}
	return nil
}

type nullPerformer struct{}

func (nullPerformer) Do(req *http.Request) (*http.Response, error) {
	return nil, errors.New("no origin in this stream")
}
func (nullPerformer) CloseIdleConnections() {}

type reloadEnv struct {
	router   proxy.Router
	cache    caching.Cache
	checksum string
	created  int64
}

func (e *reloadEnv) observe() []string {
	out := []string{}
	for _, p := range reloadProbes {
		req, _ := http.NewRequest(p.method, "http://"+p.host+p.uri, nil)
		req.Host = p.host
		rf := e.router.GetRoutingFlavors(req)
		if rf.Rule == nil {
			out = append(out, "0", hx.X(""), hx.X(""))
		} else {
			out = append(out, "1", hx.X(proxy.VerifView(rf.Rule).Dest), hx.X(rf.CacheId))
		}
	}
	for _, id := range cfgCacheIds {
		out = append(out, hx.B(e.cache.HasStorage(id)))
	}
	return out
}

// restartObs: what a fresh start with this text shows (rules through a fresh router; the
// storages of a fresh cache are exactly the parsed configurations).
func restartObs(text string) []string {
	rules, err := proxy.ParseRules([]byte(text), Logger)
	if err != nil {
		return []string{"norestart"}
	}
	var cfgs []caching.StorageConfiguration
	bad := false
	func() {
		defer func() {
			if recover() != nil {
				bad = true
			}
		}()
		c, err := caching.ParseStorageConfigs([]byte(text))
		if err != nil {
			bad = true
		}
		cfgs = c
	}()
	if bad {
		return []string{"norestart"}
	}
	r := proxy.NewRouterWithPerformer(rules, Logger, &config.Config{}, nullPerformer{})
	out := []string{"restart"}
	for _, p := range reloadProbes {
		req, _ := http.NewRequest(p.method, "http://"+p.host+p.uri, nil)
		req.Host = p.host
		rf := r.GetRoutingFlavors(req)
		if rf.Rule == nil {
			out = append(out, "0", hx.X(""), hx.X(""))
		} else {
			out = append(out, "1", hx.X(proxy.VerifView(rf.Rule).Dest), hx.X(rf.CacheId))
		}
	}
	for _, id := range cfgCacheIds {
		has := false
		for _, c := range cfgs {
			if c.Id == id {
				has = true
			}
		}
		out = append(out, hx.B(has))
	}
	return out
}

// reloadCallOrder lists, in source order, the top-level calls of the configReloader loop body
// that make up the reload protocol (fetch, checksum, parse, set, parse, set, checksum). The
// `reload` stream drives the real functions in exactly this order; the whole loop body is
// pinned separately (Facts.reloadSteps).
func reloadCallOrder(repo string) []string {
	fset := token.NewFileSet()
	f, err := parser.ParseFile(fset, repo+"/cmd/richie-request-router/main.go", nil, 0)
	if err != nil {
		return nil
	}
	var body *ast.BlockStmt
	for _, d := range f.Decls {
		if fd, ok := d.(*ast.FuncDecl); ok && fd.Name.Name == "configReloader" && fd.Body != nil {
			for _, st := range fd.Body.List {
				if fs, ok := st.(*ast.ForStmt); ok && fs.Init == nil && fs.Cond == nil && fs.Post == nil {
					body = fs.Body
				}
			}
		}
	}
	if body == nil {
		return nil
	}
	name := func(e ast.Expr) string {
		switch x := e.(type) {
		case *ast.Ident:
			return x.Name
		case *ast.SelectorExpr:
			if id, ok := x.X.(*ast.Ident); ok {
				return id.Name + "." + x.Sel.Name
			}
		}
		return ""
	}
	known := map[string]bool{"readMapping": true, "util.SHA1String": true, "proxy.ParseRules": true,
		"router.SetRules": true, "caching.ParseStorageConfigs": true, "cache.SetStorageConfigs": true}
	out := []string{}
	for _, st := range body.List {
		// only top-level statements of the loop body: the calls inside the `if err != nil` blocks are logging
		var call *ast.CallExpr
		switch x := st.(type) {
		case *ast.AssignStmt:
			if len(x.Rhs) == 1 {
				call, _ = x.Rhs[0].(*ast.CallExpr)
			}
		case *ast.ExprStmt:
			call, _ = x.X.(*ast.CallExpr)
		}
		if call != nil {
			if n := name(call.Fun); known[n] {
				out = append(out, n)
			}
		}
	}
	return out
}

var reloadOrder []string
var reloadOrderLoaded bool

func loadReloadOrder() []string {
	if !reloadOrderLoaded {
		repo := os.Getenv("VERIF_REPO")
		if repo == "" {
			repo = "/repo"
		}
		reloadOrder = reloadCallOrder(repo)
		reloadOrderLoaded = true
	}
	return reloadOrder
}

// runOnce performs one pass of the configReloader loop body with the REAL functions, in the
// order the calls appear in configReloader's source; every error `continue`s.
func (e *reloadEnv) runOnce(order []string, fetch func() ([]byte, error), logger *apexlog.Logger) string {
	var data []byte
	var rules *proxy.Rules
	var cfgs []caching.StorageConfiguration
	sha := 0
	for _, call := range order {
		switch call {
		case "readMapping":
			d, err := fetch()
			if err != nil {
				return "fetcherr"
			}
			data = d
		case "util.SHA1String":
			sha++
			if sha == 1 {
				if e.checksum == util.SHA1String(data) {
					return "same"
				}
			} else {
				e.checksum = util.SHA1String(data)
			}
		case "proxy.ParseRules":
			r, err := proxy.ParseRules(data, logger)
			if err != nil {
				return "ruleserr"
			}
			rules = r
		case "router.SetRules":
			e.router.SetRules(rules)
		case "caching.ParseStorageConfigs":
			c, err := caching.ParseStorageConfigs(data)
			if err != nil {
				return "storerr"
			}
			cfgs = c
		case "cache.SetStorageConfigs":
			for _, c := range cfgs {
				if !e.cache.HasStorage(c.Id) {
					e.created++ // only to know how many size limiters to wait for before cleaning up
				}
			}
			e.cache.SetStorageConfigs(cfgs)
		}
	}
	return "loaded"
}

func reloadCase(stream string, id int, sc reloadScript) hx.Case {
	os.Setenv("ATIME_DISABLE", "true")
	in := []string{}
	sc.initial.tokens(&in)
	in = append(in, hx.I(len(sc.steps)))
	// checksum ids: equal texts ⇔ equal ids
	sums := map[string]int{}
	sumOf := func(text string) int {
		if v, ok := sums[text]; ok {
			return v
		}
		sums[text] = len(sums) + 1
		return sums[text]
	}
	render := func(d *cnode, asJSON bool) string {
		if d == nil {
			return "{ \"rules\": [ { \"path\": "
		}
		if asJSON {
			return d.jsonText()
		}
		return d.yamlText(false)
	}
	base, err := os.MkdirTemp("", "rrverif-c19-")
	if err != nil {
		return hx.Case{Stream: stream, ID: id, In: in, Impl: []string{"harness:mkdirtemp"}}
	}
	ll := &limiterLog{}
	logger := &apexlog.Logger{Handler: ll, Level: apexlog.InfoLevel}
	env := &reloadEnv{}
	defer func() {
		// every size limiter must have opened its directory before the directory goes away
		deadline := time.Now().Add(10 * time.Second)
		for atomic.LoadInt64(&ll.n) < env.created && time.Now().Before(deadline) {
			time.Sleep(200 * time.Microsecond)
		}
		if atomic.LoadInt64(&ll.n) >= env.created {
			os.RemoveAll(base)
		}
	}()
	inst := func(text string) string { return strings.ReplaceAll(text, "/S/", base+"/") }
	initText := render(sc.initial, false)
	in = append(in, hx.I(sumOf(initText)))
	for _, st := range sc.steps {
		switch {
		case st.fail:
			in = append(in, "0")
		case st.doc == nil:
			in = append(in, "1", hx.I(sumOf(render(nil, false))))
		default:
			t := render(st.doc, st.json)
			ok, _ := yamlParse(t)
			in = append(in, "2", hx.I(sumOf(t)), hx.B(ok))
			st.doc.tokens(&in)
		}
	}
	order := loadReloadOrder()
	if len(order) == 0 {
		return hx.Case{Stream: stream, ID: id, In: in, Impl: []string{"harness:no-reload-order"}}
	}
	impl := []string{}
	// start-up (main.go Run): ParseRules, NewRouter, ParseStorageConfigs, NewCacheWithOptions
	started := hx.Guard(func() []string {
		data := []byte(inst(initText))
		rules, err := proxy.ParseRules(data, Logger)
		if err != nil {
			return []string{"refused"}
		}
		env.router = proxy.NewRouterWithPerformer(rules, Logger, &config.Config{}, nullPerformer{})
		cfgs, err := caching.ParseStorageConfigs(data)
		if err != nil {
			return []string{"refused"}
		}
		env.created += int64(len(cfgs))
		env.cache = caching.NewCacheWithOptions(cfgs, logger, time.Now)
		env.checksum = util.SHA1String(data)
		return []string{"started"}
	})
	if started[0] != "started" {
		return hx.Case{Stream: stream, ID: id, In: in, Impl: []string{"refused"}}
	}
	impl = append(impl, "started")
	impl = append(impl, env.observe()...)
	for _, st := range sc.steps {
		text := inst(render(st.doc, st.json))
		fetch := func() ([]byte, error) {
			if st.fail {
				return nil, errors.New("fetch failed")
			}
			return []byte(text), nil
		}
		end := hx.Guard(func() []string { return []string{env.runOnce(order, fetch, logger)} })
		if end[0] == "panic" {
			impl = append(impl, "crash")
			break
		}
		impl = append(impl, end[0])
		impl = append(impl, env.observe()...)
		if st.fail {
			impl = append(impl, "norestart")
		} else {
			impl = append(impl, restartObs(text)...)
		}
	}
	return hx.Case{Stream: stream, ID: id, In: in, Impl: impl}
}
