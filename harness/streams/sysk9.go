package streams

import (
	"strconv"
	"sync/atomic"

	"github.com/richiefi/rrrouter/proxy"
	"github.com/richiefi/rrrouter/verifhook"

	"rrverif/harness/hx"
	"rrverif/harness/sysx"
)

// Stream condpair (C09): conditional and unconditional clients COALESCED on one fetch. r2 is
// issued while the origin holds r1's answer (world, origin and the three-phase overlap of stream
// sysk); the resource carries ETag "e1", both requests may carry an If-None-Match of their own;
// two sequential requests follow. What each client is answered (304 or the representation) must
// depend on ITS validator only.
func init() {
	register("condpair", s9Stream)
	register("kf.C09-f", s9Kf)
}

var s9Validators = []string{"", "\"e1\"", "\"zz\"", "W/\"e1\"", "\"e1\", \"zz\"", "*"}

func s9Req(id int, inm string) skReq {
	r := skReq{Method: "GET", Host: "h" + strconv.Itoa(id) + ".test", Target: "/a/etg"}
	if inm != "" {
		r.Hdr = append(r.Hdr, [2]string{"If-None-Match", inm})
	}
	return r
}

func s9Stream(g *hx.Gen, id int) hx.Case {
	v := []string{g.Pick(s9Validators), g.Pick(s9Validators), g.Pick(s9Validators), g.Pick(s9Validators)}
	return s9Run("condpair", id, v)
}

// C09-f witnesses: the writer's validator decides the waiter's answer
func s9Kf(g *hx.Gen, id int) hx.Case {
	table := [][]string{{"\"e1\"", "", "", "\"e1\""}, {"W/\"e1\"", "\"zz\"", "", ""}}
	return s9Run("kf.C09-f", id, table[id%len(table)])
}

func s9Run(stream string, id int, v []string) hx.Case {
	in := []string{hx.X(v[0]), hx.X(v[1]), hx.X(v[2]), hx.X(v[3])}
	impl := hx.Guard(func() []string {
		rules, err := proxy.ParseRules(hx.RulesJSON([]hx.RuleSpec{{Path: "/a/*", Dest: "http://d0.test/$1", Cache: "c1"}}), sysx.Logger)
		if err != nil {
			return []string{"err:rules"}
		}
		w := skGetWorld()
		verifhook.SetClock(func() int64 { return atomic.LoadInt64(&w.now) })
		verifhook.SetHandler(func(name, key string) {
			if name == "srv.wait" {
				select {
				case w.parked <- key:
				default:
				}
			}
		})
		defer verifhook.SetHandler(nil)
		w.configure(rules)
		w.org.reset()
		view := func(c sysx.ClientView, contacts int) []string {
			return []string{hx.I(c.Status), c.Framing, hx.I(len(c.Body)), edgeStatus(c), hx.I(contacts)}
		}
		// ids of this stream live in their own host name space (h<id>.test is also used by sysk, whose
		// cases never use the path /a/etg)
		outcome, v1, v2 := w.pair(s9Req(id, v[0]), s9Req(id, v[1]), 0, 1)
		out := []string{outcome}
		out = append(out, view(v1, w.org.count(0))...)
		out = append(out, view(v2, w.org.count(1))...)
		for k := 2; k < 4; k++ {
			c := w.do(s9Req(id, v[k]), k)
			w.sync()
			out = append(out, view(c, w.org.count(k))...)
		}
		return out
	})
	return hx.Case{Stream: stream, ID: id, In: in, Impl: impl}
}
