package streams

import (
	"net/http"
	"net/url"
	"strings"

	"github.com/richiefi/rrrouter/proxy"
	"github.com/richiefi/rrrouter/util"

	"rrverif/harness/hx"
)

func init() {
	register("match", matchStream)
	register("dropport", dropPortStream)
	register("scheme", schemeStream)
}

// genMatchedString builds the string Rules.Match is given, biased towards the rule set's own
// prefixes, hosts and schemes (matches, near-misses, shadowing, prefix overlap).
func genMatchedString(g *hx.Gen, rs []hx.RuleSpec) string {
	sch := g.Pick([]string{"http", "https"})
	host := g.Pick(hx.Hosts)
	if g.Chance(10) {
		host = "other.test"
	}
	path := ""
	if len(rs) > 0 && g.Chance(75) {
		p := rs[g.Intn(len(rs))].Path
		p = strings.TrimSuffix(p, "*")
		if !strings.HasPrefix(p, "/") {
			p = "/" + p
		}
		if strings.Contains(p, "*") {
			p = "/a"
		}
		path = p
		switch g.Intn(6) {
		case 0: // exactly the prefix: empty capture
		case 1:
			path += g.Pick(hx.Segs)
		case 2:
			path += g.Pick(hx.Segs) + "/" + g.Pick(hx.Segs)
		case 3:
			path += "/" + g.Pick(hx.Segs)
		case 4:
			path = strings.TrimSuffix(path, "/")
		case 5:
			path += "%2F" + g.Pick(hx.Segs)
		}
	} else {
		n := g.Intn(4)
		for i := 0; i < n; i++ {
			path += "/" + g.Pick(hx.Segs)
		}
		if g.Chance(15) {
			path += "/"
		}
		if g.Chance(5) {
			path = "/" + path
		}
	}
	if g.Chance(12) {
		// the same path in another case: a pattern with upper-case letters must not match it, nor the reverse
		if g.Bool() {
			path = strings.ToLower(path)
		} else {
			path = strings.ToUpper(path)
		}
	}
	q := ""
	switch g.Intn(8) {
	case 0:
		q = "?"
	case 1:
		q = "?x=1"
	case 2:
		q = "?a=b&c=%20d"
	}
	return sch + "://" + host + path + q
}

func genMethod(g *hx.Gen) string {
	switch g.Intn(12) {
	case 0:
		return "get"
	case 1:
		return "PATCH"
	}
	return g.Pick(hx.KnownMethods)
}

func matchStream(g *hx.Gen, id int) hx.Case {
	n := 1 + g.Intn(8)
	rs := make([]hx.RuleSpec, n)
	for i := range rs {
		rs[i] = hx.GenRule(g, i)
	}
	s := genMatchedString(g, rs)
	method := genMethod(g)
	method2 := genMethod(g)
	in := hx.RulesTokens(rs)
	u, perr := url.Parse(s)
	if perr != nil {
		in = append(in, hx.X(s), "0", hx.X(""), hx.X(""), hx.X(""), hx.X(method), hx.X(method2))
	} else {
		in = append(in, hx.X(s), "1", hx.X(u.Scheme), hx.X(u.Host), hx.X(u.RequestURI()), hx.X(method), hx.X(method2))
	}
	impl := hx.Guard(func() []string {
		rules, err := proxy.ParseRules(hx.RulesJSON(rs), Logger)
		if err != nil {
			return []string{"err:rules"}
		}
		pi, pt, ci, ct, err := proxy.VerifMatch(rules, s, method)
		if err != nil {
			return []string{"err:match"}
		}
		out := []string{hx.I(pi), hx.X(pt), hx.I(ci), hx.X(ct)}
		// history: the SAME Rules value is asked again — same string with another method, then the
		// first query once more (matching must not depend on what was asked before)
		for _, m := range []string{method2, method} {
			pi, pt, ci, ct, err := proxy.VerifMatch(rules, s, m)
			if err != nil {
				return []string{"err:match"}
			}
			out = append(out, hx.I(pi), hx.X(pt), hx.I(ci), hx.X(ct))
		}
		return out
	})
	return hx.Case{Stream: "match", ID: id, In: in, Impl: impl}
}

func dropPortStream(g *hx.Gen, id int) hx.Case {
	var s string
	switch g.Intn(6) {
	case 0:
		s = g.Pick([]string{"", ":", ":80", "[", "[::1", "[::1]", "[::1]:80", "]", "[]", "a]:1", "[a]b]:9", "h:1:2", "h:", "h"})
	case 1:
		s = g.Str("[]:ab1.", 8)
	default:
		s = g.Pick(hx.Hosts)
		if g.Bool() {
			s += ":" + hx.I(g.Intn(70000))
		}
	}
	impl := hx.Guard(func() []string { return []string{"ok", hx.X(util.DropPort(s))} })
	return hx.Case{Stream: "dropport", ID: id, In: []string{hx.X(s)}, Impl: impl}
}

func schemeStream(g *hx.Gen, id int) hx.Case {
	xfp := g.Pick([]string{"", "http", "https", "HTTPS", "Https", "httpss", " https", "ws"})
	has := xfp != "" || g.Bool()
	req, _ := http.NewRequest("GET", "http://h/", nil)
	if has {
		req.Header.Set("X-Forwarded-Proto", xfp)
	}
	impl := hx.Guard(func() []string { return []string{hx.X(proxy.VerifScheme(req))} })
	return hx.Case{Stream: "scheme", ID: id, In: []string{"0", hx.X(xfp)}, Impl: impl}
}
