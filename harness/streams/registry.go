// Package streams: one generator+implementation-runner per correspondence stream.
package streams

import "rrverif/harness/hx"

// A Stream produces case number id from g: input tokens and what the implementation did.
type Stream func(g *hx.Gen, id int) hx.Case

var Registry = map[string]Stream{}

func register(name string, s Stream) { Registry[name] = s }

// A ReplayStream runs the implementation on inputs generated elsewhere (by the Lean driver:
// `rrdrv gen <stream> <seed> <n>`), e.g. schedules chosen by the interleaving model.
type ReplayStream func(in []string, id int) hx.Case

var Replays = map[string]ReplayStream{}

func registerReplay(name string, s ReplayStream) { Replays[name] = s }
