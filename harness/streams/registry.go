// Package streams: one generator+implementation-runner per correspondence stream.
package streams

import "rrverif/harness/hx"

// A Stream produces case number id from g: input tokens and what the implementation did.
type Stream func(g *hx.Gen, id int) hx.Case

var Registry = map[string]Stream{}

func register(name string, s Stream) { Registry[name] = s }
