package streams

import (
	"net/http"
	"strings"
	"sync"

	"github.com/richiefi/rrrouter/config"
	"github.com/richiefi/rrrouter/proxy"
	"github.com/richiefi/rrrouter/verifhook"

	"rrverif/harness/hx"
	"rrverif/harness/sysx"
)

func init() {
	register("crash", crashStream)
	// finding C13-a seen from C14: the origin's body breaks off; writeBody still closes the writer (the truncated file is
	// PUBLISHED: xattr set, renamed) and only then errCleanup deletes it: a crash in between leaves a truncated entry that
	// the restarted cache serves as a hit (no size check when the stored response has a Content-Length)
	register("kf.C13-a.crash", func(g *hx.Gen, id int) hx.Case { return crashCase("kf.C13-a.crash", id, 5+id%2, 1+(id/2)%2) })
}

var crashMu sync.Mutex

const cacheRule = `{"rules":[{"path":"/c/*","destination":"http://o.test/$1","cache":"c1"}]}`

type crashSnap struct {
	point string
	dir   string
}

// versions of the resource the origin hands out
var bodyV = map[int][]byte{1: []byte("version-one-0123456789"), 2: []byte("VERSION-TWO-abcdefghijklmnop"), 9: []byte("probe-version-9")}

func crashOrigin(version int, status int, extra [][2]string, readSizes []int) func(*http.Request) *sysx.OriginResp {
	return func(req *http.Request) *sysx.OriginResp {
		r := &sysx.OriginResp{Status: status, ReadErrAt: -1, ReadSizes: readSizes}
		r.Header = append([][2]string{{"Cache-Control", "max-age=1000"}, {"Content-Type", "text/plain"}}, extra...)
		if status == 200 {
			r.Body = bodyV[version]
		}
		return r
	}
}

func crashReq(path string, origin bool) []byte {
	s := "GET /c/" + path + " HTTP/1.1\r\nHost: h1.test\r\nConnection: close\r\n"
	if origin {
		s += "Origin: https://app.test\r\n"
	}
	return []byte(s + "\r\n")
}

func edgeStatus(v sysx.ClientView) string {
	for _, kv := range v.Header {
		if strings.EqualFold(kv[0], "Richie-Edge-Cache") {
			return kv[1]
		}
	}
	return "none"
}

func versionOf(b []byte) int {
	for v, d := range bodyV {
		if string(d) == string(b) {
			return v
		}
	}
	return 0
}

// crashStream: one scenario per case; at every hook point that concerns the entry the cache
// directory is snapshotted; afterwards each snapshot is served by a fresh cache and probed twice.
//
//	kind 0 fresh fill, 1 revalidating 200 fill, 2 304 revalidation, 3 Vary: Origin fresh fill,
//	4 Vary: Origin on revalidation (key change of an existing entry)
func crashStream(g *hx.Gen, id int) hx.Case {
	return crashCase("crash", id, id%5, 1+(id/5)%3)
}

// kinds 5, 6 (witness stream kf.C13-a.crash): fresh fill / revalidating 200 fill whose origin body breaks off mid-stream
func crashCase(stream string, id int, kind int, nchunks int) hx.Case {
	crashMu.Lock()
	defer crashMu.Unlock()
	in := []string{hx.I(kind), hx.I(nchunks)}
	impl := hx.Guard(func() []string {
		rules, err := proxy.ParseRules([]byte(cacheRule), sysx.Logger)
		if err != nil {
			return []string{"err:rules"}
		}
		live, err := sysx.NewWorld(true)
		if err != nil {
			return []string{"err:world"}
		}
		defer live.Close()
		now := live.NowUnix()
		verifhook.SetClock(func() int64 { return live.NowUnix() })
		defer verifhook.SetClock(nil)
		live.Configure(rules, &config.Config{RetryTimes: []int{}})
		path := "res" + hx.I(id)
		withOrigin := kind >= 3
		sizes := []int{}
		for i := 1; i < nchunks; i++ {
			sizes = append(sizes, 5)
		}
		// preparation (no snapshots): kinds 1, 2, 4 start from a published v1 entry
		if kind == 1 || kind == 2 || kind == 4 || kind == 6 {
			extra := [][2]string{{"ETag", "\"v1\""}}
			live.Perf.Reset(crashOrigin(1, 200, extra, nil))
			v := live.Do(crashReq(path, withOrigin), false)
			if v.Status != 200 {
				return []string{"err:prep", hx.I(v.Status)}
			}
			waitPublished(live)
			live.Advance(2000) // past max-age
		}
		var snaps []crashSnap
		var mu sync.Mutex
		verifhook.SetHandler(func(name, key string) {
			if !(strings.HasPrefix(name, "wh.") || strings.HasPrefix(name, "write.") || strings.HasPrefix(name, "close.") ||
				strings.HasPrefix(name, "changekey.") || strings.HasPrefix(name, "delete.") || name == "notify.before-send") {
				return
			}
			d, err := sysx.Snapshot(live.Dir)
			if err != nil {
				return
			}
			mu.Lock()
			snaps = append(snaps, crashSnap{name, d})
			mu.Unlock()
		})
		switch kind {
		case 0:
			live.Perf.Reset(crashOrigin(1, 200, nil, sizes))
		case 1:
			live.Perf.Reset(crashOrigin(2, 200, [][2]string{{"ETag", "\"v2\""}}, sizes))
		case 2:
			live.Perf.Reset(crashOrigin(1, 304, [][2]string{{"ETag", "\"v1\""}}, nil))
		case 3:
			live.Perf.Reset(crashOrigin(1, 200, [][2]string{{"Vary", "Origin"}}, sizes))
		case 4:
			live.Perf.Reset(crashOrigin(2, 200, [][2]string{{"Vary", "Origin"}, {"ETag", "\"v2\""}}, sizes))
		case 5, 6:
			ver := kind - 4 // 1 for the fresh fill, 2 for the revalidating one
			inner := crashOrigin(ver, 200, [][2]string{{"ETag", "\"v" + hx.I(ver) + "\""}}, sizes)
			live.Perf.Reset(func(req *http.Request) *sysx.OriginResp {
				r := inner(req)
				r.ReadErrAt = len(r.Body) / 2
				return r
			})
		}
		v := live.Do(crashReq(path, withOrigin), false)
		waitPublished(live)
		verifhook.SetHandler(nil)
		out := []string{hx.I(v.Status), hx.I(versionOf(v.Body)), hx.I(len(snaps))}
		tnow := live.NowUnix()
		_ = now
		for _, s := range snaps {
			out = append(out, s.point)
			// (the probe world retires the image directory when it closes: it must outlive the start-up
			// scan of the probe's size limiters)
			out = append(out, probe(s.dir, rules, path, withOrigin, tnow)...)
		}
		return out
	})
	return hx.Case{Stream: stream, ID: id, In: in, Impl: impl}
}

// probe serves a crash image with a fresh cache instance: GET twice; tokens per probe:
// status, edge status (hit/miss/…), version of the body (0 = unknown/garbled).
func probe(dir string, rules *proxy.Rules, path string, withOrigin bool, now int64) []string {
	w, err := sysx.NewWorldAt(dir, now)
	if err != nil {
		return []string{"err:probe"}
	}
	defer w.Close() // removes the snapshot directory too
	w.Configure(rules, &config.Config{RetryTimes: []int{}})
	w.Perf.Reset(crashOrigin(9, 200, nil, nil))
	out := []string{}
	for i := 0; i < 2; i++ {
		v := w.Do(crashReq(path, withOrigin), false)
		out = append(out, hx.I(v.Status), edgeStatus(v), hx.I(versionOf(v.Body)), v.Framing)
		waitPublished(w)
	}
	return out
}

// waitPublished waits until the asynchronous notifier has released the key (bounded).
func waitPublished(w *sysx.World) {
	w.Quiesce()
}
