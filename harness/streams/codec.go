package streams

// Streams of the metadata codec (C07, function level):
//
//	codec      StorageMetadata -> VerifEncodeMeta -> VerifDecodeMeta; oracle: round trip
//	codec.raw  arbitrary strings -> VerifSToHeader / VerifDecodeMeta, arbitrary maps -> VerifHeaderToS
//	           (model = implementation only; this is where the decoder's panic branch lives)
//	storeprep  the header preparation of storageWriter.WriteHeader, assembled from the real
//	           util.DenyHeaders / util.StripETagSuffix in the order pinned by Pins.storePrepShape
//	kf.C07-a   fixed witnesses of the known finding
//
// JSON fallback of decodeStorageMetadata: not modelled.  Declared domain: inputs on which the custom
// format fails are not JSON documents.  Encoder output never is (>= 8 '|' and a trailing digit);
// the raw decoder inputs always start with a byte that cannot start a JSON value.

import (
	"math"
	"net/http"
	"os"
	"sort"

	"github.com/richiefi/rrrouter/caching"
	"github.com/richiefi/rrrouter/util"

	"rrverif/harness/hx"
)

func init() {
	register("codec", codecStream)
	register("codec.raw", codecRawStream)
	register("storeprep", storePrepStream)
	register("kf.C07-a", kfC07a)
}

// ---- token rendering ---------------------------------------------------------------------------

// codecHeaderTokens: n, then per key (sorted): key, number of values, values.
func codecHeaderTokens(h http.Header) []string {
	keys := make([]string, 0, len(h))
	for k := range h {
		keys = append(keys, k)
	}
	sort.Strings(keys)
	out := []string{hx.I(len(keys))}
	for _, k := range keys {
		out = append(out, hx.X(k), hx.I(len(h[k])))
		for _, v := range h[k] {
			out = append(out, hx.X(v))
		}
	}
	return out
}

func metaTokens(sm caching.StorageMetadata) []string {
	out := []string{hx.X(sm.Host), hx.X(sm.Path)}
	out = append(out, codecHeaderTokens(sm.RequestHeader)...)
	out = append(out, codecHeaderTokens(sm.ResponseHeader)...)
	out = append(out, hx.I64(int64(sm.Status)), hx.X(sm.RedirectedURL), hx.I64(sm.Created), hx.I64(sm.Revalidated), hx.I64(sm.Size))
	return out
}

// ---- grammar -----------------------------------------------------------------------------------

// ordinary header names, canonical as net/http produces them
var codecKeys = []string{"Content-Type", "Content-Length", "Cache-Control", "Etag", "Last-Modified", "Expires", "Date",
	"Vary", "Set-Cookie", "Link", "Location", "Content-Encoding", "Content-Language", "Accept-Ranges", "Age",
	"Www-Authenticate", "X-Request-Id", "X-A", "X-B", "X-Evil", "Content-Security-Policy", "Server", "Via", "A", "X-Json"}

// ordinary values: commas, spaces, '=', '/', ';', ':', quotes, digits, braces, inner brackets
var codecAtoms = []string{"text/html; charset=utf-8", "application/json", "max-age=60, public", "no-cache", "gzip", "br",
	"W/\"abc-123\"", "\"v1\"", "a=1; Path=/; HttpOnly", "sid=abc; Max-Age=3600; SameSite=Lax", "Mon, 02 Jan 2006 15:04:05 GMT",
	"0", "1234", "*", "Accept-Encoding", "Accept-Encoding, Origin", "<https://h1.test/x>; rel=\"next\"", "bytes",
	"https://h2.test/a/b?x=1&y=2", "default-src 'self'; img-src *", "x", "é", "\xff\xfe", "a[1]b", "{\"a\":1}", "k: v", "1.1 varnish"}

// every delimiter the codec uses, and JSON-looking text
var codecDelims = []string{"|", "[", "]", "],", "{", "}", ":", ",", "\"", " ", "[x]", "a],X-Evil:[1", "{\"a\":[1,2],\"b\":\"x\"}",
	"[\"a\",\"b\"]", "{}", "[]", "]]", "[[", "],]", ":[", "]}", "{[", "|0|", "http://[::1]", "]", "["}

func genValue(g *hx.Gen, wild bool) string {
	if g.Chance(6) {
		return ""
	}
	n := 1
	if g.Chance(30) {
		n += g.Intn(4)
	}
	s := ""
	for i := 0; i < n; i++ {
		if wild && g.Chance(55) {
			s += g.Pick(codecDelims)
		} else {
			s += g.Pick(codecAtoms)
		}
	}
	if g.Chance(2) { // long value
		for len(s) < 600 {
			s += g.Pick(codecAtoms) + " "
		}
	}
	return s
}

func genKey(g *hx.Gen, wild bool) string {
	if wild && g.Chance(8) {
		// '|' is a token byte: a syntactically valid header name the format cannot carry
		return http.CanonicalHeaderKey(g.Pick([]string{"X-A|b", "X|", "|"}))
	}
	if g.Chance(12) {
		return http.CanonicalHeaderKey("x-" + g.Str("abcXYZ019-_.!#$%&'*+^`~", 6))
	}
	return g.Pick(codecKeys)
}

// genHeader: 0..max names, canonical keys, every key with at least one value (as net/http builds them).
func genHeader(g *hx.Gen, max int, wildPct int) http.Header {
	h := http.Header{}
	n := g.Intn(max + 1)
	for i := 0; i < n; i++ {
		wild := g.Chance(wildPct)
		k := genKey(g, wild)
		if _, dup := h[k]; dup {
			continue
		}
		vals := []string{genValue(g, wild)}
		if g.Chance(5) { // repeated header line
			for j := g.Intn(3); j >= 0; j-- {
				vals = append(vals, genValue(g, wild))
			}
		}
		h[k] = vals
	}
	return h
}

func genInt64(g *hx.Gen, base int64) int64 {
	switch g.Intn(12) {
	case 0:
		return 0
	case 1:
		return []int64{math.MaxInt64, math.MinInt64, -1, 1, math.MaxInt32, math.MaxInt32 + 1}[g.Intn(6)]
	case 2:
		return -int64(g.Intn(100000))
	}
	return base + int64(g.Intn(1000000))
}

func genPlainField(g *hx.Gen, kind int, wild bool) string {
	var s string
	switch kind {
	case 0:
		s = g.Pick(hx.Hosts)
		if g.Chance(20) {
			s += ":8080"
		}
	case 1:
		s = ""
		for i := g.Intn(4); i >= 0; i-- {
			s += "/" + g.Pick(hx.Segs)
		}
		if g.Chance(30) {
			s += "?a=b&c=%7Cd"
		}
	default:
		if g.Chance(70) {
			return ""
		}
		s = "https://" + g.Pick(hx.Hosts) + "/" + g.Pick(hx.Segs) + "?next=1"
	}
	if wild && g.Chance(50) {
		s += g.Pick([]string{"|", "|x", "?q=a|b", "{", "],", "[", " "})
	}
	return s
}

func genMeta(g *hx.Gen) caching.StorageMetadata {
	wildPct := 0
	switch g.Intn(10) {
	case 0, 1, 2:
		wildPct = 25
	case 3:
		wildPct = 100
	}
	wildField := wildPct > 0 && g.Chance(10)
	sm := caching.StorageMetadata{
		Host:           genPlainField(g, 0, wildField),
		Path:           genPlainField(g, 1, wildField),
		RequestHeader:  genHeader(g, 3, wildPct/2),
		ResponseHeader: genHeader(g, 12, wildPct),
		Status:         []int{200, 200, 200, 301, 302, 307, 308, 400, 404, 0, -1, 204}[g.Intn(12)],
		RedirectedURL:  genPlainField(g, 2, wildField),
		Created:        genInt64(g, 1700000000),
		Revalidated:    genInt64(g, 0),
		Size:           genInt64(g, 0),
	}
	if g.Chance(3) {
		sm.Status = int(genInt64(g, 0))
	}
	return sm
}

// codecRun: encoded bytes, then the decode result.
func codecRun(sm caching.StorageMetadata) []string {
	var enc []byte
	out := hx.Guard(func() []string {
		enc = caching.VerifEncodeMeta(sm)
		return []string{hx.X(string(enc))}
	})
	if len(out) == 1 && out[0] == "panic" {
		return out
	}
	return append(out, decodeTokens(enc)...)
}

func decodeTokens(b []byte) []string {
	return hx.Guard(func() []string {
		got, err := caching.VerifDecodeMeta(append([]byte(nil), b...))
		if err != nil {
			return []string{"err"}
		}
		return append([]string{"ok"}, metaTokens(got)...)
	})
}

func codecStream(g *hx.Gen, id int) hx.Case {
	sm := genMeta(g)
	return hx.Case{Stream: "codec", ID: id, In: metaTokens(sm), Impl: codecRun(sm)}
}

// ---- known-finding witnesses -------------------------------------------------------------------

func witnessMeta(resp http.Header) caching.StorageMetadata {
	return caching.StorageMetadata{Host: "h1.test", Path: "/a", RequestHeader: http.Header{}, ResponseHeader: resp,
		Status: 200, Created: 1700000000, Size: 3}
}

var c07aWitnesses = []caching.StorageMetadata{
	witnessMeta(http.Header{"Set-Cookie": {"a=1", "b=2"}}),               // second value lost
	witnessMeta(http.Header{"X-Json": {"[x]"}}),                          // brackets lost
	witnessMeta(http.Header{"X-A": {"a],X-Evil:[1"}}),                    // a header is injected
	witnessMeta(http.Header{"Link": {"</a|b>; rel=next"}}),               // entry undecodable
	witnessMeta(http.Header{"Location": {"http://[::1]"}, "Vary": {""}}), // redirect target truncated
}

func kfC07a(g *hx.Gen, id int) hx.Case {
	sm := c07aWitnesses[id%len(c07aWitnesses)]
	return hx.Case{Stream: "kf.C07-a", ID: id, In: metaTokens(sm), Impl: codecRun(sm)}
}

// ---- raw decoder / encoder inputs --------------------------------------------------------------

var rawHeaderStrings = []string{"", "{}", "{", "}", "{{}}", "{a:[b]}", "{a:[b],", "{a:[b],}", "{a:[b],c}", "{a:[b],c:[d]}", "{a:[b],c:[d]",
	"{a}", "{:}", "{:[]}", "{a:[b],:}", "a:[b]", "{a:[b],],", "{],", "{],]}", "{],x", "{a:[b],c:[d],e:[f]}", "{a:[b],c,e:[f]}",
	"{content-type:[x]}", "{A:[1],a:[2]}", "{a b:[1]}", "{a:[[[b]]]}", "{a::[b]}", "{a:}", "{}a:[b]}", "{a:[b]}}}{{"}

func genRawHeaderString(g *hx.Gen) string {
	if g.Chance(35) {
		return g.Pick(rawHeaderStrings)
	}
	s := ""
	if g.Chance(85) {
		s = "{"
	}
	n := g.Intn(5)
	for i := 0; i < n; i++ {
		switch g.Intn(8) {
		case 0:
			s += g.Pick(codecDelims)
		case 1:
			s += g.Str("{}[],:ab", 5)
		default:
			s += genKey(g, false) + ":[" + genValue(g, g.Chance(30)) + "]"
		}
		if i != n-1 || g.Chance(10) {
			s += g.Pick([]string{",", ",", ",", ",", "],", "", "]"})
		}
	}
	if g.Chance(85) {
		s += "}"
	}
	return s
}

var rawInts = []string{"0", "200", "-1", "+5", "007", "", "-", "+", "1_0", "9223372036854775807", "9223372036854775808",
	"-9223372036854775808", "-9223372036854775809", "12a", " 1", "1 ", "0x10", "1e3", "１"}

func genRawInt(g *hx.Gen) string {
	if g.Chance(25) {
		return g.Pick(rawInts)
	}
	return hx.I64(genInt64(g, 1700000000))
}

func rawHeaderOut(h http.Header, err error) []string {
	if err != nil {
		return []string{"err"}
	}
	return append([]string{"ok"}, codecHeaderTokens(h)...)
}

func codecRawStream(g *hx.Gen, id int) hx.Case {
	switch g.Intn(3) {
	case 0: // sToHeader on an arbitrary string
		s := genRawHeaderString(g)
		impl := hx.Guard(func() []string {
			h := http.Header{}
			s2 := s
			err := caching.VerifSToHeader(&h, &s2)
			return rawHeaderOut(h, err)
		})
		return hx.Case{Stream: "codec.raw", ID: id, In: []string{"0", hx.X(s)}, Impl: impl}
	case 1: // decodeStorageMetadata on arbitrary non-JSON bytes
		fields := []string{g.Pick(hx.Hosts), genPlainField(g, 1, g.Chance(10)), genRawHeaderString(g), genRawHeaderString(g),
			genRawInt(g), genPlainField(g, 2, g.Chance(10)), genRawInt(g), genRawInt(g), genRawInt(g)}
		if g.Chance(70) { // mostly well-formed header fields, so that the later fields are reached
			fields[2] = caching.VerifHeaderToS(ptrHeader(genHeader(g, 2, 0)))
			if g.Chance(70) {
				fields[3] = caching.VerifHeaderToS(ptrHeader(genHeader(g, 4, 10)))
			}
		}
		switch g.Intn(10) {
		case 0:
			fields = fields[:g.Intn(9)+1]
		case 1:
			fields = append(fields, g.Pick(rawInts))
		}
		s := ""
		for i, f := range fields {
			if i > 0 {
				s += "|"
			}
			s += f
		}
		// first byte is 'h' (hx.Hosts): the input cannot be a JSON document
		return hx.Case{Stream: "codec.raw", ID: id, In: []string{"1", hx.X(s)}, Impl: decodeTokens([]byte(s))}
	default: // headerToS on an arbitrary map: raw (non-canonical) keys, empty value slices
		h := genHeader(g, 5, 30)
		for i := g.Intn(3); i > 0; i-- {
			k := g.Pick([]string{"x-lower", "content-type", "X-a", "ETAG", "a b", "", "{x", "x:y", "X-Empty"})
			if g.Chance(30) {
				h[k] = []string{}
			} else {
				h[k] = []string{genValue(g, g.Chance(30))}
			}
		}
		impl := hx.Guard(func() []string { return []string{hx.X(caching.VerifHeaderToS(&h))} })
		return hx.Case{Stream: "codec.raw", ID: id, In: append([]string{"2"}, codecHeaderTokens(h)...), Impl: impl}
	}
}

func ptrHeader(h http.Header) *http.Header { return &h }

// ---- store-time header preparation -------------------------------------------------------------

// storePrepStream replays the storing branch of storageWriter.WriteHeader (caching/disk.go:946-954)
// on a header map, with the real util.DenyHeaders / util.StripETagSuffix / caching.IsCacheableError and
// the real constant caching.HeaderRrrouterCacheStatus; the order of the steps is the one the fact
// pin Pins.storePrepShape fixes.  ETAG_SUFFIX is set per case (the harness is single-threaded).
// Declared domain: canonical keys, at most one ETag line (a second one is dropped by h.Set; the
// codec keeps only first values anyway, finding C07-a).
func storePrepStream(g *hx.Gen, id int) hx.Case {
	suffix := g.Pick([]string{"", "", "-rr", "-rr", "xyz", "\"", "r"})
	status := []int{200, 200, 301, 308, 399, 400, 401, 404, 405, 0}[g.Intn(10)]
	h := genHeader(g, 8, 10)
	delete(h, "Etag")
	if g.Chance(70) {
		tag := g.Pick([]string{"\"abc\"", "W/\"abc\"", "abc", "", "\"", "\"\"", "abc\"", "\"a\"b\""})
		switch g.Intn(4) {
		case 0:
			tag += suffix
		case 1:
			if len(tag) > 0 && tag[len(tag)-1] == '"' {
				tag = tag[:len(tag)-1] + suffix + "\""
			}
		case 2:
			tag = suffix + tag + suffix + suffix
		}
		h["Etag"] = []string{tag}
	}
	if g.Chance(40) {
		h["Richie-Edge-Cache"] = []string{g.Pick([]string{"hit", "miss", "pass"})}
	}
	if g.Chance(5) {
		h["richie-edge-cache"] = []string{"uncacheable"} // raw key as server.go:272 builds it
	}
	in := []string{hx.X(suffix), hx.I(status)}
	in = append(in, codecHeaderTokens(h)...)
	impl := hx.Guard(func() []string {
		os.Setenv("ETAG_SUFFIX", suffix)
		defer os.Unsetenv("ETAG_SUFFIX")
		h := h.Clone()
		if caching.IsCacheableError(status) {
			h.Set("cache-control", "s-maxage=60, max-age=60")
		}
		h = util.DenyHeaders(h, []string{caching.HeaderRrrouterCacheStatus})
		if etag := h.Get("etag"); len(etag) > 0 {
			h.Set("etag", util.StripETagSuffix(etag))
		}
		out := util.DenyHeaders(h, []string{caching.HeaderRrrouterCacheStatus})
		return codecHeaderTokens(out)
	})
	return hx.Case{Stream: "storeprep", ID: id, In: in, Impl: impl}
}
