package streams

// Streams of the freshness / cache-control slice (C08, C10, the client-304 clause of C09):
//
//	ccparse    caching.GetCacheControlDirectives (+ DoNotCache, VaryByOrigin, CanStale*) on header
//	           maps drawn from a directive-spelling grammar
//	fresh      the PUBLIC caching.Cache.Get on an entry prepared on disk (file + user.rrrouter xattr),
//	           injected clock, ETAG_SUFFIX set per case, key lock free or held
//	httpdate   time.Parse with time.RFC1123 / time.RFC1123Z (what caching.go:227-234 calls)
//	skipcache  server.shouldSkipCaching
//	kf.C10-b kf.C08-a kf.C08-b kf.C09-a   fixed witness tables of the known findings
//	kf.C10-a   the witnesses of the repaired finding C10-a (HTAB as optional white space), kept as a
//	           regression stream: every case must now be honoured (oracle ok, no class)

import (
	"context"
	"net/http"
	"net/http/httptest"
	"os"
	"path/filepath"
	"sort"
	"strings"
	"sync"
	"time"

	"github.com/c2h5oh/datasize"
	"github.com/pkg/xattr"
	"github.com/richiefi/rrrouter/caching"
	"github.com/richiefi/rrrouter/proxy"
	"github.com/richiefi/rrrouter/server"

	"rrverif/harness/hx"
)

func init() {
	// Declared domain of the time.Parse emulation (DESIGN Appendix D): zone abbreviations are
	// resolved against UTC only.
	time.Local = time.UTC
	register("ccparse", ccStream)
	register("fresh", frStream)
	register("httpdate", frHTTPDateStream)
	register("skipcache", frSkipcacheStream)
	register("kf.C10-a", func(g *hx.Gen, id int) hx.Case { return ccCase("kf.C10-a", id, frKfC10a[id%len(frKfC10a)], 0) })
	register("kf.C10-b", func(g *hx.Gen, id int) hx.Case { return ccCase("kf.C10-b", id, frKfC10b[id%len(frKfC10b)], 0) })
	register("kf.C08-a", func(g *hx.Gen, id int) hx.Case { return frCase("kf.C08-a", id, frKfC08a[id%len(frKfC08a)]) })
	register("kf.C08-b", func(g *hx.Gen, id int) hx.Case { return frCase("kf.C08-b", id, frKfC08b[id%len(frKfC08b)]) })
	register("kf.C09-a", func(g *hx.Gen, id int) hx.Case { return frCase("kf.C09-a", id, frKfC09a[id%len(frKfC09a)]) })
}

// frHeaderTokens renders a header map: n {key nv {val}}, keys sorted, value order kept.
func frHeaderTokens(h http.Header) []string {
	keys := make([]string, 0, len(h))
	for k := range h {
		keys = append(keys, k)
	}
	sort.Strings(keys)
	out := []string{hx.I(len(keys))}
	for _, k := range keys {
		out = append(out, hx.X(k), hx.I(len(h[k])))
		for _, v := range h[k] {
			out = append(out, hx.X(v))
		}
	}
	return out
}

func frPick64(g *hx.Gen, xs []int64) int64 { return xs[g.Intn(len(xs))] }

func frOptInt(p *int64) string {
	if p == nil {
		return "nil"
	}
	return hx.I64(*p)
}

// ---------------------------------------------------------------------------------------------
// ccparse

var ccBare = []string{"no-store", "no-cache", "private", "public", "must-revalidate", "immutable", "no-transform",
	// near misses
	"no-stores", "nostore", "no_store", "\"no-store\"", "private=\"x\"", "no-cache=\"set-cookie\"", "xno-store", "no-store;", "private x", "no-cache=", "=private", ""}
var ccNumName = []string{"max-age", "s-maxage", "stale-if-error", "stale-while-revalidate",
	"xmax-age", "max-ages", "maxage", "s-max-age", "smaxage"}
var ccNumVal = []string{"0", "0", "0", "00", "1", "5", "10", "60", "3600", "0x", "-1", "+0", "-0", "\"0\"", "", "1.5", "5=6", "0 0",
	"9223372036854775807", "9223372036854775808", "-9223372036854775808", "-9223372036854775809", "99999999999999999999", "000000000000000000000000"}
var ccOWS = []string{"", "", "", "", "", "", "", "", "", "", "", " ", " ", " ", " ", "  ", "   ", "\t", " \t", "\t "}

func frRecase(g *hx.Gen, s string) string {
	switch g.Intn(5) {
	case 0:
		return strings.ToUpper(s)
	case 1:
		b := []byte(s)
		for i := range b {
			if g.Bool() && b[i] >= 'a' && b[i] <= 'z' {
				b[i] -= 32
			}
		}
		return string(b)
	}
	return s
}

func ccGenElement(g *hx.Gen) string {
	var e string
	if g.Chance(45) {
		e = g.Pick(ccBare)
		if g.Chance(60) {
			e = g.Pick(ccBare[:3])
		}
	} else {
		name := g.Pick(ccNumName)
		if g.Chance(65) {
			name = g.Pick(ccNumName[:4])
		}
		eq := "="
		switch g.Intn(12) {
		case 0:
			eq = " ="
		case 1:
			eq = "= "
		case 2:
			eq = " = "
		case 3:
			eq = "\t="
		case 4:
			eq = "=\t"
		case 5:
			eq = "=="
		}
		e = name + eq + g.Pick(ccNumVal)
	}
	e = frRecase(g, e)
	return g.Pick(ccOWS) + e + g.Pick(ccOWS)
}

func ccGenValue(g *hx.Gen) string {
	n := 1 + g.Intn(4)
	parts := make([]string, n)
	for i := range parts {
		parts[i] = ccGenElement(g)
	}
	sep := ","
	if g.Chance(5) {
		sep = ",,"
	}
	return strings.Join(parts, sep)
}

func frGenVary(g *hx.Gen) []string {
	return []string{g.Pick([]string{"Origin", "origin", "ORIGIN", "Accept-Encoding", "Accept-Encoding, Origin", " origin ", "\torigin", "Origin\t,x", "origins", "*", "", "a,origin,b", "Accept-Encoding,Origin ,  Cookie"})}
}

func ccGenHeader(g *hx.Gen) http.Header {
	h := http.Header{}
	if !g.Chance(4) {
		lines := 1
		if g.Chance(30) {
			lines = 2 + g.Intn(2)
		}
		key := "Cache-Control"
		if g.Chance(3) {
			key = "cache-control" // raw non-canonical map key: invisible to Header.Values
		}
		for i := 0; i < lines; i++ {
			h[key] = append(h[key], ccGenValue(g))
		}
	}
	if g.Chance(35) {
		h["Vary"] = frGenVary(g)
		if g.Chance(20) {
			h["Vary"] = append(h["Vary"], frGenVary(g)...)
		}
	}
	if g.Chance(10) {
		h["Content-Type"] = []string{"text/plain"}
	}
	return h
}

func ccCase(stream string, id int, h http.Header, age int64) hx.Case {
	in := append(frHeaderTokens(h), hx.I64(age))
	impl := hx.Guard(func() []string {
		dirs := caching.GetCacheControlDirectives(h)
		v := caching.VerifDirectives(dirs)
		out := []string{hx.B(v.NoCache), hx.B(v.NoStore), hx.B(v.Private), frOptInt(v.MaxAge), frOptInt(v.SMaxAge),
			frOptInt(v.StaleIfError), frOptInt(v.StaleWhileRevalidate), hx.I(len(v.Vary))}
		for _, s := range v.Vary {
			out = append(out, hx.X(s))
		}
		out = append(out, hx.B(dirs.DoNotCache()), hx.B(dirs.VaryByOrigin()), hx.B(dirs.CanStaleIfError(age)), hx.B(dirs.CanStaleWhileRevalidate(age)))
		return out
	})
	return hx.Case{Stream: stream, ID: id, In: in, Impl: impl}
}

func ccStream(g *hx.Gen, id int) hx.Case {
	h := ccGenHeader(g)
	if cc := h["Cache-Control"]; len(cc) > 1 && g.Chance(50) {
		// purity: the result must depend on the argument alone. The parser is first called on a sibling map that
		// shares the first Cache-Control line (seeded change C10-m6: results memoised under the first line)
		_ = hx.Guard(func() []string {
			caching.GetCacheControlDirectives(http.Header{"Cache-Control": {cc[0]}})
			return nil
		})
	}
	age := frPick64(g, []int64{-1, 0, 1, 4, 5, 6, 9, 10, 11, 59, 60, 61, 3599, 3600, 3601})
	return ccCase("ccparse", id, h, age)
}

// frKfC10a: finding C10-a is fixed (the parser trims SP and HTAB); these inputs run as regression cases.
var frKfC10a = []http.Header{
	{"Cache-Control": {"max-age=10,\tno-store"}},
	{"Cache-Control": {"no-cache\t"}},
	{"Cache-Control": {"public, \tprivate"}},
	{"Cache-Control": {"s-maxage=0\t, public"}, "Vary": {"Accept-Encoding"}},
}

var frKfC10b = []http.Header{
	{"Cache-Control": {"max-age=0, max-age=10"}},
	{"Cache-Control": {"s-maxage=0, public, s-maxage=5"}},
	{"Cache-Control": {"max-age=0", "max-age=60"}},
}

// ---------------------------------------------------------------------------------------------
// fresh : caching.Cache.Get through the public API on a prepared entry

type frSpec struct {
	Stored        http.Header // response header of the stored entry (before the metadata codec)
	Created       int64
	Revalidated   int64
	Now           int64
	Force         int
	Skip          bool
	Lock          bool   // another request holds the key
	INM, IMS, Suf string // client If-None-Match / If-Modified-Since, ETAG_SUFFIX ("" = unset)
}

var (
	frOnce  sync.Once
	frCache caching.Cache
	frDir   string
	frClock int64
	frSeq   int
)

// frScratchRoot: the directory of the -out file (the runner's per-run directory, removed by it),
// else the system temp dir.
func frScratchRoot() string {
	for i, a := range os.Args {
		if (a == "-out" || a == "--out") && i+1 < len(os.Args) {
			return filepath.Dir(os.Args[i+1])
		}
		if strings.HasPrefix(a, "-out=") {
			return filepath.Dir(a[len("-out="):])
		}
	}
	return os.TempDir()
}

func frSetup() {
	os.Setenv("ATIME_DISABLE", "true")
	dir, err := os.MkdirTemp(frScratchRoot(), "rrverif-cache-")
	if err != nil {
		panic(err)
	}
	frDir = dir
	frCache = caching.NewCacheWithOptions([]caching.StorageConfiguration{{Id: "c", Path: dir, Size: 1 * datasize.GB}}, Logger,
		func() time.Time { return time.Unix(frClock, 0) })
}

func frCase(stream string, id int, sp frSpec) hx.Case {
	frOnce.Do(frSetup)
	frSeq++
	// what storage.Get will hand to cache.Get: the header after the metadata codec
	sm := caching.StorageMetadata{Host: "h.test", Path: "/p", RequestHeader: http.Header{}, ResponseHeader: sp.Stored,
		Status: 200, Created: sp.Created, Revalidated: sp.Revalidated, Size: 0}
	enc := caching.VerifEncodeMeta(sm)
	dec, derr := caching.VerifDecodeMeta(enc)
	decoded := derr == nil
	seen := sp.Stored
	if decoded {
		seen = dec.ResponseHeader
	}
	in := []string{hx.B(decoded)}
	in = append(in, frHeaderTokens(seen)...)
	in = append(in, hx.I64(sp.Created), hx.I64(sp.Revalidated), hx.I64(sp.Now), hx.I(sp.Force), hx.B(sp.Skip), hx.B(sp.Lock),
		hx.X(sp.INM), hx.X(sp.IMS), hx.X(sp.Suf))

	req := httptest.NewRequest("GET", "http://h.test/"+stream+"/"+hx.I(id)+"/"+hx.I(frSeq), nil)
	if sp.INM != "" {
		req.Header.Set("If-None-Match", sp.INM)
	}
	if sp.IMS != "" {
		req.Header.Set("If-Modified-Since", sp.IMS)
	}
	keys := caching.KeysFromRequest(req)
	fp := filepath.Join(frDir, keys[0].FsName())
	ctx := context.Background()
	if sp.Suf != "" {
		os.Setenv("ETAG_SUFFIX", sp.Suf)
	} else {
		os.Unsetenv("ETAG_SUFFIX")
	}
	frClock = sp.Now
	impl := hx.Guard(func() []string {
		if sp.Lock {
			// take the key the way a concurrent first request does: a miss hands out the writer
			cr, _, err := frCache.Get(ctx, "c", 0, false, keys, httptest.NewRecorder(), Logger)
			if err != nil || cr.Kind != caching.NotFoundWriter {
				return []string{"err:lock"}
			}
		}
		if err := os.MkdirAll(filepath.Dir(fp), 0755); err != nil {
			return []string{"err:mkdir"}
		}
		if err := os.WriteFile(fp, nil, 0644); err != nil {
			return []string{"err:write"}
		}
		if err := xattr.Set(fp, "user.rrrouter", enc); err != nil {
			return []string{"err:xattr"}
		}
		gctx := ctx
		if id%5 == 0 {
			// the client of THIS lookup has gone away already (its request context is cancelled): the lookup's outcome - and
			// above all what it does to the lock table, which may belong to another request's fetch - does not depend on
			// that (seeded change C12-m8: an early return with keys[0] and the context's error, which the handler answers
			// by releasing that key)
			c2, cancel := context.WithCancel(ctx)
			cancel()
			gctx = c2
		}
		cr, _, err := frCache.Get(gctx, "c", sp.Force, sp.Skip, keys, httptest.NewRecorder(), Logger)
		if cr.Reader != nil {
			defer cr.Reader.Close()
		}
		if err != nil {
			return []string{"err:get"}
		}
		switch cr.Kind {
		case caching.Found:
			switch {
			case cr.Reader == nil && cr.Metadata.Status == 304:
				return []string{"n304", hx.I64(cr.Age), hx.B(cr.IsStale)}
			case cr.Reader == nil:
				return []string{"noreader", hx.I64(cr.Age), hx.B(cr.IsStale)}
			case cr.IsStale:
				return []string{"stale", hx.I64(cr.Age), "1"}
			default:
				return []string{"fresh", hx.I64(cr.Age), "0"}
			}
		case caching.RevalidatingWriter:
			return []string{"revalw", hx.I64(cr.Age), hx.B(cr.IsStale)}
		case caching.RevalidatingReader:
			return []string{"revalr", hx.I64(cr.Age), hx.B(cr.IsStale)}
		case caching.NotFoundWriter:
			return []string{"notfoundw", "0", "0"}
		case caching.NotFoundReader:
			return []string{"notfoundr", "0", "0"}
		}
		return []string{"err:kind"}
	})
	// never leak the key into the next case: release whatever this case may hold, drop the file
	frCache.Finish(keys[0], Logger)
	os.Remove(fp)
	os.Unsetenv("ETAG_SUFFIX")
	return hx.Case{Stream: stream, ID: id, In: in, Impl: impl}
}

func frHTTPDate(t int64) string { return time.Unix(t, 0).UTC().Format(http.TimeFormat) }

var frEtagForms = []string{`"abc"`, `W/"abc"`, `abc`, `Wabc`, `W/abc`, `/abc`, `""`, `W/""`, `"a"b"`, `"abd"`, `"WEB"`, `W/"W/x"`, `"abc-rr"`, `W`, `W/`, `"`}
var frSuffixes = []string{"-rr", "-rr", "-rr", "v2", "c", "W", "/x", "\"", "-gzip", "W/"}

// frWithSuffix puts the suffix where util.AddETagSuffix puts it (before a closing quote, else at the end).
func frWithSuffix(tag, suf string) string {
	if strings.HasSuffix(tag, "\"") && len(tag) > 0 {
		return tag[:len(tag)-1] + suf + "\""
	}
	return tag + suf
}

func frGenExpires(g *hx.Gen, base, now int64) string {
	at := now
	switch g.Intn(8) {
	case 0:
		at = now - 1
	case 1:
		at = now
	case 2:
		at = now + 1
	case 3:
		at = base + frPick64(g, []int64{0, 1, 5, 60, 3600})
	case 4:
		at = now + 3600
	case 5:
		at = now - 3600
	case 6:
		at = now + frPick64(g, []int64{-86400 * 400, 86400 * 400})
	case 7:
		at = base + 60
	}
	t := time.Unix(at, 0).UTC()
	switch g.Intn(14) {
	case 0:
		off := frPick64(g, []int64{-12, -7, -1, 0, 1, 2, 5, 14}) * 3600
		if g.Bool() {
			off += 1800
		}
		return t.In(time.FixedZone("", int(off))).Format(time.RFC1123Z)
	case 1:
		return g.Pick([]string{"0", "-1", "never", "Thu, 01 Jan 1970 00:00:00 GMT", " ", "now"})
	case 2:
		return t.Format(time.RFC850)
	case 3:
		return t.Format(time.ANSIC)
	case 4:
		return t.Format("Mon, 2 Jan 2006 15:04:05 GMT")
	case 5:
		return strings.ToLower(t.Format(http.TimeFormat))
	case 6:
		return t.Format("Mon, 02 Jan 2006 15:04:05 ") + g.Pick([]string{"UTC", "EST", "CEST", "GMT+2", "Z", "gmt", "+02"})
	}
	return t.Format(http.TimeFormat)
}

func frStream(g *hx.Gen, id int) hx.Case {
	now := int64(1700000000) + int64(g.Intn(100000000))
	lifes := []int64{0, 1, 5, 60, 3600}
	h := http.Header{}
	var bounds []int64 // lifetimes the age is drawn around
	// Cache-Control
	var cc []string
	if g.Chance(55) {
		l := frPick64(g, lifes)
		cc = append(cc, "max-age="+hx.I64(l))
		bounds = append(bounds, l)
	}
	if g.Chance(25) {
		l := frPick64(g, lifes)
		cc = append(cc, "s-maxage="+hx.I64(l))
		bounds = append(bounds, l)
	}
	if g.Chance(30) {
		l := frPick64(g, []int64{0, 5, 61, 7200})
		cc = append(cc, "stale-while-revalidate="+hx.I64(l))
		bounds = append(bounds, l)
	}
	if g.Chance(20) {
		l := frPick64(g, []int64{0, 5, 61, 7200})
		cc = append(cc, "stale-if-error="+hx.I64(l))
		bounds = append(bounds, l)
	}
	if g.Chance(8) {
		cc = append(cc, g.Pick([]string{"public", "no-cache", "max-age=x", "MAX-AGE=7", " s-maxage = 9 ", "\tmax-age=2"}))
	}
	if len(cc) > 0 {
		if g.Chance(15) && len(cc) > 1 {
			h["Cache-Control"] = []string{strings.Join(cc[:1], ", "), strings.Join(cc[1:], ",")}
		} else {
			h["Cache-Control"] = []string{strings.Join(cc, g.Pick([]string{", ", ",", " , "}))}
		}
	}
	force := 0
	if g.Chance(35) {
		force = int(frPick64(g, []int64{1, 5, 60, 3600}))
		bounds = append(bounds, int64(force))
	}
	// age around a boundary
	var age int64
	if len(bounds) > 0 && g.Chance(75) {
		age = bounds[g.Intn(len(bounds))] + int64(g.Intn(3)) - 1
	} else {
		age = frPick64(g, []int64{-5, -1, 0, 1, 2, 30, 59, 60, 61, 100000})
	}
	base := now - age
	created, revalidated := base, int64(0)
	if g.Chance(40) {
		revalidated = base
		created = base - frPick64(g, []int64{0, 1, 60, 86400})
	}
	if g.Chance(45) {
		h["Expires"] = []string{frGenExpires(g, base, now)}
	}
	etag := ""
	if g.Chance(70) {
		etag = g.Pick(frEtagForms)
		h["Etag"] = []string{etag}
	}
	lm := ""
	if g.Chance(50) {
		lm = frHTTPDate(base - 1000)
		h["Last-Modified"] = []string{lm}
	}
	if g.Chance(10) {
		h["Content-Type"] = []string{"text/plain; charset=utf-8"}
	}
	suf := ""
	if g.Chance(45) {
		suf = g.Pick(frSuffixes)
	}
	inm, ims := "", ""
	if g.Chance(55) {
		t := etag
		if t == "" || g.Chance(30) {
			t = g.Pick(frEtagForms)
		}
		switch g.Intn(6) {
		case 0: // toggle weakness
			if strings.HasPrefix(t, "W/") {
				t = t[2:]
			} else {
				t = "W/" + t
			}
		case 1:
			t = "W" + t
		case 2:
			t = `"a", ` + t
		case 3:
			t = "*"
		}
		if suf != "" && g.Chance(75) {
			t = frWithSuffix(t, suf)
		} else if suf == "" && g.Chance(10) {
			t = frWithSuffix(t, "-rr")
		}
		inm = t
	}
	if g.Chance(35) {
		ims = lm
		if lm == "" || g.Chance(30) {
			ims = frHTTPDate(base - 999)
		}
	}
	sp := frSpec{Stored: h, Created: created, Revalidated: revalidated, Now: now, Force: force,
		Skip: g.Chance(20), Lock: g.Chance(30), INM: inm, IMS: ims, Suf: suf}
	return frCase("fresh", id, sp)
}

var frKfC08a = []frSpec{
	// Expires-only entry, revalidated once 30 s after the fill; 10^5 s later it is still served
	{Stored: http.Header{"Expires": {frHTTPDate(1700000060)}}, Created: 1700000000, Revalidated: 1700000030, Now: 1700100000},
	{Stored: http.Header{"Expires": {frHTTPDate(1700000060)}, "Etag": {`"v1"`}}, Created: 1700000000, Revalidated: 1700000030, Now: 1700000060},
	{Stored: http.Header{"Expires": {"0"}}, Created: 1700000000, Revalidated: 1700000001, Now: 1700000002},
}

var frKfC08b = []frSpec{
	// max-age says fresh for an hour, a past / invalid Expires forces a revalidation at age 10
	{Stored: http.Header{"Cache-Control": {"max-age=3600"}, "Expires": {frHTTPDate(1699999000)}}, Created: 1700000000, Now: 1700000010},
	{Stored: http.Header{"Cache-Control": {"max-age=3600"}, "Expires": {"0"}}, Created: 1700000000, Now: 1700000010},
	{Stored: http.Header{"Cache-Control": {"s-maxage=60, max-age=0"}, "Expires": {"Thu, 01 Jan 1970 00:00:00 GMT"}}, Created: 1700000000, Now: 1700000059},
}

// frKfC09a: the former finding C09-a (normalizeEtag trimmed the CUTSET "W/": unquoted tags that differ
// by leading W / characters compared equal and were answered 304), repaired in caching.normalizeEtag;
// regression cases: none of these validators matches, the entry must be served in full.
var frKfC09a = []frSpec{
	{Stored: http.Header{"Etag": {"abc"}}, Created: 1700000000, Now: 1700000001, INM: "Wabc"},
	{Stored: http.Header{"Etag": {"/abc"}}, Created: 1700000000, Now: 1700000001, INM: "abc"},
	{Stored: http.Header{"Etag": {"Wabc"}}, Created: 1700000000, Now: 1700000001, INM: "W/abc-rr", Suf: "-rr"},
}

// ---------------------------------------------------------------------------------------------
// httpdate

func frParseTok(layout, s string) []string {
	t, err := time.Parse(layout, s)
	if err != nil {
		return []string{"err", hx.I64(t.Unix())}
	}
	return []string{"ok", hx.I64(t.Unix())}
}

func frHTTPDateStream(g *hx.Gen, id int) hx.Case {
	// instants over years 0..9999, biased to the present and to month / leap boundaries
	var at int64
	switch g.Intn(5) {
	case 0:
		at = -62167219200 + int64(g.U64()%uint64(253402300800+62167219200))
	case 1:
		y := 1900 + g.Intn(300)
		at = time.Date(y, time.Month(frPick64(g, []int64{2, 3, 12, 1})), int(frPick64(g, []int64{1, 28, 29, 31})), 23, 59, 59, 0, time.UTC).Unix() + int64(g.Intn(3)) - 1
	default:
		at = 1700000000 + int64(g.Intn(200000000)) - 100000000
	}
	t := time.Unix(at, 0).UTC()
	var s string
	switch g.Intn(20) {
	case 0:
		off := (g.Intn(29) - 14) * 3600
		if g.Chance(30) {
			off += g.Intn(60) * 60
		}
		s = t.In(time.FixedZone("", off)).Format(time.RFC1123Z)
	case 1:
		s = t.Format(time.RFC1123Z)
	case 2:
		s = t.Format(time.RFC850)
	case 3:
		s = t.Format(time.ANSIC)
	case 4:
		s = t.Format("Mon, 2 Jan 2006 15:04:05 GMT")
	case 5:
		s = strings.ToLower(t.Format(http.TimeFormat))
	case 6:
		s = strings.ToUpper(t.Format(http.TimeFormat))
	case 7:
		s = t.Format("Mon, 02 Jan 2006 15:04:05 ") + g.Pick([]string{"UTC", "UTCx", "EST", "CEST", "CHST", "ChST", "MeST", "WITA", "ABCDE", "ABCDT", "ABCDEF", "AB", "GMT+2", "GMT-11", "GMT+24", "GMT+", "GMT2", "Z", "gmt", "+02", "-23", "+24", "+0200", "-0000", "+2460", "+2500", "+0061", "*0100", "+01:00", ""})
	case 8:
		s = g.Pick([]string{"", "0", "-1", "never", "Thu, 01 Jan 1970 00:00:00 GMT", "Mon, 00 Jan 2006 15:04:05 GMT", "Mon, 32 Jan 2006 15:04:05 GMT",
			"Mon, 29 Feb 2001 15:04:05 GMT", "Mon, 29 Feb 2000 15:04:05 GMT", "Mon, 29 Feb 1900 15:04:05 GMT", "Mon, 31 Apr 2006 15:04:05 GMT",
			"Mon, 02 Jan 2006 24:00:00 GMT", "Mon, 02 Jan 2006 23:60:00 GMT", "Mon, 02 Jan 2006 23:59:60 GMT", "Mon, 02 Jan 2006 5:04:05 GMT",
			"Mon, 02 Jan 2006 15:4:05 GMT", "Mon, 02 Jan 206 15:04:05 GMT", "Mon, 02 Jan 20061 15:04:05 GMT", "Mon, 02 Jan +206 15:04:05 GMT",
			"Mon, 02 Jan 2006 15:04:05.123 GMT", "Mon, 02 Jan 2006 15:04:05,9 GMT", "Mon, 02 Jan 2006 15:04:05. GMT", "Mon, 02 Jan 2006 15:04:05GMT",
			"Mon,02 Jan 2006 15:04:05 GMT", "Mon,  02  Jan  2006  15:04:05  GMT", "Mon 02 Jan 2006 15:04:05 GMT", "02 Jan 2006 15:04:05 GMT",
			"Monday, 02 Jan 2006 15:04:05 GMT", "Xyz, 02 Jan 2006 15:04:05 GMT", "Mon, 02 Foo 2006 15:04:05 GMT", "Mon, 02 January 2006 15:04:05 GMT",
			"Mon, 02 Jan 2006 15:04:05 GMT ", " Mon, 02 Jan 2006 15:04:05 GMT", "Mon, 02 Jan 2006 15:04:05 GMT+1x", "Mon, 02 Jan 2006 15:04:05 ",
			"Mon, 02 Jan 2006 15:04:05", "Mon, 02 Jan 0000 00:00:00 GMT", "Fri, 31 Dec 9999 23:59:59 GMT", "M@n, 02 Jan 2006 15:04:05 GMT", "Mon, 02 J`n 2006 15:04:05 GMT"})
	case 9:
		// one byte of a valid date replaced
		b := []byte(t.Format(http.TimeFormat))
		b[g.Intn(len(b))] = " ,:0159AZaz+-.T"[g.Intn(15)]
		s = string(b)
	case 10:
		// one byte dropped or doubled
		b := t.Format(http.TimeFormat)
		i := g.Intn(len(b))
		if g.Bool() {
			s = b[:i] + b[i+1:]
		} else {
			s = b[:i] + b[i:i+1] + b[i:]
		}
	default:
		s = t.Format(http.TimeFormat)
	}
	impl := hx.Guard(func() []string { return append(frParseTok(time.RFC1123, s), frParseTok(time.RFC1123Z, s)...) })
	return hx.Case{Stream: "httpdate", ID: id, In: []string{hx.X(s)}, Impl: impl}
}

// ---------------------------------------------------------------------------------------------
// skipcache

func frSkipcacheStream(g *hx.Gen, id int) hx.Case {
	h := http.Header{}
	switch g.Intn(5) {
	case 0:
	case 1:
		h["Authorization"] = []string{""}
	case 2:
		h["authorization"] = []string{"Basic raw-key"} // non-canonical map key
	case 3:
		h["Authorization"] = []string{"", "Bearer second"}
	default:
		h["Authorization"] = []string{g.Pick([]string{"Basic dTpw", "Bearer x", " "})}
	}
	if g.Bool() {
		h["Accept"] = []string{"*/*"}
	}
	ov := map[string]*string{}
	names := []string{}
	add := func(k string, v *string) { ov[k] = v; names = append(names, k) }
	val := "Bearer fixed"
	switch g.Intn(6) {
	case 0:
	case 1:
		add("authorization", nil)
	case 2:
		add("authorization", &val)
	case 3:
		add("Authorization", nil) // cannot come out of NewRules (keys are lower-cased), still a valid map
	case 4:
		add("x-other", nil)
		add("authorization", nil)
	case 5:
		add("x-other", &val)
	}
	in := frHeaderTokens(h)
	sort.Strings(names)
	in = append(in, hx.I(len(names)))
	for _, k := range names {
		if ov[k] == nil {
			in = append(in, hx.X(k), "0", hx.X(""))
		} else {
			in = append(in, hx.X(k), "1", hx.X(*ov[k]))
		}
	}
	impl := hx.Guard(func() []string {
		return []string{hx.B(server.VerifShouldSkipCaching(h, proxy.RoutingFlavors{RequestHeaders: ov}))}
	})
	return hx.Case{Stream: "skipcache", ID: id, In: in, Impl: impl}
}
