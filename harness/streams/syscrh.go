package streams

// Stream syscrh: the histories of stream sysc on a cache-enabled rule that carries `response_headers`
// (RoutingFlavors.ResponseHeaders → alwaysInclude → what the client is sent AND what storageWriter.WriteHeader
// decides on).  Model: Model.SysCacheRH (a wrapper around Model.SysCache).
//
//   mode N (neutral)   the rule's headers are none the cache reads (X-Edge, Content-Type, Content-Language, X-A):
//                      the histories of stream sysc, all its history oracles (C07's header comparison expects the
//                      rule's value for the rule's names);
//   mode C (caching)   the rule sets Cache-Control (storing forbidden, or a lifetime of its own), optionally a neutral
//                      header too; every path has ONE origin answer for the whole history (status inside the storage
//                      gate, complete body), requests are plain GET/HEAD with clock ticks in between: whatever row
//                      answers - fill, hit, revalidation, uncacheable pass - the client must be sent exactly that
//                      answer, completely (C05; finding C05-e, repaired: a rule header that forbids storing sent
//                      every response through a storage writer that dropped the body).
//
// kf.C05-e: the witnesses of C05-e, kept as a regression stream (must be `ok` with no class).

import (
	"rrverif/harness/hx"
)

func init() {
	register("syscrh", syscrhStream)
	register("kf.C05-e", kfC05e)
}

var rhNeutral = [][2]string{{"X-Edge", "1"}, {"Content-Type", "text/x-edge"}, {"Content-Language", "en"}, {"X-A", "rule"}, {"x-lower", "v"}}

var rhCacheControls = []string{"no-store", "private", "max-age=0", "s-maxage=0", "no-cache", "no-store, max-age=60", "max-age=60", "public", "max-age=5", "max-age=60, private"}

func syscrhStream(g *hx.Gen, id int) hx.Case {
	syscMu.Lock()
	defer syscMu.Unlock()
	if g.Chance(45) {
		// mode N
		rh := [][2]string{}
		for _, kv := range rhNeutral {
			if g.Chance(35) {
				rh = append(rh, kv)
			}
		}
		if len(rh) == 0 {
			rh = append(rh, rhNeutral[g.Intn(len(rhNeutral))])
		}
		force, ops := syscGen(g, id)
		return syscRunRH("syscrh", id, force, rh, true, ops)
	}
	// mode C
	rh := [][2]string{{"Cache-Control", g.Pick(rhCacheControls)}}
	if g.Chance(40) {
		rh = append(rh, rhNeutral[g.Intn(len(rhNeutral))])
	}
	force := 0
	if g.Chance(15) {
		force = 20
	}
	paths := []string{"a" + hx.I(id), "b" + hx.I(id)}
	ops := []scOp{}
	for i, p := range paths {
		st := []int{200, 200, 200, 404, 301}[g.Intn(5)]
		o := scOp{kind: 'O', path: p, status: st, chunk: g.Chance(25), rerr: -1}
		if cc := g.Pick([]string{"max-age=60", "max-age=60", "max-age=5", "", "no-store", "public", "max-age=60, stale-if-error=300"}); cc != "" {
			o.hdr = append(o.hdr, [2]string{"Cache-Control", cc})
		}
		if g.Chance(50) {
			o.hdr = append(o.hdr, [2]string{"ETag", "\"e" + hx.I(i+1) + "\""})
			if st == 200 && g.Chance(60) {
				o.cond = true
				o.cl0 = g.Chance(40)
			}
		}
		if g.Chance(50) {
			o.hdr = append(o.hdr, [2]string{"Content-Type", "text/plain"})
		}
		if st == 301 {
			o.hdr = append(o.hdr, [2]string{"Location", "/elsewhere"})
		}
		o.body = []byte("body-" + p + "-v1-" + g.Str("abcdef", 12))
		ops = append(ops, o)
	}
	n := 3 + g.Intn(5)
	for i := 0; i < n; i++ {
		switch g.Intn(10) {
		case 0, 1:
			ops = append(ops, scOp{kind: 'T', dt: []int{1, 4, 5, 6, 19, 20, 21, 59, 60, 61, 400}[g.Intn(11)]})
		default:
			r := scOp{kind: 'R', method: "GET", path: paths[g.Intn(2)]}
			if g.Chance(10) {
				r.method = "HEAD"
			}
			if g.Chance(10) {
				r.hdr = append(r.hdr, [2]string{"Accept", "*/*"})
			}
			if g.Chance(8) {
				r.hdr = append(r.hdr, [2]string{"Authorization", "Bearer a"})
			}
			ops = append(ops, r)
		}
	}
	return syscRunRH("syscrh", id, force, rh, true, ops)
}

// C05-e witnesses (repaired): a cache-enabled rule whose response_headers forbid storing; a cacheable origin answer;
// the first and every later GET must be sent the body
func kfC05e(g *hx.Gen, id int) hx.Case {
	syscMu.Lock()
	defer syscMu.Unlock()
	cc := []string{"no-store", "private", "max-age=0", "no-cache"}[id%4]
	p := "kf5e" + hx.I(id)
	st := []int{200, 200, 404, 200}[id%4]
	ops := []scOp{{kind: 'O', path: p, status: st, rerr: -1, chunk: id%2 == 1,
		hdr: [][2]string{{"Cache-Control", "max-age=60"}, {"Content-Type", "text/plain"}}, body: []byte("body-" + p + "-v1")},
		{kind: 'R', method: "GET", path: p}, {kind: 'R', method: "GET", path: p}, {kind: 'T', dt: 61}, {kind: 'R', method: "GET", path: p}}
	return syscRunRH("kf.C05-e", id, 0, [][2]string{{"Cache-Control", cc}}, true, ops)
}
