package streams

// Stream sysrc (C18): redirect graphs behind restart_on_redirect where the hops run through
// CACHE-ENABLED rules, as HISTORIES: the same (or another) client request repeated 2-4 times, cold
// and then warm, optionally with clock ticks in between.  The cached re-entry sites of
// server.cachingFunc are what this stream is about: `case caching.Found` (stored RedirectedURL →
// requestWithRedirect → re-entry), the writer path (SetRedirectedURL, SetClientWritesDisabled,
// re-entry, the hop is stored AFTER the recursion returns), the lock a writer holds on its key
// while it recurses.
//
// One case = one functional graph over ≤ 4 URLs (each URL redirects to one URL or answers
// 200/404; every answer carries Cache-Control max-age=60 / none / no-store) × Location forms ×
// per-node rule (none / own rule with or without cache) × entry rules:
//
//   root mode    {host h.test, /* → http://d0.test/$1, cache?}: the client asks for the node paths;
//   shared mode  /p/* and /f/* (no host) → http://d0.test/$1 with the SAME cache and their own
//                restart_on_redirect flags: both map onto one cache key per node, so a hop stored
//                through one rule is read through the other.
//
// Case ids 0 … srcExhaustive-1 enumerate ALL 1440 functional graphs × the three uniform Location
// forms (restart on everywhere except, mostly, /p/*), each in one PRNG-chosen mode: root mode
// with cache c1, or — for the absolute and rooted forms — shared mode with the history
// /p/x, /f/x[, tick], /f/x[, /p/x]; per-node rule, its cache, the Cache-Control of every answer
// and the ticks come from the case PRNG.  Ids ≥ srcExhaustive are fully random (mixed forms,
// Locations back to the edge host / to other hosts / https / with queries, flags per rule, entry
// rule without cache, start node and prefix per request).
//
// Validators: about half of the redirect nodes and some of the final ones carry an ETag (per-node
// PRNG choice); the scripted origin answers a request whose If-None-Match names the node's ETag with
// 304 (ETag, Cache-Control — its own or the node's).  Directed histories (srcRevalHistory) drive a
// stored hop through cold → warm → tick past max-age → request (the hop is revalidated: 304,
// SetRevalidatedAndClose, re-entry of cachingFunc with skipRevalidate, the Found site follows the
// STORED RedirectedURL) → warm again, in root mode and in shared mode.
//
// rrrouter counts the redirects it follows per client request, at every re-entry site of
// cachingFunc, and answers 508 Loop detected after maxRedirects (10) of them (the repair of
// findings C18-a / C18-c); `runaway` is not expected on any case any more.  The guard below stays
// as protection: the real server must never be allowed to recurse without bound inside the harness
// process, and a cycle through cached hops takes no origin I/O at all, so the performer's contact
// watchdog would never see it.  Guard: a verifhook handler counts the activations of cachingFunc
// per client request (point srv.after-flavors) and ends the request with a panic (recovered by
// the handler's own sentry.Recover) when there are more than srcLimit; the case is then reported
// as `runaway`.  A
// request that parks in the 30 s sub-resource wait (point srv.wait) can only be waiting for a
// lock held further up its OWN stack (the history is sequential): it is cut the same way and
// reported as `selfwait`.  A history ends at the first cut.

import (
	"net/http"
	"os"
	"path/filepath"
	"strings"
	"sync"
	"sync/atomic"
	"time"

	"github.com/richiefi/rrrouter/config"
	"github.com/richiefi/rrrouter/proxy"
	"github.com/richiefi/rrrouter/verifhook"

	"rrverif/harness/hx"
	"rrverif/harness/sysx"
)

func init() {
	register("sysrc", srcStream)
	register("kf.C18-c", srcKfC)
	register("kf.C18-d", srcKfD)
	register("kf.C09-b.sysrc", srcKfB)
}

const (
	srcLimit      = 40 // activations of cachingFunc per client request
	srcGraphs     = 3 + 16 + 125 + 1296
	srcExhaustive = 3 * srcGraphs
	srcShown      = 8
	srcEdge       = "h.test"
)

var srcPaths = []string{"/n0", "/s/n1", "/s/n2", "/n3"}

const (
	srcFormAbs = iota
	srcFormRooted
	srcFormRel
)

var srcMu sync.Mutex

type srcNode struct {
	Path     string
	Redirect bool
	Status   int
	Body     string
	Location string
	CC       string // Cache-Control of the answer ("" = none)
	ETag     string // validator of the answer ("" = none); the origin answers 304 to If-None-Match naming it
	CC304    string // Cache-Control of that 304 ("" = the answer's own)
	Intended int    // the node the Location names; -1 final answer; -2 the property text does not say
	RuleIdx  int
}

type srcOp struct {
	Kind   byte // 'R' request, 'T' tick
	Target string
	Start  int // node asked for
	Dt     int
}

type srcCase struct {
	Rules []hx.RuleSpec
	Nodes []srcNode
	Known []string
	Ops   []srcOp
}

func srcDecodeGraph(k int) []int {
	sizes := []int{3, 16, 125, 1296}
	n := 1
	for _, s := range sizes {
		if k < s {
			break
		}
		k -= s
		n++
	}
	out := make([]int, n)
	for i := 0; i < n; i++ {
		out[i] = k % (n + 2)
		k /= n + 2
	}
	return out
}

func srcDir(p string) string { return p[:strings.LastIndex(p, "/")+1] }

// srcLocation renders the edge from → to; a relative reference only where it needs no dot segments
func srcLocation(form int, from, to, absHost, scheme string) string {
	switch form {
	case srcFormAbs:
		return scheme + "://" + absHost + to
	case srcFormRel:
		if d := srcDir(from); strings.HasPrefix(to, d) && len(to) > len(d) {
			return to[len(d):]
		}
	}
	return to
}

var srcCCs = []string{"max-age=60", "max-age=60", "", "", "no-store"}

func srcNodeRule(i int, g *hx.Gen, restart bool, cache string) hx.RuleSpec {
	hop := "r" + hx.I(i)
	one := "1"
	r := hx.RuleSpec{Path: srcPaths[i], Dest: "http://e" + hx.I(i) + ".test" + srcPaths[i],
		RequestHeaders:    map[string]*string{"x-hop": &hop, "x-via-" + hx.I(i): &one},
		RestartOnRedirect: restart, Cache: cache}
	r.HostHeader = g.Pick([]string{"", "", "original", "ov.test", "destination"})
	return r
}

type srcNodeOpt struct {
	hasRule bool
	cache   string
	restart bool
	form    int
	cc      string
}

// srcBuild: node rules first (exact paths, no host), then the entry rules.
func srcBuild(g *hx.Gen, choice []int, opt []srcNodeOpt, entries []hx.RuleSpec) srcCase {
	n := len(choice)
	c := srcCase{Known: []string{"d0.test", "e0.test", "e1.test", "e2.test", "e3.test", "d0.test:8080", "d0.test:9090"}}
	statuses := []int{301, 302, 303, 307, 308}
	for i := 0; i < n; i++ {
		nd := srcNode{Path: srcPaths[i], Intended: -1, RuleIdx: -1, CC: opt[i].cc}
		switch {
		case choice[i] < n:
			nd.Redirect, nd.Status, nd.Intended = true, statuses[g.Intn(5)], choice[i]
			nd.Body = "moved-" + hx.I(i)
			nd.Location = srcLocation(opt[i].form, srcPaths[i], srcPaths[choice[i]], "d0.test", "http")
		case choice[i] == n:
			nd.Status, nd.Body = 200, "body-"+hx.I(i)
		default:
			nd.Status, nd.Body = 404, "nf-"+hx.I(i)
		}
		if opt[i].hasRule {
			nd.RuleIdx = len(c.Rules)
			c.Rules = append(c.Rules, srcNodeRule(i, g, opt[i].restart, opt[i].cache))
		}
		c.Nodes = append(c.Nodes, nd)
	}
	c.Rules = append(c.Rules, entries...)
	// validators: ~half of the redirect nodes, some of the final ones
	for i := range c.Nodes {
		nd := &c.Nodes[i]
		p := 30
		if nd.Redirect {
			p = 50
		}
		if g.Chance(p) {
			nd.ETag = "\"v" + hx.I(i) + "\""
			nd.CC304 = g.Pick(srcCC304s)
		}
	}
	return c
}

// Cache-Control of a 304 ("" = the one of the full answer); none of these forbids storing (a 304
// that does is finding C09-b, handed to the client as it is: srcRevalHistory plants one now and then)
var srcCC304s = []string{"", "", "", "max-age=60", "max-age=5", "max-age=600"}

// srcRevalHistory turns a built case into a directed revalidation history: every answer lives for
// 60 s, most nodes carry a validator; cold, warm, tick past max-age, the request that revalidates,
// warm again.
func srcRevalHistory(g *hx.Gen, c *srcCase, cold, warm srcOp, extra *srcOp) {
	for i := range c.Nodes {
		nd := &c.Nodes[i]
		nd.CC = "max-age=60"
		if nd.ETag == "" && g.Chance(60) {
			nd.ETag = "\"w" + hx.I(i) + "\""
			nd.CC304 = g.Pick(srcCC304s)
		}
	}
	if g.Chance(12) {
		// finding C09-b seen from here: the 304 of ONE node forbids storing — the handler hands that 304
		// to the client (who sent no validator) instead of the final response of the chain
		for i := range c.Nodes {
			if c.Nodes[i].ETag != "" {
				c.Nodes[i].CC304 = g.Pick([]string{"no-store", "private", "no-cache", "max-age=0", "private, max-age=60"})
				break
			}
		}
	}
	c.Ops = []srcOp{cold, warm, {Kind: 'T', Dt: []int{61, 61, 100, 700}[g.Intn(4)]}, warm, warm}
	if g.Chance(40) {
		// once more after the (possibly different) lifetime the 304 gave
		c.Ops = append(c.Ops, srcOp{Kind: 'T', Dt: []int{4, 6, 61, 601}[g.Intn(4)]}, warm)
	}
	if extra != nil {
		c.Ops = append(c.Ops, *extra)
	}
}

func srcRootRule(g *hx.Gen, cache string, restart bool) hx.RuleSpec {
	r := hx.RuleSpec{Host: srcEdge, Path: "/*", Dest: "http://d0.test/$1", Cache: cache, RestartOnRedirect: restart}
	r.HostHeader = g.Pick([]string{"", "", "original", "ov.test"})
	return r
}

func srcReq(prefix string, start int) srcOp {
	return srcOp{Kind: 'R', Target: prefix + srcPaths[start], Start: start}
}

var srcTicks = []int{1, 30, 59, 60, 61, 100}

func srcStream(g *hx.Gen, id int) hx.Case {
	srcMu.Lock()
	defer srcMu.Unlock()
	if id < srcExhaustive {
		choice := srcDecodeGraph(id % srcGraphs)
		n := len(choice)
		form := id / srcGraphs
		// the relative form only in root mode (see below); the other two forms in either mode
		shared := form != srcFormRel && g.Chance(40)
		opt := make([]srcNodeOpt, n)
		for i := range opt {
			opt[i] = srcNodeOpt{hasRule: g.Chance(40), cache: g.Pick([]string{"", "c1", "c2"}), restart: true, form: form, cc: g.Pick(srcCCs)}
		}
		if !shared {
			c := srcBuild(g, choice, opt, []hx.RuleSpec{srcRootRule(g, "c1", true)})
			c.Ops = []srcOp{srcReq("", 0), srcReq("", 0)}
			if g.Chance(40) {
				c.Ops = append(c.Ops, srcOp{Kind: 'T', Dt: srcTicks[g.Intn(len(srcTicks))]}, srcReq("", 0))
			}
			if g.Chance(35) {
				srcRevalHistory(g, &c, srcReq("", 0), srcReq("", 0), nil)
			}
			return c.run("sysrc", id)
		}
		// shared mode: stored through /p (restart_on_redirect mostly off), read through /f (on)
		c := srcBuild(g, choice, opt, srcSharedRules(g.Chance(25)))
		if form == srcFormAbs && g.Bool() {
			// absolute Locations back to the edge host, through the restarting prefix
			for i := range c.Nodes {
				if c.Nodes[i].Redirect {
					c.Nodes[i].Location = "http://" + srcEdge + "/f" + srcPaths[c.Nodes[i].Intended]
				}
			}
		}
		c.Ops = []srcOp{srcReq("/p", 0), srcReq("/f", 0)}
		if g.Chance(50) {
			c.Ops = append(c.Ops, srcOp{Kind: 'T', Dt: srcTicks[g.Intn(len(srcTicks))]})
		}
		c.Ops = append(c.Ops, srcReq("/f", 0))
		if g.Chance(30) {
			c.Ops = append(c.Ops, srcReq("/p", 0))
		}
		if g.Chance(35) {
			// stored through /p, read through /f, revalidated through /f[, read through /p]
			var extra *srcOp
			if g.Bool() {
				e := srcReq("/p", 0)
				extra = &e
			}
			srcRevalHistory(g, &c, srcReq("/p", 0), srcReq("/f", 0), extra)
		}
		return c.run("sysrc", id)
	}
	n := 1 + g.Intn(4)
	choice, opt := make([]int, n), make([]srcNodeOpt, n)
	shared := g.Chance(45)
	on := !g.Chance(8)
	for i := 0; i < n; i++ {
		choice[i] = g.Intn(n + 2)
		if g.Chance(50) { // redirects are what this stream is about
			choice[i] = g.Intn(n)
		}
		if choice[i] <= i && g.Chance(45) && i+1 < n { // forward edges: chains that end
			choice[i] = i + 1 + g.Intn(n-i-1)
		}
		opt[i] = srcNodeOpt{hasRule: g.Chance(35), cache: g.Pick([]string{"", "", "c1", "c2"}), restart: on, form: g.Intn(3), cc: g.Pick(srcCCs)}
		if g.Chance(6) {
			opt[i].restart = !on
		}
		if shared && opt[i].form == srcFormRel {
			// the code resolves a relative Location against the CLIENT's request path; in shared mode
			// that is not the path that was asked of the destination (the prefix is stripped)
			opt[i].form = srcFormRooted
		}
	}
	var entries []hx.RuleSpec
	prefixes := []string{""}
	edgePrefix := ""
	if shared {
		cache := g.Pick([]string{"c1", "c1", "c2"})
		rp, rf := false, true
		switch g.Intn(10) {
		case 0:
			rp, rf = true, true
		case 1:
			rp, rf = true, false
		case 2:
			rp, rf = false, false
		}
		p := hx.RuleSpec{Path: "/p/*", Dest: "http://d0.test/$1", Cache: cache, RestartOnRedirect: rp}
		f := hx.RuleSpec{Path: "/f/*", Dest: "http://d0.test/$1", Cache: cache, RestartOnRedirect: rf}
		if g.Chance(10) { // the second prefix without cache
			p.Cache = ""
		}
		entries = []hx.RuleSpec{p, f}
		prefixes = []string{"/p", "/f"}
		edgePrefix = "/f"
		if g.Chance(25) {
			edgePrefix = "/p"
		}
	} else {
		entries = []hx.RuleSpec{srcRootRule(g, g.Pick([]string{"c1", "c1", "c1", "c2", ""}), on || g.Chance(50))}
	}
	c := srcBuild(g, choice, opt, entries)
	// variations of single edges
	for i := range c.Nodes {
		nd := &c.Nodes[i]
		if !nd.Redirect {
			continue
		}
		to := srcPaths[nd.Intended]
		switch g.Intn(16) {
		case 0: // upgrade redirect: https on a plain-http destination
			nd.Location = srcLocation(srcFormAbs, nd.Path, to, "d0.test", "https")
		case 1, 2, 3: // absolute, back to the edge host (through the entry rule again)
			nd.Location = "http://" + srcEdge + edgePrefix + to
		case 4: // absolute, to the target node's own destination host
			nd.Location = srcLocation(srcFormAbs, nd.Path, to, "e"+hx.I(nd.Intended)+".test", "http")
		case 5: // absolute, to a host nobody answers for
			nd.Location = srcLocation(srcFormAbs, nd.Path, to, "nowhere.test", "http")
			nd.Intended = -2
		case 7, 8: // absolute, to the destination host on an explicit port (two nodes may name two ports of one host)
			nd.Location = srcLocation(srcFormAbs, nd.Path, to, "d0.test:"+[]string{"8080", "9090"}[(i+g.Intn(2))%2], "http")
		case 6: // with a query (an exact-path rule does not match it: fallback)
			nd.Location = srcLocation(opt[i].form, nd.Path, to, "d0.test", "http") + "?q=" + hx.I(i)
		}
	}
	// history: 2-4 requests, mostly the same one, ticks in between
	first := srcReq(prefixes[g.Intn(len(prefixes))], g.Intn(n))
	if shared && g.Chance(50) {
		first = srcReq(prefixes[0], first.Start)
	}
	c.Ops = []srcOp{first}
	k := 1 + g.Intn(3)
	for j := 0; j < k; j++ {
		if g.Chance(30) {
			c.Ops = append(c.Ops, srcOp{Kind: 'T', Dt: srcTicks[g.Intn(len(srcTicks))]})
		}
		r := first
		if g.Chance(45) {
			r = srcReq(prefixes[g.Intn(len(prefixes))], first.Start)
		}
		if shared && g.Chance(50) { // what one prefix stored is read through the other
			r = srcReq(prefixes[1], first.Start)
		}
		if g.Chance(25) {
			r = srcReq(prefixes[g.Intn(len(prefixes))], g.Intn(n))
		}
		c.Ops = append(c.Ops, r)
	}
	if g.Chance(25) {
		warm := first
		if shared {
			warm = srcReq(prefixes[1], first.Start)
		}
		srcRevalHistory(g, &c, first, warm, nil)
	}
	return c.run("sysrc", id)
}

func (c srcCase) inputTokens() []string {
	in := hx.RulesTokens(c.Rules)
	in = append(in, hx.X(srcEdge), hx.I(len(c.Nodes)))
	for _, n := range c.Nodes {
		in = append(in, hx.X(n.Path), hx.B(n.Redirect), hx.I(n.Status), hx.X(n.Body), hx.X(n.Location), hx.X(n.CC), hx.X(n.ETag), hx.X(n.CC304), hx.I(n.Intended), hx.I(n.RuleIdx))
	}
	in = append(in, hx.I(len(c.Known)))
	for _, h := range c.Known {
		in = append(in, hx.X(h))
	}
	in = append(in, hx.I(len(c.Ops)))
	for _, o := range c.Ops {
		if o.Kind == 'T' {
			in = append(in, "T", hx.I(o.Dt))
		} else {
			in = append(in, "R", hx.X(o.Target), hx.I(o.Start))
		}
	}
	return append(in, hx.I(srcLimit))
}

func (c srcCase) script() func(*http.Request) *sysx.OriginResp {
	known := map[string]bool{}
	for _, h := range c.Known {
		known[h] = true
	}
	resps := map[string]*sysx.OriginResp{}
	etags := map[string]string{}
	notMod := map[string]*sysx.OriginResp{}
	for _, n := range c.Nodes {
		r := &sysx.OriginResp{Status: n.Status, Body: []byte(n.Body), ReadErrAt: -1}
		if n.Redirect {
			r.Header = append(r.Header, [2]string{"Location", n.Location})
		}
		if n.CC != "" {
			r.Header = append(r.Header, [2]string{"Cache-Control", n.CC})
		}
		resps[n.Path] = r
		if n.ETag != "" {
			r.Header = append(r.Header, [2]string{"ETag", n.ETag})
			// the 304 of a conditional origin: the validator and a Cache-Control, no body
			nm := &sysx.OriginResp{Status: 304, Header: [][2]string{{"ETag", n.ETag}}, ReadErrAt: -1}
			cc := n.CC
			if n.CC304 != "" {
				cc = n.CC304
			}
			if cc != "" {
				nm.Header = append(nm.Header, [2]string{"Cache-Control", cc})
			}
			etags[n.Path], notMod[n.Path] = n.ETag, nm
		}
	}
	unknown := &sysx.OriginResp{Status: 404, Body: []byte("unknown"), ReadErrAt: -1}
	return func(req *http.Request) *sysx.OriginResp {
		// http.Transport refuses a URL without http/https scheme before any connection is made
		if (req.URL.Scheme != "http" && req.URL.Scheme != "https") || !known[req.URL.Host] {
			return nil
		}
		if r, ok := resps[req.URL.Path]; ok {
			if et := etags[req.URL.Path]; et != "" && req.Header.Get("If-None-Match") == et {
				return notMod[req.URL.Path]
			}
			return r
		}
		return unknown
	}
}

// srcHook: the verifhook handler of one case.
type srcHook struct {
	acts  int32 // activations of cachingFunc in the current client request
	sends int32 // messages handed to the cache's notifier goroutine
	dones int32 // messages it has finished processing
	cut   atomic.Value
}

type srcCut struct{ why string }

func (h *srcHook) point(name, key string) {
	switch name {
	case "srv.after-flavors":
		if atomic.AddInt32(&h.acts, 1) > srcLimit {
			h.cut.Store("runaway")
			panic(srcCut{"runaway"})
		}
	case "srv.wait":
		h.cut.Store("selfwait")
		panic(srcCut{"selfwait"})
	case "finish.before-send", "notify.before-send":
		atomic.AddInt32(&h.sends, 1)
	case "notifier.done":
		atomic.AddInt32(&h.dones, 1)
	}
}

// quiesce waits until the notifier goroutine has processed every release it was sent (the lock
// table is then empty: the history is sequential).
func (h *srcHook) quiesce() {
	deadline := time.Now().Add(2 * time.Second)
	for atomic.LoadInt32(&h.dones) < atomic.LoadInt32(&h.sends) && time.Now().Before(deadline) {
		time.Sleep(100 * time.Microsecond)
	}
}

// srcWipe empties the cache directories (cases share one World per process).
func srcWipe(dir string) {
	for _, id := range []string{"c1", "c2"} {
		es, err := os.ReadDir(filepath.Join(dir, id))
		if err != nil {
			continue
		}
		for _, e := range es {
			os.RemoveAll(filepath.Join(dir, id, e.Name()))
		}
	}
}

func srcHeader(v sysx.ClientView, name string) string {
	for _, kv := range v.Header {
		if strings.EqualFold(kv[0], name) {
			return kv[1]
		}
	}
	return ""
}

func srcMin(a, b int) int {
	if a < b {
		return a
	}
	return b
}

func (c srcCase) run(stream string, id int) hx.Case {
	in := c.inputTokens()
	impl := hx.Guard(func() []string {
		w := theWorld()
		rules, err := proxy.ParseRules(hx.RulesJSON(c.Rules), sysx.Logger)
		if err != nil {
			return []string{"err:rules"}
		}
		srcWipe(w.Dir)
		w.SetNow(1700000000)
		verifhook.SetClock(func() int64 { return w.NowUnix() })
		defer verifhook.SetClock(nil)
		h := &srcHook{}
		h.cut.Store("")
		verifhook.SetHandler(h.point)
		defer verifhook.SetHandler(nil)
		w.Configure(rules, &config.Config{RetryTimes: []int{}})
		old := w.Perf.Limit
		w.Perf.Limit = 4 * srcLimit // never the one that ends a loop here: the activation guard is
		defer func() { w.Perf.Limit = old }()
		w.Perf.Reset(c.script())
		out := []string{}
		for _, o := range c.Ops {
			if o.Kind == 'T' {
				w.Advance(int64(o.Dt))
				continue
			}
			atomic.StoreInt32(&h.acts, 0)
			v := w.Do(SysReq{Method: "GET", Target: o.Target, Host: srcEdge}.Raw(), false)
			cs := w.Perf.Take()
			h.quiesce()
			if why := h.cut.Load().(string); why != "" {
				// the guard ended the request: what the client got is the harness' doing
				out = append(out, why)
				out = append(out, srcContactTokens(cs[:srcMin(len(cs), srcShown)])...)
				break
			}
			if v.Framing == "noresponse" {
				out = append(out, "noresponse")
				out = append(out, srcContactTokens(cs[:srcMin(len(cs), srcShown)])...)
				break
			}
			vc, _ := viewTokens(v)
			out = append(out, "R")
			out = append(out, vc...)
			out = append(out, hx.X(srcHeader(v, "Location")), hx.X(srcHeader(v, "Richie-Edge-Cache")), hx.X(srcHeader(v, "Age")))
			out = append(out, srcContactTokens(cs)...)
		}
		h.quiesce()
		return out
	})
	return hx.Case{Stream: stream, ID: id, In: in, Impl: impl}
}

// ---- witnesses ----

func srcFixed(nodes []srcNode, entries []hx.RuleSpec, ops []srcOp) srcCase {
	c := srcCase{Known: []string{"d0.test"}, Nodes: nodes, Rules: entries, Ops: ops}
	for i := range c.Nodes {
		c.Nodes[i].RuleIdx = -1
		if c.Nodes[i].Redirect {
			if c.Nodes[i].Status == 0 {
				c.Nodes[i].Status = 302
			}
			if c.Nodes[i].Body == "" {
				c.Nodes[i].Body = "moved-" + hx.I(i)
			}
		} else {
			c.Nodes[i].Intended = -1
		}
	}
	return c
}

func srcSharedRules(restartP bool) []hx.RuleSpec {
	return []hx.RuleSpec{{Path: "/p/*", Dest: "http://d0.test/$1", Cache: "c1", RestartOnRedirect: restartP},
		{Path: "/f/*", Dest: "http://d0.test/$1", Cache: "c1", RestartOnRedirect: true}}
}

// kf.C18-c: the witnesses of the former finding C18-c — a loop whose hops are all in the cache.
// The Found site of cachingFunc compares no URLs; the recursion took no origin I/O (one open
// descriptor per level) and never ended.  Repaired by the redirect counter in cachingFunc;
// regression cases: the request through the restarting prefix is answered 508 Loop detected
// without a single contact (cases 0-2).  Cases 3 and 4 were added with the repair: the counter
// striking below nested writer activations (exactly one response must reach the client).
func srcKfC(g *hx.Gen, id int) hx.Case {
	srcMu.Lock()
	defer srcMu.Unlock()
	var c srcCase
	switch id % 5 {
	case 3:
		// the counter below nested WRITER activations: a 12-cycle, cold, through a cache-enabled
		// restarting rule.  Ten writers nest (each with client writes disabled), the eleventh answer
		// is a redirect again: 508 from the writer site straight to the client's own writer, then the
		// ten hops are stored while the stack unwinds.  The repeat follows the ten stored hops (Found
		// site), fetches the eleventh (it was not stored) and is answered 508 by the writer site again.
		nodes := []srcNode{}
		for i := 0; i < 12; i++ {
			nodes = append(nodes, srcNode{Path: "/c" + hx.I(i), Redirect: true, Status: []int{301, 302, 307, 308}[i%4],
				Location: "/c" + hx.I((i+1)%12), Intended: (i + 1) % 12})
		}
		c = srcFixed(nodes, []hx.RuleSpec{{Host: srcEdge, Path: "/*", Dest: "http://d0.test/$1", Cache: "c1", RestartOnRedirect: true}},
			[]srcOp{{Kind: 'R', Target: "/c0", Start: 0}, {Kind: 'R', Target: "/c0", Start: 0}, {Kind: 'R', Target: "/c5", Start: 5}})
	case 4:
		// the counter at the Found site below a WRITER: the 2-cycle is in the cache, /x (cold) leads
		// into it.  The 508 written at the Found site is the client's answer; /x's own hop is stored
		// while the stack unwinds, so the repeat is answered 508 without any contact.
		c = srcFixed([]srcNode{{Path: "/a", Redirect: true, Location: "http://h.test/f/b", Intended: 1}, {Path: "/b", Redirect: true, Location: "http://h.test/f/a", Intended: 0},
			{Path: "/x", Redirect: true, Status: 307, Location: "http://h.test/f/a", Intended: 0}},
			srcSharedRules(false), []srcOp{{Kind: 'R', Target: "/p/a", Start: 0}, {Kind: 'R', Target: "/p/b", Start: 1}, {Kind: 'R', Target: "/f/x", Start: 2}, {Kind: 'R', Target: "/f/x", Start: 2}})
	case 0:
		// 2-cycle, filled hop by hop through the non-restarting prefix, then read through the restarting one
		c = srcFixed([]srcNode{{Path: "/a", Redirect: true, Location: "http://h.test/f/b", Intended: 1}, {Path: "/b", Redirect: true, Location: "http://h.test/f/a", Intended: 0}},
			srcSharedRules(false), []srcOp{{Kind: 'R', Target: "/p/a", Start: 0}, {Kind: 'R', Target: "/p/b", Start: 1}, {Kind: 'R', Target: "/f/a", Start: 0}})
	case 1:
		// self-redirect stored through the non-restarting prefix: urlEquals is never asked on the Found path
		c = srcFixed([]srcNode{{Path: "/a", Redirect: true, Status: 301, Location: "http://h.test/f/a", Intended: 0}},
			srcSharedRules(false), []srcOp{{Kind: 'R', Target: "/p/a", Start: 0}, {Kind: 'R', Target: "/f/a", Start: 0}})
	default:
		// 3-cycle with max-age: still looping after the entries have been stored for a while
		c = srcFixed([]srcNode{{Path: "/a", Redirect: true, Status: 307, Location: "http://h.test/f/b", CC: "max-age=60", Intended: 1},
			{Path: "/b", Redirect: true, Status: 308, Location: "http://h.test/f/c", CC: "max-age=60", Intended: 2},
			{Path: "/c", Redirect: true, Location: "http://h.test/f/a", CC: "max-age=60", Intended: 0}},
			srcSharedRules(false), []srcOp{{Kind: 'R', Target: "/p/a", Start: 0}, {Kind: 'R', Target: "/p/b", Start: 1}, {Kind: 'R', Target: "/p/c", Start: 2},
				{Kind: 'T', Dt: 30}, {Kind: 'R', Target: "/f/b", Start: 1}})
	}
	return c.run("kf.C18-c", id)
}

// C18-d witnesses: on a cache-enabled restart_on_redirect rule a redirect that must not be cached
// (no-store, private, max-age=0) is handed to the client instead of being followed.
func srcKfD(g *hx.Gen, id int) hx.Case {
	srcMu.Lock()
	defer srcMu.Unlock()
	root := []hx.RuleSpec{{Host: srcEdge, Path: "/*", Dest: "http://d0.test/$1", Cache: "c1", RestartOnRedirect: true}}
	cc := []string{"no-store", "private, max-age=60", "max-age=0"}[id%3]
	nodes := []srcNode{{Path: "/a", Redirect: true, Location: "/b", CC: cc, Intended: 1}, {Path: "/b", Status: 200, Body: "target", CC: "max-age=60"}}
	if id%3 == 2 {
		// second hop: the first one is followed (and stored), the uncacheable one behind it is not
		nodes = []srcNode{{Path: "/a", Redirect: true, Location: "/b", Intended: 1}, {Path: "/b", Redirect: true, Status: 307, Location: "/c", CC: cc, Intended: 2},
			{Path: "/c", Status: 200, Body: "target"}}
	}
	c := srcFixed(nodes, root, []srcOp{{Kind: 'R', Target: "/a", Start: 0}, {Kind: 'R', Target: "/a", Start: 0}})
	return c.run("kf.C18-d", id)
}

// C09-b seen from C18: a stored hop with a validator goes stale; the origin confirms it with a 304
// whose Cache-Control forbids storing.  cachingFunc takes the "uncacheable" branch and hands the
// origin's 304 (no body) to the client, who sent no validator — instead of following the stored
// redirect (case 0: the 304 is for the redirect hop itself) or replaying the stored final answer
// (case 1: the hop has no validator and is fetched again, the 304 is for the final node).
func srcKfB(g *hx.Gen, id int) hx.Case {
	srcMu.Lock()
	defer srcMu.Unlock()
	root := []hx.RuleSpec{{Host: srcEdge, Path: "/*", Dest: "http://d0.test/$1", Cache: "c1", RestartOnRedirect: true}}
	nodes := []srcNode{{Path: "/a", Redirect: true, Location: "/b", CC: "max-age=60", ETag: "\"v0\"", CC304: "no-store", Intended: 1},
		{Path: "/b", Status: 200, Body: "target", CC: "max-age=60"}}
	if id%2 == 1 {
		nodes = []srcNode{{Path: "/a", Redirect: true, Status: 307, Location: "/b", CC: "max-age=60", Intended: 1},
			{Path: "/b", Status: 200, Body: "target", CC: "max-age=60", ETag: "\"v1\"", CC304: "private, max-age=60"}}
	}
	c := srcFixed(nodes, root, []srcOp{{Kind: 'R', Target: "/a", Start: 0}, {Kind: 'T', Dt: 61}, {Kind: 'R', Target: "/a", Start: 0}})
	return c.run("kf.C09-b.sysrc", id)
}

func srcContactTokens(cs []sysx.Contact) []string {
	out := []string{hx.I(len(cs))}
	for _, c := range cs {
		via := []string{}
		for i := 0; i < 4; i++ {
			if c.Header.Get("X-Via-"+hx.I(i)) != "" {
				via = append(via, hx.I(i))
			}
		}
		out = append(out, hx.X(c.URLHost), hx.X(c.Path), hx.X(c.Host), hx.B(c.Failed), hx.X(c.Header.Get("X-Hop")), hx.X(strings.Join(via, ",")), hx.X(c.Header.Get("If-None-Match")))
	}
	return out
}
