package streams

// C15 — range requests. Streams:
//   range      EXHAUSTIVE by case id: n in 0..12 x all specs a-b, a-, -k with a,b,k in 0..14
//              (13 * 255 = 3315 cases) through server.VerifGetRange, (*VerifRange).Start/End/Size/
//              ContentRangeValue and server.VerifSetRangedHeaders
//   rangemal   malformed / multi-range / whitespace / sign / int64-edge specs from a grammar, same calls
//   rangecl    caching.VerifContentLengthFromRange
//   rangeresp  the composed response: real server.ConfigureServeMux handler + real disk cache +
//              scripted origin; first request fills the entry, second one hits it
//   kf.C15-*   fixed witness tables, run through the rangeresp machinery; kf.C15-a and kf.C15-b are
//              the tables of the repaired findings C15-a / C15-b (suffix arithmetic of requestRange) and
//              run as regression streams (every case must pass)

import (
	"bytes"
	"io"
	"io/ioutil"
	"net/http"
	"net/http/httptest"
	"os"
	"runtime"
	"strconv"
	"strings"
	"sync"
	"time"

	"github.com/richiefi/rrrouter/caching"
	"github.com/richiefi/rrrouter/config"
	"github.com/richiefi/rrrouter/proxy"
	"github.com/richiefi/rrrouter/server"

	"rrverif/harness/hx"
)

func init() {
	register("range", rangeStream)
	register("rangemal", rangeMalStream)
	register("rangecl", rangeClStream)
	register("rangeresp", rangeRespStream)
	for name, tab := range rngWitness {
		t := tab
		n := name
		register(n, func(g *hx.Gen, id int) hx.Case { return rngWitnessStream(n, t, id) })
	}
}

// ---------------------------------------------------------------------------------------------
// function level

const rngSpecsPerLen = 15*15 + 15 + 15 // 255
const rngExhaustiveCases = 13 * rngSpecsPerLen

func rngExhaustiveSpec(k int) string {
	switch {
	case k < 225:
		return "bytes=" + hx.I(k/15) + "-" + hx.I(k%15)
	case k < 240:
		return "bytes=" + hx.I(k-225) + "-"
	default:
		return "bytes=-" + hx.I(k-240)
	}
}

// rngFnCase runs the real parser and arithmetic on one (status, cl, Range value).
func rngFnCase(stream string, id int, status int, cl int64, hasRange bool, rng string) hx.Case {
	in := []string{hx.I(status), hx.I64(cl), hx.B(hasRange), hx.X(rng)}
	impl := hx.Guard(func() []string {
		h := http.Header{}
		if hasRange {
			h.Set("Range", rng)
		}
		v := server.VerifGetRange(h)
		out := []string{}
		if v == nil {
			out = append(out, "nil")
		} else {
			out = append(out, "rr")
			for _, p := range []*int64{v.S, v.E} {
				if p == nil {
					out = append(out, "0", "0")
				} else {
					out = append(out, "1", hx.I64(*p))
				}
			}
			out = append(out, hx.I64(v.Start(cl)), hx.I64(v.End(cl)), hx.I64(v.Size(cl)), hx.X(v.ContentRangeValue(cl)))
		}
		set := http.Header{}
		st, hp := server.VerifSetRangedHeaders(v, cl, status, &set)
		out = append(out, hx.I(st), hx.I(len(*hp)), hx.X(hp.Get("Content-Length")), hx.X(hp.Get("Content-Range")))
		return out
	})
	return hx.Case{Stream: stream, ID: id, In: in, Impl: impl}
}

func rangeStream(g *hx.Gen, id int) hx.Case {
	k := id % rngExhaustiveCases
	return rngFnCase("range", id, 200, int64(k/rngSpecsPerLen), true, rngExhaustiveSpec(k%rngSpecsPerLen))
}

var rngUnits = []string{"bytes=", "bytes=", "bytes=", "bytes=", "Bytes=", "BYTES=", "bytes =", "bytes", "", "xbytes=", "x bytes=",
	"bytes=bytes=", " bytes=", "items=", "bytes==", "bytes=,", "bytes= "}
var rngNums = []string{"0", "1", "2", "5", "11", "12", "13", "007", "+3", "+0", "-0", " 4", "4 ", "1_0", "0x1f", "\xe0\xa5\xa7", "", "a",
	"2147483648", "4294967296", "9223372036854775806", "9223372036854775807", "9223372036854775808", "18446744073709551616",
	"99999999999999999999", "-9223372036854775808", "-9223372036854775809", "-1", "-5"}
var rngLens = []int64{0, 1, 2, 5, 5, 12, 12, 13, 100, 2147483648, 9223372036854775807, -1}
var rngStatuses = []int{200, 200, 200, 200, 200, 200, 200, 200, 200, 200, 200, 200, 200, 200, 200, 404, 301, 206, 304, 500}

func rngMalSpec(g *hx.Gen) string {
	u := g.Pick(rngUnits)
	a, b, c, d := g.Pick(rngNums), g.Pick(rngNums), g.Pick(rngNums), g.Pick(rngNums)
	switch g.Intn(18) {
	case 0, 1, 2:
		return u + a + "-" + b
	case 3:
		return u + a + "-"
	case 4, 5:
		return u + "-" + b
	case 6:
		return u + a
	case 7:
		return u + a + "-" + b + "-" + c
	case 8:
		return u + a + "-" + b + "," + c + "-" + d
	case 9:
		return u + a + "-" + b + ", " + c + "-"
	case 10:
		return u + "-"
	case 11:
		return u + "--" + b
	case 12:
		return u + a + "--" + b
	case 13:
		return u + "," + a + "-" + b
	case 14:
		return u + a + "-" + b + ","
	case 15:
		return u + a + " - " + b
	case 16:
		return a + "-" + b + u
	default:
		return u + a + "-" + b + u + c + "-" + d
	}
}

func rangeMalStream(g *hx.Gen, id int) hx.Case {
	cl := rngLens[g.Intn(len(rngLens))]
	st := rngStatuses[g.Intn(len(rngStatuses))]
	if g.Chance(4) {
		return rngFnCase("rangemal", id, st, cl, false, "")
	}
	return rngFnCase("rangemal", id, st, cl, true, rngMalSpec(g))
}

func rangeClStream(g *hx.Gen, id int) hx.Case {
	tot := g.Pick([]string{"0", "1", "4", "12", "007", "+5", "-0", "-1", "-7", "*", "", " 4", "4 ", "x",
		"9223372036854775807", "9223372036854775808", "-9223372036854775808", "99999999999999999999"})
	var s string
	switch g.Intn(8) {
	case 0:
		s = "bytes " + g.Pick(rngNums) + "-" + g.Pick(rngNums) + "/" + tot
	case 1:
		s = "bytes */" + tot
	case 2:
		s = tot
	case 3:
		s = "bytes 0-1/" + tot + "/" + tot
	case 4:
		s = "/" + tot
	case 5:
		s = ""
	case 6:
		s = "bytes 0-1/" + tot + "/"
	default:
		s = "bytes " + hx.I(g.Intn(20)-3) + "-" + hx.I(g.Intn(20)-3) + "/" + tot
	}
	impl := hx.Guard(func() []string { return []string{hx.X(caching.VerifContentLengthFromRange(s))} })
	return hx.Case{Stream: "rangecl", ID: id, In: []string{hx.X(s)}, Impl: impl}
}

// ---------------------------------------------------------------------------------------------
// composed response through the real handler

// rngOrigin stands in for the HTTP transport: one scripted answer, and a record of what it was asked.
type rngOrigin struct {
	mu       sync.Mutex
	status   int
	body     []byte
	chunked  bool
	contacts int
	sawRange bool
}

func (o *rngOrigin) CloseIdleConnections() {}

func (o *rngOrigin) Do(req *http.Request) (*http.Response, error) {
	o.mu.Lock()
	defer o.mu.Unlock()
	o.contacts++
	if _, ok := req.Header["Range"]; ok {
		o.sawRange = true
	}
	for k := range req.Header {
		if http.CanonicalHeaderKey(k) == "Range" {
			o.sawRange = true
		}
	}
	h := http.Header{}
	h.Set("Content-Type", "application/octet-stream")
	if o.status >= 300 && o.status < 400 {
		h.Set("Location", "http://o.test/moved")
	}
	resp := &http.Response{
		Status: strconv.Itoa(o.status) + " " + http.StatusText(o.status), StatusCode: o.status,
		Proto: "HTTP/1.1", ProtoMajor: 1, ProtoMinor: 1, Header: h, Request: req,
	}
	if o.chunked {
		resp.ContentLength = -1
		resp.TransferEncoding = []string{"chunked"}
	} else {
		resp.ContentLength = int64(len(o.body))
		h.Set("Content-Length", strconv.Itoa(len(o.body)))
	}
	resp.Body = ioutil.NopCloser(bytes.NewReader(o.body))
	return resp, nil
}

// rngRecorder is the client's http.ResponseWriter: a recorder that, like net/http's own writer,
// also is an io.ReaderFrom (sendBody requires it) and an http.Flusher.
type rngRecorder struct{ *httptest.ResponseRecorder }

func (w rngRecorder) ReadFrom(r io.Reader) (int64, error) { return io.Copy(w.ResponseRecorder, r) }

type rngWorld struct {
	dir    string
	cache  caching.Cache
	origin *rngOrigin
	mux    *http.ServeMux
	err    error
}

var (
	rngOnce  sync.Once
	rngShare *rngWorld
)

// one cache per process; its directory is removed after every case (the storage writer re-creates
// the sub-directories it needs), so nothing is left behind whenever the process ends
func rngGetWorld() *rngWorld {
	rngOnce.Do(func() {
		os.Setenv("ATIME_DISABLE", "true")
		w := &rngWorld{origin: &rngOrigin{}}
		dir, err := os.MkdirTemp("", "rrverif-c15-")
		if err != nil {
			w.err = err
			rngShare = w
			return
		}
		w.dir = dir
		w.cache = caching.NewCacheWithOptions([]caching.StorageConfiguration{{Id: "c1", Path: dir, Size: 1 << 40}}, Logger, nil)
		rngWaitLimiterIdle()
		rules, err := proxy.ParseRules([]byte(`{"rules":[{"path":"/*","destination":"http://o.test/$1","cache":"c1"}]}`), Logger)
		if err != nil {
			w.err = err
			rngShare = w
			return
		}
		conf := &config.Config{RetryTimes: []int{}}
		router := proxy.NewRouterWithPerformer(rules, Logger, conf, w.origin)
		w.mux = http.NewServeMux()
		server.ConfigureServeMux(w.mux, conf, router, Logger, w.cache)
		rngShare = w
	})
	return rngShare
}

// rngWaitLimiterIdle returns once the storage's size-limiter goroutine has finished its start-up scan
// of the cache directory (it panics if a directory disappears under that scan, and the cases below
// remove the directory after use). Observed through the goroutine dump: the goroutine sits in its
// channel receive inside runSizeLimiter. Bounded; happens once per process.
func rngWaitLimiterIdle() {
	buf := make([]byte, 1<<18)
	deadline := time.Now().Add(10 * time.Second)
	for time.Now().Before(deadline) {
		n := runtime.Stack(buf, true)
		for _, g := range strings.Split(string(buf[:n]), "\n\n") {
			if strings.Contains(g, "runSizeLimiter") && !strings.Contains(g, "readFiles") &&
				strings.Contains(strings.SplitN(g, "\n", 2)[0], "chan receive") {
				return
			}
		}
		time.Sleep(200 * time.Microsecond)
	}
}

func rngView(rec *httptest.ResponseRecorder) []string {
	h := rec.Result().Header
	opt := func(k string) []string {
		vs, ok := h[k]
		if !ok || len(vs) == 0 {
			return []string{"0", hx.X("")}
		}
		return []string{"1", hx.X(vs[0])}
	}
	out := []string{hx.I(rec.Code)}
	out = append(out, opt("Content-Length")...)
	out = append(out, opt("Content-Range")...)
	out = append(out, hx.X(rec.Body.String()))
	return out
}

func (w *rngWorld) request(path string, hasRange bool, rng string) *httptest.ResponseRecorder {
	req := httptest.NewRequest("GET", path, nil)
	req.Host = "edge.test"
	if hasRange {
		req.Header.Set("Range", rng)
	}
	rec := httptest.NewRecorder()
	w.mux.ServeHTTP(rngRecorder{rec}, req)
	return rec
}

func rngBody(n int) []byte {
	b := make([]byte, n)
	for i := range b {
		b[i] = byte('a' + i%26)
	}
	return b
}

// rngRespCase: fill request, then the same request again; the second one is reported as a hit only if
// it was answered without contacting the origin (otherwise `nohit`: the entry was not published).
func rngRespCase(stream string, id int, status int, chunked bool, n int, hasRange bool, rng string) hx.Case {
	body := rngBody(n)
	in := []string{hx.I(status), hx.B(chunked), hx.X(string(body)), hx.B(hasRange), hx.X(rng)}
	impl := hx.Guard(func() []string {
		w := rngGetWorld()
		if w.err != nil {
			return []string{"err:world"}
		}
		defer os.RemoveAll(w.dir)
		o := w.origin
		o.mu.Lock()
		o.status, o.body, o.chunked, o.contacts, o.sawRange = status, body, chunked, 0, false
		o.mu.Unlock()
		path := "/r/" + stream + "/" + hx.I(id)
		first := w.request(path, hasRange, rng)
		o.mu.Lock()
		c1 := o.contacts
		o.mu.Unlock()
		second := w.request(path, hasRange, rng)
		o.mu.Lock()
		c2, saw := o.contacts, o.sawRange
		o.mu.Unlock()
		if c1 != 1 {
			return []string{"err:fill-contacts-" + hx.I(c1)}
		}
		out := rngView(first)
		if c2 == c1 {
			out = append(out, "hit")
			out = append(out, rngView(second)...)
		} else {
			out = append(out, "nohit")
		}
		return append(out, hx.B(saw))
	})
	return hx.Case{Stream: stream, ID: id, In: in, Impl: impl}
}

var rngRespLens = []int{0, 1, 2, 5, 12}
var rngRespStatuses = []int{200, 200, 200, 404, 301}

func rngRespSpec(g *hx.Gen, n int) (bool, string) {
	num := func() string { // half: anywhere in 0..n+1; half: the boundary values around the length
		v := g.Intn(n + 2)
		if g.Bool() {
			v = []int{0, 1, n - 2, n - 1, n, n + 1, n + 2, 99}[g.Intn(8)]
		}
		if v < 0 {
			v = 0
		}
		return hx.I(v)
	}
	if g.Chance(30) && n > 0 { // a well-formed a-b inside the resource
		a := g.Intn(n)
		return true, "bytes=" + hx.I(a) + "-" + hx.I(a+g.Intn(n-a))
	}
	switch g.Intn(12) {
	case 0:
		return false, ""
	case 1, 2, 3, 4:
		return true, "bytes=" + num() + "-" + num()
	case 5, 6:
		return true, "bytes=" + num() + "-"
	case 7, 8, 9:
		return true, "bytes=-" + num()
	default:
		return true, rngMalSpec(g)
	}
}

func rangeRespStream(g *hx.Gen, id int) hx.Case {
	n := rngRespLens[g.Intn(len(rngRespLens))]
	st := rngRespStatuses[g.Intn(len(rngRespStatuses))]
	chunked := g.Chance(35)
	has, rng := rngRespSpec(g, n)
	return rngRespCase("rangeresp", id, st, chunked, n, has, rng)
}

type rngW struct {
	status  int
	chunked bool
	n       int
	rng     string
}

// kf.C15-a / kf.C15-b: the former findings (bytes=-k with k > length, bytes=-0), repaired in
// requestRange.start/size and setRangedHeaders; regression cases: 206 with the whole resource, and 416.
var rngWitness = map[string][]rngW{
	"kf.C15-a": {{200, false, 4, "bytes=-99"}, {200, false, 4, "bytes=-5"}, {200, false, 12, "bytes=-13"}},
	"kf.C15-b": {{200, false, 4, "bytes=-0"}, {200, false, 1, "bytes=-0"}},
	"kf.C15-c": {{200, true, 6, "bytes=1-3"}, {200, true, 6, "bytes=2-"}, {200, true, 6, "bytes=-2"}},
	"kf.C15-d": {{404, false, 6, "bytes=1-3"}, {301, false, 6, "bytes=-2"}, {404, true, 6, "bytes=4-"}},
	"kf.C15-f": {{404, false, 0, "bytes=0-3"}, {301, false, 0, "bytes=-2"}},
	"kf.C15-g": {{200, false, 6, "xbytes=1-3"}, {200, false, 6, "bytes=+1-3"}, {200, false, 6, "bytes=1-+3"}},
	"kf.C15-h": {{200, false, 6, "bytes=0-1,3-4"}, {200, false, 6, "Bytes=0-1"}, {200, false, 6, "bytes=0-99999999999999999999"}},
}

func rngWitnessStream(name string, tab []rngW, id int) hx.Case {
	w := tab[id%len(tab)]
	return rngRespCase(name, id, w.status, w.chunked, w.n, true, w.rng)
}
