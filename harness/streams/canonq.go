package streams

import (
	"net/http"
	"strings"

	"github.com/richiefi/rrrouter/config"
	"github.com/richiefi/rrrouter/proxy"

	"rrverif/harness/hx"
	"rrverif/harness/sysx"
)

// Stream canonq (C18): a destination that canonicalises its QUERY with a redirect — /s?b=2&a=1 is
// answered 302 to /s?a=1&b=2, which is answered 200. Two URLs that differ only in their query are
// two URLs: the chain terminates, the client must receive the 200, not "508 Loop detected". The
// Location is relative to the root or absolute; the rule restarts on redirects (uncached path).
func init() {
	register("canonq", cqStream)
}

const cqCanon = "a=1&b=2"

var cqQueries = []string{"b=2&a=1", "a=1&b=2&", "a=1&&b=2", "b=2&a=1&c", "a=1&b=2", "a=%31&b=2", "a=1;b=2", "", "a&b=2&a=1"}

func cqStream(g *hx.Gen, id int) hx.Case {
	q := cqQueries[id%len(cqQueries)]
	abs := (id/len(cqQueries))%2 == 1
	forceQ := q == "" && g.Bool() // "/s?" (empty query with the question mark)
	target := "/s"
	if q != "" || forceQ {
		target += "?" + q
	}
	loc := "/s?" + cqCanon
	if abs {
		loc = "http://d0.test/s?" + cqCanon
	}
	in := []string{hx.X(target), hx.X(loc)}
	impl := hx.Guard(func() []string {
		w := theWorld()
		rules, err := proxy.ParseRules(hx.RulesJSON([]hx.RuleSpec{{Host: "h.test", Path: "/*", Dest: "http://d0.test/$1", RestartOnRedirect: true}}), sysx.Logger)
		if err != nil {
			return []string{"err:rules"}
		}
		w.Configure(rules, &config.Config{RetryTimes: []int{}})
		old := w.Perf.Limit
		w.Perf.Limit = srLimit
		defer func() { w.Perf.Limit = old }()
		w.Perf.Reset(func(req *http.Request) *sysx.OriginResp {
			if req.URL.Host != "d0.test" {
				return nil
			}
			if req.URL.Path != "/s" {
				return &sysx.OriginResp{Status: 404, Body: []byte("unknown"), ReadErrAt: -1}
			}
			if req.URL.RawQuery == cqCanon {
				return &sysx.OriginResp{Status: 200, Body: []byte("final"), ReadErrAt: -1}
			}
			return &sysx.OriginResp{Status: 302, Body: []byte("moved"), Header: [][2]string{{"Location", loc}}, ReadErrAt: -1}
		})
		v := w.Do(SysReq{Method: "GET", Target: target, Host: "h.test"}.Raw(), false)
		cs := w.Perf.Take()
		out := []string{hx.I(v.Status), v.Framing, hx.X(string(v.Body)), hx.I(len(cs))}
		for _, c := range cs {
			out = append(out, hx.X(c.URLHost), hx.X(c.Path))
		}
		_ = strings.TrimSpace
		return out
	})
	return hx.Case{Stream: "canonq", ID: id, In: in, Impl: impl}
}
