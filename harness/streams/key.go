package streams

// C11 — distinct resources never share a cache entry (function level).
//
//   selftest   util.SHA1String (crypto/sha1) vs the model's SHA-1: FIPS vectors, block-boundary
//              lengths, random strings
//   key        public caching.KeysFromRequest + Key.FsName (+ field view, notFoundPreferredKey)
//              on requests parsed by http.ReadRequest from generated raw text
//   override   server.VerifRuleDestinationRequest(r, rule), rule parsed by the public ParseRules
//   keypair    PAIRS of routed requests (boundary shifting, colliding rule sets): the real
//              destination (createOutgoingURLs + createProxyRequest) and the real FsNames
//   kf.C11-a/b/c  fixed witness pairs of the known findings

import (
	"bufio"
	"net/http"
	"net/url"
	"sort"
	"strings"

	"github.com/richiefi/rrrouter/caching"
	"github.com/richiefi/rrrouter/config"
	"github.com/richiefi/rrrouter/proxy"
	"github.com/richiefi/rrrouter/server"
	"github.com/richiefi/rrrouter/util"

	"rrverif/harness/hx"
)

func init() {
	register("selftest", c11SelfTestStream)
	register("key", c11KeyStream)
	register("override", c11OverrideStream)
	register("keypair", c11KeyPairStream)
	register("kf.C11-a", func(g *hx.Gen, id int) hx.Case { return c11Witness("kf.C11-a", id, c11WitnessA) })
	register("kf.C11-b", func(g *hx.Gen, id int) hx.Case { return c11Witness("kf.C11-b", id, c11WitnessB) })
	register("kf.C11-c", func(g *hx.Gen, id int) hx.Case { return c11Witness("kf.C11-c", id, c11WitnessC) })
}

// ---------------------------------------------------------------- SHA-1 self test

var c11Sha1Vectors = []string{
	"", "abc", "abcdbcdecdefdefgefghfghighijhijkijkljklmklmnlmnomnopnopq",
	"abcdefghbcdefghicdefghijdefghijkefghijklfghijklmghijklmnhijklmnoijklmnopjklmnopqklmnopqrlmnopqrsmnopqrstnopqrstu",
	strings.Repeat("a", 55), strings.Repeat("a", 56), strings.Repeat("a", 57), strings.Repeat("a", 63),
	strings.Repeat("a", 64), strings.Repeat("a", 65), strings.Repeat("a", 119), strings.Repeat("a", 120),
	strings.Repeat("a", 127), strings.Repeat("a", 128), strings.Repeat("\xff", 64), strings.Repeat("\x00", 1),
	strings.Repeat("a", 1000),
}

func c11SelfTestStream(g *hx.Gen, id int) hx.Case {
	var s string
	if id < len(c11Sha1Vectors) {
		s = c11Sha1Vectors[id]
	} else {
		n := g.Intn(300)
		b := make([]byte, n)
		for i := range b {
			b[i] = byte(g.Intn(256))
		}
		s = string(b)
	}
	impl := hx.Guard(func() []string { return []string{hx.X(util.SHA1String([]byte(s)))} })
	return hx.Case{Stream: "selftest", ID: id, In: []string{hx.X(s)}, Impl: impl}
}

// ---------------------------------------------------------------- requests

// c11Req is a request as it goes on the wire.
type c11Req struct {
	Method string
	Target string
	Host   string      // "" = no Host line
	Lines  [][2]string // further header lines, wire order (name as written, value)
}

func (r c11Req) Raw() string {
	var sb strings.Builder
	sb.WriteString(r.Method + " " + r.Target + " HTTP/1.1\r\n")
	if r.Host != "" {
		sb.WriteString("Host: " + r.Host + "\r\n")
	}
	for _, l := range r.Lines {
		sb.WriteString(l[0] + ": " + l[1] + "\r\n")
	}
	sb.WriteString("\r\n")
	return sb.String()
}

func c11Parse(raw string) (*http.Request, error) {
	return http.ReadRequest(bufio.NewReader(strings.NewReader(raw)))
}

func c11HeaderTokens(h http.Header) []string {
	keys := make([]string, 0, len(h))
	for k := range h {
		keys = append(keys, k)
	}
	sort.Strings(keys)
	t := []string{hx.I(len(keys))}
	for _, k := range keys {
		t = append(t, hx.X(k), hx.I(len(h[k])))
		for _, v := range h[k] {
			t = append(t, hx.X(v))
		}
	}
	return t
}

// the request as the key derivation reads it
func c11ReqTokens(r *http.Request) []string {
	t := []string{hx.X(r.Method), hx.X(r.Host), hx.X(r.URL.Scheme), hx.X(r.URL.Host), hx.X(r.URL.RequestURI())}
	return append(t, c11HeaderTokens(r.Header)...)
}

var c11AE = []string{"gzip", "br", "gzip, br", "identity", "", "a", "b", "ab", "gz", "ip", "*;q=0.1"}
var c11Auth = []string{"Bearer t1", "Bearer t2", "Basic dTpw", "tok", "t", "ok", ""}
var c11Origin = []string{"https://o1.test", "https://o2.test", "null", "", "o", "https://o1.test:8443"}
var c11Other = [][2]string{{"Accept", "*/*"}, {"Cookie", "s=1"}, {"X-Forwarded-Proto", "https"}, {"Range", "bytes=0-1"},
	{"X-Origin", "evil"}, {"Authorization2", "x"}, {"Accept-Encoding-X", "gzip"}, {"If-None-Match", "\"e\""}}
var c11Tails = []string{"Accept-Encodinggzip", "Authorizationtok", "opaqueOrigin", "Originhttps://o1.test", "Origino", "Hosth1.test"}

func c11WireName(g *hx.Gen, name string) string {
	switch g.Intn(6) {
	case 0:
		return strings.ToLower(name)
	case 1:
		return strings.ToUpper(name)
	case 2: // mixed
		b := []byte(name)
		for i := range b {
			if g.Bool() {
				b[i] = strings.ToUpper(string(b[i]))[0]
			} else {
				b[i] = strings.ToLower(string(b[i]))[0]
			}
		}
		return string(b)
	}
	return name
}

func c11Count(g *hx.Gen) int {
	switch x := g.Intn(20); {
	case x < 9:
		return 0
	case x < 16:
		return 1
	case x < 19:
		return 2
	}
	return 3
}

func c11GenMethod(g *hx.Gen) string {
	switch x := g.Intn(10); {
	case x < 5:
		return "GET"
	case x < 8:
		return "HEAD"
	case x == 8:
		return g.Pick([]string{"POST", "PUT", "DELETE", "OPTIONS", "PATCH"})
	}
	return g.Pick([]string{"get", "HEA", "HE", "HEADX", "G", "head"})
}

func c11GenHost(g *hx.Gen) string {
	h := g.Pick(hx.Hosts)
	switch g.Intn(12) {
	case 0:
		return h + ":8080"
	case 1:
		return "HEAD" + h
	case 2:
		return "AD" + h
	case 3:
		return ""
	case 4:
		return strings.ToUpper(h)
	case 5:
		return "[::1]:80"
	}
	return h
}

func c11GenPath(g *hx.Gen) string {
	p := ""
	n := g.Intn(4)
	for i := 0; i < n; i++ {
		p += "/" + g.Pick(hx.Segs)
	}
	if p == "" || g.Chance(10) {
		p += "/"
	}
	switch g.Intn(12) {
	case 0:
		p += g.Pick(c11Tails)
	case 1:
		p += "%2F" + g.Pick(hx.Segs)
	case 2:
		p += "/a%7Cb"
	case 3:
		p += "/x|y" // ReadRequest accepts, EscapedPath re-escapes
	}
	return p
}

func c11GenQuery(g *hx.Gen) string {
	switch g.Intn(10) {
	case 0:
		return "?"
	case 1:
		return "?x=1"
	case 2:
		return "?a=b&c=%20d"
	case 3:
		return "?a=1#b=2"
	case 4:
		return "?u=http://x/?y"
	case 5:
		return "?q=" + g.Pick(c11Tails)
	}
	return ""
}

func c11GenLines(g *hx.Gen) [][2]string {
	var ls [][2]string
	for i, n := 0, c11Count(g); i < n; i++ {
		ls = append(ls, [2]string{c11WireName(g, "Accept-Encoding"), g.Pick(c11AE)})
	}
	for i, n := 0, c11Count(g); i < n; i++ {
		ls = append(ls, [2]string{c11WireName(g, "Authorization"), g.Pick(c11Auth)})
	}
	for i, n := 0, c11Count(g); i < n; i++ {
		ls = append(ls, [2]string{c11WireName(g, "Origin"), g.Pick(c11Origin)})
	}
	for i, n := 0, c11Count(g); i < n; i++ {
		o := c11Other[g.Intn(len(c11Other))]
		ls = append(ls, [2]string{c11WireName(g, o[0]), o[1]})
	}
	if g.Chance(3) {
		ls = append(ls, [2]string{"Host", "second.test"})
	}
	// shuffle (the order of lines with the same name is what matters)
	for i := len(ls) - 1; i > 0; i-- {
		j := g.Intn(i + 1)
		ls[i], ls[j] = ls[j], ls[i]
	}
	return ls
}

func c11GenReq(g *hx.Gen) c11Req {
	r := c11Req{Method: c11GenMethod(g), Host: c11GenHost(g), Target: c11GenPath(g) + c11GenQuery(g), Lines: c11GenLines(g)}
	switch g.Intn(25) {
	case 0:
		r.Target = "http://" + g.Pick(hx.Hosts) + r.Target // absolute-form
	case 1:
		r.Target = "*"
	case 2:
		r.Target = "/ bad" // rejected by net/http
	}
	return r
}

// ---------------------------------------------------------------- stream: key

func c11KeyTokens(k caching.Key) []string {
	v := caching.VerifKey(k)
	t := []string{hx.X(k.FsName()), hx.X(v.Method), hx.X(v.Host), hx.X(v.Path), hx.B(v.OpaqueOrigin)}
	t = append(t, c11HeaderTokens(v.StoredHeaders)...)
	return append(t, hx.B(k.HasFullOrigin()), hx.B(k.HasOpaqueOrigin()))
}

func c11KeyStream(g *hx.Gen, id int) hx.Case {
	raw := c11GenReq(g).Raw()
	req, err := c11Parse(raw)
	if err != nil {
		return hx.Case{Stream: "key", ID: id, In: []string{hx.X(raw), "0"}, Impl: []string{"rejected"}}
	}
	switch g.Intn(40) {
	// map entries the parser would never produce, set directly
	case 0: // allowed, non-canonical: kept beside the canonical entry
		req.Header["accept-encoding"] = []string{"raw"}
	case 1: // not allowed, non-canonical: AllowHeaders calls Del, which canonicalises — the entry survives
		req.Header["x-raw"] = []string{"v"}
	case 2: // … and Del removes the canonical namesake instead
		req.Header["x-other"] = []string{"v"}
		req.Header["X-Other"] = []string{"w"}
	case 3:
		req.Header["ORIGIN"] = []string{"https://o9.test"}
	case 4: // a key without values
		req.Header["Authorization"] = []string{}
	}
	in := append([]string{hx.X(raw), "1"}, c11ReqTokens(req)...)
	impl := hx.Guard(func() []string {
		keys := caching.KeysFromRequest(req)
		out := []string{hx.I(len(keys))}
		for _, k := range keys {
			out = append(out, c11KeyTokens(k)...)
		}
		pk := caching.VerifNotFoundPreferredKey(keys)
		pi := -1
		for i, k := range keys {
			if k.FsName() == pk.FsName() && k.HasOpaqueOrigin() == pk.HasOpaqueOrigin() {
				pi = i
				break
			}
		}
		return append(out, hx.I(pi))
	})
	return hx.Case{Stream: "key", ID: id, In: in, Impl: impl}
}

// ---------------------------------------------------------------- stream: override

func c11GenDest(g *hx.Gen, i int) string {
	base := "http://d" + hx.I(i) + ".test"
	switch g.Intn(16) {
	case 0:
		return base + "/fixed" // no $1: the capture (and the query in it) is dropped
	case 1:
		return base + "/p?u=$1"
	case 2:
		return base + "/p/$1/s"
	case 3:
		return base + "/$1/$1"
	case 4:
		return base + "/$1#frag"
	case 5:
		return base // no path: goes on the wire as "/"
	case 6:
		return base + "/%zz/$1" // url.Parse fails: request left as it is
	case 7:
		return "d" + hx.I(i) + ".test/$1" // no scheme: a relative path
	case 8:
		return "d" + hx.I(i) + ".test:8080/$1" // "scheme" d0.test, opaque 8080/…
	case 9:
		return base + "/a b/$1" // not a valid encoding: EscapedPath re-escapes
	case 10:
		return "https://u:p@d" + hx.I(i) + ".test/$1"
	}
	return hx.GenDest(g, i)
}

func c11OverrideStream(g *hx.Gen, id int) hx.Case {
	spec := hx.GenRule(g, g.Intn(3))
	spec.Dest = c11GenDest(g, g.Intn(3))
	if g.Chance(50) {
		spec.Host, spec.Scheme = "", ""
	}
	host := g.Pick(hx.Hosts)
	path := c11GenPath(g)
	if g.Chance(70) {
		p := strings.TrimSuffix(spec.Path, "*")
		if strings.HasPrefix(p, "/") && !strings.Contains(p, "*") {
			switch g.Intn(4) {
			case 0:
				path = p
			case 1:
				path = strings.TrimSuffix(p, "/")
			default:
				path = p + strings.TrimPrefix(path, "/")
			}
		}
	}
	if path == "" {
		path = "/"
	}
	target := path + c11GenQuery(g)
	if g.Chance(10) {
		target += "%zz"
	}
	if g.Chance(25) { // absolute-form: r.URL.Scheme and r.URL.Host are set, constrained rules can re-match
		ah := host
		if g.Chance(30) {
			ah = g.Pick(hx.Hosts)
		}
		target = g.Pick([]string{"http", "https"}) + "://" + ah + target
	}
	raw := c11Req{Method: c11GenMethod(g), Target: target, Host: host}.Raw()
	in := append([]string{hx.X(raw)}, spec.Tokens()...)
	req, err := c11Parse(raw)
	if err != nil {
		return hx.Case{Stream: "override", ID: id, In: append(in, "0"), Impl: []string{"rejected"}}
	}
	in = append(in, "1")
	in = append(in, c11ReqTokens(req)...)
	impl := hx.Guard(func() []string {
		rules, err := proxy.ParseRules(hx.RulesJSON([]hx.RuleSpec{spec}), Logger)
		if err != nil {
			return []string{"err:rules"}
		}
		rule := proxy.VerifRulePtrs(rules)[0]
		r2 := server.VerifRuleDestinationRequest(req, *rule)
		return []string{hx.X(r2.URL.Scheme), hx.X(r2.URL.Host), hx.X(r2.URL.RequestURI()), hx.X(r2.Host), hx.X(r2.Method)}
	})
	return hx.Case{Stream: "override", ID: id, In: in, Impl: impl}
}

// ---------------------------------------------------------------- stream: keypair

// c11Fields: a request by key field, so that text can be moved across field boundaries.
type c11Fields struct {
	Method, Host, Path string
	AE, Auth, Origin   []string
	Extra              [][2]string
}

func (f c11Fields) Req() c11Req {
	r := c11Req{Method: f.Method, Host: f.Host, Target: f.Path}
	for _, v := range f.AE {
		r.Lines = append(r.Lines, [2]string{"Accept-Encoding", v})
	}
	for _, v := range f.Auth {
		r.Lines = append(r.Lines, [2]string{"Authorization", v})
	}
	for _, v := range f.Origin {
		r.Lines = append(r.Lines, [2]string{"Origin", v})
	}
	r.Lines = append(r.Lines, f.Extra...)
	return r
}

func c11Rule(path, dest string) hx.RuleSpec { return hx.RuleSpec{Path: path, Dest: dest, Cache: "c1"} }

// one side of a pair: the implementation's routing, real destination, and entry names
func c11Side(rules *proxy.Rules, conf *config.Config, req *http.Request) []string {
	um, err := proxy.VerifCreateOutgoingURLs(rules, conf, proxy.VerifCompleteURL(req), req.Method)
	if err != nil {
		return []string{"err:outurl"}
	}
	if um == nil || um.URL == nil {
		return []string{"nomatch"}
	}
	idx := -1
	ptrs := proxy.VerifRulePtrs(rules)
	for i, p := range ptrs {
		if p == um.Rule {
			idx = i
		}
	}
	preq, err := proxy.VerifCreateProxyRequest(rules, conf, req, false, proxy.HostHeader{}, um.URL)
	if err != nil {
		return []string{"err:proxyreq"}
	}
	p := preq.URL.EscapedPath()
	if p == "" {
		p = "/"
	}
	out := []string{hx.I(idx), hx.X(preq.URL.Host), hx.X(p), hx.X(preq.URL.RawQuery)}
	keys := caching.KeysFromRequest(server.VerifRuleDestinationRequest(req, *um.Rule))
	out = append(out, hx.I(len(keys)))
	for _, k := range keys {
		out = append(out, hx.X(k.FsName()))
	}
	return out
}

func c11RouteTokens(req *http.Request) []string {
	flag, scheme, host, uri := 3, "", "", ""
	func() {
		defer func() { recover() }()
		s := proxy.VerifDestinationString(proxy.VerifCompleteURL(req))
		u, perr := url.Parse(s)
		if perr != nil {
			flag = 2
			return
		}
		flag, scheme, host, uri = 1, u.Scheme, u.Host, u.RequestURI()
	}()
	return []string{hx.I(flag), hx.X(scheme), hx.X(host), hx.X(uri)}
}

func c11PairCase(stream string, id int, rs []hx.RuleSpec, a, b c11Req) hx.Case {
	rawA, rawB := a.Raw(), b.Raw()
	in := append([]string{hx.X(rawA), hx.X(rawB)}, hx.RulesTokens(rs)...)
	reqA, errA := c11Parse(rawA)
	reqB, errB := c11Parse(rawB)
	if errA != nil || errB != nil {
		return hx.Case{Stream: stream, ID: id, In: append(in, "0"), Impl: []string{"rejected"}}
	}
	in = append(in, "1")
	in = append(in, c11ReqTokens(reqA)...)
	in = append(in, c11RouteTokens(reqA)...)
	in = append(in, c11ReqTokens(reqB)...)
	in = append(in, c11RouteTokens(reqB)...)
	impl := hx.Guard(func() []string {
		rules, err := proxy.ParseRules(hx.RulesJSON(rs), Logger)
		if err != nil {
			return []string{"err:rules"}
		}
		conf := &config.Config{RetryTimes: []int{}}
		sa := c11Side(rules, conf, reqA)
		sb := c11Side(rules, conf, reqB)
		out := append(append([]string{}, sa...), sb...)
		// the output of the pair: do the two requests share an entry name?
		shared := false
		if len(sa) > 5 && len(sb) > 5 {
			for _, x := range sa[5:] {
				for _, y := range sb[5:] {
					if x == y {
						shared = true
					}
				}
			}
		}
		return append(out, hx.B(shared))
	})
	return hx.Case{Stream: stream, ID: id, In: in, Impl: impl}
}

var c11SimpleAE = []string{"gzip", "br", "a", "b", "ab", "gz", "ip", "identity"}
var c11SimpleAuth = []string{"tok", "t", "ok", "Bearer", "s3cr3t"}
var c11SimpleOrigin = []string{"https://o1.test", "https://o2.test", "null", "o"}

func c11GenFields(g *hx.Gen) c11Fields {
	f := c11Fields{Method: "GET", Host: g.Pick(hx.Hosts)}
	if g.Chance(30) {
		f.Method = "HEAD"
	} else if g.Chance(8) {
		f.Method = g.Pick([]string{"PUT", "POST", "HEA", "HEADX"})
	}
	f.Path = "/" + g.Pick(hx.Segs)
	if g.Bool() {
		f.Path += "/" + g.Pick(hx.Segs)
	}
	if g.Chance(30) {
		f.Path += g.Pick([]string{"?x=1", "?x=2", "?", "?a=b&c=d"})
	}
	for i, n := 0, c11Count(g); i < n; i++ {
		f.AE = append(f.AE, g.Pick(c11SimpleAE))
	}
	for i, n := 0, c11Count(g); i < n && i < 2; i++ {
		f.Auth = append(f.Auth, g.Pick(c11SimpleAuth))
	}
	if g.Chance(35) {
		f.Origin = append(f.Origin, g.Pick(c11SimpleOrigin))
		if g.Chance(10) {
			f.Origin = append(f.Origin, g.Pick(c11SimpleOrigin))
		}
	}
	return f
}

func c11Concat(vs []string) string { return strings.Join(vs, "") }

// the text of the header part of the hashed string for these fields (sorted keys)
func (f c11Fields) headerText(withOrigin bool) string {
	s := ""
	if len(f.AE) > 0 {
		s += "Accept-Encoding" + c11Concat(f.AE)
	}
	if len(f.Auth) > 0 {
		s += "Authorization" + c11Concat(f.Auth)
	}
	if withOrigin && len(f.Origin) > 0 {
		s += "Origin" + c11Concat(f.Origin)
	}
	return s
}

// c11Shift derives from *a a second request whose key fields differ from a's only by where a
// boundary falls (k bytes moved across one adjacent-field boundary). It may first give *a the
// shape the shift needs (a method to split, an Origin to be present).
func c11Shift(g *hx.Gen, a *c11Fields) c11Fields {
	which := g.Intn(9)
	switch which {
	case 0:
		if a.Method == "GET" {
			a.Method = "HEAD"
		}
	case 6:
		if len(a.Origin) == 0 {
			a.Origin = []string{"https://o1.test"}
		}
	case 7:
		if len(a.Origin) == 0 {
			a.Origin = []string{"o"}
		}
	}
	b := *a
	b.AE = append([]string{}, a.AE...)
	b.Auth = append([]string{}, a.Auth...)
	b.Origin = append([]string{}, a.Origin...)
	switch which {
	case 0: // method | host: the last k bytes of the method move into the Host
		k := 1 + g.Intn(len(a.Method))
		b.Method = a.Method[:len(a.Method)-k]
		if b.Method == "" {
			b.Method = "GET" // keyed as ""
		}
		b.Host = a.Method[len(a.Method)-k:] + a.Host
	case 1: // host | path: the first path segment moves into the Host
		segs := strings.SplitN(strings.TrimPrefix(a.Path, "/"), "/", 2)
		if len(segs) == 2 {
			b.Host, b.Path = a.Host+"/"+segs[0], "/"+segs[1]
		} else {
			b.Host = a.Host + ":80"
		}
	case 2: // path | header name: every keyed header moves into the path
		b.Path = a.Path + a.headerText(false)
		b.AE, b.Auth = nil, nil
	case 3: // path | header name: only Accept-Encoding moves
		if len(a.AE) > 0 {
			b.Path = a.Path + "Accept-Encoding" + c11Concat(a.AE)
			b.AE = nil
		}
	case 4: // value | next header name
		if len(a.AE) > 0 && len(a.Auth) > 0 {
			b.AE[len(b.AE)-1] += "Authorization" + c11Concat(a.Auth)
			b.Auth = nil
		}
	case 5: // value | value: two lines vs one, or k bytes moved between adjacent lines
		if len(a.AE) >= 2 {
			if g.Bool() {
				b.AE = append([]string{a.AE[0] + a.AE[1]}, a.AE[2:]...)
			} else if len(a.AE[0]) > 1 {
				k := 1 + g.Intn(len(a.AE[0])-1)
				b.AE[0], b.AE[1] = a.AE[0][:k], a.AE[0][k:]+a.AE[1]
			}
		} else if len(a.AE) == 1 && len(a.AE[0]) > 1 {
			k := 1 + g.Intn(len(a.AE[0])-1)
			b.AE = []string{a.AE[0][:k], a.AE[0][k:]}
		} else if len(a.Auth) == 1 && len(a.Auth[0]) > 1 {
			k := 1 + g.Intn(len(a.Auth[0])-1)
			b.Auth = []string{a.Auth[0][:k], a.Auth[0][k:]}
		}
	case 6: // value | "opaqueOrigin": b has no Origin, its last field ends in the marker
		b.Origin = nil
		c11AppendLast(&b, "opaqueOrigin")
	case 7: // value | Origin header: b has no Origin, its last field ends in "Origin"+value
		b.Origin = nil
		c11AppendLast(&b, "Origin"+c11Concat(a.Origin))
	default: // Origin value | Origin value
		if len(a.Origin) == 1 && len(a.Origin[0]) > 1 {
			k := 1 + g.Intn(len(a.Origin[0])-1)
			b.Origin = []string{a.Origin[0][:k], a.Origin[0][k:]}
		}
	}
	return b
}

func c11AppendLast(b *c11Fields, s string) {
	switch {
	case len(b.Auth) > 0:
		b.Auth[len(b.Auth)-1] += s
	case len(b.AE) > 0:
		b.AE[len(b.AE)-1] += s
	default:
		b.Path += s
	}
}

// rule sets that map different client paths / destinations onto equal destination paths
func c11CollidingRules(g *hx.Gen) (rs []hx.RuleSpec, a, b c11Fields) {
	a = c11Fields{Method: "GET", Host: "h1.test", Path: "/a/same"}
	b = c11Fields{Method: "GET", Host: "h1.test", Path: "/b/same"}
	if g.Chance(30) {
		q := g.Pick([]string{"?x=1", "?", "?a=b&c=d"})
		a.Path += q
		b.Path += q
	}
	if g.Chance(30) {
		a.AE, b.AE = []string{"gzip"}, []string{"gzip"}
	}
	if g.Chance(20) {
		a.Origin, b.Origin = []string{"https://o1.test"}, []string{"https://o1.test"}
	}
	if g.Chance(15) {
		b.Method = "HEAD"
	}
	switch g.Intn(12) {
	case 0, 1: // destinations differ only in the authority (not keyed)
		rs = []hx.RuleSpec{c11Rule("/a/*", "http://d0.test/$1"), c11Rule("/b/*", "http://d1.test/$1")}
	case 2: // the same destination twice: sharing is legitimate
		rs = []hx.RuleSpec{c11Rule("/a/*", "http://d0.test/p/$1"), c11Rule("/b/*", "http://d0.test/p/$1")}
	case 3: // host-constrained rules do not re-match in OverrideOnRequest: the client path is keyed
		rs = []hx.RuleSpec{c11Rule("/a/*", "http://d0.test/$1"), c11Rule("/b/*", "http://d0.test/$1")}
		rs[0].Host, rs[1].Host = "h1.test", "h1.test"
	case 4: // scheme-constrained: same client path, different destination per scheme
		rs = []hx.RuleSpec{c11Rule("/a/*", "http://d0.test/$1"), c11Rule("/a/*", "http://d1.test/other/$1")}
		rs[0].Scheme, rs[1].Scheme = "http", "https"
		b.Path = a.Path
		b.Extra = [][2]string{{"X-Forwarded-Proto", "https"}}
	case 5: // a destination without $1 drops capture and query from the keyed URL
		rs = []hx.RuleSpec{c11Rule("/a/*", "http://d0.test/fixed")}
		a.Path, b.Path = "/a/x?v=1", "/a/y?v=2"
	case 6: // … the same with equal queries: one resource
		rs = []hx.RuleSpec{c11Rule("/a/*", "http://d0.test/fixed")}
		a.Path, b.Path = "/a/x?v=1", "/a/y?v=1"
	case 7: // same destinations, different caches: nothing is shared
		rs = []hx.RuleSpec{c11Rule("/a/*", "http://d0.test/$1"), c11Rule("/b/*", "http://d1.test/$1")}
		rs[1].Cache = "c2"
	case 8: // method-filtered rules
		rs = []hx.RuleSpec{c11Rule("/a/*", "http://d0.test/$1"), c11Rule("/a/*", "http://d1.test/$1")}
		rs[0].Methods, rs[1].Methods = []string{"GET"}, []string{"HEAD"}
		b.Path, b.Method = a.Path, "HEAD"
	case 9: // different prefixes folded onto one destination path
		rs = []hx.RuleSpec{c11Rule("/a/*", "http://d0.test/x/$1"), c11Rule("/b/x/*", "http://d0.test/x/$1")}
		b.Path = strings.Replace(a.Path, "/a/", "/b/x/", 1)
	case 10: // host-constrained on different hosts, different destinations, same client path
		rs = []hx.RuleSpec{c11Rule("/a/*", "http://d0.test/$1"), c11Rule("/a/*", "http://d1.test/$1")}
		rs[0].Host, rs[1].Host = "h1.test", "h2.test"
		b.Path, b.Host = a.Path, "h2.test"
	default: // the capture lands in the query position of the destination
		rs = []hx.RuleSpec{c11Rule("/a/*", "http://d0.test/p?u=$1"), c11Rule("/b/*", "http://d0.test/p?u=$1")}
	}
	return
}

func c11KeyPairStream(g *hx.Gen, id int) hx.Case {
	var rs []hx.RuleSpec
	var a, b c11Req
	switch x := g.Intn(20); {
	case x < 10: // boundary shifting under a catch-all rule (or a constrained one: client path keyed)
		rs = []hx.RuleSpec{c11Rule("/*", "http://d0.test/$1")}
		if g.Chance(20) {
			rs[0].Dest = "http://d0.test/pre/$1"
		}
		if g.Chance(15) {
			rs[0].Scheme = "http"
		}
		fa := c11GenFields(g)
		fb := c11Shift(g, &fa)
		a, b = fa.Req(), fb.Req()
	case x < 15:
		var fa, fb c11Fields
		rs, fa, fb = c11CollidingRules(g)
		a, b = fa.Req(), fb.Req()
	case x < 17: // controls: the same request twice / one field changed
		rs = []hx.RuleSpec{c11Rule("/*", "http://d0.test/$1")}
		fa := c11GenFields(g)
		fb := fa
		switch g.Intn(6) {
		case 0:
			fb.Host = "h2.test"
			if fa.Host == "h2.test" {
				fb.Host = "h3.test"
			}
		case 1:
			fb.Path = fa.Path + "z"
		case 2:
			fb.AE = append(append([]string{}, fa.AE...), "br")
		case 3:
			fb.Auth = []string{"other"}
		case 4:
			fb.Origin = []string{"https://o3.test"}
		}
		a, b = fa.Req(), fb.Req()
	default: // unrelated requests over generated rule sets
		n := 1 + g.Intn(3)
		for i := 0; i < n; i++ {
			r := hx.GenRule(g, i)
			r.Type, r.Enabled = nil, nil
			r.Dest = c11GenDest(g, i)
			r.Cache = "c1"
			rs = append(rs, r)
		}
		rs = append(rs, c11Rule("/*", "http://d9.test/$1"))
		a, b = c11GenReq(g), c11GenReq(g)
		if g.Bool() {
			b.Host, b.Lines = a.Host, a.Lines
		}
	}
	return c11PairCase("keypair", id, rs, a, b)
}

// ---------------------------------------------------------------- known-finding witnesses

type c11Pair struct {
	Rules []hx.RuleSpec
	A, B  c11Req
}

var c11CatchAll = []hx.RuleSpec{c11Rule("/*", "http://d0.test/$1")}

var c11WitnessA = []c11Pair{
	// `/xAccept-Encodinggzip` without Accept-Encoding  ≡  `/x` with `Accept-Encoding: gzip`
	{c11CatchAll, c11Req{Method: "GET", Target: "/xAccept-Encodinggzip", Host: "h1.test"},
		c11Req{Method: "GET", Target: "/x", Host: "h1.test", Lines: [][2]string{{"Accept-Encoding", "gzip"}}}},
	// GET with `Host: HEADh1.test`  ≡  HEAD with `Host: h1.test`
	{c11CatchAll, c11Req{Method: "GET", Target: "/x", Host: "HEADh1.test"},
		c11Req{Method: "HEAD", Target: "/x", Host: "h1.test"}},
	// two Accept-Encoding lines `a`, `b`  ≡  one line `ab`
	{c11CatchAll, c11Req{Method: "GET", Target: "/x", Host: "h1.test", Lines: [][2]string{{"Accept-Encoding", "a"}, {"Accept-Encoding", "b"}}},
		c11Req{Method: "GET", Target: "/x", Host: "h1.test", Lines: [][2]string{{"Accept-Encoding", "ab"}}}},
	// `Authorization: tok`  ≡  path ending in `Authorizationtok`
	{c11CatchAll, c11Req{Method: "GET", Target: "/x", Host: "h1.test", Lines: [][2]string{{"Authorization", "tok"}}},
		c11Req{Method: "GET", Target: "/xAuthorizationtok", Host: "h1.test"}},
	// request with an Origin (opaque-origin entry)  ≡  request without, path ending in `opaqueOrigin`
	{c11CatchAll, c11Req{Method: "GET", Target: "/x", Host: "h1.test", Lines: [][2]string{{"Origin", "https://o1.test"}}},
		c11Req{Method: "GET", Target: "/xopaqueOrigin", Host: "h1.test"}},
}

var c11WitnessB = []c11Pair{
	// destinations differ only in the authority
	{[]hx.RuleSpec{c11Rule("/a/*", "http://d0.test/$1"), c11Rule("/b/*", "http://d1.test/$1")},
		c11Req{Method: "GET", Target: "/a/same", Host: "h1.test"}, c11Req{Method: "GET", Target: "/b/same", Host: "h1.test"}},
	// scheme-constrained rules are not re-matched by OverrideOnRequest: the client path is keyed
	{[]hx.RuleSpec{{Path: "/a/*", Dest: "http://d0.test/$1", Cache: "c1", Scheme: "http"}, {Path: "/a/*", Dest: "http://d1.test/other/$1", Cache: "c1", Scheme: "https"}},
		c11Req{Method: "GET", Target: "/a/same", Host: "h1.test"},
		c11Req{Method: "GET", Target: "/a/same", Host: "h1.test", Lines: [][2]string{{"X-Forwarded-Proto", "https"}}}},
}

var c11WitnessC = []c11Pair{
	// a destination without $1: the client's query reaches the destination but not the key
	{[]hx.RuleSpec{c11Rule("/a/*", "http://d0.test/fixed")},
		c11Req{Method: "GET", Target: "/a/x?v=1", Host: "h1.test"}, c11Req{Method: "GET", Target: "/a/x?v=2", Host: "h1.test"}},
	// two exact patterns with a query, one destination: the query is sent on but not keyed
	{[]hx.RuleSpec{c11Rule("/p?x=1", "http://d0.test/fixed"), c11Rule("/p?x=2", "http://d0.test/fixed")},
		c11Req{Method: "GET", Target: "/p?x=1", Host: "h1.test"}, c11Req{Method: "GET", Target: "/p?x=2", Host: "h1.test"}},
}

func c11Witness(stream string, id int, table []c11Pair) hx.Case {
	w := table[id%len(table)]
	return c11PairCase(stream, id, w.Rules, w.A, w.B)
}
