package streams

// C09 — conditional requests and revalidation.
//
//	reval      util.RevalidateHeaders on arbitrary header maps
//	etag       util.AddETagSuffix / util.StripETagSuffix with ETAG_SUFFIX set/unset per case
//	allow      util.AllowHeaders / util.DenyHeaders on header maps with mixed-case raw keys
//	revalflow  fill -> (clock passes the lifetime) revalidation -> a further request, through the
//	           public path: server.ConfigureServeMux + caching.NewCacheWithOptions +
//	           proxy.NewRouterWithPerformer with an origin that answers conditional requests
//	           about its current representation (RFC 7232) and records what it was sent
//	kf.C09-*   fixed witness histories of the known findings (same runner as revalflow)

import (
	"bytes"
	"io"
	"io/ioutil"
	"net/http"
	"net/http/httptest"
	"os"
	"path/filepath"
	"sort"
	"strconv"
	"strings"
	"sync"
	"sync/atomic"
	"time"

	"github.com/pkg/xattr"

	"github.com/richiefi/rrrouter/caching"
	"github.com/richiefi/rrrouter/config"
	"github.com/richiefi/rrrouter/proxy"
	"github.com/richiefi/rrrouter/server"
	"github.com/richiefi/rrrouter/util"

	"rrverif/harness/hx"
)

func init() {
	register("reval", condRevalStream)
	register("etag", condEtagStream)
	register("allow", condAllowStream)
	register("revalflow", func(g *hx.Gen, id int) hx.Case { return runCondScenario("revalflow", id, genCondScenario(g)) })
	register("kf.C09-b", func(g *hx.Gen, id int) hx.Case { return runCondScenario("kf.C09-b", id, kfC09b[id%len(kfC09b)]) })
	register("kf.C09-c", func(g *hx.Gen, id int) hx.Case { return runCondScenario("kf.C09-c", id, kfC09c[id%len(kfC09c)]) })
	register("kf.C09-d", func(g *hx.Gen, id int) hx.Case { return runCondScenario("kf.C09-d", id, kfC09d[id%len(kfC09d)]) })
	register("kf.C09-e", func(g *hx.Gen, id int) hx.Case { return runCondScenario("kf.C09-e", id, kfC09e[id%len(kfC09e)]) })
}

// ---------------------------------------------------------------- tokens

// condHeaderTokens renders a header map: number of keys, then per key (sorted, raw spelling)
// the key, the number of values and the values. withEmpty keeps keys whose value slice is empty.
func condHeaderTokens(h http.Header, withEmpty bool, drop map[string]bool) []string {
	keys := make([]string, 0, len(h))
	for k, vs := range h {
		if (len(vs) == 0 && !withEmpty) || drop[k] {
			continue
		}
		keys = append(keys, k)
	}
	sort.Strings(keys)
	t := []string{hx.I(len(keys))}
	for _, k := range keys {
		t = append(t, hx.X(k), hx.I(len(h[k])))
		for _, v := range h[k] {
			t = append(t, hx.X(v))
		}
	}
	return t
}

func condSetSuffixEnv(sfx string) {
	if sfx == "" {
		os.Unsetenv("ETAG_SUFFIX")
	} else {
		os.Setenv("ETAG_SUFFIX", sfx)
	}
}

// ---------------------------------------------------------------- reval

// canonical spellings (what net/http produces) weigh most; the raw ones are what a Go map can hold
var condKeySpellings = []string{"If-None-Match", "If-None-Match", "Etag", "Etag", "Etag", "If-Modified-Since", "If-Modified-Since",
	"Last-Modified", "Last-Modified", "Last-Modified", "if-none-match", "If-none-match", "ETag", "etag",
	"if-modified-since", "last-modified", "Last-modified", "X-Other", "Range"}
var condValues = []string{"", "\"a\"", "W/\"a\"", "abc", "Mon, 01 Jan 2024 00:00:00 GMT", " ", "\"\"", "\"b\"", "Tue, 02 Jan 2024 00:00:00 GMT"}

func genCondRawHeader(g *hx.Gen, keys []string, maxKeys int) http.Header {
	h := http.Header{}
	n := 1 + g.Intn(maxKeys)
	if g.Chance(5) {
		n = 0
	}
	for i := 0; i < n; i++ {
		k := g.Pick(keys)
		switch g.Intn(12) {
		case 0:
			h[k] = []string{}
		case 1:
			h[k] = []string{"", g.Pick(condValues)}
		case 2:
			h[k] = []string{g.Pick(condValues), g.Pick(condValues)}
		default:
			h[k] = []string{g.Pick(condValues)}
		}
	}
	return h
}

func condRevalStream(g *hx.Gen, id int) hx.Case {
	h := genCondRawHeader(g, condKeySpellings, 5)
	impl := hx.Guard(func() []string {
		a, b, c := util.RevalidateHeaders(h)
		return []string{hx.X(a), hx.X(b), hx.X(c)}
	})
	return hx.Case{Stream: "reval", ID: id, In: condHeaderTokens(h, true, nil), Impl: impl}
}

// ---------------------------------------------------------------- etag

var condSuffixes = []string{"-sfx", "abc", ".v2", "x", "\"", "-a\"b"}
var condEtags = []string{"", "\"v1\"", "W/\"v1\"", "v1", "\"a\"b\"", "\"a\"b", "\"", "\"\"", "W/", "\"xabcx\"", "abc", "\"abc\"",
	"\"v1-sfx\"", "v1-sfx", "W/\"v1-sfx\"", "\"v1-sfx", "v1-sfx\"\"", "\"-sfx-sfx\"", "-sfx", "\"-sfx\"", "\"v1.v2\"", "x", "\"x\"", "xx\""}

func condEtagStream(g *hx.Gen, id int) hx.Case {
	sfx := ""
	if g.Chance(80) {
		sfx = g.Pick(condSuffixes)
		if g.Chance(10) {
			sfx = g.Str("ab-\"x", 3)
		}
	}
	var e string
	switch g.Intn(4) {
	case 0:
		e = g.Str("ab\"-sfxW/.v2", 8)
	case 1:
		e = g.Pick(condEtags) + sfx
	case 2:
		e = strings.TrimSuffix(g.Pick(condEtags), "\"") + sfx + "\""
	default:
		e = g.Pick(condEtags)
	}
	impl := hx.Guard(func() []string {
		condSetSuffixEnv(sfx)
		defer os.Unsetenv("ETAG_SUFFIX")
		a := util.AddETagSuffix(e)
		return []string{hx.X(a), hx.X(util.StripETagSuffix(e)), hx.X(util.StripETagSuffix(a)), hx.X(util.AddETagSuffix(a))}
	})
	return hx.Case{Stream: "etag", ID: id, In: []string{hx.X(sfx), hx.X(e)}, Impl: impl}
}

// ---------------------------------------------------------------- allow

var condAllowKeys = []string{"Cache-Control", "cache-control", "Cache-control", "Etag", "ETag", "etag", "Date", "date", "Vary",
	"X-Foo", "x-foo", "X-foo", "Content-Length", "content-length", "Richie-Edge-Cache", "richie-edge-cache", "Age", "Expires", "Last-Modified", "Content-Location"}

func condAllowStream(g *hx.Gen, id int) hx.Case {
	h := genCondRawHeader(g, condAllowKeys, 7)
	var list []string
	switch g.Intn(4) {
	case 0:
		list = util.HeadersAllowedIn304
	case 1:
		list = []string{caching.HeaderRrrouterCacheStatus}
	case 2:
		list = []string{"content-range"}
	default:
		n := g.Intn(4)
		for i := 0; i < n; i++ {
			list = append(list, strings.ToLower(g.Pick(condAllowKeys)))
		}
	}
	deny := g.Bool()
	in := []string{hx.B(deny)}
	in = append(in, condHeaderTokens(h, true, nil)...)
	in = append(in, hx.I(len(list)))
	for _, l := range list {
		in = append(in, hx.X(l))
	}
	impl := hx.Guard(func() []string {
		var out http.Header
		if deny {
			out = util.DenyHeaders(h, list)
		} else {
			out = util.AllowHeaders(h, list)
		}
		return condHeaderTokens(out, false, nil)
	})
	return hx.Case{Stream: "allow", ID: id, In: in, Impl: impl}
}

// ---------------------------------------------------------------- revalflow

type condRep struct{ Body, Etag, Lm string }

type condOrigin struct {
	Rep          condRep
	Err          int
	H200, H304   http.Header
	Dnc200, Dnc3 bool
}

type condClient struct {
	Inm, Ims, Range string
	RangeParsed     bool
}

type condScenario struct {
	Sfx        string
	A, B       condOrigin
	C1, C2, C3 condClient
}

func condOpaque(e string) string {
	if strings.HasPrefix(e, "W/") {
		return e[2:]
	}
	return e
}

// the origin: RFC 7232 evaluation of the request against the current representation
func (o *condOrigin) notModified(inm, ims string) bool {
	if inm != "" {
		return o.Rep.Etag != "" && condOpaque(inm) == condOpaque(o.Rep.Etag)
	}
	return ims != "" && o.Rep.Lm != "" && ims == o.Rep.Lm
}

type condContact struct{ Inm, Ims, Range string }

type condPerformer struct {
	mu       sync.Mutex
	origin   *condOrigin
	contacts []condContact
}

func (p *condPerformer) CloseIdleConnections() {}
func (p *condPerformer) Do(req *http.Request) (*http.Response, error) {
	p.mu.Lock()
	defer p.mu.Unlock()
	c := condContact{req.Header.Get("If-None-Match"), req.Header.Get("If-Modified-Since"), req.Header.Get("Range")}
	p.contacts = append(p.contacts, c)
	o := p.origin
	status, h, body := 200, o.H200, o.Rep.Body
	if o.Err != 0 {
		status, h, body = o.Err, http.Header{}, ""
	} else if o.notModified(c.Inm, c.Ims) {
		status, h, body = 304, o.H304, ""
	}
	return &http.Response{
		Status: strconv.Itoa(status) + " " + http.StatusText(status), StatusCode: status,
		Proto: "HTTP/1.1", ProtoMajor: 1, ProtoMinor: 1, Header: h.Clone(), Request: req,
		ContentLength: int64(len(body)), Body: ioutil.NopCloser(bytes.NewReader([]byte(body))),
	}, nil
}
func (p *condPerformer) set(o *condOrigin) {
	p.mu.Lock()
	p.origin = o
	p.mu.Unlock()
}
func (p *condPerformer) take() []condContact {
	p.mu.Lock()
	defer p.mu.Unlock()
	c := p.contacts
	p.contacts = nil
	return c
}

type condWorld struct {
	dir    string
	now    int64
	perf   *condPerformer
	router proxy.Router
	mux    *http.ServeMux
}

var (
	condOnce sync.Once
	condW    *condWorld
)

// one cache per process; its directory is removed again after every case (the writer re-creates
// the directories it needs), so nothing is left behind when the process ends.
func getCondWorld() *condWorld {
	condOnce.Do(func() {
		os.Setenv("ATIME_DISABLE", "true")
		dir, err := ioutil.TempDir("", "rrverif-c09-")
		if err != nil {
			panic(err)
		}
		w := &condWorld{dir: dir, perf: &condPerformer{}}
		atomic.StoreInt64(&w.now, time.Now().Unix())
		cache := caching.NewCacheWithOptions([]caching.StorageConfiguration{{Id: "c1", Path: dir, Size: 1 << 40}}, Logger,
			func() time.Time { return time.Unix(atomic.LoadInt64(&w.now), 0) })
		// the storage's size limiter scans the directory once at start and panics if a directory vanishes
		// under it; the cases below remove what they created
		rngWaitLimiterIdle()
		rules, err := proxy.ParseRules([]byte(`{"rules":[{"path":"/*","destination":"http://o.test/$1","cache":"c1"}]}`), Logger)
		if err != nil {
			panic(err)
		}
		conf := &config.Config{RetryTimes: []int{}}
		w.router = proxy.NewRouterWithPerformer(rules, Logger, conf, w.perf)
		w.mux = http.NewServeMux()
		server.ConfigureServeMux(w.mux, conf, w.router, Logger, cache)
		condW = w
	})
	return condW
}

// condRecorder: httptest.ResponseRecorder plus io.ReaderFrom, which the real net/http writer
// has and server.sendBody relies on.
type condRecorder struct{ *httptest.ResponseRecorder }

func (r condRecorder) ReadFrom(src io.Reader) (int64, error) {
	return io.Copy(struct{ io.Writer }{r.ResponseRecorder}, src)
}

func (w *condWorld) request(path string, c condClient) (*http.Request, *http.Response, []byte) {
	req := httptest.NewRequest("GET", "http://edge.test"+path, nil)
	if c.Inm != "" {
		req.Header.Set("If-None-Match", c.Inm)
	}
	if c.Ims != "" {
		req.Header.Set("If-Modified-Since", c.Ims)
	}
	if c.Range != "" {
		req.Header.Set("Range", c.Range)
	}
	rec := condRecorder{httptest.NewRecorder()}
	w.mux.ServeHTTP(rec, req)
	res := rec.Result()
	body, _ := ioutil.ReadAll(res.Body)
	return req, res, body
}

// quiescent waits (bounded) until the entry file of the request's key is either absent or
// published (metadata xattr present, no temporary file); returns the xattr bytes.
func (w *condWorld) quiescent(req *http.Request) (string, bool) {
	rf := w.router.GetRoutingFlavors(req)
	if rf.Rule == nil {
		return "", false
	}
	keys := caching.KeysFromRequest(server.VerifRuleDestinationRequest(req, *rf.Rule))
	p := filepath.Join(w.dir, keys[0].FsName())
	deadline := time.Now().Add(10 * time.Second)
	for {
		_, terr := os.Stat(p + ".tmp")
		_, ferr := os.Stat(p)
		if os.IsNotExist(terr) {
			if os.IsNotExist(ferr) {
				return "", true
			}
			if ferr == nil {
				if b, err := xattr.Get(p, "user.rrrouter"); err == nil && len(b) > 0 {
					return string(b), true
				}
			}
		}
		if time.Now().After(deadline) {
			return "", false
		}
		time.Sleep(2 * time.Millisecond)
	}
}

func condScenarioTokens(sc condScenario) []string {
	t := []string{hx.X(sc.Sfx)}
	for _, o := range []condOrigin{sc.A, sc.B} {
		t = append(t, hx.X(o.Rep.Body), hx.X(o.Rep.Etag), hx.X(o.Rep.Lm), hx.I(o.Err))
		t = append(t, condHeaderTokens(o.H200, true, nil)...)
		t = append(t, condHeaderTokens(o.H304, true, nil)...)
		t = append(t, hx.B(o.Dnc200), hx.B(o.Dnc3))
	}
	for _, c := range []condClient{sc.C1, sc.C2, sc.C3} {
		t = append(t, hx.X(c.Inm), hx.X(c.Ims), hx.X(c.Range), hx.B(c.RangeParsed))
	}
	return t
}

var condDropAge = map[string]bool{"Age": true}

// finish fills in the fields derived by the real code: DoNotCache of each header set, and
// whether getRange parses the Range value.
func (sc *condScenario) finish() {
	for _, o := range []*condOrigin{&sc.A, &sc.B} {
		o.Dnc200 = caching.GetCacheControlDirectives(o.H200).DoNotCache()
		o.Dnc3 = caching.GetCacheControlDirectives(o.H304).DoNotCache()
	}
	for _, c := range []*condClient{&sc.C1, &sc.C2, &sc.C3} {
		c.RangeParsed = c.Range != "" && server.VerifGetRange(http.Header{"Range": []string{c.Range}}) != nil
	}
}

func runCondScenario(stream string, id int, sc condScenario) hx.Case {
	condSetSuffixEnv(sc.Sfx)
	defer os.Unsetenv("ETAG_SUFFIX")
	sc.finish()
	in := condScenarioTokens(sc)
	impl := hx.Guard(func() []string {
		w := getCondWorld()
		defer os.RemoveAll(w.dir)
		path := "/r/" + strings.Replace(stream, ".", "_", -1) + "-" + strconv.Itoa(id)
		base := time.Now().Unix()
		atomic.StoreInt64(&w.now, base)
		out := []string{}
		steps := []struct {
			o *condOrigin
			c condClient
		}{{&sc.A, sc.C1}, {&sc.B, sc.C2}, {&sc.B, sc.C3}}
		unrecorded := false
		for i, st := range steps {
			if i == 1 {
				atomic.StoreInt64(&w.now, base+1000)
			}
			if unrecorded {
				out = append(out, "R")
				continue
			}
			w.perf.set(st.o)
			w.perf.take()
			req, res, body := w.request(path, st.c)
			if _, ok := w.quiescent(req); !ok {
				return []string{"unsync"}
			}
			cs := w.perf.take()
			out = append(out, hx.I(len(cs)))
			for _, c := range cs {
				out = append(out, hx.X(c.Inm), hx.X(c.Ims), hx.X(c.Range))
			}
			if st.c.RangeParsed {
				// a parsed Range: the client's view and the stored headers are C15's business
				out = append(out, "R")
				unrecorded = true
				continue
			}
			out = append(out, "V", hx.I(res.StatusCode))
			out = append(out, condHeaderTokens(res.Header, false, condDropAge)...)
			out = append(out, hx.X(string(body)))
		}
		return out
	})
	return hx.Case{Stream: stream, ID: id, In: in, Impl: impl}
}

// ---- generator

var condLms = []string{"Mon, 01 Jan 2024 00:00:00 GMT", "Tue, 02 Jan 2024 00:00:00 GMT", "Wed, 03 Jan 2024 10:20:30 GMT"}
var condFlowSuffixes = []string{"-sfx", "abc", ".v2"}
var condFlowTags = []string{"\"v1\"", "W/\"v1\"", "v1", "\"a\"b\"", "\"xabcx\"", "\"v2\"", "W/\"v2\"", "tag2", "\"t-3\""}

func condGenEtag(g *hx.Gen, sfx string) string {
	if g.Chance(20) {
		return ""
	}
	for {
		e := g.Pick(condFlowTags)
		// an origin ETag that already ends in the token is outside the suffix laws' hypothesis
		if sfx == "" || !strings.HasSuffix(strings.TrimRight(e, "\""), sfx) {
			return e
		}
	}
}

func condGenRep(g *hx.Gen, sfx string, n int) condRep {
	r := condRep{Body: "body-" + strconv.Itoa(n) + "-" + g.Str("xyz", 3), Etag: condGenEtag(g, sfx)}
	if g.Chance(60) {
		r.Lm = g.Pick(condLms)
	}
	return r
}

func condBaseHeader(r condRep) http.Header {
	h := http.Header{}
	if r.Etag != "" {
		h.Set("ETag", r.Etag)
	}
	if r.Lm != "" {
		h.Set("Last-Modified", r.Lm)
	}
	return h
}

func condExtras(g *hx.Gen, h http.Header, second bool) {
	if g.Chance(50) {
		h.Set("X-A", g.Pick([]string{"1", "2"}))
	}
	if g.Chance(30) {
		h.Set("Content-Type", g.Pick([]string{"text/plain", "application/json"}))
	}
	if g.Chance(20) {
		h.Set("Date", "Thu, 04 Jan 2024 00:00:00 GMT")
	}
	if g.Chance(10) {
		h.Set("Content-Location", "/elsewhere")
	}
	if g.Chance(15) { // a header whose (first) value is empty is not replaced by the 304 merge
		h["X-E"] = []string{g.Pick([]string{"", "", "e"})}
		if second {
			h["X-E"] = []string{g.Pick([]string{"", "e", "e2"})}
		}
	}
	if second && g.Chance(25) {
		h.Set("X-New", "n")
	}
	if second && g.Chance(10) {
		h["X-M"] = []string{"m1", "m2"}
	}
}

// condServed: the ETag as a client of this cache has seen it
func condServed(e string) string {
	if e == "" {
		return ""
	}
	return util.AddETagSuffix(e)
}

func condGenClient(g *hx.Gen, sc *condScenario, allowRange bool) condClient {
	c := condClient{}
	if g.Chance(40) {
		return c
	}
	switch g.Intn(7) {
	case 0:
		c.Inm = condServed(sc.A.Rep.Etag)
	case 1:
		c.Inm = condServed(sc.B.Rep.Etag)
	case 2:
		c.Inm = condServed("\"old\"")
	case 3:
		c.Inm = sc.A.Rep.Etag // without the suffix
	case 4:
		c.Inm = sc.B.Rep.Etag
	case 5:
		c.Inm = condServed(g.Pick(condFlowTags))
	}
	switch g.Intn(6) {
	case 0:
		c.Ims = sc.A.Rep.Lm
	case 1:
		c.Ims = sc.B.Rep.Lm
	case 2:
		c.Ims = g.Pick(condLms)
	}
	if allowRange && g.Chance(15) {
		c.Range = g.Pick([]string{"bytes=0-1", "bytes=2-", "bytes=-3", "bytes=0-1,3-4", "lines=1-2"})
	}
	return c
}

func genCondScenario(g *hx.Gen) condScenario {
	sc := condScenario{}
	if g.Chance(50) {
		sc.Sfx = g.Pick(condFlowSuffixes)
	}
	condSetSuffixEnv(sc.Sfx) // condServed below uses the real AddETagSuffix
	defer os.Unsetenv("ETAG_SUFFIX")
	sc.A.Rep = condGenRep(g, sc.Sfx, 1)
	sc.A.H200 = condBaseHeader(sc.A.Rep)
	sc.A.H200.Set("Cache-Control", "max-age=1")
	condExtras(g, sc.A.H200, false)
	if g.Chance(4) { // class C09-d: a response header named like the request-side conditional header
		if g.Bool() {
			sc.A.H200.Set("If-None-Match", g.Pick(condFlowTags))
		} else {
			sc.A.H200.Set("If-Modified-Since", g.Pick(condLms))
		}
	}
	sc.A.H304 = http.Header{}

	if g.Chance(40) {
		// a new representation: an origin never re-uses a validator for different content
		for {
			sc.B.Rep = condGenRep(g, sc.Sfx, 2)
			a, b := sc.A.Rep, sc.B.Rep
			if !(a.Etag != "" && b.Etag != "" && condOpaque(a.Etag) == condOpaque(b.Etag)) && !(a.Lm != "" && a.Lm == b.Lm) {
				break
			}
		}
	} else {
		sc.B.Rep = sc.A.Rep
	}
	if g.Chance(6) {
		sc.B.Err = []int{500, 503}[g.Intn(2)]
	}
	sc.B.H200 = condBaseHeader(sc.B.Rep)
	switch g.Intn(8) {
	case 0:
	case 1:
		sc.B.H200.Set("Cache-Control", "no-store")
	case 2:
		sc.B.H200.Set("Cache-Control", "private, max-age=100000")
	default:
		sc.B.H200.Set("Cache-Control", "max-age=100000")
	}
	condExtras(g, sc.B.H200, true)
	h := http.Header{}
	if g.Chance(70) && sc.B.Rep.Etag != "" {
		h.Set("ETag", sc.B.Rep.Etag)
	}
	if g.Chance(50) && sc.B.Rep.Lm != "" {
		h.Set("Last-Modified", sc.B.Rep.Lm)
	}
	switch g.Intn(32) {
	case 0, 1, 2, 3, 12, 13, 14, 15, 16, 17, 18, 19, 20, 21, 22, 23:
	case 4:
		h.Set("Cache-Control", "no-store")
	case 5:
		h.Set("Cache-Control", "private")
	case 6:
		h.Set("Cache-Control", "max-age=0")
	case 7:
		h.Set("Cache-Control", "no-cache")
	case 8:
		h.Set("Cache-Control", "public, s-maxage=0")
	case 9:
		h.Set("Cache-Control", "public, max-age=100000")
	default:
		h.Set("Cache-Control", "max-age=100000")
	}
	condExtras(g, h, true)
	if g.Chance(20) {
		h.Set("Content-Length", g.Pick([]string{"0", "0", "5"}))
	}
	sc.B.H304 = h

	sc.C1 = condGenClient(g, &sc, false)
	if g.Chance(60) {
		sc.C1 = condClient{}
	}
	sc.C2 = condGenClient(g, &sc, true)
	sc.C3 = condGenClient(g, &sc, false)
	if g.Chance(50) {
		sc.C3 = condClient{}
	}
	return sc
}

// ---- known-finding witnesses

func condH(kv ...string) http.Header {
	h := http.Header{}
	for i := 0; i+1 < len(kv); i += 2 {
		h.Set(kv[i], kv[i+1])
	}
	return h
}

const condLm1 = "Mon, 01 Jan 2024 00:00:00 GMT"
const condLm2 = "Tue, 02 Jan 2024 00:00:00 GMT"

// C09-b: the revalidation is answered 304 + no-store/private/max-age=0; the origin's 304 is
// handed to a client that sent no validator (0,1,2) or a validator of another version (3).
var kfC09b = func() []condScenario {
	mk := func(cc string, c2 condClient, sfx string) condScenario {
		rep := condRep{"the-body", "\"v1\"", condLm1}
		a := condOrigin{Rep: rep, H200: condH("ETag", rep.Etag, "Last-Modified", rep.Lm, "Cache-Control", "max-age=1")}
		b := condOrigin{Rep: rep, H200: condH("ETag", rep.Etag, "Cache-Control", "max-age=100000"),
			H304: condH("ETag", rep.Etag, "Cache-Control", cc)}
		a.H304 = http.Header{}
		return condScenario{Sfx: sfx, A: a, B: b, C2: c2}
	}
	return []condScenario{
		mk("no-store", condClient{}, ""),
		mk("private", condClient{}, "-sfx"),
		mk("max-age=0", condClient{}, ""),
		mk("no-store", condClient{Inm: "\"v0\""}, ""),
	}
}()

// C09-c: the entry has only Last-Modified, the client revalidates its own copy of the NEW
// version by ETag: both validators go out, the origin's 304 answers the client's tag, the cache
// takes it as vouching for its old body and serves that to the next client.
var kfC09c = func() []condScenario {
	mk := func(sfx string) condScenario {
		r1 := condRep{"old-body", "", condLm1}
		r2 := condRep{"new-body", "\"n2\"", condLm2}
		a := condOrigin{Rep: r1, H200: condH("Last-Modified", r1.Lm, "Cache-Control", "max-age=1"), H304: http.Header{}}
		b := condOrigin{Rep: r2, H200: condH("ETag", r2.Etag, "Last-Modified", r2.Lm, "Cache-Control", "max-age=100000"),
			H304: condH("ETag", r2.Etag)}
		return condScenario{Sfx: sfx, A: a, B: b, C2: condClient{Inm: r2.Etag}}
	}
	return []condScenario{mk(""), func() condScenario { s := mk(""); s.B.H304 = http.Header{}; return s }()}
}()

// C09-d: the stored response carries a header literally named If-None-Match; its value is sent
// instead of the stored ETag, the origin's 304 answers that value.
var kfC09d = func() []condScenario {
	r1 := condRep{"old-body", "\"v1\"", ""}
	r2 := condRep{"new-body", "\"v2\"", ""}
	a := condOrigin{Rep: r1, H200: condH("ETag", r1.Etag, "If-None-Match", "\"v2\"", "Cache-Control", "max-age=1"), H304: http.Header{}}
	b := condOrigin{Rep: r2, H200: condH("ETag", r2.Etag, "Cache-Control", "max-age=100000"), H304: http.Header{}}
	return []condScenario{{A: a, B: b}}
}()

// C09-e: the revalidation is answered 5xx: the client gets the 5xx status with the old cached
// body, the entry is marked revalidated and the next client is served from it without any
// origin contact.
var kfC09e = func() []condScenario {
	mk := func(status int, r2 condRep) condScenario {
		r1 := condRep{"old-body", "\"v1\"", condLm1}
		a := condOrigin{Rep: r1, H200: condH("ETag", r1.Etag, "Last-Modified", r1.Lm, "Cache-Control", "max-age=1"), H304: http.Header{}}
		b := condOrigin{Rep: r2, Err: status, H200: condH("ETag", r2.Etag, "Cache-Control", "max-age=100000"), H304: http.Header{}}
		return condScenario{A: a, B: b}
	}
	return []condScenario{mk(503, condRep{"old-body", "\"v1\"", condLm1}), mk(500, condRep{"new-body", "\"v2\"", condLm2})}
}()
