package streams

import (
	"bytes"
	"encoding/hex"
	"io/ioutil"
	"net"
	"net/http"
	"net/http/httptest"
	"os"
	"strconv"
	"strings"
	"sync"
	"sync/atomic"
	"time"

	"github.com/richiefi/rrrouter/caching"
	"github.com/richiefi/rrrouter/config"
	"github.com/richiefi/rrrouter/proxy"
	"github.com/richiefi/rrrouter/server"
	"github.com/richiefi/rrrouter/verifhook"

	"rrverif/harness/hx"
	"rrverif/harness/sysx"
)

// sysk: C11 at system level. Histories of client requests that are variants of one base request
// (they differ in one or two key fields) against the real server + disk cache + coalescing, some of
// them OVERLAPPED (the second request is issued while the origin still holds the first one's
// answer). The scripted origin echoes what it was asked (destination host, request-target, method,
// Accept-Encoding, Authorization, Origin) in a header and in the body, so every client response
// says which request it was generated for. The Lean driver predicts every response with a
// reference keyed cache (RrModel/KeySys.lean) and applies the "generated-for" oracle
// (RrModel/Spec/C11Sys.lean) to what the implementation returned.
//
// Determinism of the overlapped part: nothing is timed. The origin holds the first request's
// answer; the second request is observed until it has completed or has been parked as a
// coalescing waiter (hook point srv.wait: its wait channel is registered by then); only then the
// first answer is released. A woken waiter that goes to the origin itself is held there until the
// first request has completed. After every step the cache's notifier goroutine is drained by a
// barrier message (cache.Finish of a reserved key: the notifier handles messages one at a time).
func init() {
	register("sysk", skStream)
}

var skMu sync.Mutex

const skTimeout = 25 * time.Second

// ---------------------------------------------------------------- the world of this stream

type skHandlerBox struct{ h http.Handler }

type skWorld struct {
	cache   caching.Cache
	now     int64
	srv     *httptest.Server
	handler atomic.Value
	org     *skOrigin
	parked  chan string
	barrier caching.Key
}

var (
	skWorldOnce sync.Once
	skTheWorld  *skWorld
)

func skGetWorld() *skWorld {
	skWorldOnce.Do(func() {
		os.Setenv("ATIME_DISABLE", "true")
		dir, err := ioutil.TempDir("", "rrverif-sysk-")
		if err != nil {
			panic(err)
		}
		w := &skWorld{org: &skOrigin{holds: map[int]chan struct{}{}}, parked: make(chan string, 16)}
		atomic.StoreInt64(&w.now, 1700000000)
		w.cache = caching.NewCacheWithOptions([]caching.StorageConfiguration{
			{Id: "c1", Path: dir + "/c1", Size: 1 << 40},
			{Id: "c2", Path: dir + "/c2", Size: 1 << 40},
		}, sysx.Logger, func() time.Time { return time.Unix(atomic.LoadInt64(&w.now), 0) })
		w.handler.Store(skHandlerBox{http.NotFoundHandler()})
		w.srv = httptest.NewUnstartedServer(http.HandlerFunc(func(rw http.ResponseWriter, r *http.Request) {
			w.handler.Load().(skHandlerBox).h.ServeHTTP(rw, r)
		}))
		w.srv.Config.ErrorLog = nil
		w.srv.Start()
		br, _ := http.NewRequest("GET", "http://sk-barrier.invalid/barrier", nil)
		w.barrier = caching.KeysFromRequest(br)[0]
		skTheWorld = w
	})
	return skTheWorld
}

func (w *skWorld) configure(rules *proxy.Rules) {
	conf := &config.Config{RetryTimes: []int{}}
	router := proxy.NewRouterWithPerformer(rules, sysx.Logger, conf, w.org)
	mux := http.NewServeMux()
	server.ConfigureServeMux(mux, conf, router, sysx.Logger, w.cache)
	w.handler.Store(skHandlerBox{mux})
}

// sync: every notification sent so far has been handled completely when this returns (the
// notifier receives the barrier message only after it is done with the previous one).
func (w *skWorld) sync() { w.cache.Finish(w.barrier, sysx.Logger) }

func (w *skWorld) do(r skReq, idx int) sysx.ClientView {
	conn, err := net.DialTimeout("tcp", w.srv.Listener.Addr().String(), 5*time.Second)
	if err != nil {
		return sysx.ClientView{Framing: "noresponse"}
	}
	defer conn.Close()
	conn.SetDeadline(time.Now().Add(2*skTimeout + 10*time.Second))
	if _, err := conn.Write(r.raw(idx)); err != nil {
		return sysx.ClientView{Framing: "noresponse"}
	}
	all, _ := ioutil.ReadAll(conn)
	return sysx.ParseResponse(all, r.Method == "HEAD")
}

// ---------------------------------------------------------------- the echoing origin

type skOrigin struct {
	mu       sync.Mutex
	contacts []int // request index of every contact
	holds    map[int]chan struct{}
	arrived  chan int
	stalled  bool
}

func (o *skOrigin) CloseIdleConnections() {}

func (o *skOrigin) reset() {
	o.mu.Lock()
	o.contacts = nil
	o.holds = map[int]chan struct{}{}
	o.arrived = make(chan int, 64)
	o.stalled = false
	o.mu.Unlock()
}

func (o *skOrigin) hold(idx int) chan struct{} {
	ch := make(chan struct{})
	o.mu.Lock()
	o.holds[idx] = ch
	o.mu.Unlock()
	return ch
}

func (o *skOrigin) unhold(idx int) {
	o.mu.Lock()
	delete(o.holds, idx)
	o.mu.Unlock()
}

func (o *skOrigin) count(idx int) int {
	o.mu.Lock()
	defer o.mu.Unlock()
	n := 0
	for _, c := range o.contacts {
		if c == idx {
			n++
		}
	}
	return n
}

func skHexList(tag string, vs []string) string {
	s := "." + tag + strconv.Itoa(len(vs))
	for _, v := range vs {
		s += "." + hex.EncodeToString([]byte(v))
	}
	return s
}

// skEchoOf: the canonical rendering of what the origin was asked
func skEchoOf(req *http.Request) string {
	p := req.URL.EscapedPath()
	if p == "" {
		p = "/"
	}
	uri := p
	if req.URL.RawQuery != "" || req.URL.ForceQuery {
		uri += "?" + req.URL.RawQuery
	}
	return "sk." + hex.EncodeToString([]byte(req.URL.Host)) + "." + hex.EncodeToString([]byte(uri)) + "." + hex.EncodeToString([]byte(req.Method)) +
		skHexList("a", req.Header.Values("Accept-Encoding")) + skHexList("u", req.Header.Values("Authorization")) + skHexList("o", req.Header.Values("Origin"))
}

func skURIOfEcho(echo string) string {
	f := strings.Split(echo, ".")
	if len(f) < 3 {
		return ""
	}
	b, _ := hex.DecodeString(f[2])
	return string(b)
}

// the origin's Vary and Cache-Control are functions of the request-target it is asked for
func skVaryOf(uri string) string {
	switch {
	case strings.Contains(uri, "va"):
		return "Accept-Encoding, Origin"
	case strings.Contains(uri, "vo"):
		return "Origin"
	case strings.Contains(uri, "vx"):
		return "Accept-Encoding"
	}
	return ""
}

func skCCOf(uri string) string {
	switch {
	case strings.Contains(uri, "ns"):
		return "no-store"
	case strings.Contains(uri, "nc"):
		return ""
	case strings.Contains(uri, "ml"):
		return "public, max-age=600"
	}
	return "max-age=60"
}

func (o *skOrigin) Do(req *http.Request) (*http.Response, error) {
	idx, _ := strconv.Atoi(req.Header.Get("X-Sk-Req"))
	echo := skEchoOf(req)
	o.mu.Lock()
	o.contacts = append(o.contacts, idx)
	hold := o.holds[idx]
	arrived := o.arrived
	o.mu.Unlock()
	if arrived != nil {
		select {
		case arrived <- idx:
		default:
		}
	}
	if hold != nil {
		select {
		case <-hold:
		case <-time.After(skTimeout):
			o.mu.Lock()
			o.stalled = true
			o.mu.Unlock()
		}
	}
	uri := skURIOfEcho(echo)
	body := []byte("body-for:" + echo)
	h := http.Header{}
	h.Set("Content-Type", "text/plain")
	if cc := skCCOf(uri); cc != "" {
		h.Set("Cache-Control", cc)
	}
	if v := skVaryOf(uri); v != "" {
		h.Set("Vary", v)
	}
	if strings.Contains(uri, "etg") {
		// stream condpair (C09): a resource with an entity tag
		h.Set("ETag", "\"e1\"")
	}
	h.Set("X-Sk-Echo", echo)
	h.Set("Content-Length", strconv.Itoa(len(body)))
	resp := &http.Response{Status: "200 OK", StatusCode: 200, Proto: "HTTP/1.1", ProtoMajor: 1, ProtoMinor: 1,
		Header: h, Request: req, ContentLength: int64(len(body))}
	if req.Method == "HEAD" {
		resp.Body = http.NoBody
	} else {
		resp.Body = ioutil.NopCloser(bytes.NewReader(body))
	}
	return resp, nil
}

// ---------------------------------------------------------------- requests, steps

type skReq struct {
	Method, Host, Target string
	Hdr                  [][2]string
}

func (r skReq) raw(idx int) []byte {
	var b bytes.Buffer
	b.WriteString(r.Method + " " + r.Target + " HTTP/1.1\r\nHost: " + r.Host + "\r\nConnection: close\r\nX-Sk-Req: " + strconv.Itoa(idx) + "\r\n")
	for _, kv := range r.Hdr {
		b.WriteString(kv[0] + ": " + kv[1] + "\r\n")
	}
	b.WriteString("\r\n")
	return b.Bytes()
}

func (r skReq) tokens() []string {
	t := []string{hx.X(r.Method), hx.X(r.Host), hx.X(r.Target), hx.I(len(r.Hdr))}
	for _, kv := range r.Hdr {
		t = append(t, hx.X(kv[0]), hx.X(kv[1]))
	}
	return t
}

type skStep struct {
	kind byte // 'T' tick, 'R' one request, 'P' overlapped pair
	dt   int
	a, b skReq
}

// skFields: a request by key field
type skFields struct {
	method string
	host   string // h | g | HEADh  (+ case id + ".test")
	prefix string // client path prefix (selects the rule)
	seg    string
	query  string
	ae     []string
	auth   string
	origin []string // nil: no Origin line
}

func (f skFields) req(id int) skReq {
	r := skReq{Method: f.method, Host: f.host + strconv.Itoa(id) + ".test", Target: "/" + f.prefix + "/" + f.seg}
	if f.query != "" {
		r.Target += "?" + f.query
	}
	for _, v := range f.ae {
		r.Hdr = append(r.Hdr, [2]string{"Accept-Encoding", v})
	}
	if f.auth != "" {
		r.Hdr = append(r.Hdr, [2]string{"Authorization", f.auth})
	}
	for _, v := range f.origin {
		r.Hdr = append(r.Hdr, [2]string{"Origin", v})
	}
	return r
}

const skOriginA = "https://a.example"
const skOriginB = "https://b.example"

var skSegs = []string{"vo", "vo", "vo", "va", "x", "x", "vx", "ns", "nc", "ml", "vo-ml"}
var skTails = []string{"2", "Accept-Encodinggzip", "opaqueOrigin", "Accept-Encodinggzipbr"}
var skQueries = []string{"", "", "v=1", "v=2", "vo=1", "ns=1"}
var skAEs = [][]string{nil, nil, {"gzip"}, {"br"}, {"gzip", "br"}, {"gzipbr"}, {"gzip, br"}}
var skAuths = []string{"", "", "", "tok", "tok2"}
var skOrigins = [][]string{nil, nil, {skOriginA}, {skOriginA}, {skOriginB}, {skOriginB}, {""}}

// skRuleSets: cache-enabled rule sets; the prefixes a request may use. Destination hosts d0/d1/d2.
func skRuleSet(g *hx.Gen, id int) ([]hx.RuleSpec, []string) {
	mk := func(path, dest, cache string) hx.RuleSpec { return hx.RuleSpec{Path: path, Dest: dest, Cache: cache} }
	host := "h" + strconv.Itoa(id) + ".test"
	switch g.Intn(13) {
	case 12:
		// the host-constrained rule first, a catch-all for the other hosts behind it
		r0 := mk("/a/*", "http://d0.test/$1", "c1")
		r0.Host = host
		return []hx.RuleSpec{r0, mk("/a/*", "http://d2.test/$1", "c1"), mk("/b/*", "http://d1.test/a/$1", "c1")}, []string{"a", "b"}
	case 0, 1, 2:
		return []hx.RuleSpec{mk("/a/*", "http://d0.test/$1", "c1")}, []string{"a"}
	case 3, 4:
		// different client paths AND different destination hosts onto equal destination paths (C11-b)
		return []hx.RuleSpec{mk("/a/*", "http://d0.test/$1", "c1"), mk("/b/*", "http://d1.test/$1", "c1")}, []string{"a", "b"}
	case 5:
		// control: two client paths onto ONE destination URL (sharing is legitimate)
		return []hx.RuleSpec{mk("/a/*", "http://d0.test/$1", "c1"), mk("/b/*", "http://d0.test/$1", "c1")}, []string{"a", "b"}
	case 6, 7:
		// destination without $1: the client's query reaches the destination but is not keyed (C11-c)
		return []hx.RuleSpec{mk("/a/*", "http://d0.test/"+g.Pick([]string{"fixed", "vofixed", "vafixed"}), "c1")}, []string{"a"}
	case 8:
		// equal destination paths in different cache storages (one lock table)
		return []hx.RuleSpec{mk("/a/*", "http://d0.test/$1", "c1"), mk("/b/*", "http://d1.test/$1", "c2")}, []string{"a", "b"}
	case 9:
		// a host-constrained rule keys the CLIENT path; an unconstrained rule maps another client path onto it (C11-b)
		r0 := mk("/a/*", "http://d0.test/p/$1", "c1")
		r0.Host = host
		return []hx.RuleSpec{r0, mk("/b/*", "http://d1.test/a/$1", "c1")}, []string{"a", "b"}
	case 10:
		return []hx.RuleSpec{mk("/a/*", "http://d0.test/$1", "c1"), mk("/b/*", "http://d1.test/$1", "c1"), mk("/c/*", "http://d0.test/fixed", "c1")}, []string{"a", "b", "c"}
	default:
		return []hx.RuleSpec{mk("/a/*", "http://d0.test/pre/$1", "c1"), mk("/b/pre/*", "http://d0.test/pre/$1", "c2"), mk("/c/*", "http://d2.test/pre/$1", "c1")}, []string{"a", "b/pre", "c"}
	}
}

func skMutate(g *hx.Gen, f skFields, prefixes []string) skFields {
	switch g.Intn(18) {
	case 16:
		// a percent-encoded delimiter in the path against the delimiter itself: /x%3Fv=1 is a path, /x?v=1 a path and a query
		if strings.HasSuffix(f.seg, "%3Fv=1") {
			f.seg, f.query = strings.TrimSuffix(f.seg, "%3Fv=1"), "v=1"
		} else if !strings.Contains(f.seg, "%") {
			f.seg, f.query = f.seg+"%3Fv=1", ""
		}
	case 17:
		if strings.HasPrefix(f.seg, "p%2F") {
			f.seg = "p/" + strings.TrimPrefix(f.seg, "p%2F")
		} else if strings.HasPrefix(f.seg, "p/") {
			f.seg = "p%2F" + strings.TrimPrefix(f.seg, "p/")
		} else if !strings.Contains(f.seg, "%") {
			f.seg = "p%2F" + f.seg
		}
	case 0, 1, 2, 3:
		f.origin = skOrigins[g.Intn(len(skOrigins))]
	case 4, 5:
		if len(f.origin) > 0 && f.origin[0] == skOriginA {
			f.origin = []string{skOriginB}
		} else {
			f.origin = []string{skOriginA}
		}
	case 6, 7:
		f.ae = skAEs[g.Intn(len(skAEs))]
	case 8:
		f.auth = skAuths[g.Intn(len(skAuths))]
	case 9, 10:
		if f.method == "GET" {
			f.method = "HEAD"
		} else {
			f.method = "GET"
		}
	case 11:
		f.query = g.Pick(skQueries)
	case 12:
		f.prefix = g.Pick(prefixes)
	case 13:
		f.prefix = g.Pick(prefixes)
		f.query = g.Pick(skQueries)
	case 14:
		// text moved across a field boundary (C11-a)
		base := strings.TrimSuffix(strings.TrimSuffix(strings.TrimSuffix(strings.TrimSuffix(f.seg, "Accept-Encodinggzipbr"), "Accept-Encodinggzip"), "opaqueOrigin"), "2")
		f.seg = base + g.Pick(skTails)
	default:
		switch g.Intn(3) {
		case 0:
			f.host = "g"
		case 1:
			f.host = "HEADh"
			f.method = "GET"
		default:
			f.host = "h"
		}
	}
	return f
}

func skStream(g *hx.Gen, id int) hx.Case {
	skMu.Lock()
	defer skMu.Unlock()
	rs, prefixes := skRuleSet(g, id)
	base := skFields{method: "GET", host: "h", prefix: prefixes[0], seg: g.Pick(skSegs), query: g.Pick(skQueries)}
	if g.Chance(15) {
		base.method = "HEAD"
	}
	if g.Chance(25) {
		base.ae = skAEs[g.Intn(len(skAEs))]
	}
	if g.Chance(8) {
		base.auth = "tok"
	}
	tick := func() skStep { return skStep{kind: 'T', dt: 1 + g.Intn(9)} }
	var steps []skStep
	ticks := 0
	if g.Chance(30) {
		// directed: two sites overlapped on one URL, then later requests from both sites
		a, b := base, base
		a.origin = []string{skOriginA}
		b.origin = []string{skOriginB}
		if g.Chance(20) {
			b.origin = []string{skOriginA}
		}
		if g.Chance(15) {
			b = skMutate(g, b, prefixes)
		}
		if g.Chance(15) {
			// something is there before the two sites meet
			steps = append(steps, skStep{kind: 'R', a: skMutate(g, base, prefixes).req(id)})
		}
		steps = append(steps, skStep{kind: 'P', a: a.req(id), b: b.req(id)})
		n := 2 + g.Intn(4)
		for i := 0; i < n; i++ {
			if g.Chance(25) && ticks < 5 {
				steps = append(steps, tick())
				ticks++
			}
			f := a
			switch g.Intn(5) {
			case 0, 1:
				f = b
			case 2:
				f = skMutate(g, a, prefixes)
			}
			if i == 0 {
				f = a
			}
			steps = append(steps, skStep{kind: 'R', a: f.req(id)})
		}
	} else {
		if g.Chance(50) {
			base.origin = skOrigins[g.Intn(len(skOrigins))]
		}
		pool := []skFields{base}
		for k := 1 + g.Intn(4); k > 0; k-- {
			v := skMutate(g, pool[g.Intn(len(pool))], prefixes)
			if g.Chance(30) {
				v = skMutate(g, v, prefixes)
			}
			pool = append(pool, v)
		}
		n := 3 + g.Intn(5)
		var reqs []skReq
		for i := 0; i < n; i++ {
			reqs = append(reqs, pool[g.Intn(len(pool))].req(id))
		}
		for i := 0; i < n; i++ {
			if g.Chance(20) && ticks < 5 && i > 0 {
				steps = append(steps, tick())
				ticks++
			}
			if i+1 < n && g.Chance(35) {
				steps = append(steps, skStep{kind: 'P', a: reqs[i], b: reqs[i+1]})
				i++
			} else {
				steps = append(steps, skStep{kind: 'R', a: reqs[i]})
			}
		}
	}
	return skRun("sysk", id, rs, steps)
}

// ---------------------------------------------------------------- running a case

func skHeaderValues(v sysx.ClientView, name string) []string {
	var out []string
	for _, kv := range v.Header {
		if strings.EqualFold(kv[0], name) {
			out = append(out, kv[1])
		}
	}
	return out
}

// skEchoTokens decodes an echo text into protocol tokens: 1 host uri method (list) (list) (list), or 0
func skEchoTokens(echo string) []string {
	f := strings.Split(echo, ".")
	if len(f) < 4 || f[0] != "sk" {
		return []string{"0"}
	}
	for k, x := range f[1:] {
		if _, err := hex.DecodeString(x); err != nil && k < 3 {
			return []string{"0"}
		}
	}
	out := []string{"1", "x" + f[1], "x" + f[2], "x" + f[3]}
	i := 4
	for _, tag := range []string{"a", "u", "o"} {
		if i >= len(f) || !strings.HasPrefix(f[i], tag) {
			return []string{"0"}
		}
		n, err := strconv.Atoi(f[i][1:])
		if err != nil || n < 0 || i+n >= len(f) {
			return []string{"0"}
		}
		out = append(out, hx.I(n))
		for k := 1; k <= n; k++ {
			out = append(out, "x"+f[i+k])
		}
		i += n + 1
	}
	return out
}

func skViewTokens(v sysx.ClientView, contacts int) []string {
	echo := strings.Join(skHeaderValues(v, "X-Sk-Echo"), ",")
	out := []string{hx.I(v.Status), hx.X(strings.Join(skHeaderValues(v, "Richie-Edge-Cache"), "|")), hx.X(strings.Join(skHeaderValues(v, "Age"), "|"))}
	out = append(out, skEchoTokens(echo)...)
	kind := "x"
	if len(v.Body) == 0 {
		kind = "0"
	} else if string(v.Body) == "body-for:"+echo {
		kind = "e"
	}
	out = append(out, kind, v.Framing, hx.X(strings.Join(skHeaderValues(v, "Vary"), "|")), hx.X(strings.Join(skHeaderValues(v, "Cache-Control"), "|")), hx.I(contacts))
	return out
}

func skRun(stream string, id int, rs []hx.RuleSpec, steps []skStep) hx.Case {
	in := append([]string{}, hx.RulesTokens(rs)...)
	in = append(in, hx.I(len(steps)))
	for _, s := range steps {
		switch s.kind {
		case 'T':
			in = append(in, "T", hx.I(s.dt))
		case 'R':
			in = append(in, "R")
			in = append(in, s.a.tokens()...)
		case 'P':
			in = append(in, "P")
			in = append(in, s.a.tokens()...)
			in = append(in, s.b.tokens()...)
		}
	}
	impl := hx.Guard(func() []string {
		rules, err := proxy.ParseRules(hx.RulesJSON(rs), sysx.Logger)
		if err != nil {
			return []string{"err:rules"}
		}
		w := skGetWorld()
		verifhook.SetClock(func() int64 { return atomic.LoadInt64(&w.now) })
		verifhook.SetHandler(func(name, key string) {
			if name == "srv.wait" {
				select {
				case w.parked <- key:
				default:
				}
			}
		})
		defer verifhook.SetHandler(nil)
		w.configure(rules)
		w.org.reset()
		out := []string{}
		idx := 0
		for _, s := range steps {
			switch s.kind {
			case 'T':
				atomic.AddInt64(&w.now, int64(s.dt))
			case 'R':
				v := w.do(s.a, idx)
				w.sync()
				out = append(out, skViewTokens(v, w.org.count(idx))...)
				idx++
			case 'P':
				outcome, v1, v2 := w.pair(s.a, s.b, idx, idx+1)
				out = append(out, outcome)
				out = append(out, skViewTokens(v1, w.org.count(idx))...)
				out = append(out, skViewTokens(v2, w.org.count(idx+1))...)
				idx += 2
			}
		}
		w.org.mu.Lock()
		if w.org.stalled {
			out = append(out, "origin-hold-timeout") // never expected: shows as a difference
		}
		w.org.mu.Unlock()
		return out
	})
	return hx.Case{Stream: stream, ID: id, In: in, Impl: impl}
}

// pair: r2 is issued while the origin holds r1's answer.
//
//	seq     r1 never reached the origin (served from the cache): nothing to overlap with
//	free    r2 completed while r1's answer was held (own entry, own fetch, or a hit)
//	parked  r2 was parked as a coalescing waiter; it is woken by r1's completion
func (w *skWorld) pair(r1, r2 skReq, i1, i2 int) (string, sysx.ClientView, sysx.ClientView) {
	for len(w.parked) > 0 {
		<-w.parked
	}
	stall := sysx.ClientView{Framing: "stall"}
	h1 := w.org.hold(i1)
	w.org.mu.Lock()
	arrived := w.org.arrived
	w.org.mu.Unlock()
	done1 := make(chan sysx.ClientView, 1)
	go func() { done1 <- w.do(r1, i1) }()
	var v1, v2 sysx.ClientView
	// phase 1: r1 reaches the origin (and is held there), or completes without it
	reached := false
	for !reached {
		select {
		case v1 = <-done1:
			w.org.unhold(i1)
			w.sync()
			v2 = w.do(r2, i2)
			w.sync()
			return "seq", v1, v2
		case i := <-arrived:
			reached = i == i1
		case <-time.After(skTimeout):
			close(h1)
			return "stall1", stall, stall
		}
	}
	// phase 2: r2 completes, or is parked behind r1
	done2 := make(chan sysx.ClientView, 1)
	go func() { done2 <- w.do(r2, i2) }()
	outcome := ""
	select {
	case v2 = <-done2:
		outcome = "free"
	case <-w.parked:
		outcome = "parked"
	case <-time.After(skTimeout):
		close(h1)
		return "stall2", stall, stall
	}
	// phase 3: r1's answer is released; a woken r2 that goes to the origin waits there for r1's end
	var h2 chan struct{}
	if outcome == "parked" {
		h2 = w.org.hold(i2)
	}
	close(h1)
	select {
	case v1 = <-done1:
	case <-time.After(skTimeout):
		v1 = stall
	}
	if outcome == "parked" {
		close(h2)
		select {
		case v2 = <-done2:
		case <-time.After(2 * skTimeout):
			v2 = stall
		}
	}
	w.sync()
	return outcome, v1, v2
}
