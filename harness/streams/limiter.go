package streams

// Stream `limiter` (C16, C17): op sequences against the goroutine-free size limiter
// (caching.VerifNewLimiter) with REAL files in a temp dir.  The harness plays the part of the
// runSizeLimiter loop (disk.go:548-628) around the real readFiles, readStorableAccessTimes,
// flushStorableAccessTimes, purgeableItemNames and the exported op bodies, with a script clock.
//
// Input tokens:  max start logSize  nPre (path size)*  hasAtimes atimes  nOps op*
//   op: 0 name size dt (fill) | 1 name dt (hit) | 2 dt (flush tick) | 3 name size (regrow)
//       | 4 name (delete) | 5 dt (restart)
// Implementation tokens: start-up record, then one record per op, then the final state:
//   S ok <state> | S panic
//   F did <pass> | H did <pass> | L hasAtimes atimes <pass> | G did | D did | R ok <state> | R panic
//   <pass>  = P0 | P1 nWithout name* nWith name* selSize sizeBytes before after nRemoved name* nSurv name*
//   <state> = sizeBytes nWith (name atime kb)* nWithout (name kb)* nStorable (name unix kb)* disk

import (
	"os"
	"path/filepath"
	"sort"
	"strconv"
	"strings"
	"time"

	"github.com/richiefi/rrrouter/caching"

	"rrverif/harness/hx"
)

func init() {
	register("limiter", limiterStream)
	register("kf.C16-a", limKf("kf.C16-a", kfC16a))
	register("kf.C16-b", limKf("kf.C16-b", kfC16b))
	register("kf.C16-c", limKf("kf.C16-c", kfC16c))
	register("kf.C16-d", limKf("kf.C16-d", kfC16d))
	register("kf.C16-e", limKf("kf.C16-e", kfC16e))
	register("kf.C16-f", limKf("kf.C16-f", kfC16f))
	register("kf.C17-a", limKf("kf.C17-a", kfC17a))
	register("kf.C17-b", limKf("kf.C17-b", kfC17b))
	register("kf.C17-c", limKf("kf.C17-c", kfC17c))
}

type limOp struct {
	kind int
	name string
	size int64
	dt   int64
}

type limFile struct {
	path string
	size int64
}

type limScript struct {
	max, start int64
	logSize    int64 // -1: ATIME_LOG_SIZE_BYTES unset
	pre        []limFile
	hasAtimes  bool
	atimes     string
	ops        []limOp
}

const (
	limOpFill = iota
	limOpHit
	limOpFlush
	limOpRegrow
	limOpDelete
	limOpRestart
)

func (s limScript) tokens() []string {
	t := []string{hx.I64(s.max), hx.I64(s.start), hx.I64(s.logSize), hx.I(len(s.pre))}
	for _, f := range s.pre {
		t = append(t, hx.X(f.path), hx.I64(f.size))
	}
	t = append(t, hx.B(s.hasAtimes), hx.X(s.atimes), hx.I(len(s.ops)))
	for _, o := range s.ops {
		switch o.kind {
		case limOpFill:
			t = append(t, "0", hx.X(o.name), hx.I64(o.size), hx.I64(o.dt))
		case limOpHit:
			t = append(t, "1", hx.X(o.name), hx.I64(o.dt))
		case limOpFlush:
			t = append(t, "2", hx.I64(o.dt))
		case limOpRegrow:
			t = append(t, "3", hx.X(o.name), hx.I64(o.size))
		case limOpDelete:
			t = append(t, "4", hx.X(o.name))
		case limOpRestart:
			t = append(t, "5", hx.I64(o.dt))
		}
	}
	return t
}

const limPurgeIntervalSec = 5 // disk.go:545, pinned by Pins.purgeIntervalSec

// entryName is Key.FsName's layout for a base name: prefixWithItemName(base)+base.
func limEntryName(base string) string { return caching.VerifPrefixWithItemName(base) + base }

// diskState: bytes stored (all regular files except the limiter's own log) and the files.
func limDiskState(dir string) (int64, []limFile) {
	var total int64
	files := []limFile{}
	filepath.Walk(dir, func(p string, fi os.FileInfo, err error) error {
		if err != nil || fi.IsDir() {
			return nil
		}
		rel, _ := filepath.Rel(dir, p)
		if rel == "atimes" {
			return nil
		}
		total += fi.Size()
		files = append(files, limFile{rel, fi.Size()})
		return nil
	})
	sort.Slice(files, func(i, j int) bool { return files[i].path < files[j].path })
	return total, files
}

func limWriteSized(p string, size int64) error {
	if err := os.MkdirAll(filepath.Dir(p), 0755); err != nil {
		return err
	}
	f, err := os.Create(p)
	if err != nil {
		return err
	}
	defer f.Close()
	return f.Truncate(size) // sparse: no data blocks are written
}

func limStateTokens(l *caching.VerifLimiter, dir string) []string {
	t := []string{hx.I64(l.SizeBytes())}
	wa := l.WithAccessTime()
	names := make([]string, 0, len(wa))
	for n := range wa {
		names = append(names, n)
	}
	sort.Strings(names)
	t = append(t, hx.I(len(names)))
	for _, n := range names {
		t = append(t, hx.X(n), strconv.FormatUint(uint64(wa[n].AccessTime), 10), strconv.FormatUint(uint64(wa[n].SizeKilobytes), 10))
	}
	wo := l.WithoutAccessTime()
	names = names[:0]
	for n := range wo {
		names = append(names, n)
	}
	sort.Strings(names)
	t = append(t, hx.I(len(names)))
	for _, n := range names {
		t = append(t, hx.X(n), strconv.FormatUint(uint64(wo[n]), 10))
	}
	st := l.Storable()
	names = names[:0]
	for n := range st {
		names = append(names, n)
	}
	sort.Strings(names)
	t = append(t, hx.I(len(names)))
	for _, n := range names {
		t = append(t, hx.X(n), hx.I64(st[n][0]), hx.I64(st[n][1]))
	}
	total, _ := limDiskState(dir)
	return append(t, hx.I64(total))
}

// runLimiterScript executes a script on the real code and returns the implementation tokens.
func runLimiterScript(s limScript) []string {
	dir, err := os.MkdirTemp("", "rrlim")
	if err != nil {
		return []string{"err:tmpdir"}
	}
	defer os.RemoveAll(dir)
	old, had := os.LookupEnv("ATIME_LOG_SIZE_BYTES")
	if s.logSize >= 0 {
		os.Setenv("ATIME_LOG_SIZE_BYTES", hx.I64(s.logSize))
	} else {
		os.Unsetenv("ATIME_LOG_SIZE_BYTES")
	}
	defer func() {
		if had {
			os.Setenv("ATIME_LOG_SIZE_BYTES", old)
		} else {
			os.Unsetenv("ATIME_LOG_SIZE_BYTES")
		}
	}()
	for _, f := range s.pre {
		if err := limWriteSized(filepath.Join(dir, f.path), f.size); err != nil {
			return []string{"err:prefile"}
		}
	}
	if s.hasAtimes {
		if err := os.WriteFile(filepath.Join(dir, "atimes"), []byte(s.atimes), 0644); err != nil {
			return []string{"err:preatimes"}
		}
	}
	now := s.start
	clock := func() time.Time { return time.Unix(now, 0) }
	var lim *caching.VerifLimiter
	var lastRun int64
	out := []string{}

	// start-up of runSizeLimiter (disk.go:525-546)
	startUp := func(tag string) bool {
		lim = caching.VerifNewLimiter("verif", dir, s.max, now, Logger, clock)
		ok := true
		func() {
			defer func() {
				if r := recover(); r != nil {
					ok = false
				}
			}()
			lim.ReadFiles()
		}()
		if !ok {
			out = append(out, tag, "panic")
			return false
		}
		m, err := lim.ReadStorableAccessTimes()
		if err == nil && len(m) > 0 {
			lim.InstallAccessTimes(m)
		}
		lastRun = now - limPurgeIntervalSec
		out = append(out, tag, "ok")
		out = append(out, limStateTokens(lim, dir)...)
		return true
	}

	// the tail of the loop body (disk.go:576-627)
	pass := func() {
		if now-lastRun < limPurgeIntervalSec {
			out = append(out, "P0")
			return
		}
		before, _ := limDiskState(dir)
		var with, without []string
		var selSize int64
		if lim.SizeBytes() > lim.MaxSizeBytes() {
			with, without, selSize = lim.PurgeableItemNames(lim.SizeBytes() - lim.MaxSizeBytes())
		}
		out = append(out, "P1", hx.I(len(without)))
		for _, n := range without {
			out = append(out, hx.X(n))
		}
		out = append(out, hx.I(len(with)))
		for _, n := range with {
			out = append(out, hx.X(n))
		}
		out = append(out, hx.I64(selSize))
		removedExisting := []string{}
		if len(with) != 0 || len(without) != 0 {
			rm := func(ins []string) (removed []string) {
				for _, name := range ins {
					err := os.Remove(filepath.Join(dir, name))
					if err != nil {
						if !os.IsNotExist(err) {
							continue
						}
					} else {
						removedExisting = append(removedExisting, name)
					}
					removed = append(removed, name)
				}
				return
			}
			removedWithout := rm(without)
			removedWith := rm(with)
			lim.PurgeSubtract(removedWith, removedWithout)
		}
		lastRun = now
		after, files := limDiskState(dir)
		sort.Strings(removedExisting)
		out = append(out, hx.I64(lim.SizeBytes()), hx.I64(before), hx.I64(after), hx.I(len(removedExisting)))
		for _, n := range removedExisting {
			out = append(out, hx.X(n))
		}
		if len(removedExisting) == 0 {
			out = append(out, "0")
		} else {
			out = append(out, hx.I(len(files)))
			for _, f := range files {
				out = append(out, hx.X(f.path))
			}
		}
	}

	if !startUp("S") {
		return out
	}
	for _, o := range s.ops {
		switch o.kind {
		case limOpFill:
			now += o.dt
			p := filepath.Join(dir, o.name)
			if _, err := os.Stat(p); err == nil {
				out = append(out, "F", "0") // GetWriter returns nil: nothing is written
				continue
			}
			if err := limWriteSized(p, o.size); err != nil {
				return []string{"err:fill"}
			}
			// closeFinisher (disk.go:328-337)
			lim.OpAdd(o.name, uint32(now-lim.StartedAt()), uint32(o.size/1024))
			out = append(out, "F", "1")
			pass()
		case limOpHit:
			now += o.dt
			fi, err := os.Stat(filepath.Join(dir, o.name))
			if err != nil || fi.IsDir() {
				out = append(out, "H", "0")
				continue
			}
			// setAccessTime (disk.go:899-904)
			lim.OpAccessTime(o.name, uint32(now-lim.StartedAt()), uint32(fi.Size()/1024), now)
			out = append(out, "H", "1")
			pass()
		case limOpFlush:
			now += o.dt
			lim.FlushStorableAccessTimes()
			b, err := os.ReadFile(filepath.Join(dir, "atimes"))
			out = append(out, "L", hx.B(err == nil), hx.X(string(b)))
			pass()
		case limOpRegrow:
			p := filepath.Join(dir, o.name)
			if fi, err := os.Stat(p); err != nil || fi.IsDir() {
				out = append(out, "G", "0")
				continue
			}
			if err := os.Truncate(p, o.size); err != nil {
				return []string{"err:regrow"}
			}
			out = append(out, "G", "1")
		case limOpDelete:
			err := os.Remove(filepath.Join(dir, o.name))
			out = append(out, "D", hx.B(err == nil))
		case limOpRestart:
			now += o.dt
			if !startUp("R") {
				return out
			}
		}
	}
	out = append(out, "E")
	out = append(out, limStateTokens(lim, dir)...)
	_, files := limDiskState(dir)
	out = append(out, hx.I(len(files)))
	for _, f := range files {
		out = append(out, hx.X(f.path), hx.I64(f.size))
	}
	b, err := os.ReadFile(filepath.Join(dir, "atimes"))
	out = append(out, hx.B(err == nil), hx.X(string(b)))
	return out
}

var limBases = []string{"abc1", "abd2", "0f3e9a", "fe9", "c0ffee", "a1b2c3", "77aa", "d00d"}
var limSizes = []int64{0, 1, 1023, 1024, 1025, 4096, 1 << 20, 150<<20 + 1, 4 << 30} // (0: cached redirects, empty 404s and HEAD entries are zero-length files)
var limKBSizes = []int64{1024, 2048, 4096, 1 << 20, 150 << 20}
var limDts = []int64{0, 1, 1, 2, 3, 5, 5, 7, 30}

func genLimiterScript(g *hx.Gen) limScript {
	profile := g.Intn(5) // 0: clean (H holds), 1: sizes, 2: restarts+log, 3,4: everything
	s := limScript{start: 1700000000 + int64(g.Intn(1000)), logSize: -1}
	clean := profile == 0
	sizes := limSizes
	if clean || (profile == 2 && g.Bool()) {
		sizes = limKBSizes
	}
	names := make([]string, len(limBases))
	for i, b := range limBases {
		names[i] = limEntryName(b)
	}
	nNames := 2 + g.Intn(len(names)-1)
	names = names[:nNames]
	pickSize := func() int64 {
		if g.Chance(70) {
			return sizes[g.Intn(min(5, len(sizes)))] // mostly small
		}
		return sizes[g.Intn(len(sizes))]
	}
	// pre-existing directory content
	present := map[string]int64{}
	if g.Chance(50) {
		k := g.Intn(nNames + 1)
		for i := 0; i < k; i++ {
			n := names[g.Intn(nNames)]
			if _, ok := present[n]; !ok {
				present[n] = pickSize()
				s.pre = append(s.pre, limFile{n, present[n]})
			}
		}
	}
	if !clean && g.Chance(35) {
		odd := []limFile{{"x.tmp", 700}, {limEntryName("abc1") + ".tmp", 2048}, {"zz/qrs7", 4096}, {".healthcheck", 0},
			{"q/r/s/qrs8", 1024}, {"atimes-truncated", 5000}}
		k := 1 + g.Intn(2)
		for i := 0; i < k; i++ {
			f := odd[g.Intn(len(odd))]
			dup := false
			for _, e := range s.pre {
				if e.path == f.path {
					dup = true
				}
			}
			if !dup {
				s.pre = append(s.pre, f)
			}
		}
		if g.Chance(8) { // base names shorter than 3 bytes: readFiles panics
			s.pre = append(s.pre, limFile{g.Pick([]string{"ab", "y/z", "a/b/c/z"}), 10})
		}
	}
	if !clean && g.Chance(30) {
		s.hasAtimes = true
		var sb strings.Builder
		k := g.Intn(6)
		for i := 0; i < k; i++ {
			n := names[g.Intn(nNames)]
			if g.Chance(15) {
				n = limEntryName("5ta1e" + hx.I(g.Intn(3))) // a name without a file
			}
			unix := s.start - int64(g.Intn(5000))
			kb := int64(0)
			if sz, ok := present[n]; ok && g.Chance(70) {
				kb = sz / 1024
			} else {
				kb = int64(g.Intn(5000))
			}
			switch g.Intn(14) {
			case 0:
				sb.WriteString("garbage\n")
			case 1:
				sb.WriteString(n + "|" + hx.I64(unix) + "\n")
			case 2:
				sb.WriteString(n + "|x|1\n")
			case 3:
				sb.WriteString(n + "|" + hx.I64(unix) + "|1|2\n")
			case 4:
				sb.WriteString(n + "|+" + hx.I64(unix) + "|" + hx.I64(kb+(1<<32)) + "\n")
			case 5:
				sb.WriteString(n + "|" + hx.I64(s.start+int64(g.Intn(100))) + "|-1\n") // future time, negative size
			default:
				sb.WriteString(n + "|" + hx.I64(unix) + "|" + hx.I64(kb) + "\n")
			}
		}
		if g.Chance(10) {
			sb.WriteString("tail-without-newline")
		}
		s.atimes = sb.String()
	}
	// the limit: relative to what the script is going to store
	switch g.Intn(6) {
	case 0:
		s.max = 0
	case 1:
		s.max = int64(1+g.Intn(8)) * 1024
	case 2:
		s.max = int64(1+g.Intn(4)) << 20
	case 3:
		s.max = int64(g.Intn(5000))
	case 4:
		s.max = 300 << 20
	default:
		s.max = int64(1+g.Intn(40)) * 512
	}
	if profile >= 2 && g.Chance(40) {
		s.logSize = []int64{0, 1, 10, 50, 100, 200, 1000}[g.Intn(7)]
	}
	nOps := 1 + g.Intn(60)
	for i := 0; i < nOps; i++ {
		dt := limDts[g.Intn(len(limDts))]
		n := names[g.Intn(nNames)]
		r := g.Intn(100)
		switch {
		case r < 35:
			s.ops = append(s.ops, limOp{kind: limOpFill, name: n, size: pickSize(), dt: dt})
		case r < 60:
			s.ops = append(s.ops, limOp{kind: limOpHit, name: n, dt: dt})
		case r < 75:
			s.ops = append(s.ops, limOp{kind: limOpFlush, dt: dt})
		case r < 82:
			if clean {
				s.ops = append(s.ops, limOp{kind: limOpFlush, dt: dt})
			} else {
				s.ops = append(s.ops, limOp{kind: limOpRegrow, name: n, size: pickSize()})
			}
		case r < 89:
			if clean {
				s.ops = append(s.ops, limOp{kind: limOpHit, name: n, dt: dt})
			} else {
				s.ops = append(s.ops, limOp{kind: limOpDelete, name: n})
			}
		default:
			if profile == 0 || profile == 1 {
				s.ops = append(s.ops, limOp{kind: limOpFill, name: n, size: pickSize(), dt: dt})
			} else {
				if g.Chance(75) { // the property's histories restart after a flush
					s.ops = append(s.ops, limOp{kind: limOpFlush, dt: 1})
				}
				s.ops = append(s.ops, limOp{kind: limOpRestart, dt: 1 + dt})
			}
		}
	}
	return s
}

func limiterStream(g *hx.Gen, id int) hx.Case {
	s := genLimiterScript(g)
	impl := hx.Guard(func() []string { return runLimiterScript(s) })
	return hx.Case{Stream: "limiter", ID: id, In: s.tokens(), Impl: impl}
}

func limKf(stream string, table []limScript) Stream {
	return func(g *hx.Gen, id int) hx.Case {
		s := table[id%len(table)]
		impl := hx.Guard(func() []string { return runLimiterScript(s) })
		return hx.Case{Stream: stream, ID: id, In: s.tokens(), Impl: impl}
	}
}

const limT0 = int64(1700000000)

func limFill(n string, size, dt int64) limOp {
	return limOp{kind: limOpFill, name: limEntryName(n), size: size, dt: dt}
}
func limHit(n string, dt int64) limOp { return limOp{kind: limOpHit, name: limEntryName(n), dt: dt} }
func limTick(dt int64) limOp          { return limOp{kind: limOpFlush, dt: dt} }
func limRegrow(n string, size int64) limOp {
	return limOp{kind: limOpRegrow, name: limEntryName(n), size: size}
}
func limDel(n string) limOp     { return limOp{kind: limOpDelete, name: limEntryName(n)} }
func limRestart(dt int64) limOp { return limOp{kind: limOpRestart, dt: dt} }

// C16-a: sizes are booked in whole KiB through a uint32: entries below 1 KiB (and the part of
// any entry beyond a KiB boundary, and 4 GiB entries) are free; nothing is ever purged.
var kfC16a = []limScript{
	{max: 2000, start: limT0, logSize: -1, ops: []limOp{limFill("abc1", 1000, 1), limFill("abd2", 1000, 6), limFill("0f3e9a", 1000, 6), limTick(6), limTick(6)}},
	{max: 1024, start: limT0, logSize: -1, ops: []limOp{limFill("abc1", 4<<30, 1), limTick(6), limTick(6)}},
	{max: 4096, start: limT0, logSize: -1, ops: []limOp{limFill("abc1", 2047, 1), limFill("abd2", 2047, 6), limFill("0f3e9a", 2047, 6), limTick(6)}},
}

// C16-b: a 200-revalidation that grows an entry is never accounted.
var kfC16b = []limScript{
	{max: 4096, start: limT0, logSize: -1, ops: []limOp{limFill("abc1", 1024, 1), limRegrow("abc1", 1<<20), limHit("abc1", 6), limTick(6)}},
	{max: 8192, start: limT0, logSize: -1, ops: []limOp{limFill("abc1", 4096, 1), limFill("abd2", 4096, 1), limRegrow("abd2", 8192), limTick(6), limTick(6)}},
}

// C16-c: names in the access-time log whose files are gone are "removed" and subtracted.
var kfC16c = []limScript{
	{max: 8192, start: limT0, logSize: -1, pre: []limFile{{limEntryName("abc1"), 4096}, {limEntryName("abd2"), 4096}}, hasAtimes: true,
		atimes: limEntryName("abc1") + "|1699990000|4\n" + limEntryName("abd2") + "|1699991000|4\n" + limEntryName("5ta1e0") + "|1699999000|1024\n",
		ops:    []limOp{limFill("0f3e9a", 4096, 1), limFill("c0ffee", 4096, 6), limFill("a1b2c3", 4096, 6), limTick(6), limTick(6)}},
}

// C16-d: a deletion behind the limiter's back is never un-accounted; the re-fill counts twice.
var kfC16d = []limScript{
	{max: 8192, start: limT0, logSize: -1, ops: []limOp{limFill("abc1", 4096, 1), limDel("abc1"), limFill("abc1", 4096, 1), limFill("abd2", 4096, 1), limTick(6)}},
	{max: 8192, start: limT0, logSize: -1, ops: []limOp{limFill("abc1", 4096, 1), limFill("abd2", 4096, 1), limDel("abc1"), limFill("abc1", 4096, 1), limTick(6)}},
}

// C16-e: files that do not sit at prefix(base)+base (the log itself) become phantom entries.
var kfC16e = []limScript{
	{max: 4096, start: limT0, logSize: -1, pre: []limFile{{limEntryName("abc1"), 4096}}, hasAtimes: true,
		atimes: strings.Repeat("garbage-line-of-some-length\n", 80),
		ops:    []limOp{limTick(1)}},
	{max: 4096, start: limT0, logSize: -1, pre: []limFile{{limEntryName("abc1"), 4096}, {"zz/qrs7", 4096}},
		ops: []limOp{limFill("abd2", 4096, 1), limTick(6), limTick(6)}},
}

// C16-f: an entry present at start that is hit sits in both maps and is subtracted twice.
var kfC16f = []limScript{
	{max: 8192, start: limT0, logSize: -1, pre: []limFile{{limEntryName("abc1"), 4096}},
		ops: []limOp{limHit("abc1", 1), limFill("abd2", 4096, 1), limFill("0f3e9a", 4096, 1), limTick(6), limFill("c0ffee", 4096, 1), limFill("a1b2c3", 4096, 6), limTick(6), limTick(6)}},
}

// C17-a: persisted access times are re-based as startedAt' - unix: older accesses get LARGER values.
var kfC17a = []limScript{
	{max: 8192, start: limT0, logSize: -1, ops: []limOp{limFill("abc1", 4096, 1), limFill("abd2", 4096, 1), limHit("abc1", 10), limHit("abd2", 10), limTick(1), limRestart(10),
		limFill("0f3e9a", 4096, 1), limTick(6)}},
	{max: 8192, start: limT0, logSize: -1, ops: []limOp{limFill("abc1", 4096, 1), limFill("abd2", 4096, 1), limHit("abc1", 10), limTick(1), limRestart(100),
		limHit("abd2", 50), limTick(1), limFill("0f3e9a", 4096, 6)}},
}

// C17-b: a hit on (or re-fill of) an entry present at start leaves it in the unknown-atime set.
var kfC17b = []limScript{
	{max: 8192, start: limT0, logSize: -1, pre: []limFile{{limEntryName("abc1"), 4096}},
		ops: []limOp{limFill("abd2", 4096, 1), limHit("abc1", 10), limFill("0f3e9a", 4096, 10), limTick(6)}},
	// the same through opAdd: the file disappears behind the limiter's back and is filled again
	{max: 12288, start: limT0, logSize: -1, pre: []limFile{{limEntryName("abc1"), 4096}},
		ops: []limOp{limFill("abd2", 4096, 1), limDel("abc1"), limFill("abc1", 4096, 10), limFill("0f3e9a", 4096, 10), limTick(6)}},
}

// C17-c: fills are never written to the access-time log.
var kfC17c = []limScript{
	{max: 8192, start: limT0, logSize: -1, ops: []limOp{limFill("abc1", 4096, 1), limHit("abc1", 5), limTick(1), limFill("abd2", 4096, 100), limTick(1), limRestart(10),
		limFill("0f3e9a", 4096, 1), limTick(6)}},
}
