package streams

import (
	"net/http"
	"strconv"
	"strings"
	"sync"
	"sync/atomic"

	"github.com/richiefi/rrrouter/config"
	"github.com/richiefi/rrrouter/proxy"
	"github.com/richiefi/rrrouter/verifhook"

	"rrverif/harness/hx"
	"rrverif/harness/sysx"
)

// sysc: histories on a cache-enabled rule (request / advance clock / change origin) against the
// real server + disk cache + scripted origin; the history oracles (C05 C07 C08 C10) are applied by
// the Lean driver to what the implementation did.
func init() {
	register("sysc", syscStream)
	register("kf.C05-a", kfC05a)
	register("kf.C09-e.sysc", kfC09eSysc)
	register("kf.C09-b.sysc", kfC09bSysc)
	register("kf.C08-c", kfC08c)
	register("kf.C09-g", kfC09g)
	register("kf.C11-a.sysc", kfC11aSysc)
	register("kf.C07-a.loop", kfC07aLoop)
}

var syscMu sync.Mutex

// scWedges counts, per harness process, the requests that got no response at all
var scWedges int32

type scOp struct {
	rerr   int  // origin: body read fails after this many bytes (-1: never)
	kind   byte // 'R' request, 'T' tick, 'O' set origin
	method string
	path   string
	hdr    [][2]string
	dt     int
	status int
	body   []byte
	chunk  bool
	cond   bool   // origin honours If-None-Match: 304 when it names the current ETag
	cl0    bool   // ... and that 304 carries Content-Length: 0 (legal, unusual)
	cc304  string // ... and this Cache-Control instead of the 200's ("" = the same as the 200's, "-" = none at all: a bare 304)
}

var scReqHeaders = [][2]string{
	{"Accept-Encoding", "gzip"}, {"Accept-Encoding", "br, gzip"}, {"Authorization", "Bearer a"}, {"Authorization", "Bearer b"},
	{"Origin", "https://app.test"}, {"Accept", "*/*"}, {"If-None-Match", "\"e1\""}, {"Cookie", "s=1"}, {"Range", "bytes=0-3"},
}

var scCacheControls = []string{"max-age=60", "max-age=60", "max-age=5", "s-maxage=30, max-age=0x", "max-age=0", "no-store", "private, max-age=60",
	"no-cache", "public", "", "", "max-age=60, stale-if-error=300", "max-age=5, no-transform", "s-maxage=0", "MAX-AGE=60", "max-age=60,\tno-store", "max-age=0, max-age=60"}

var scExtraHeaders = [][2]string{
	{"Content-Type", "text/plain"}, {"Content-Type", "application/octet-stream"}, {"X-A", "1"}, {"X-A", "a, b; c=\"d\""}, {"Set-Cookie", "a=1"},
	{"Set-Cookie", "b=2"}, {"Content-Language", "fi"}, {"X-Brackets", "[x]"}, {"Vary", "Accept-Encoding"}, {"Last-Modified", "Mon, 02 Jan 2006 15:04:05 GMT"},
	{"X-Pipe", "a|b"}, {"Link", "</x>; rel=\"preload\""}, {"Content-Encoding", "gzip"}, {"Content-Encoding", "br"},
}

func syscStream(g *hx.Gen, id int) hx.Case {
	syscMu.Lock()
	defer syscMu.Unlock()
	force, ops := syscGen(g, id)
	return syscRun("sysc", id, force, ops)
}

// syscGen draws one history of stream sysc (shared with stream syscrh)
func syscGen(g *hx.Gen, id int) (int, []scOp) {
	force := 0
	if g.Chance(15) {
		force = 20
	}
	paths := []string{"a" + hx.I(id), "b" + hx.I(id)}
	version := 0
	newOrigin := func(path string) scOp {
		version++
		st := []int{200, 200, 200, 200, 200, 404, 301, 500, 410, 201, 403}[g.Intn(11)]
		o := scOp{kind: 'O', path: path, status: st, chunk: g.Chance(20), rerr: -1}
		if cc := g.Pick(scCacheControls); cc != "" {
			o.hdr = append(o.hdr, [2]string{"Cache-Control", cc})
			if g.Chance(10) {
				// a second Cache-Control LINE that forbids storing (seeded change C10-m6: a memo keyed by the first line)
				o.hdr = append(o.hdr, [2]string{"Cache-Control", g.Pick([]string{"no-store", "private", "no-cache", "max-age=0", "s-maxage=0"})})
			}
		}
		if g.Chance(50) {
			o.hdr = append(o.hdr, [2]string{"ETag", "\"e" + hx.I(version) + "\""})
			if st == 200 && g.Chance(60) {
				o.cond = true
				o.cl0 = g.Chance(40)
				if g.Chance(25) {
					o.cc304 = g.Pick([]string{"no-store", "private", "no-cache", "max-age=0", "max-age=60", "-", "-"})
				}
			}
		}
		for i := g.Intn(3); i > 0; i-- {
			o.hdr = append(o.hdr, scExtraHeaders[g.Intn(len(scExtraHeaders))])
		}
		if st == 301 {
			o.hdr = append(o.hdr, [2]string{"Location", "/elsewhere"})
		}
		o.body = []byte("body-" + path + "-v" + hx.I(version) + "-" + g.Str("abcdef", 12))
		if g.Chance(8) {
			o.body = nil
		}
		if len(o.body) > 8 && g.Chance(10) {
			o.rerr = len(o.body) / 2 // the origin connection breaks mid-body
		}
		return o
	}
	if g.Chance(15) {
		// directed history: a cacheable entry goes stale, its revalidation is answered 200 with a NEW
		// body that breaks off mid-stream; afterwards nobody may be served the fragment
		p := paths[0]
		// (the entry may grant stale-if-error: the broken-off answer is a 200, not an origin error - seeded change C13-m7)
		cc := "max-age=5"
		if g.Chance(40) {
			cc = "max-age=5, stale-if-error=300"
		}
		mk := func(rerr bool) scOp {
			version++
			o := scOp{kind: 'O', path: p, status: 200, rerr: -1, chunk: g.Chance(30),
				hdr: [][2]string{{"Cache-Control", cc}, {"Content-Type", "text/plain"}}}
			if g.Chance(50) {
				o.hdr = append(o.hdr, [2]string{"ETag", "\"e" + hx.I(version) + "\""})
			}
			o.body = []byte("body-" + p + "-v" + hx.I(version) + "-" + g.Str("abcdef", 24))
			if rerr {
				o.rerr = 4 + g.Intn(len(o.body)-8)
			}
			return o
		}
		r := scOp{kind: 'R', method: "GET", path: p}
		ops := []scOp{mk(false), r, {kind: 'T', dt: 6 + g.Intn(60)}, mk(true), r, r}
		if g.Bool() {
			ops = append(ops, scOp{kind: 'T', dt: 1}, r)
		}
		ops = append(ops, mk(false), r, r)
		return force, ops
	}
	if g.Chance(5) {
		// directed history: a stored entry goes stale and its revalidation is answered with an UNSTORABLE status that carries
		// a body (503 page, 500, 403 ...; no stale-if-error): the old entry must not live on as if it had been confirmed
		// (finding C09-e is the bodiless case; seeded change C09-m8: the clean-up after the failed write skipped)
		p := paths[0]
		version++
		o := scOp{kind: 'O', path: p, status: 200, rerr: -1, chunk: g.Chance(30), cond: g.Bool(),
			hdr: [][2]string{{"Cache-Control", "max-age=5"}, {"ETag", "\"e" + hx.I(version) + "\""}}, body: []byte("body-" + p + "-v" + hx.I(version) + "-" + g.Str("abcdef", 12))}
		version++
		bad := scOp{kind: 'O', path: p, status: []int{503, 500, 403, 410, 201}[g.Intn(5)], rerr: -1, chunk: g.Chance(30),
			hdr: [][2]string{{"Content-Type", "text/plain"}}, body: []byte("unstorable-" + p + "-v" + hx.I(version) + "-" + g.Str("abcdef", 12))}
		if g.Bool() {
			bad.hdr = append(bad.hdr, [2]string{"Cache-Control", "max-age=5"})
		}
		version++
		o2 := scOp{kind: 'O', path: p, status: 200, rerr: -1, cond: g.Bool(),
			hdr: [][2]string{{"Cache-Control", "max-age=5"}, {"ETag", "\"e" + hx.I(version) + "\""}}, body: []byte("body-" + p + "-v" + hx.I(version) + "-" + g.Str("abcdef", 12))}
		r := scOp{kind: 'R', method: "GET", path: p}
		rc := scOp{kind: 'R', method: "GET", path: p, hdr: [][2]string{{"If-None-Match", "\"e" + hx.I(version-2) + "\""}}}
		ops := []scOp{o, r, {kind: 'T', dt: 6 + g.Intn(30)}, bad, r, r, o2, r}
		if g.Bool() {
			ops = append(ops, rc, scOp{kind: 'T', dt: 2}, r)
		}
		return force, ops
	}
	if g.Chance(7) {
		// directed history: a 304 whose Cache-Control CHANGES the entry's lifetime ("a 304 ... updates its headers while keeping
		// the body"): afterwards the entry lives by the 304's lifetime, counted from the validation - longer (a request between the
		// old and the new lifetime is a hit) or shorter (it is revalidated). Seeded change C08-m6: the merge silently a no-op.
		p := paths[0]
		version++
		cc200, cc304, wait := "max-age=5", "max-age=60", 6+g.Intn(20)
		if g.Bool() {
			cc200, cc304, wait = "max-age=60", "max-age=5", 61+g.Intn(20)
		}
		o := scOp{kind: 'O', path: p, status: 200, cond: true, cc304: cc304, cl0: g.Chance(30), rerr: -1, chunk: g.Chance(20),
			hdr: [][2]string{{"Cache-Control", cc200}, {"ETag", "\"e" + hx.I(version) + "\""}}, body: []byte("body-" + p + "-v" + hx.I(version) + "-" + g.Str("abcdef", 12))}
		r := scOp{kind: 'R', method: "GET", path: p}
		ops := []scOp{o, r, {kind: 'T', dt: wait}, r, {kind: 'T', dt: 6 + g.Intn(40)}, r, {kind: 'T', dt: 1 + g.Intn(60)}, r}
		return force, ops
	}
	if g.Chance(6) {
		// directed history: the same request with a method other than GET/HEAD twice, on a resource whose
		// answer would be storable: both must reach the origin (C10), a GET in between or afterwards too
		p := paths[0]
		version++
		st := []int{200, 200, 404, 301}[g.Intn(4)]
		o := scOp{kind: 'O', path: p, status: st, rerr: -1, chunk: g.Chance(30),
			hdr: [][2]string{{"Cache-Control", "max-age=60"}, {"Content-Type", "text/plain"}}}
		if st == 301 {
			o.hdr = append(o.hdr, [2]string{"Location", "/elsewhere"})
		}
		o.body = []byte("body-" + p + "-v" + hx.I(version) + "-" + g.Str("abcdef", 16))
		m := g.Pick([]string{"POST", "PUT", "PATCH", "DELETE", "OPTIONS", "PROPFIND", "TRACE"})
		rm := scOp{kind: 'R', method: m, path: p}
		rg := scOp{kind: 'R', method: "GET", path: p}
		ops := []scOp{o}
		if g.Bool() {
			ops = append(ops, rg)
		}
		ops = append(ops, rm, rm, rg, rm)
		return force, ops
	}
	if g.Chance(10) {
		// directed history: the client of a FILLING request goes away mid-body (the fetch is aborted); the
		// next requests must be answered normally, nobody is served the fragment (C13)
		p := paths[0]
		version++
		o := scOp{kind: 'O', path: p, status: 200, rerr: -1, chunk: g.Chance(40),
			hdr: [][2]string{{"Cache-Control", "max-age=60"}, {"Content-Type", "text/plain"}}}
		o.body = []byte("body-" + p + "-v" + hx.I(version) + "-" + g.Str("abcdef", 40))
		r := scOp{kind: 'R', method: "GET", path: p}
		ops := []scOp{o}
		if g.Chance(30) {
			// a stale entry first: the aborted fetch is a revalidation answered 200
			o.hdr[0][1] = "max-age=5"
			ops = []scOp{o, r, {kind: 'T', dt: 6 + g.Intn(30)}}
			version++
			o2 := o
			o2.body = []byte("body-" + p + "-v" + hx.I(version) + "-" + g.Str("abcdef", 40))
			ops = append(ops, o2)
		}
		ops = append(ops, scOp{kind: 'A', method: "GET", path: p}, r, r)
		if g.Bool() {
			ops = append(ops, scOp{kind: 'T', dt: 1}, r)
		}
		return force, ops
	}
	if g.Chance(12) {
		// directed history: an entry with a validator goes stale and is revalidated by a 304 (which
		// may carry Content-Length: 0); the revalidating client and every later hit get the stored body
		p := paths[0]
		version++
		o := scOp{kind: 'O', path: p, status: 200, rerr: -1, chunk: g.Chance(40), cond: true, cl0: g.Chance(60),
			hdr: [][2]string{{"Cache-Control", "max-age=5"}, {"Content-Type", "text/plain"}, {"ETag", "\"e" + hx.I(version) + "\""}}}
		if g.Chance(30) {
			// an entry stored in an encoded form (no recompression on this rule: the label and the bytes pass through); its length and
			// its body survive the 304 like any other entry's (seeded change C06-m7)
			o.hdr = append(o.hdr, [2]string{"Content-Encoding", g.Pick([]string{"gzip", "br"})})
		}
		if g.Chance(30) {
			// a BARE 304 (validator only, no Cache-Control: legal and common): the entry keeps the lifetime it was stored with,
			// counted from the validation (seeded change C08-m8: the merge deleted the stored Cache-Control)
			o.cc304 = "-"
		} else if g.Chance(30) {
			// the 304 forbids what the 200 allowed: the entry must not be served from the cache afterwards
			o.cc304 = g.Pick([]string{"no-store", "private", "no-cache", "max-age=0", "s-maxage=0"})
		}
		o.body = []byte("body-" + p + "-v" + hx.I(version) + "-" + g.Str("abcdef", 24))
		r := scOp{kind: 'R', method: "GET", path: p}
		ops := []scOp{o, r, {kind: 'T', dt: 6 + g.Intn(60)}, r, r, {kind: 'T', dt: 1 + g.Intn(3)}, r}
		if g.Bool() {
			ops = append(ops, scOp{kind: 'T', dt: 10}, r, r)
		}
		return force, ops
	}
	ops := []scOp{newOrigin(paths[0]), newOrigin(paths[1])}
	n := 3 + g.Intn(5)
	for i := 0; i < n; i++ {
		switch g.Intn(10) {
		case 0, 1:
			ops = append(ops, scOp{kind: 'T', dt: []int{1, 4, 5, 6, 29, 30, 31, 59, 60, 61, 400}[g.Intn(11)]})
		case 2:
			ops = append(ops, newOrigin(paths[g.Intn(2)]))
		default:
			r := scOp{kind: 'R', method: "GET", path: paths[g.Intn(2)]}
			if g.Chance(10) {
				r.method = "HEAD"
			}
			if g.Chance(8) {
				// methods that are never answered from the cache
				r.method = g.Pick([]string{"POST", "POST", "PUT", "PATCH", "DELETE", "OPTIONS", "PROPFIND"})
			}
			for k := g.Intn(3); k > 0; k-- {
				h := scReqHeaders[g.Intn(len(scReqHeaders))]
				dup := false
				for _, e := range r.hdr {
					if e[0] == h[0] {
						dup = true
					}
				}
				if !dup {
					r.hdr = append(r.hdr, h)
				}
			}
			ops = append(ops, r)
		}
	}
	return force, ops
}

// C05-a witnesses: cache-enabled rule, origin status outside {200, 301/2/3/7/8, 400-404} with a body
func kfC05a(g *hx.Gen, id int) hx.Case {
	syscMu.Lock()
	defer syscMu.Unlock()
	st := []int{500, 410, 201}[id%3]
	p := "kf" + hx.I(id)
	ops := []scOp{{kind: 'O', path: p, status: st, hdr: [][2]string{{"Content-Type", "text/plain"}}, body: []byte("error-or-created-body"), rerr: -1},
		{kind: 'R', method: "GET", path: p}}
	return syscRun("kf.C05-a", id, 0, ops)
}

// C09-e seen from C08: a stale entry whose revalidation is answered 5xx/410/… WITHOUT a body is
// re-published with Revalidated = now and served as a hit although no origin vouched for it
func kfC09eSysc(g *hx.Gen, id int) hx.Case {
	syscMu.Lock()
	defer syscMu.Unlock()
	st := []int{500, 503, 410, 410}[id%4]
	p := "kf9e" + hx.I(id)
	// case 3: the bodiless answer declares no length (chunked): the OLD body goes out under the new status
	ops := []scOp{{kind: 'O', path: p, status: 200, hdr: [][2]string{{"Cache-Control", "max-age=5"}, {"ETag", "\"e1\""}}, body: []byte("body-" + p + "-v1"), rerr: -1},
		{kind: 'R', method: "GET", path: p}, {kind: 'T', dt: 5},
		{kind: 'O', path: p, status: st, hdr: [][2]string{{"Cache-Control", "max-age=5"}}, body: nil, rerr: -1, chunk: id%4 == 3},
		{kind: 'R', method: "GET", path: p}, {kind: 'R', method: "GET", path: p}}
	return syscRun("kf.C09-e.sysc", id, 0, ops)
}

// C09-b seen from C05: the revalidation of a stale entry is answered 304 with a Cache-Control that forbids
// storing; the client (which sent no validator) is handed the bare 304 instead of the stored body
func kfC09bSysc(g *hx.Gen, id int) hx.Case {
	syscMu.Lock()
	defer syscMu.Unlock()
	p := "kf9b" + hx.I(id)
	ops := []scOp{{kind: 'O', path: p, status: 200, cond: true, cc304: []string{"no-store", "private"}[id%2], rerr: -1,
		hdr: [][2]string{{"Cache-Control", "max-age=5"}, {"ETag", "\"e1\""}}, body: []byte("body-" + p + "-v1")},
		{kind: 'R', method: "GET", path: p}, {kind: 'T', dt: 6}, {kind: 'R', method: "GET", path: p}, {kind: 'R', method: "GET", path: p}}
	return syscRun("kf.C09-b.sysc", id, 0, ops)
}

// C08-c witnesses: force_revalidate rule, stored entry past the forced lifetime but inside its stale-if-error
// allowance, origin failing: cache.Get switches skipRevalidate off whenever force_revalidate is set, so the
// stale-if-error re-entry revalidates again, fails again, re-enters again ... without bound
func kfC08c(g *hx.Gen, id int) hx.Case {
	syscMu.Lock()
	defer syscMu.Unlock()
	st := []int{500, 503, 404}[id%3]
	p := "kf8c" + hx.I(id)
	ops := []scOp{{kind: 'O', path: p, status: 200, hdr: [][2]string{{"Cache-Control", "max-age=60, stale-if-error=300"}, {"ETag", "\"e1\""}}, body: []byte("body-" + p + "-v1"), rerr: -1},
		{kind: 'R', method: "GET", path: p}, {kind: 'T', dt: 20 + id},
		{kind: 'O', path: p, status: st, hdr: [][2]string{{"Cache-Control", "max-age=5"}}, body: []byte("error-" + p), rerr: -1},
		{kind: 'R', method: "GET", path: p}, {kind: 'R', method: "GET", path: p}}
	return syscRun("kf.C08-c", id, 20, ops)
}

// C09-g witnesses: a stored lifetime that is NEGATIVE (max-age=-1 / s-maxage=-5: strconv.Atoi reads the sign, DoNotCache
// only tests for zero) makes the entry due for revalidation at age 0; an origin that answers the revalidation 304
// sends the handler back into itself, where the entry is due again ...
func kfC09g(g *hx.Gen, id int) hx.Case {
	syscMu.Lock()
	defer syscMu.Unlock()
	cc := []string{"max-age=-1", "s-maxage=-5", "max-age=60, s-maxage=-1"}[id%3]
	p := "kf9g" + hx.I(id)
	ops := []scOp{{kind: 'O', path: p, status: 200, cond: true, hdr: [][2]string{{"Cache-Control", cc}, {"ETag", "\"e1\""}}, body: []byte("body-" + p + "-v1"), rerr: -1},
		{kind: 'R', method: "GET", path: p}, {kind: 'R', method: "GET", path: p}, {kind: 'T', dt: 3}, {kind: 'R', method: "GET", path: p}}
	return syscRun("kf.C09-g", id, 0, ops)
}

// C11-a seen from C05/C13: the key string is the bare concatenation method+host+path+headers, so a request WITH
// Authorization ("/p" + "Authorization" + "B") finds the entry a request WITHOUT one stored for the path
// "/pAuthorizationB". When that entry is due for revalidation and the origin of "/p" answers the stored validator
// 304, the Authorization request (disk writes disabled) re-publishes nothing, re-enters cachingFunc, finds the same
// stale entry, revalidates again ... without bound
func kfC11aSysc(g *hx.Gen, id int) hx.Case {
	syscMu.Lock()
	defer syscMu.Unlock()
	cred := []string{"B", "Bearer-x"}[id%2]
	p := "kf11a" + hx.I(id)
	pc := p + "Authorization" + cred
	ops := []scOp{
		{kind: 'O', path: pc, status: 200, cond: true, rerr: -1, hdr: [][2]string{{"Cache-Control", "max-age=5"}, {"ETag", "\"e1\""}}, body: []byte("body-" + pc + "-v1")},
		{kind: 'O', path: p, status: 200, cond: true, rerr: -1, hdr: [][2]string{{"Cache-Control", "max-age=5"}, {"ETag", "\"e1\""}}, body: []byte("body-" + p + "-v1")},
		{kind: 'R', method: "GET", path: pc}, {kind: 'T', dt: 6},
		{kind: 'R', method: "GET", path: p, hdr: [][2]string{{"Authorization", cred}}}}
	return syscRun("kf.C11-a.sysc", id, 0, ops)
}

// C07-a x C10-b seen from C05/C08/C09/C13: two Cache-Control LINES, the first with a zero lifetime, the second with a
// positive one. GetCacheControlDirectives reads every line and lets the later number win (C10-b): the response is stored.
// headerToS writes only h.Get(k), the FIRST value (C07-a): the entry reads back as max-age=0, due for revalidation at age 0.
// An origin that answers the revalidation 304 sends cachingFunc round: re-published, re-entered, due again, revalidated again ...
func kfC07aLoop(g *hx.Gen, id int) hx.Case {
	syscMu.Lock()
	defer syscMu.Unlock()
	first := []string{"max-age=0", "s-maxage=0"}[id%2]
	second := []string{"max-age=5", "s-maxage=5"}[id%2]
	p := "kf7l" + hx.I(id)
	ops := []scOp{{kind: 'O', path: p, status: 200, cond: true, rerr: -1, hdr: [][2]string{{"Cache-Control", first}, {"Cache-Control", second}, {"ETag", "\"e1\""}}, body: []byte("body-" + p + "-v1")},
		{kind: 'R', method: "GET", path: p}, {kind: 'T', dt: 1}, {kind: 'R', method: "GET", path: p}}
	return syscRun("kf.C07-a.loop", id, 0, ops)
}

func syscRun(stream string, id int, force int, ops []scOp) hx.Case {
	return syscRunRH(stream, id, force, nil, false, ops)
}

// syscRunRH: the rule carries response_headers `rh` (withRH: the input line says so: force nRH (name value)* nOps ...)
func syscRunRH(stream string, id int, force int, rh [][2]string, withRH bool, ops []scOp) hx.Case {
	in := []string{hx.I(force)}
	if withRH {
		in = append(in, hx.I(len(rh)))
		for _, kv := range rh {
			in = append(in, hx.X(kv[0]), hx.X(kv[1]))
		}
	}
	in = append(in, hx.I(len(ops)))
	for _, o := range ops {
		switch o.kind {
		case 'T':
			in = append(in, "T", hx.I(o.dt))
		case 'O':
			in = append(in, "O", hx.X(o.path), hx.I(o.status), hx.I(len(o.hdr)))
			for _, kv := range o.hdr {
				in = append(in, hx.X(kv[0]), hx.X(kv[1]))
			}
			in = append(in, hx.X(string(o.body)), hx.B(o.chunk), hx.I(o.rerr), hx.B(o.cond), hx.B(o.cl0), hx.X(o.cc304))
		case 'R', 'A':
			in = append(in, string(o.kind), hx.X(o.method), hx.X(o.path), hx.I(len(o.hdr)))
			for _, kv := range o.hdr {
				in = append(in, hx.X(kv[0]), hx.X(kv[1]))
			}
		}
	}
	impl := hx.Guard(func() []string {
		if atomic.LoadInt32(&scWedges) >= 4 {
			// the implementation wedges (requests that get no answer within the client's deadline): a few
			// witnesses are enough, every further one costs the full deadline again
			return []string{"skipped-after-repeated-wedges"}
		}
		w := theWorld()
		rule := `{"rules":[{"path":"/c/*","destination":"http://o.test/$1","cache":"c1"`
		if force > 0 {
			rule += `,"force_revalidate":` + hx.I(force)
		}
		if len(rh) > 0 {
			rule += `,"response_headers":{`
			for i, kv := range rh {
				if i > 0 {
					rule += ","
				}
				rule += strconv.Quote(kv[0]) + ":" + strconv.Quote(kv[1])
			}
			rule += `}`
		}
		rule += `}]}`
		rules, err := proxy.ParseRules([]byte(rule), sysx.Logger)
		if err != nil {
			return []string{"err:rules"}
		}
		// every history starts at the same instant (the model starts there too: Expires is absolute)
		w.SetNow(1700000000)
		verifhook.SetClock(func() int64 { return w.NowUnix() })
		defer verifhook.SetClock(nil)
		w.Configure(rules, &config.Config{RetryTimes: []int{}})
		cur := map[string]*sysx.OriginResp{}
		curOp := map[string]scOp{}
		w.Perf.Reset(func(req *http.Request) *sysx.OriginResp {
			p := strings.TrimPrefix(req.URL.Path, "/")
			if o, ok := curOp[p]; ok && o.cond {
				etag := ""
				for _, kv := range o.hdr {
					if kv[0] == "ETag" {
						etag = kv[1]
					}
				}
				if inm := req.Header.Get("If-None-Match"); etag != "" && inm == etag {
					h := [][2]string{}
					for _, kv := range o.hdr {
						if kv[0] == "Cache-Control" && o.cc304 != "" {
							continue
						}
						if kv[0] == "ETag" || kv[0] == "Cache-Control" {
							h = append(h, kv)
						}
					}
					if o.cc304 != "" && o.cc304 != "-" {
						h = append(h, [2]string{"Cache-Control", o.cc304})
					}
					if o.cl0 {
						h = append(h, [2]string{"Content-Length", "0"})
					}
					return &sysx.OriginResp{Status: 304, Header: h, ReadErrAt: -1}
				}
			}
			return cur[p]
		})
		out := []string{}
		for _, o := range ops {
			switch o.kind {
			case 'T':
				w.Advance(int64(o.dt))
			case 'O':
				cur[o.path] = &sysx.OriginResp{Status: o.status, Header: o.hdr, Body: o.body, Chunked: o.chunk, ReadErrAt: o.rerr}
				curOp[o.path] = o
			case 'R', 'A':
				req := SysReq{Method: o.method, Target: "/c/" + o.path, Host: "h1.test", Header: o.hdr}
				var v sysx.ClientView
				if o.kind == 'A' {
					// the client goes away after half of the body: the origin's answer stops there and its
					// body read ends with the request context's error
					if c := cur[o.path]; c != nil && len(c.Body) >= 8 {
						cp := *c
						cp.CancelAt = len(c.Body) / 2
						cur[o.path] = &cp
						v = w.DoAbort(req.Raw(), 0)
						cur[o.path] = c
					} else {
						v = w.DoAbort(req.Raw(), 0)
					}
				} else {
					v = w.Do(req.Raw(), o.method == "HEAD")
				}
				if v.Framing == "noresponse" {
					atomic.AddInt32(&scWedges, 1)
				}
				w.Quiesce()
				cs := w.Perf.Take()
				hs := sysx.SortedHeaderPairs(v.Header, map[string]bool{"date": true, "connection": true})
				out = append(out, hx.I(v.Status), v.Framing, hx.X(string(v.Body)), hx.I(len(hs)))
				for _, kv := range hs {
					out = append(out, hx.X(kv[0]), hx.X(kv[1]))
				}
				out = append(out, hx.I(len(cs)))
				for _, c := range cs {
					out = append(out, hx.X(c.Header.Get("If-None-Match")), hx.X(c.Header.Get("If-Modified-Since")), hx.X(c.Header.Get("Range")))
				}
			}
		}
		return out
	})
	return hx.Case{Stream: stream, ID: id, In: in, Impl: impl}
}
