package streams

// Stream halfclose (C05): a client that has sent its whole request shuts down the SENDING side of its connection and
// waits for the answer while the destination has taken the request and does not answer.  net/http cancels the request's
// context; rrrouter's outgoing request fails with that context's error.  The client is still there and must be told so:
// a well-formed ERROR response (5xx / 499), never a success status without content (seeded change C05-m7: writeError
// silent for "client gone" errors ⇒ net/http's implicit empty 200).
//
// One case: rules /u/* (plain) and /c/* (cache c1); per case a method, a rule, for the cached rule optionally a prior
// fill (fresh ⇒ the half-closed request is a HIT and is answered from the cache: the pending destination is never asked;
// stale ⇒ the revalidation is the pending request).  Waiting for the 3 s "destination was not asked" timer happens only
// on hits.
//
// Input tokens:  method rule(u|c) prior(0 none | 1 fresh | 2 stale) body
// Implementation tokens: [status framing body] of the prior fill if any, then status framing body contacts of the half-closed request

import (
	"net/http"
	"strings"

	"github.com/richiefi/rrrouter/config"
	"github.com/richiefi/rrrouter/proxy"
	"github.com/richiefi/rrrouter/verifhook"

	"rrverif/harness/hx"
	"rrverif/harness/sysx"
)

func init() { register("halfclose", halfcloseStream) }

func halfcloseStream(g *hx.Gen, id int) hx.Case {
	syscMu.Lock()
	defer syscMu.Unlock()
	method := g.Pick([]string{"GET", "GET", "GET", "HEAD", "POST", "PUT", "DELETE"})
	rule := g.Pick([]string{"u", "c", "c"})
	prior := 0
	if rule == "c" && (method == "GET" || method == "HEAD") && g.Chance(40) {
		prior = 1 + g.Intn(2)
		if id%16 != 0 {
			prior = 2 // (a hit costs the 3 s timer: few of them)
		}
	}
	body := "payload-" + hx.I(id) + "-" + g.Str("abcdef", 6)
	in := []string{hx.X(method), rule, hx.I(prior), hx.X(body)}
	impl := hx.Guard(func() []string {
		w := theWorld()
		rules, err := proxy.ParseRules([]byte(`{"rules":[{"path":"/u/*","destination":"http://o.test/$1"},{"path":"/c/*","destination":"http://o.test/$1","cache":"c1"}]}`), sysx.Logger)
		if err != nil {
			return []string{"err:rules"}
		}
		w.SetNow(1700000000)
		verifhook.SetClock(func() int64 { return w.NowUnix() })
		defer verifhook.SetClock(nil)
		w.Configure(rules, &config.Config{RetryTimes: []int{}})
		pend := false
		stored := []byte("stored-" + hx.I(id))
		w.Perf.Reset(func(req *http.Request) *sysx.OriginResp {
			if pend {
				return &sysx.OriginResp{Pend: true, ReadErrAt: -1}
			}
			return &sysx.OriginResp{Status: 200, Header: [][2]string{{"Cache-Control", "max-age=5"}, {"Content-Type", "text/plain"}}, Body: stored, ReadErrAt: -1}
		})
		out := []string{}
		path := "/" + rule + "/hc" + hx.I(id)
		if prior > 0 {
			v := w.Do(SysReq{Method: method, Target: path, Host: "h1.test"}.Raw(), method == "HEAD")
			w.Quiesce()
			w.Perf.Take()
			out = append(out, hx.I(v.Status), v.Framing, hx.X(string(v.Body)))
			if prior == 2 {
				w.Advance(30)
			}
		}
		pend = true
		req := SysReq{Method: method, Target: path, Host: "h1.test"}
		if method == "POST" || method == "PUT" {
			req.Body = []byte(body)
		}
		v := w.DoHalfClose(req.Raw(), method == "HEAD")
		w.Quiesce()
		cs := w.Perf.Take()
		out = append(out, hx.I(v.Status), v.Framing, hx.X(strings.TrimSpace(string(v.Body))), hx.I(len(cs)))
		return out
	})
	return hx.Case{Stream: "halfclose", ID: id, In: in, Impl: impl}
}
