package streams

// Stream wire (C01 C02): the REAL transport.  Every other system stream replaces http.Transport by a scripted
// performer; this one runs proxy.NewRouter - its own http.Transport with the dialer, resolver and connection pool
// NewRouter configures - behind server.ConfigureServeMux, against REAL local listeners.  What is checked is the one
// thing the scripted performer cannot see: that the connection which carries the outgoing request goes to the host
// and port written in the rule that was chosen ("the scheme, host and port contacted are exactly those written in
// the rule", C02; "proxied to the destination of the first rule ...", C01) - for every request of a HISTORY on one
// router (connections are pooled and dialled per destination; seeded changes C01-m8 / C02-m8: a dialer that
// remembers the last address per host NAME).
//
// One case: 2-3 destinations d0..d2 (listeners of this process; each answers with its own index, the request-target
// and the Host it was sent), all named either by host name ("localhost:<port>") or by IP literal ("127.0.0.1:<port>");
// 2-4 rules /pK/* -> http://dJ.wire/<prefix>$1 (the harness writes the real authority in place of dJ.wire when it
// builds the router; the model sees dJ.wire); a history of 4-8 GET requests over the rule paths (and a path no rule
// matches); destinations close the connection after an answer with probability 1/2 (so that later requests dial anew).
//
// Input tokens:  rules (hx.RulesTokens)  nReq {path}*
// Implementation tokens per request:  status destIndex(-1: none) requestTarget hostSeen
//   (Host as sent, with the real authority mapped back to dJ.wire)

import (
	"fmt"
	"io/ioutil"
	"net"
	"net/http"
	"net/http/httptest"
	"strconv"
	"strings"
	"sync"
	"time"

	"github.com/richiefi/rrrouter/caching"
	"github.com/richiefi/rrrouter/config"
	"github.com/richiefi/rrrouter/proxy"
	"github.com/richiefi/rrrouter/server"

	"rrverif/harness/hx"
	"rrverif/harness/sysx"
)

func init() { register("wire", wireStream) }

var (
	wireOnce  sync.Once
	wireDests []*httptest.Server
	wirePorts []string
	wireClose [3]bool // per destination: close the connection after the answer (set per request by the stream)
	wireMu    sync.Mutex
	wireNames bool // "localhost" resolves to 127.0.0.1 here
)

func wireSetup() {
	wireOnce.Do(func() {
		for i := 0; i < 3; i++ {
			idx := i
			s := httptest.NewServer(http.HandlerFunc(func(w http.ResponseWriter, r *http.Request) {
				if wireClose[idx] {
					w.Header().Set("Connection", "close")
				}
				w.Header().Set("Content-Type", "text/plain")
				fmt.Fprintf(w, "%d %s %s", idx, r.URL.RequestURI(), r.Host)
			}))
			wireDests = append(wireDests, s)
			_, port, _ := net.SplitHostPort(s.Listener.Addr().String())
			wirePorts = append(wirePorts, port)
		}
		if addrs, err := net.LookupHost("localhost"); err == nil {
			for _, a := range addrs {
				if a == "127.0.0.1" {
					wireNames = true
				}
			}
		}
	})
}

func wireStream(g *hx.Gen, id int) hx.Case {
	wireMu.Lock()
	defer wireMu.Unlock()
	nd := 2 + g.Intn(2)
	nr := 2 + g.Intn(3)
	rules := []hx.RuleSpec{}
	for k := 0; k < nr; k++ {
		j := k % nd
		if g.Chance(30) {
			j = g.Intn(nd)
		}
		r := hx.RuleSpec{Path: "/p" + hx.I(k) + "/*", Dest: "http://d" + hx.I(j) + ".wire/" + g.Pick([]string{"", "", "x/", "deep/er/"}) + "$1"}
		switch g.Intn(4) {
		case 0:
			r.HostHeader = "original"
		case 1:
			r.HostHeader = "destination"
		}
		rules = append(rules, r)
	}
	nq := 4 + g.Intn(5)
	paths := []string{}
	for i := 0; i < nq; i++ {
		if g.Chance(8) {
			paths = append(paths, "/none/"+g.Pick(hx.Segs))
			continue
		}
		paths = append(paths, "/p"+hx.I(g.Intn(nr))+"/"+g.Pick(hx.Segs)+g.Pick([]string{"", "", "?q=1", "/y?a=b"}))
	}
	closes := make([][3]bool, nq)
	for i := range closes {
		for d := 0; d < 3; d++ {
			closes[i][d] = g.Bool()
		}
	}
	byName := g.Chance(70)
	in := append(hx.RulesTokens(rules), hx.I(nq))
	for _, p := range paths {
		in = append(in, hx.X(p))
	}
	impl := hx.Guard(func() []string {
		wireSetup()
		host := "127.0.0.1"
		if byName && wireNames {
			host = "localhost"
		}
		real := make([]hx.RuleSpec, len(rules))
		for i, r := range rules {
			for j := 0; j < 3; j++ {
				r.Dest = strings.Replace(r.Dest, "d"+hx.I(j)+".wire", host+":"+wirePorts[j], 1)
			}
			real[i] = r
		}
		prs, err := proxy.ParseRules(hx.RulesJSON(real), sysx.Logger)
		if err != nil {
			return []string{"err:rules"}
		}
		conf := &config.Config{RetryTimes: []int{}}
		router := proxy.NewRouter(prs, sysx.Logger, conf)
		mux := http.NewServeMux()
		server.ConfigureServeMux(mux, conf, router, sysx.Logger, caching.NewCacheWithOptions(nil, sysx.Logger, time.Now))
		front := httptest.NewServer(mux)
		defer front.Close()
		client := &http.Client{Transport: &http.Transport{DisableKeepAlives: true}}
		out := []string{}
		for i, p := range paths {
			wireClose = closes[i]
			req, _ := http.NewRequest("GET", front.URL+p, nil)
			req.Host = "edge.test"
			resp, err := client.Do(req)
			if err != nil {
				out = append(out, "0", "-1", hx.X(""), hx.X(""))
				continue
			}
			b, _ := ioutil.ReadAll(resp.Body)
			resp.Body.Close()
			parts := strings.SplitN(string(b), " ", 3)
			if resp.StatusCode != 200 || len(parts) != 3 {
				out = append(out, hx.I(resp.StatusCode), "-1", hx.X(""), hx.X(""))
				continue
			}
			seen := parts[2]
			for j := 0; j < 3; j++ {
				seen = strings.Replace(seen, host+":"+wirePorts[j], "d"+hx.I(j)+".wire", 1)
			}
			if _, e := strconv.Atoi(parts[0]); e != nil {
				parts[0] = "-1"
			}
			out = append(out, "200", parts[0], hx.X(parts[1]), hx.X(seen))
		}
		return out
	})
	return hx.Case{Stream: "wire", ID: id, In: in, Impl: impl}
}
