#!/usr/bin/env python3
"""Confirms and evaluates the seeded changes delivered under $SEED_ROOT/<Cnn>/out/m<k> (default /tmp/seed2)."""
import os, re, subprocess, sys, glob
ROOT = os.path.dirname(os.path.abspath(__file__))
PKG = {"server": "server", "caching": "caching", "proxy": "proxy", "util": "util", "main": "cmd/richie-request-router", "config": "config"}
EXTRA = {"C05": ["C06", "C07", "C09"], "C07": ["C05", "C09", "C15"], "C09": ["C05", "C07"], "C10": ["C08"], "C11": ["C18"], "C12": ["C13", "C07"], "C13": ["C12"], "C16": ["C17"], "C17": ["C16"], "C14": ["C13"]}
only = sys.argv[1:]
SROOT = os.environ.get("SEED_ROOT", "/tmp/seed2")
for d in sorted(glob.glob(SROOT + "/C*/out/m*")):
    prop = d.split("/")[3]; mk = os.path.basename(d)
    if only and (prop + "-" + mk) not in only:
        continue
    tests = [f for f in os.listdir(d) if f.endswith("_test.go")]
    if not tests or not os.path.exists(os.path.join(d, "patch.diff")):
        print(prop, mk, "incomplete delivery"); continue
    src = open(os.path.join(d, tests[0])).read()
    pkg = re.search(r"^package (\w+)", src, re.M).group(1).replace("_test", "")
    names = re.findall(r"^func (Test\w+)\(", src, re.M)
    dst = PKG.get(pkg, pkg) + "/" + tests[0]
    tags = re.search(r"^//go:build (\w+)", src, re.M)
    cmd = "go test -vet=off -count=1 %s-run '%s' ./%s/" % (("-tags %s " % tags.group(1)) if tags else "", "|".join(names), PKG.get(pkg, pkg))
    props = [prop] + EXTRA.get(prop, [])
    p = subprocess.run([os.path.join(ROOT, "seed_eval.py"), prop, mk, "--demo-src", tests[0], "--demo-dst", dst, "--demo-cmd", cmd, "--props", ",".join(props), "--wt"],
                       cwd=ROOT, env=dict(os.environ, SEED_ROOT=SROOT), stdout=subprocess.PIPE, stderr=subprocess.STDOUT, text=True)
    tail = [l for l in p.stdout.split("\n") if l.startswith("confirm:") or l.startswith("stored") or "Error" in l or "assert" in l.lower()]
    print(prop, mk, " | ".join(tail), flush=True)
