import RrModel.Go.Header
import RrModel.Go.Res
import RrModel.Go.Sha1
import RrModel.Go.UrlEscape
import RrModel.Routing
import RrModel.Generated.Facts
/-
  The cache key, branch for branch:
    caching/caching.go  KeysFromRequest (429-446), newKey (448-451), Key.FsName (453-472),
                        prefixWithItemName (474-481), HasOpaqueOrigin/HasFullOrigin (483-489),
                        notFoundPreferredKey (165-173)
    util/http.go        AllowHeaders (124-143)
    proxy/rule.go       Rule.OverrideOnRequest (32-45)
    server/server.go    ruleDestinationRequest (464-466)
  What is keyed is `r.Host` — the CLIENT's Host — and `r.URL.RequestURI()` of the URL that
  `OverrideOnRequest` leaves in the request; the destination authority is not part of the key.
-/
namespace Model
open Go

/-- `caching.Key` (without `originalHeaders`, which no key function reads) -/
structure Key where
  method : Bytes
  host : Bytes
  path : Bytes
  opaqueOrigin : Bool
  storedHeaders : Header
  deriving Repr, DecidableEq

/-- the keys of the Go map a `Header` stands for (each key once; order immaterial, every
    consumer sorts or is order-insensitive) -/
def mapKeys : Header → List Bytes
  | [] => []
  | (k, _) :: t => if (mapKeys t).contains k then mapKeys t else k :: mapKeys t

/-- `util.AllowHeaders`: the keys whose lower-cased form is not on the allow-list are collected
    and then removed from a clone with `Header.Del` — which canonicalises its argument.  All
    values of an allowed header are kept. -/
def allowHeaders (h : Header) (allow : List Bytes) : Header :=
  let deleted := (mapKeys h).filter fun k => !(allow.contains (toLower k))
  deleted.foldl (fun out k => Header.del out k) h

/-- `newKey` -/
def newKey (method host path : Bytes) (opaqueOrigin : Bool) (original : Header)
    (allowKeys : List Bytes) : Key :=
  { method := method, host := host, path := path, opaqueOrigin := opaqueOrigin,
    storedHeaders := allowHeaders original allowKeys }

/-- the `*http.Request` as far as the key derivation reads it -/
structure Req where
  method : Bytes
  /-- `r.Host`: the Host the client sent (or the authority of an absolute-form target) -/
  host : Bytes
  /-- `r.URL.Scheme`, `r.URL.Host`: EMPTY for origin-form request-targets -/
  urlScheme : Bytes := []
  urlHost : Bytes := []
  /-- `r.URL.RequestURI()` -/
  uri : Bytes
  header : Header
  deriving Repr, DecidableEq

/-- `append(keyClientHeaders, "origin")` (keyClientHeaders has len = cap, so a fresh slice) -/
def keyClientHeadersWithOrigin : List Bytes := Facts.keyClientHeaders ++ [b!"origin"]

/-- the `method` local of `KeysFromRequest`: "" for GET -/
def keyMethod (m : Bytes) : Bytes := if m ≠ b!"GET" then m else []

/-- `caching.KeysFromRequest` -/
def keysFromRequest (r : Req) : List Key :=
  let method := keyMethod r.method
  if (Header.get r.header b!"origin").length > 0 then
    [ newKey method r.host r.uri false r.header keyClientHeadersWithOrigin,
      newKey method r.host r.uri true r.header Facts.keyClientHeaders ]
  else
    [ newKey method r.host r.uri false r.header Facts.keyClientHeaders ]

/-- the `http.Header` map in the order `FsName` walks it: sorted keys, each with its values -/
def storedNormal (h : Header) : List (Bytes × List Bytes) :=
  (sortBytes (mapKeys h)).map fun k => (k, Header.vals h k)

/-- `hs`: for every key in sorted order the key, then each of its values, nothing in between -/
def entriesString : List (Bytes × List Bytes) → Bytes
  | [] => []
  | (k, vs) :: t => k ++ (vs.flatten ++ entriesString t)

def opaqueMarker (o : Bool) : Bytes := if o then b!"opaqueOrigin" else []

/-- the string `FsName` hashes: `method + host + path + hs (+ "opaqueOrigin")` — the exact
    concatenation, no separators, no lengths -/
def keyString (k : Key) : Bytes :=
  k.method ++ (k.host ++ (k.path ++ (entriesString (storedNormal k.storedHeaders) ++ opaqueMarker k.opaqueOrigin)))

/-- `prefixWithItemName`: `s[:3]` panics on a shorter string -/
def prefixWithItemName (s : Bytes) : Res Bytes :=
  if s.length < 3 then .panic "prefixWithItemName: slice bounds out of range [:3]"
  else .ok ((s.take 3).flatMap fun c => [c, 47])

/-- `Key.FsName` -/
def fsName (k : Key) : Res Bytes :=
  let name := Sha1.sha1Hex (keyString k)
  (prefixWithItemName name).map (· ++ name)

/-- `notFoundPreferredKey`: the first opaque-origin key, else `keys[0]` -/
def notFoundPreferredKey (keys : List Key) : Res Key :=
  match keys.find? (·.opaqueOrigin) with
  | some k => .ok k
  | none =>
    match keys with
    | [] => .panic "notFoundPreferredKey: index out of range [0]"
    | k :: _ => .ok k

/-- position of the preferred key in the list (for the line protocol) -/
def preferredIndex (keys : List Key) : Option Nat :=
  match notFoundPreferredKey keys with
  | .ok k => keys.findIdx? (· == k)
  | .panic _ => none

def Key.hasOpaqueOrigin (k : Key) : Bool := k.opaqueOrigin

def Key.hasFullOrigin (k : Key) : Bool :=
  k.opaqueOrigin == false && decide ((Header.get k.storedHeaders b!"origin").length > 0)

/-- `url.Parse(dest)` as far as `RequestURI`, `Scheme` and `Host` of the result are concerned -/
def parseDest (dest : Bytes) : Option (Bytes × Bytes × Bytes) :=
  match Url.split dest with
  | none => none
  | some u =>
    match UrlEsc.requestURI u with
    | none => none
    | some uri => some (u.scheme, UrlEsc.hostOfAuthority (u.authority.getD []), uri)

/-- the destination URL `OverrideOnRequest` installs, if it installs one: the rule is
    re-matched with `r.URL.Scheme`, `r.URL.Host` (both empty for an origin-form request, so a
    host- or scheme-constrained rule never re-matches) and `r.URL.RequestURI()` -/
def overrideTarget (rule : Rule) (r : Req) : Option (Bytes × Bytes × Bytes) :=
  match attemptMatch rule r.urlScheme r.urlHost r.uri with
  | none => none
  | some dest => parseDest dest

/-- `ruleDestinationRequest` = `Rule.OverrideOnRequest` on a clone: only `r.URL` can change;
    `r.Host`, method and headers stay the client's -/
def overrideOnRequest (rule : Rule) (r : Req) : Req :=
  match overrideTarget rule r with
  | none => r
  | some (scheme, host, uri) => { r with urlScheme := scheme, urlHost := host, uri := uri }

/-- the keys the caching handler derives for a routed request (server.go:138) -/
def requestKeys (rule : Rule) (r : Req) : List Key := keysFromRequest (overrideOnRequest rule r)

/-- the five fields of a key as data (the stored header map in its canonical order) -/
structure KeyFields where
  method : Bytes
  host : Bytes
  path : Bytes
  headers : List (Bytes × List Bytes)
  opaqueOrigin : Bool
  deriving Repr, DecidableEq

def Key.fields (k : Key) : KeyFields :=
  ⟨k.method, k.host, k.path, storedNormal k.storedHeaders, k.opaqueOrigin⟩

/-- the field LENGTHS of a key: everything unseparated concatenation forgets -/
structure KeyShape where
  method : Nat
  host : Nat
  path : Nat
  headers : List (Nat × List Nat)
  deriving Repr, DecidableEq

def entryShape (e : Bytes × List Bytes) : Nat × List Nat := (e.1.length, e.2.map List.length)

def Key.shape (k : Key) : KeyShape :=
  ⟨k.method.length, k.host.length, k.path.length, (storedNormal k.storedHeaders).map entryShape⟩

end Model
