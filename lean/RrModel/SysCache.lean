import RrModel.CacheControl
import RrModel.Freshness
import RrModel.Conditional
import RrModel.Codec
import RrModel.Range
import RrModel.Key
/-
  SysCache — the SEQUENTIAL system model of the cached request path: one request at a time through
  `server.cachingHandler`/`cachingFunc` (server.go:90-491), `requestHandler`/`writeBody`/
  `makeCachingWriteBody`/`sendBody` (server.go:558-813), `cache.Get`/`getReaderOrWriter`
  (caching.go:178-339), `cachingResponseWriter` (caching.go:618-756), `storage.Get`/`GetWriter`
  (disk.go:315-408) and `storageWriter.{WriteHeader,Write,Close,ChangeKey,Delete,WrittenFile}`
  (disk.go:950-1314), composed from the function-level models (CacheControl, Freshness, Conditional,
  Codec, Range, Key) and written branch for branch from the Go text, defects included.

  World of the model (= the world of the correspondence stream `sysc`): ONE cache-enabled rule without
  host/scheme constraint, recompression, response_headers, request_headers, retry_rule or
  restart_on_redirect; optional force_revalidate; an origin scripted per path; an injected clock.
  Histories are sequential: a request starts when the previous one has returned and the notifier
  goroutine has worked off its releases, so the lock table `waitingReaders` is EMPTY at the start of
  every request (the schedule-level model `Conc` covers what happens otherwise).  Inside one request
  the key is held from `getReaderOrWriter` until the deferred `cache.Finish`, except that
  `storageWriter.Close`'s own notification releases it earlier (finishAndNotify): the re-entries after
  a 304 and after stale-if-error therefore find the lock table empty again (the notifier has taken
  the release before `Close` returns: unbuffered channel; the deletion itself races with the
  re-entry's `storage.Get`, which is file I/O - declared domain: the notifier wins).

  The disk is a total function from the KEY STRING (what `FsName` hashes; SHA-1 is injective on the
  strings in play - trusted) to an optional file `{body, xattr}`; the xattr holds the bytes
  `encodeStorageMetadata` produced and every read goes through `decodeStorageMetadata` (Codec), so the
  codec's infidelities (finding C07-a) are part of the model.  A file without xattr is what a crash
  or an unfinished fill leaves behind; `storage.Get` removes it.

  What the model returns per request is the HANDLER-level response (status, header map, bytes written)
  mapped through `wire`, the part of net/http's server that the properties speak about (trusted, see
  `wire`), plus the list of origin contacts with the three request headers the cache manages.
-/
namespace Model.SysCache
open Go Model

/-! ### the scripted origin (harness/sysx.Performer as driven by stream `sysc`) -/

structure Origin where
  status : Nat
  /-- header lines in wire order, repeated names allowed -/
  headers : List (Bytes × Bytes)
  body : Bytes
  /-- no Content-Length, `ContentLength = -1` -/
  chunked : Bool := false
  /-- the body read fails after this many bytes (`none`: never) -/
  readErrAt : Option Nat := none
  /-- the origin honours If-None-Match: 304 when it names the current ETag -/
  cond : Bool := false
  /-- … and that 304 carries `Content-Length: 0` -/
  cl0 : Bool := false
  /-- … and this Cache-Control instead of the 200's (`[]` = the same, `-` = none at all: a bare 304) -/
  cc304 : Bytes := []
  deriving Repr, DecidableEq

/-- `*http.Response` as the handler sees it -/
structure Resp where
  status : Nat
  header : Header
  /-- `Response.ContentLength` (-1 = unknown) -/
  contentLength : Int
  /-- the bytes the body reader hands out before it ends -/
  body : Bytes
  /-- the body reader ends with an error instead of `io.EOF` -/
  readErr : Bool := false
  deriving Repr, DecidableEq

def addAll (lines : List (Bytes × Bytes)) : Header := lines.foldl (fun h kv => h.add kv.1 kv.2) []

/-- the last `ETag` line of the script (`for _, kv := range o.hdr { if kv[0] == "ETag" … }`) -/
def scriptEtag (o : Origin) : Bytes :=
  o.headers.foldl (fun acc kv => if kv.1 = b!"ETag" then kv.2 else acc) []

/-- the 304 of a conditional origin: its `ETag` and `Cache-Control` lines (the latter replaced by
    `cc304` when given), optionally `Content-Length: 0` -/
def lines304 (o : Origin) : List (Bytes × Bytes) :=
  (o.headers.filter fun kv =>
      if kv.1 = b!"Cache-Control" ∧ o.cc304 ≠ [] then false else (kv.1 = b!"ETag" || kv.1 = b!"Cache-Control")) ++
  (if o.cc304 ≠ [] ∧ o.cc304 ≠ b!"-" then [(b!"Cache-Control", o.cc304)] else []) ++
  (if o.cl0 then [(b!"Content-Length", b!"0")] else [])

/-- what the performer answers: `method` and the request header as sent to the origin;
    `cancelAt`: the client goes away when this many body bytes have arrived (stream op `A`) -/
def originAnswer (o : Origin) (method : Bytes) (req : Header) (cancelAt : Option Nat) : Resp :=
  let etag := scriptEtag o
  if o.cond ∧ etag ≠ [] ∧ req.get b!"If-None-Match" = etag then
    { status := 304, header := addAll (lines304 o), contentLength := 0, body := [] }
  else
    let h0 := addAll o.headers
    let h := if o.chunked then h0.del b!"Content-Length" else h0.set b!"Content-Length" (itoa o.body.length)
    let cl : Int := if o.chunked then -1 else o.body.length
    if method = b!"HEAD" then { status := o.status, header := h, contentLength := cl, body := [] }
    else
      match cancelAt with
      | some at_ =>
        if 0 < at_ ∧ at_ < o.body.length then
          { status := o.status, header := h, contentLength := cl, body := o.body.take at_, readErr := true }
        else
          match o.readErrAt with
          | some e => if e < o.body.length then { status := o.status, header := h, contentLength := cl, body := o.body.take e, readErr := true }
                      else { status := o.status, header := h, contentLength := cl, body := o.body }
          | none => { status := o.status, header := h, contentLength := cl, body := o.body }
      | none =>
        match o.readErrAt with
        | some e => if e < o.body.length then { status := o.status, header := h, contentLength := cl, body := o.body.take e, readErr := true }
                    else { status := o.status, header := h, contentLength := cl, body := o.body }
        | none => { status := o.status, header := h, contentLength := cl, body := o.body }

/-! ### the disk -/

structure File where
  body : Bytes
  /-- `user.rrrouter`: `none` = not set (unfinished or crashed fill) -/
  xattr : Option Bytes
  deriving Repr, DecidableEq

abbrev Disk := Bytes → Option File

def Disk.empty : Disk := fun _ => none
def Disk.upd (d : Disk) (k : Bytes) (f : Option File) : Disk := fun k' => if k' = k then f else d k'

/-- one contact with the origin: the three request headers the cache manages, as sent -/
structure Contact where
  inm : Bytes
  ims : Bytes
  range : Bytes
  deriving Repr, DecidableEq

/-- what the handler did with the client's `http.ResponseWriter` -/
structure HandlerOut where
  /-- `false`: the handler returned without writing anything (net/http then sends an empty 200) -/
  wrote : Bool := true
  status : Nat := 200
  header : Header := []
  /-- the byte strings handed to `Write`/`ReadFrom`, one element per call, in order -/
  writes : List Bytes := []
  /-- the handler does not return within any client's patience (it waits for a key that it holds itself:
      30 s of real time, then `503`) -/
  hang : Bool := false
  deriving Repr, DecidableEq

/-- what the client reads off the wire -/
structure Obs where
  status : Nat
  /-- `complete` | `cutshort` -/
  complete : Bool
  body : Bytes
  header : Header
  contacts : List Contact
  /-- branch label (Appendix A of DESIGN.md) -/
  label : String
  /-- no response within the client's deadline -/
  hang : Bool := false
  deriving Repr

/-- the writes net/http accepts under a declared `Content-Length`: a `Write` that would exceed it
    is refused as a whole (`http.ErrContentLength`), and every writer of rrrouter stops at the
    first failed write -/
def acceptWrites (cl : Nat) : Nat → List Bytes → Bytes
  | _, [] => []
  | n, w :: ws => if n + w.length > cl then [] else w ++ acceptWrites cl (n + w.length) ws

/-- net/http's server, as far as the properties speak about it (TRUSTED, not modelled further):
    the status and header map of `WriteHeader` go out as they are, except that the statuses
    1xx/204/304 lose a `Content-Length` (304 a `Content-Type` too); a response to HEAD and those statuses have no body; with a
    declared `Content-Length` a write beyond it is refused and the connection is cut when fewer
    bytes were written; a handler that writes nothing produces an empty `200`. -/
def wire (method : Bytes) (o : HandlerOut) : Nat × Bool × Bytes × Header :=
  if !o.wrote then (200, true, [], []) else
  let bodyless := o.status = 304 ∨ o.status = 204 ∨ (100 ≤ o.status ∧ o.status < 200)
  -- (`suppressedHeaders`: Content-Length for all of them, Content-Type too for 304)
  if bodyless then (o.status, true, [], if o.status = 304 then (o.header.del b!"Content-Length").del b!"Content-Type"
                                         else o.header.del b!"Content-Length") else
  if method = b!"HEAD" then (o.status, true, [], o.header) else
  match atoi (o.header.get b!"Content-Length") with
  | some n =>
    if n < 0 then (o.status, true, o.writes.flatten, o.header)
    else
      let got := acceptWrites n.toNat 0 o.writes
      (o.status, decide ((got.length : Int) = n), got, o.header)
  | none => (o.status, true, o.writes.flatten, o.header)

/-! ### configuration and state -/

structure Config where
  /-- the rule's `force_revalidate` (0 = none) -/
  force : Nat := 0
  /-- `ETAG_SUFFIX` -/
  sfx : Option Bytes := none
  /-- the Host the clients send (`r.Host`, part of the key) -/
  host : Bytes := b!"h1.test"
  /-- the harness's performer refuses a contact when this many were made for the request already
      (its watchdog against handlers that never end) -/
  contactLimit : Nat := 300
  deriving Repr

structure State where
  now : Int
  disk : Disk
  /-- current origin answer per destination path (without the leading `/`) -/
  origin : Bytes → Option Origin

def State.init (now : Int) : State := { now := now, disk := Disk.empty, origin := fun _ => none }

/-- the client's request as the handler receives it -/
structure Request where
  method : Bytes
  /-- destination path without the leading `/` (the wildcard capture) -/
  path : Bytes
  header : Header
  /-- stream op `A`: the client goes away when half of the origin's body has arrived -/
  abort : Bool := false
  deriving Repr

def Request.uri (r : Request) : Bytes := b!"/" ++ r.path

/-! ### storage.Get (disk.go:349-408) -/

/-- the metadata as decoded from the xattr, plus `FdSize` -/
structure Stored where
  «meta» : Codec.Meta
  file : File
  deriving Repr

inductive GetRes where
  /-- `decodeStorageMetadata` panicked (run-time panic inside the handler) -/
  | panic (site : String)
  | found (k : Key) (s : Stored)
  | notFound
  deriving Repr

/-- the per-key body of the loop: `none` = `continue` (after removing the file when it is corrupt) -/
def getOne (d : Disk) (k : Key) : Disk × Res (Option Stored) :=
  match d (keyString k) with
  | none => (d, .ok none)
  | some f =>
    match f.xattr with
    | none => (d.upd (keyString k) none, .ok none)           -- xattr.FGet fails ⇒ os.Remove
    | some x =>
      match Codec.decode x with
      | .panic s => (d, .panic s)
      | .ok none => (d.upd (keyString k) none, .ok none)      -- undecodable ⇒ os.Remove
      | .ok (some m) =>
        -- the Content-Length comparison is dead code (`err != nil && contentLength > 0`): with a
        -- non-empty header value nothing is checked; without one the sizes must agree
        if (m.respHeader.get b!"content-length").length > 0 then (d, .ok (some ⟨m, f⟩))
        else if (f.body.length : Int) ≠ m.size then (d.upd (keyString k) none, .ok none)
        else (d, .ok (some ⟨m, f⟩))

def storageGet (d : Disk) : List Key → Disk × GetRes
  | [] => (d, .notFound)
  | k :: ks =>
    match getOne d k with
    | (d', .panic s) => (d', .panic s)
    | (d', .ok (some s)) => (d', .found k s)
    | (d', .ok none) => storageGet d' ks

/-! ### the writer (cachingResponseWriter around storageWriter) -/

/-- the fields of `storageWriter`/`cachingResponseWriter` that matter sequentially -/
structure Writer where
  key : Key
  /-- key string of `sw.path` (without a `.tmp` suffix) -/
  path : Bytes
  /-- `GetWriter(…, revalidate)`: sets `wasRevalidated` from the start -/
  revalidating : Bool
  diskWritesDisabled : Bool := false
  deriving Repr

/-- `storageWriter.ChangeKey` (disk.go:1252-1281): the file at the old path moves to the new one
    unless something is there already; the writer continues at the new path -/
def changeKey (d : Disk) (w : Writer) (k : Key) : Disk × Writer :=
  if w.diskWritesDisabled then (d, w) else
  let np := keyString k
  let d' := match d np with
    | some _ => d
    | none => match d w.path with
      | some f => (d.upd w.path none).upd np (some f)
      | none => d
  (d', { w with path := np, key := k })

/-- statuses `cachingResponseWriter.WriteHeader` lets through to `storageWriter.WriteHeader` -/
def inGate (s : Nat) : Bool :=
  s = 200 || Codec.isCacheableError s || Facts.redirectStatuses.contains s

/-- the sanity check of `Close` (disk.go:1158): an empty file is only published for HEAD keys,
    204, cacheable errors and redirects -/
def emptyAllowed (keyMethod : Bytes) (status : Int) : Bool :=
  keyMethod = b!"HEAD" || status = 204 || Codec.isCacheableError status ||
    Facts.redirectStatuses.contains status.toNat

/-- `sendBody` (server.go:678-714) with the size it is GIVEN (`cr.Metadata.Size` on the hit path, the
    file's own size on the filling path): `Seek(start)` fails for a negative offset, `LimitReader`
    yields nothing for a non-positive size, reading stops at end of file -/
def sendBody (rr : Option Range.ReqRange) (size : Int) (file : Bytes) : Bytes :=
  match rr with
  | none => if size ≤ 0 then [] else file.take size.toNat
  | some r =>
    let start := r.start size
    if start < 0 then []
    else
      let readSize := r.size size
      if readSize ≤ 0 then [] else (file.drop start.toNat).take readSize.toNat

/-- result of `writeBody` + `Close` + `errCleanup` + `WrittenFile`/`sendBody` of the caching stack:
    the new disk and the bytes that reach the client's writer -/
structure FillRes where
  disk : Disk
  toClient : Bytes
  label : String

/-- `storageWriter.Close` on a writer that never got a file of its own (`sw.fd == nil`,
    disk.go:1057-1076) and was created revalidating: the OLD file is re-opened, its metadata read,
    `Revalidated := now`, headers merged with `revalidatedHeader` (a 304's), sizes checked, the
    xattr rewritten in place.  `none` = Close returned an error after `Delete` (file removed). -/
def republish (d : Disk) (w : Writer) (now : Int) (h304 : Option Header) : Disk × Bool :=
  match d w.path with
  | none => (d, false)                                        -- os.OpenFile fails ⇒ Delete ⇒ error
  | some f =>
    match f.xattr.map Codec.decode with
    | some (.ok (some m)) =>
      let hdr := match h304 with
        | some h => Conditional.merge304 m.respHeader h
        | none => m.respHeader
      let m' := { m with revalidated := now, respHeader := hdr }
      -- `sw.responseHeader` is nil here, so the size test is the else-branch: sizeOnDisk vs metadata.Size
      if (f.body.length : Int) ≠ m'.size then (d.upd w.path none, false)
      else if f.body.length = 0 ∧ !emptyAllowed w.key.method m'.status then (d.upd w.path none, false)
      else (d.upd w.path (some { f with xattr := some (Codec.encode m') }), true)
    | _ => (d.upd w.path none, false)                         -- getStorageMetadata fails ⇒ Delete

/-- the caching stack for one origin response whose header went to the client as `clientHeader`
    with `status` (server.go:485 with `makeCachingWriteBody`; caching.go:637-661; disk.go:950-1250).
    `rr` = the parsed Range of the request. -/
def cachingFill (cfg : Config) (d : Disk) (w : Writer) (now : Int) (status : Nat) (clientHeader : Header)
    (resp : Resp) (redirect : Bytes) (rr : Option Range.ReqRange) : FillRes :=
  -- cachingResponseWriter.WriteHeader: 206 is stored as 200 with the total length
  let stStatus := if status = 206 then 200 else status
  let stHeader :=
    if status = 206 then
      let cl := Range.contentLengthFromRange (clientHeader.get b!"content-range")
      let h := Codec.denyHeaders clientHeader [b!"content-range"]
      if cl.length > 0 then h.set b!"content-length" cl else h
    else clientHeader
  if !inGate stStatus then
    -- no file of its own: `sw.fd == nil`
    if resp.body.length > 0 then
      -- the first Write fails (nil fd); Close; errCleanup = Delete (removes `sw.path`)
      let d1 := if w.revalidating then (republish d w now none).1 else d
      { disk := d1.upd w.path none, toClient := [], label := "w:nogate-body" }
    else if resp.readErr then
      let d1 := if w.revalidating then (republish d w now none).1 else d
      { disk := d1.upd w.path none, toClient := [], label := "w:nogate-readerr" }
    else
      -- nothing to write; Close; WrittenFile re-opens `sw.path`
      if w.revalidating then
        let (d1, ok) := republish d w now none
        if ok then
          match d1 w.path with
          | some f => { disk := d1, toClient := sendBody rr f.body.length f.body, label := "w:nogate-oldbody" }
          | none => { disk := d1, toClient := [], label := "w:nogate-empty" }
        else { disk := d1, toClient := [], label := "w:nogate-empty" }   -- closeErr ⇒ errCleanup; body not sent
      else { disk := d, toClient := [], label := "w:nogate-empty" }
  else
    -- storageWriter.WriteHeader: the directive test runs on the header map the client was sent
    if (getCacheControlDirectives stHeader).doNotCache then
      -- `sw.invalidated`: writes are dropped; Close re-opens the OLD file of a revalidating writer and
      -- then deletes it (`if sw.invalidated { sw.Delete() }`); WrittenFile yields nothing
      { disk := if w.revalidating then d.upd w.path none else d, toClient := [], label := "w:invalidated" }
    else
      let stored := Codec.storePrep cfg.sfx stStatus stHeader
      let «meta» : Codec.Meta :=
        { host := w.key.host, path := w.key.path, reqHeader := w.key.storedHeaders, respHeader := stored,
          status := stStatus, redirect := redirect, created := now,
          revalidated := if w.revalidating then now else 0, size := resp.body.length }
      let file : File := { body := resp.body, xattr := some (Codec.encode «meta») }
      if resp.readErr then
        -- Close publishes what arrived, errCleanup removes it again (finding C13-a lives in between)
        { disk := d.upd w.path none, toClient := [], label := "w:fill-readerr" }
      else if resp.body.length = 0 ∧ !emptyAllowed w.key.method stStatus then
        -- Close deletes the empty file and fails; WrittenFile then finds nothing
        -- (an existing file - revalidation - was being replaced through `<name>.tmp`: only that goes)
        { disk := if (d w.path).isSome then d else d.upd w.path none, toClient := [], label := "w:fill-empty" }
      else
        { disk := d.upd w.path (some file), toClient := sendBody rr resp.body.length resp.body, label := "w:fill" }

/-- the plain stack (`writeBody` straight to the client): everything the reader hands out -/
def plainBody (resp : Resp) : List Bytes := if resp.body.length = 0 then [] else [resp.body]

/-- one `ReadFrom`/`Write` call with these bytes (none for an empty string) -/
def oneWrite (b : Bytes) : List Bytes := if b.length = 0 then [] else [b]

/-! ### cachingFunc -/

def kStatus : Bytes := b!"richie-edge-cache"

/-- `alwaysInclude.Set` for the range headers of `setRangedHeaders` -/
def withRange (ai : Header) (set : Option (Bytes × Bytes)) : Header :=
  match set with
  | some (cl, cr) => (ai.set b!"content-length" cl).set b!"content-range" cr
  | none => ai

def contactOf (h : Header) : Contact :=
  { inm := h.get b!"If-None-Match", ims := h.get b!"If-Modified-Since", range := h.get b!"Range" }

/-- the answer to one request; `fuel` bounds the re-entries of `cachingFunc` after a 304 and after
    stale-if-error (there is no bound in the code: DESIGN 11.9) -/
structure Ans where
  disk : Disk
  out : HandlerOut
  contacts : List Contact
  label : String

def errorJSON (code : Nat) (msg : Bytes) : HandlerOut :=
  { status := code, header := Header.set [] b!"Content-Type" b!"application/json",
    writes := [b!"{\"Message\":\"" ++ msg ++ b!"\"}\n"] }

/-- the Found row (server.go:216-281) without restart_on_redirect -/
def foundHit (cfg : Config) (s : Stored) (age : Int) (isStale : Bool) (ai : Header)
    (rr : Option Range.ReqRange) : HandlerOut × String :=
  let st := ai.get kStatus
  let ai := if st.length = 0 then ai.set kStatus (if isStale then b!"stale" else b!"hit")
            else if st = b!"pass" then ai.set kStatus b!"hit" else ai
  let ai := ai.set b!"Age" (itoa age)
  let status : Nat := s.meta.status.toNat
  match rr with
  | some _ =>
    if s.file.body.length = 0 then ({ status := 503 }, "f:zero503")
    else if status = 200 then
      let cl : Int := (atoi (s.meta.respHeader.get b!"content-length")).getD 0
      let (st2, set) := Range.setRangedHeaders rr cl 200
      if st2 ≥ 400 then ({ status := st2 }, "f:416")
      else
        let h := Conditional.suffixETag cfg.sfx (Conditional.copyHeaders s.meta.respHeader (withRange ai set))
        ({ status := st2, header := h, writes := oneWrite (sendBody rr s.meta.size s.file.body) }, "f:hit-range")
    else
      let h := Conditional.suffixETag cfg.sfx (Conditional.copyHeaders s.meta.respHeader ai)
      ({ status := status, header := h, writes := oneWrite (sendBody rr s.meta.size s.file.body) }, "f:hit-range-n200")
  | none =>
    let h := Conditional.suffixETag cfg.sfx (Conditional.copyHeaders s.meta.respHeader ai)
    ({ status := status, header := h, writes := oneWrite (sendBody none s.meta.size s.file.body) }, "f:hit")

/-- `requestHandler` on the plain stack: origin headers ⊕ alwaysInclude, ETag suffixed; a 304
    (status after override) has no body; otherwise the body is streamed as it is read -/
def plainOut (cfg : Config) (resp : Resp) (ai : Header) (statusOverride : Option Nat) : HandlerOut :=
  let h := Conditional.suffixETag cfg.sfx (Conditional.copyHeaders resp.header ai)
  let status := statusOverride.getD resp.status
  if status = 304 then { status := 304, header := h } else { status := status, header := h, writes := plainBody resp }

/-- what `cache.Get` hands to `cachingFunc` for the request's key list (caching.go:178-339 with the
    lock table empty): the disk after `storage.Get`'s clean-up, and the decision -/
inductive Lookup where
  /-- run-time panic inside `decodeStorageMetadata` or the ETag comparison -/
  | panic
  /-- `Found`, `Metadata.Status = 304` -/
  | notModified (s : Stored)
  /-- `Found` with a reader; `stale` = `IsStale` -/
  | serve (s : Stored) (age : Int) (stale : Bool)
  /-- `NotFoundWriter` (`none`) or `RevalidatingWriter` for the entry found under `k` -/
  | writer (reval : Option (Key × Stored × Int))
  deriving Repr

def entryOf (s : Stored) : Freshness.Entry :=
  { header := s.meta.respHeader, created := s.meta.created, revalidated := s.meta.revalidated }

def lookup (cfg : Config) (now : Int) (keys : List Key) (d : Disk) (client : Header) (skipRevalidate : Bool) :
    Disk × Lookup :=
  match storageGet d keys with
  | (d', .panic _) => (d', .panic)
  | (d', .notFound) => (d', .writer none)
  | (d', .found k s) =>
    -- cache.Get's decision for a stored entry (caching.go:202-290)
    match Freshness.decide (entryOf s) now cfg.force skipRevalidate
        (client.get b!"if-none-match") (client.get b!"if-modified-since") cfg.sfx with
    | .panic _ => (d', .panic)
    | .ok .notModified304 => (d', .notModified s)
    | .ok (.fresh age) => (d', .serve s age false)
    | .ok (.staleServe age) => (d', .serve s age true)
    | .ok (.revalidate _ age) => (d', .writer (some (k, s, age)))

/-- the outcome of ONE activation of `cachingFunc`: an answer, or a re-entry of `cachingFunc` with a
    new disk, client header, alwaysInclude map and `skipRevalidate` (server.go:395, server.go:418) -/
inductive Step where
  | done (a : Ans)
  | reenter (disk : Disk) (client ai : Header) (skipRevalidate : Bool) (contacts : List Contact) (tag : String)
  /-- the re-entry after a 304 of a writer whose disk writes are disabled (request with Authorization):
      `SetRevalidatedAndClose` returns without `Close`, so the key is STILL HELD by this very request -/
  | reenterLocked (disk : Disk) (client ai : Header) (contacts : List Contact) (tag : String)

/-- stream op `A`: where the client goes away -/
def cancelAtOf (origin : Bytes → Option Origin) (req : Request) : Option Nat :=
  if req.abort then (origin req.path).bind fun o => if o.body.length ≥ 8 then some (o.body.length / 2) else none else none

/-- one contact with the origin (`none`: the performer's watchdog refuses it) -/
def ask (cfg : Config) (origin : Bytes → Option Origin) (req : Request) (cs : List Contact) (h : Header) : Option Resp :=
  if cs.length ≥ cfg.contactLimit then none
  else (origin req.path).map fun o => originAnswer o req.method h (cancelAtOf origin req)

/-- the performer's log; a refused contact is not in it -/
def logged (cfg : Config) (cs : List Contact) (h : Header) : List Contact :=
  if cs.length ≥ cfg.contactLimit then cs else cs ++ [contactOf h]

/-- the writer `cache.Get` hands out on a writer row: for the key the entry was found under
    (RevalidatingWriter) or for the preferred key of the list (NotFoundWriter) -/
def writerOf (keys : List Key) (client : Header) (reval : Option (Key × Stored × Int)) : Writer :=
  let key : Key := match reval with
    | some (k, _, _) => k
    | none => match notFoundPreferredKey keys with | .ok k => k | .panic _ => keys.headD ⟨[], [], [], false, []⟩
  { key := key, path := keyString key, revalidating := reval.isSome,
    diskWritesDisabled := (client.get b!"authorization").length > 0 }

/-- the header surgery before the origin is asked (server.go:283-352) -/
def surgeryOf (rr : Option Range.ReqRange) (client : Header) (reval : Option (Key × Stored × Int)) : Conditional.Surgery :=
  let storedHdr : Header := match reval with | some (_, s, _) => s.meta.respHeader | none => []
  Conditional.surgery (if reval.isSome then .revalidating else .notFound) rr.isSome client storedHdr

/-- server.go:371-380: a parsed Range against a 200 of the origin: the early 416, or the status override
    206 with the range headers added to alwaysInclude -/
def rangeAdjust (rr : Option Range.ReqRange) (resp : Resp) (ai : Header) : Option Nat × Option Nat × Header :=
  if rr.isSome ∧ resp.status = 200 then
    let (s2, set) := Range.setRangedHeaders rr resp.contentLength 200
    if s2 ≥ 400 then (some s2, none, ai) else (none, some s2, withRange ai set)
  else (none, none, ai)

/-- Vary: Origin re-keying (server.go:457-467) -/
def rekey (dirs : Directives) (keys : List Key) (d : Disk) (w : Writer) : Disk × Writer :=
  if dirs.varyByOrigin ∧ w.key.hasOpaqueOrigin then
    keys.foldl (fun (acc : Disk × Writer) k => if k.hasFullOrigin then changeKey acc.1 acc.2 k else acc) (d, w)
  else (d, w)

/-- the entry's stale-if-error allowance against a failed revalidation (server.go:404-418) -/
def staleIfErrorOf (reval : Option (Key × Stored × Int)) (resp : Resp) : Bool :=
  match reval with
  | some (_, s, age) => decide (resp.status ≥ 400) && (getCacheControlDirectives s.meta.respHeader).canStaleIfError age
  | none => false

/-- the row `w:304` (server.go:383-397): the origin confirmed the stored entry; `SetRevalidatedAndClose`, the client's
    own validator is restored, `cachingFunc` re-enters -/
def row304 (d : Disk) (ai : Header) (cs : List Contact) (w : Writer) (sg : Conditional.Surgery) (resp : Resp) (now : Int) : Step :=
  let client1 := if sg.used.length > 0 then sg.req.del sg.used else sg.req
  let client2 := if sg.clientKey.length > 0 ∧ sg.clientVal.length > 0 then client1.set sg.clientKey sg.clientVal else client1
  if w.diskWritesDisabled then
    -- caching.go:713-716: nothing is written AND the writer is not closed: the key stays held
    .reenterLocked d client2 (ai.set kStatus b!"revalidated") cs "w:304>"
  else
    match republish d w now (some (Conditional.dropZeroContentLength resp.header)) with
    | (d1, false) => .done { disk := d1, out := { status := 500 }, contacts := cs, label := "w:304-closeerr" }
    -- (since the fix: commit for the two-values loop the re-entry runs with skipRevalidate = true: the entry the
    -- origin has just confirmed is served, not asked about again)
    | (d1, true) => .reenter d1 client2 (ai.set kStatus b!"revalidated") true cs "w:304>"

/-- a writer row after the origin has answered with `resp` (server.go:371-478); `cs` = the performer's
    log including this contact -/
def afterAnswer (cfg : Config) (now : Int) (keys : List Key) (rr : Option Range.ReqRange) (d : Disk)
    (ai : Header) (cs : List Contact) (reval : Option (Key × Stored × Int)) (w : Writer)
    (sg : Conditional.Surgery) (resp : Resp) : Step :=
  match rangeAdjust rr resp ai with
  | (some s2, _, _) => .done { disk := d, out := { status := s2 }, contacts := cs, label := "w:416" }
  | (none, statusOverride, ai) =>
    let dirs := getCacheControlDirectives resp.header
    let client1 := if sg.used.length > 0 then sg.req.del sg.used else sg.req
    if sg.used.length > 0 ∧ resp.status = 304 ∧ !dirs.doNotCache then
      -- the row `w:304`: SetRevalidatedAndClose, restore the client's validator, re-enter
      row304 d ai cs w sg resp now
    else if dirs.doNotCache then
      -- the row `w:uncacheable` (any status, a 304 included): plain stack, the entry stays as it is
      .done { disk := d, out := plainOut cfg resp (ai.set kStatus b!"uncacheable") statusOverride, contacts := cs, label := "w:uncacheable" }
    else if staleIfErrorOf reval resp then
      -- the row `w:stale`: SetRevalidateErroredAndClose (the entry is untouched), re-enter with skipRevalidate
      .reenter d client1 (ai.set kStatus b!"stale") true cs "w:stale>"
    else
      let ai := ai.set kStatus (if reval.isSome then b!"revalidated" else b!"miss")
      let ai := if w.diskWritesDisabled then ai.set kStatus b!"pass" else ai
      let ai := ai.set b!"Age" b!"0"
      match rekey dirs keys d w with
      | (d, w) =>
        if w.diskWritesDisabled then
          .done { disk := d, out := plainOut cfg resp (ai.set kStatus b!"pass") statusOverride, contacts := cs, label := "w:pass" }
        else
          -- requestHandler on the caching stack
          let h := Conditional.suffixETag cfg.sfx (Conditional.copyHeaders resp.header ai)
          let status := statusOverride.getD resp.status
          if status = 304 then
            .done { disk := d, out := { status := 304, header := h }, contacts := cs, label := "w:client304" }
          else
            let fr := cachingFill cfg d w now status h resp [] rr
            .done { disk := fr.disk, out := { status := status, header := h, writes := oneWrite fr.toClient }, contacts := cs, label := fr.label }

/-- the writer rows of `cachingFunc` (server.go:283-478): NotFoundWriter (nothing stored) or
    RevalidatingWriter (`reval` = the key it was found under, the entry, its age) -/
def writerRow (cfg : Config) (origin : Bytes → Option Origin) (now : Int) (req : Request)
    (keys : List Key) (rr : Option Range.ReqRange) (d : Disk) (client ai : Header) (cs : List Contact)
    (reval : Option (Key × Stored × Int)) : Step :=
  let w := writerOf keys client reval
  let sg := surgeryOf rr client reval
  match ask cfg origin req cs sg.req with
  | none => .done { disk := d, out := errorJSON 502 b!"Destination unreachable", contacts := logged cfg cs sg.req, label := "w:err" }
  | some resp => afterAnswer cfg now keys rr d ai (logged cfg cs sg.req) reval w sg resp

/-- the key list of a request (`caching.KeysFromRequest` on the rule-rewritten request) -/
def keysOf (cfg : Config) (req : Request) (client : Header) : List Key :=
  keysFromRequest { method := req.method, host := cfg.host, uri := req.uri, header := client }

/-- one activation of `cachingFunc` (server.go:94-478) -/
def stepOnce (cfg : Config) (origin : Bytes → Option Origin) (now : Int) (req : Request)
    (d : Disk) (client ai : Header) (skipRevalidate : Bool) (cs : List Contact) : Step :=
  if req.method ≠ b!"GET" ∧ req.method ≠ b!"HEAD" then
    -- the uncached row `u:pass` (server.go:112-150)
    match ask cfg origin req cs client with
    | none => .done { disk := d, out := errorJSON 502 b!"Destination unreachable", contacts := logged cfg cs client, label := "u:err" }
    | some resp =>
      .done { disk := d, out := plainOut cfg resp (ai.set kStatus b!"pass") none, contacts := logged cfg cs client, label := "u:pass" }
  else
  let keys := keysOf cfg req client
  let rr := Range.getRange client
  match lookup cfg now keys d client skipRevalidate with
  | (d, .panic) => .done { disk := d, out := { wrote := false }, contacts := cs, label := "g:panic" }
  | (d, .notModified s) =>
    -- the row `f:304`
    let h := Conditional.suffixETag cfg.sfx
      (Conditional.copyHeaders (Conditional.allow304 s.meta.respHeader) (ai.set kStatus b!"hit"))
    .done { disk := d, out := { status := 304, header := h }, contacts := cs, label := "f:304" }
  | (d, .serve s age stale) =>
    let (o, l) := foundHit cfg s age stale ai rr
    .done { disk := d, out := o, contacts := cs, label := if stale then l ++ ":stale" else l }
  | (d, .writer reval) => writerRow cfg origin now req keys rr d client ai cs reval

/-- the activation of `cachingFunc` that finds the key held BY ITS OWN REQUEST (`Step.reenterLocked`): `cache.Get`
    with the lock table entry present (caching.go:292-320, `Freshness.get true`): an entry that is due for
    revalidation is served stale inside its stale-while-revalidate window, otherwise the request waits for the
    key - which only its own return would release (30 s of real time, then `503`: `hang`). -/
def lockedReentry (cfg : Config) (origin : Bytes → Option Origin) (now : Int) (req : Request)
    (d : Disk) (client ai : Header) (cs : List Contact) : Ans :=
  let keys := keysOf cfg req client
  let rr := Range.getRange client
  match storageGet d keys with
  | (d, .panic _) => { disk := d, out := { wrote := false }, contacts := cs, label := "g:panic" }
  | (d, .notFound) => { disk := d, out := { hang := true }, contacts := cs, label := "g:selfwait" }
  | (d, .found _ s) =>
    match Freshness.get true (entryOf s) now cfg.force true
        (client.get b!"if-none-match") (client.get b!"if-modified-since") cfg.sfx with
    | .panic _ => { disk := d, out := { wrote := false }, contacts := cs, label := "g:panic" }
    | .ok (.found304 _) =>
      let h := Conditional.suffixETag cfg.sfx
        (Conditional.copyHeaders (Conditional.allow304 s.meta.respHeader) (ai.set kStatus b!"hit"))
      { disk := d, out := { status := 304, header := h }, contacts := cs, label := "f:304" }
    | .ok (.foundFresh age) =>
      let (o, l) := foundHit cfg s age false ai rr
      { disk := d, out := o, contacts := cs, label := l }
    | .ok (.foundStale age) =>
      let (o, l) := foundHit cfg s age true ai rr
      { disk := d, out := o, contacts := cs, label := l ++ ":stale" }
    | .ok (.foundNoReader _) =>
      -- `Found` without a reader (server.go:283-300): with a parsed Range the request is routed as uncacheable,
      -- otherwise the handler logs and returns without writing anything
      if rr.isSome then
        match ask cfg origin req cs client with
        | none => { disk := d, out := errorJSON 502 b!"Destination unreachable", contacts := logged cfg cs client, label := "f:noreader-err" }
        | some resp =>
          { disk := d, out := plainOut cfg resp (Header.set [] kStatus b!"uncacheable") none, contacts := logged cfg cs client, label := "f:noreader-pass" }
      else { disk := d, out := { wrote := false }, contacts := cs, label := "f:noreader" }
    | .ok (.revalidatingReader _) => { disk := d, out := { hang := true }, contacts := cs, label := "g:selfwait" }
    | .ok (.revalidatingWriter _) => { disk := d, out := { hang := true }, contacts := cs, label := "g:selfwait" }

/-- the answer to one request; `fuel` bounds the re-entries of `cachingFunc` after a 304 and after
    stale-if-error (the code has no counter of its own; `Props.SysCache.fuel_two_suffices` proves that
    two activations always suffice) -/
def cachingFunc (cfg : Config) (origin : Bytes → Option Origin) (now : Int) (req : Request) :
    Nat → Disk → Header → Header → Bool → List Contact → Ans
  | 0, d, _, _, _, cs => { disk := d, out := { wrote := false }, contacts := cs, label := "fuel" }
  | fuel + 1, d, client, ai, skipRevalidate, cs =>
    match stepOnce cfg origin now req d client ai skipRevalidate cs with
    | .done a => a
    | .reenter d' client' ai' skip' cs' tag =>
      let a := cachingFunc cfg origin now req fuel d' client' ai' skip' cs'
      { a with label := tag ++ a.label }
    | .reenterLocked d' client' ai' cs' tag =>
      let a := lockedReentry cfg origin now req d' client' ai' cs'
      { a with label := tag ++ a.label }

/-- re-entries per request the driver allows the model (the code has no bound; the harness's
    performer refuses the 301st contact) -/
def defaultFuel : Nat := 400

/-! ### histories -/

inductive Op where
  | req (r : Request)
  | tick (dt : Nat)
  | setOrigin (path : Bytes) (o : Origin)
  deriving Repr

def obsOf (req : Request) (a : Ans) : Obs :=
  let (st, complete, body, hdr) := wire req.method a.out
  { status := st, complete := complete, body := body, header := hdr, contacts := a.contacts, label := a.label,
    hang := a.out.hang }

def step (cfg : Config) (s : State) : Op → State × Option Obs
  | .tick dt => ({ s with now := s.now + dt }, none)
  | .setOrigin p o => ({ s with origin := fun p' => if p' = p then some o else s.origin p' }, none)
  | .req r =>
    let a := cachingFunc cfg s.origin s.now r defaultFuel s.disk r.header [] false []
    ({ s with disk := a.disk }, some (obsOf r a))

def run (cfg : Config) : State → List Op → List Obs
  | _, [] => []
  | s, op :: ops =>
    match step cfg s op with
    | (s', some o) => o :: run cfg s' ops
    | (s', none) => run cfg s' ops

end Model.SysCache
