import RrModel.Limiter
/-
  caching/disk.go — the LOOP of `runSizeLimiter` (555-636) as the goroutine runs it:

      for { if s.isReplaced {break}; io := <-s.itemsChan; switch io.op {…};
            if time.Now().Sub(lastRun) < sleepTime {continue}; <pass>; lastRun = time.Now() }

  `Model.Limiter` has the pieces (the three ops, `flush`, the pass) and gates the pass by the
  SCRIPT clock (`now - lastRun < purgeIntervalSec`).  The goroutine's gate reads the REAL monotonic
  clock (`time.Now().Sub(lastRun)`), which no injected clock reaches: for the loop model the gate
  is an input of each iteration (`gate = true`: the period has passed).  Stream `limgo` drives the
  real goroutine with the period set so that the gate is open at every iteration (1 ns) or only at
  the first one of a storage's life (24 h: `lastRun := time.Now().Add(-sleepTime)`).
-/
namespace Model.LimiterLoop
open Go Model.Limiter

/-- what the limiter goroutine receives from `itemsChan` (`itemWithOp`) -/
inductive Item where
  | add (n : Name) (a : Accessed)
  | access (n : Name) (a : Accessed) (s : Storable)
  | flush (maxLength : Int)
  deriving DecidableEq, Repr

/-- the `switch io.op` of the loop (562-577) -/
def switchItem (s : Sys) (it : Item) (forder : List Name) : Sys :=
  match it with
  | .add n a => { s with st := opAdd s.st n a }
  | .access n a so => { s with st := opAccessTime s.st n a so }
  | .flush ml =>
    let r := flush s.st s.fs ml forder
    { st := r.1, fs := r.2 }

/-- the loop body below the gate (588-635): stats, selection when over the limit, `lastRun`
    whether or not anything was selected, removal and bookkeeping -/
def passOpen (st : LState) (fs : FS) (now : Int) (h : Hints) : LState × FS × PassOut :=
  let sel := passSel st h
  if sel.withA.length = 0 ∧ sel.without.length = 0 then
    ({ st with lastRun := now }, fs, { ran := true })
  else
    let fs' := rmFiles (rmFiles fs sel.without) sel.withA
    let st1 := subtractWith st sel.withA
    let st2 := subtractWithout st1 sel.without
    ({ st2 with lastRun := now }, fs', { ran := true, sel := sel })

/-- the gate (584-586): `continue` unless the period has passed on the real clock -/
def tail (gate : Bool) (st : LState) (fs : FS) (now : Int) (h : Hints) : LState × FS × PassOut :=
  if gate then passOpen st fs now h else (st, fs, {})

def tailSys (s : Sys) (gate : Bool) (now : Int) (sc : Sched) : Sys × PassOut :=
  let r := tail gate s.st s.fs now (sc s.st)
  ({ st := r.1, fs := r.2.1 }, r.2.2)

/-- one iteration of the loop: receive, switch, gate, pass -/
def loopStep (s : Sys) (it : Item) (gate : Bool) (now : Int) (sc : Sched) : Sys × PassOut :=
  tailSys (switchItem s it (sc s.st).forder) gate now sc

/-- the item (if any) an op of the combined machine sends to the goroutine, with the op's own
    effect on the directory: `closeFinisher` for a fill that wrote a file, `setAccessTime` for a
    `Get` that found one, the flush ticker -/
def itemOf (s : Sys) : Op → Option (Sys × Item × Int)
  | .fill n size now =>
    if s.fs.files.has n then none
    else some ({ s with fs := { s.fs with files := s.fs.files.set n size } },
               .add n { atime := atimeOf now s.st.startedAt, kb := kbOfSize size }, now)
  | .hit n now =>
    match s.fs.files.get n with
    | none => none
    | some size => some (s, .access n { atime := atimeOf now s.st.startedAt, kb := kbOfSize size }
                              { unix := now, kb := kbOfSize size }, now)
  | .flush now ml => some (s, .flush ml, now)
  | _ => none

/-- one op of the combined machine with the goroutine's gate as input -/
def stepG (s : Sys) (op : Op) (gate : Bool) (sc : Sched) : Res (Sys × PassOut) :=
  match applyOp s op sc with
  | .panic site => .panic site
  | .ok (s1, none) => .ok (s1, {})
  | .ok (s1, some now) => .ok (tailSys s1 gate now sc)

/-- a run of the loop machine: ops with the gate of the iteration they cause and Go's map orders -/
def runG (s : Sys) : List (Op × Bool × Sched) → Res Sys
  | [] => .ok s
  | (op, gate, sc) :: t =>
    match stepG s op gate sc with
    | .panic site => .panic site
    | .ok r => runG r.1 t

end Model.LimiterLoop
