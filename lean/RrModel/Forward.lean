import RrModel.Secrets
/-
  proxy/proxy.go `filterHeader` (545-561), `createProxyRequest` (563-603) and
  server/server.go `preprocessHeaders` (468-478): the header / Host-policy half of request
  forwarding.  The executor (`routeRequest` / `performRequest`: body buffering, connect retries,
  retry_rule recursion) is NOT modelled here; it is to be added below `createProxyRequest`
  in this file and consumes `OutReq`.

  A `Go.Header` is read by `filterHeader` as the sequence of its entries (`range` over the
  map): for the lists that represent Go maps (distinct raw keys) this is the Go loop in one
  of its iteration orders, and the result does not depend on the order unless two raw keys
  have the same canonical form (never the case for a header parsed by net/http).
-/
namespace Model
open Go

/-- the inner loop of `filterHeader`: `for _, hval := range hvals { newHeader.Add(hname, hval) }` -/
def addAll (acc : Header) (hname : Bytes) : List Bytes → Header
  | [] => acc
  | hval :: rest => addAll (acc.add hname hval) hname rest

/-- the copy loop of `filterHeader`: `for hname, hvals := range originalHeader { … }` -/
def copyHeader : Header → Header → Header
  | [], acc => acc
  | (hname, hvals) :: rest, acc => copyHeader rest (addAll acc hname hvals)

/-- the delete loop: `for _, hname := range filteredHeaderNames { newHeader.Del(hname) }` -/
def delAll (h : Header) : List Bytes → Header
  | [] => h
  | hname :: rest => delAll (h.del hname) rest

/-- `filterHeader(originalHeader, filteredHeaderNames)`: copy first, then filter -/
def filterHeader (originalHeader : Header) (filteredHeaderNames : List Bytes) : Header :=
  delAll (copyHeader originalHeader []) filteredHeaderNames

/-- `preprocessHeaders(r, overrides)`: `nil` value ⇒ `Del`, else `Set`. The list is the map in
    one of its iteration orders (the result depends on it only when two keys have the same
    canonical form). -/
def preprocessHeaders (h : Header) : List (Bytes × Option Bytes) → Header
  | [] => h
  | (hname, none) :: rest => preprocessHeaders (h.del hname) rest
  | (hname, some hval) :: rest => preprocessHeaders (h.set hname hval) rest

/-- the parts of the incoming `*http.Request` that `createProxyRequest` reads -/
structure ClientReq where
  method : Bytes
  header : Header
  /-- `req.Host` -/
  host : Bytes
  /-- host part of `net.SplitHostPort(TrimSpace(req.RemoteAddr))`, `none` on error -/
  remoteIP : Option Bytes := none
  deriving Repr, DecidableEq

/-- the outgoing `*http.Request` as far as headers and Host are concerned -/
structure OutReq where
  method : Bytes
  header : Header
  /-- `preq.Host` (what goes out as the Host header) -/
  host : Bytes
  /-- `preq.URL.Host` (what is dialled) -/
  urlHost : Bytes
  deriving Repr, DecidableEq

inductive ProxyReqErr where
  | newRequest                  -- `http.NewRequestWithContext` failed (invalid method / unparsable URL)
  | reject (r : Reject)         -- usererror 407 from `ensureInternalHeaders`
  deriving Repr, DecidableEq

/-- net/http `validMethod`: non-empty and token bytes only -/
def validMethod (m : Bytes) : Bool := decide (m.length > 0) && m.all isTokenByte

/-- net/http `hasPort`: `strings.LastIndex(s, ":") > strings.LastIndex(s, "]")` (−1 for absent) -/
def hasPort (s : Bytes) : Bool :=
  match lastIndex b!":" s, lastIndex b!"]" s with
  | none, _ => false
  | some _, none => true
  | some i, some j => decide (i > j)

/-- net/http `removeEmptyPort` -/
def removeEmptyPort (host : Bytes) : Bytes :=
  if hasPort host then trimSuffix host b!":" else host

/-- `router.createProxyRequest(req, internal, hostHeader, url)`.
    `routingSecrets` = `r.config.RoutingSecrets` (`none` = nil slice);
    `urlHost` = `Host` of `url.Parse(url.String())` inside `http.NewRequestWithContext`
    (`none` = parse error; URL parsing is C02's subject and a harness-supplied value here). -/
def createProxyRequest (routingSecrets : Option (List Bytes)) (req : ClientReq) (internal : Bool)
    (behavior : HostHeaderBehavior) (hostOverride : Bytes) (urlHost : Option Bytes)
    (uuid : Bytes) : Res (Except ProxyReqErr OutReq) :=
  -- http.NewRequestWithContext(req.Context(), req.Method, url.String(), req.Body)
  let method := if req.method = [] then b!"GET" else req.method
  if validMethod method = false then .ok (.error .newRequest)
  else
    match urlHost with
    | none => .ok (.error .newRequest)
    | some uh =>
      let uHost := removeEmptyPort uh
      let header := filterHeader req.header Facts.nonForwarded
      let host :=
        match behavior with
        | .default => uHost
        | .destination => uHost
        | .original => req.host
        | .override => hostOverride
      let readIP := requestIP req.header req.remoteIP
      let ensured :=
        match routingSecrets with
        | none => ensureInternalHeaders header false [] uuid readIP
        | some secrets => ensureInternalHeaders header internal secrets uuid readIP
      match ensured with
      | .panic s => .panic s
      | .ok (.error rej) => .ok (.error (.reject rej))
      | .ok (.ok header') =>
        .ok (.ok { method := method, header := header', host := host, urlHost := uHost })

end Model
