import RrModel.Config
/-
  C19 — declarative side, written from the property text:

    "Any configuration text is either rejected with an error or accepted, and an accepted
     configuration never causes a crash or internal error for any request; the YAML and JSON
     spellings of one configuration route identically. A reload that fails to fetch, parse or
     validate leaves the previous rules and caches serving, a successful reload behaves like a
     restart with the new configuration, and each request is handled entirely under one
     version of the rules."

  Nothing here looks at `Model.Config.step`, `newRules` or the decoder loops.
-/
namespace Spec.C19
open Go Model Model.Config

/-! ### accepted or rejected whole -/

/-- the value of the last key spelled `name` (any letter case) in a mapping -/
def lastField (name : Bytes) : List (Scalar × Tree) → Option Tree
  | [] => none
  | (k, v) :: r =>
    match lastField name r with
    | some x => some x
    | none => if keyIs k name then some v else none

/-- the document's rule list: what stands under `rules` -/
def docRuleList : Tree → Option (List Tree)
  | .map kvs =>
    match lastField b!"rules" kvs with
    | some (.list l) => some l
    | _ => none
  | _ => none

/-- outcome of configuration parsing as the property sees it: rejected with an error
    (`none`) or accepted with `n` rules -/
abbrev Outcome := Option Nat

/-- no partial acceptance: an accepted configuration has exactly as many rules as the
    document lists, and at least one -/
def holdsWhole (src : Option Tree) (o : Outcome) : Bool :=
  match o with
  | none => true
  | some n =>
    match src with
    | none => false
    | some t =>
      match docRuleList t with
      | some l => l.length == n && decide (0 < n)
      | none => false

/-! ### one configuration, two spellings -/

def Scalar.plain : Scalar → Bool
  | .other _ => false
  | _ => true

def Scalar.isStr : Scalar → Bool
  | .str _ => true
  | _ => false

mutual
/-- a configuration both syntaxes can spell with the same types: mapping keys are strings,
    scalars are null / bool / int / string -/
def wellTyped : Tree → Bool
  | .sc s => Scalar.plain s
  | .list l => wellTypedList l
  | .map m => wellTypedMap m
def wellTypedList : List Tree → Bool
  | [] => true
  | t :: r => wellTyped t && wellTypedList r
def wellTypedMap : List (Scalar × Tree) → Bool
  | [] => true
  | (k, v) :: r => Scalar.isStr k && wellTyped v && wellTypedMap r
end

/-- the two spellings of one (well-typed) configuration are treated alike: same verdict, same
    rules, same routing — `a`, `b` are whatever was observed under each spelling -/
def holdsSpellings {α} [BEq α] (t : Tree) (a b : α) : Bool := !wellTyped t || a == b

/-! ### an accepted configuration never crashes a request

  (the class predicate of finding C05-b — a Host that opens a bracket and never closes it — stood
  here until `util.DropPort` was repaired; the oracle of stream `reqpath` now judges those Hosts
  like any other) -/

/-! ### reload -/

/-- what one reload attempt amounts to, from the operator's point of view -/
inductive Kind where
  | fetchFailed        -- the mapping could not be read
  | same               -- same text as the one serving
  | invalidRules       -- does not parse, or a rule does not validate
  | invalidStorages    -- the rules are fine, the cache section is not (type error, duplicate id/path)
  | valid
  deriving DecidableEq, Repr

def kindOf (checksum : Nat) : Fetch → Kind
  | .error => .fetchFailed
  | .doc sum d =>
    if sum = checksum then .same
    else
      match parseRules d with
      | .error _ => .invalidRules
      | .ok _ =>
        match parseStorageConfigs d with
        | some _ => .valid
        | none => .invalidStorages

/-- what a client can see of the serving state: for each probe request the destination
    pattern of the rule that takes it (`none`: 404), for each probed cache id whether a
    storage answers to it -/
structure Obs where
  answers : List (Option (Bytes × Bytes))      -- (destination, cache id) of the chosen rule
  storages : List Bool
  deriving DecidableEq, Repr

def answer (rs : List Rule) (q : Query) : Option (Bytes × Bytes) :=
  match (matchRules rs q).proxy with
  | none => none
  | some (i, _) => rs[i]?.map fun r => (r.dest, r.cacheId)

def observe (probes : List Query) (ids : List Bytes) (s : State) : Obs :=
  { answers := probes.map (answer (s.rules.map (·.rule))),
    storages := ids.map fun id => s.storages.any (·.id = id) }

/-- the reload oracle. `before`/`after`: observations around the attempt (`after = none`: the
    process died); `restart`: what a fresh start with the new text shows (`none`: refuses to
    start).
    * failed to fetch / parse / validate, or nothing new: alive and exactly as before;
    * valid: alive, every probe answered as after a restart, and every cache the new
      configuration lists is there (a cache that disappeared from the configuration may go on
      serving until replaced — README). -/
def holdsStep (k : Kind) (before : Obs) (after restart : Option Obs) : Bool :=
  match k with
  | .valid =>
    match after, restart with
    | some a, some r =>
      a.answers == r.answers &&
      (List.zip a.storages r.storages).all (fun p => !p.2 || p.1)
    | _, _ => false
  | _ => after == some before

/- The class predicates of findings C19-a (rules accepted, cache section rejected with an error)
   and C19-b (rules accepted, a cache id or path listed twice) stood here until `configReloader`
   and `ParseStorageConfigs` were repaired; both kinds of document are now plain
   `invalidStorages` attempts and are judged by `holdsStep` like every other failed reload. -/

/-- C19-d: a valid new configuration that keeps a cache id in use AND adds a new one -/
def inClass_C19_d (s : State) (f : Fetch) : Bool :=
  match f with
  | .error => false
  | .doc _ d =>
    match parseStorageConfigs d with
    | some cfgs =>
      cfgs.any (fun c => s.storages.any (·.id = c.id)) && cfgs.any (fun c => !s.storages.any (·.id = c.id))
    | none => false

end Spec.C19
