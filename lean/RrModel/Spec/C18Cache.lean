import RrModel.Spec.C18
import RrModel.Spec.C10
import RrModel.RedirectCache
/-
  C18 on cache-enabled rules and warm caches — declarative side, written from the property text:

    "With restart_on_redirect, a redirect from the destination is followed inside rrrouter by
     treating its Location (absolute or relative) as a new client request: rules are matched
     again, the matched rule's header overrides and cache apply, the parent rule is the fallback
     when none matches, and the client receives the final non-redirect response.  Redirect chains
     that loop, whatever their length and whether or not the hops are cached, end in an error
     response after a bounded number of hops, instead of hanging, exhausting descriptors or
     crashing the process."   Quantifier: "… × cold and warm cache".

  A HISTORY of client requests runs against one cache and an origin that does not change.  The
  graph's edges (the node a Location is meant to name) define the chain of every request; whether
  a hop is served from the cache or fetched is invisible in what the client must receive:

    F  the chain ends at a node that answers without redirecting ⇒ the client receives that node's
       status and body — cold, warm, expired or half-warm alike;
    T  the chain loops ⇒ an error status, after a bounded number of origin contacts, and the
       handler does not recurse until something outside it gives way;
    H  the request-header overrides of the rule a hop's URL matches are on the request the origin
       receives for that hop;
    W  "the matched rule's … cache appl[ies]": when every rule has a cache, an immediate repeat of
       a request that was answered from a sink contacts no node whose answer may be stored.

  Nothing here looks at cachingFunc, the stored RedirectedURL, keys or locks.  The text does not
  say which host a followed hop is sent to when a rule matches (its destination, or the resolved
  URL under that rule's headers): no clause depends on it.
-/
namespace Spec.C18Cache
open Go Model Model.Redirect Spec.C18

/-- one URL of the scripted graph; `cc` = the Cache-Control of its answer (`[]` = none) -/
structure CNode where
  path : Bytes
  redirect : Bool
  status : Nat
  body : Bytes
  location : Bytes
  cc : Bytes
  intended : Int
  ruleIdx : Int
  /-- the validator of its answer (`[]` = none): a request whose If-None-Match names it is answered 304 -/
  etag : Bytes := []
  /-- the Cache-Control of that 304 (`[]` = `cc`) -/
  cc304 : Bytes := []
  deriving Repr

def CNode.toNode (n : CNode) : Node :=
  { path := n.path, redirect := n.redirect, status := n.status, body := n.body, hasLoc := n.redirect,
    location := n.location, intended := n.intended, ruleIdx := n.ruleIdx }

def ccHeader (cc : Bytes) : Header := if cc = [] then [] else [(b!"Cache-Control", [cc])]

/-- the answer must not be stored (RFC 9111 directives, as C10 reads them) -/
def mustNotStore (n : CNode) : Bool := Spec.C10.carriesAny (ccHeader n.cc)

/-! ### The chain of one request, walked along the graph's edges -/

/-- the request a hop stands for: which node it is meant to reach, the URL treated as the new
    client request (`host` = `~` when the Location names none: some destination's), the Location
    that led here with the path it is resolved against -/
structure Hop where
  node : Nat
  host : Bytes
  uri : Bytes
  deriving Repr, DecidableEq

def placeholderHost : Bytes := b!"~"

def queryOf (h : Hop) : Query :=
  { scheme := b!"http", host := hostNoPort h.host, uri := h.uri, method := b!"GET" }

/-- the hop after `h`, if node `h.node` redirects to a node of the graph -/
def nextHop (nodes : List CNode) (h : Hop) : Option Hop :=
  match nodes[h.node]? with
  | none => none
  | some n =>
    if ¬ n.redirect ∨ n.intended < 0 then none else
    match parseURL n.location with
    | none => none
    | some loc =>
      let r := resolve placeholderHost n.path loc
      some { node := n.intended.toNat, host := r.host, uri := uriOf r }

/-- the first `fuel + 1` hops of the chain that starts with `h` -/
def walk (nodes : List CNode) : Nat → Hop → List Hop
  | 0, h => [h]
  | f + 1, h => h :: (match nextHop nodes h with | some h' => walk nodes f h' | none => [])

/-- the rule each hop runs under: the first matching proxy rule, else the previous hop's -/
def hopRules (rules : List Rule) : Option Rule → List Hop → List (Hop × Option Rule)
  | _, [] => []
  | parent, h :: t =>
    let r := ((Spec.C01.firstProxy rules (queryOf h)).bind (rules[·]?)).orElse fun _ => parent
    (h, r) :: hopRules rules r t

/-- the chain of a request with the rule of every hop; a looping chain is walked twice round (a
    rule met on the first round is the parent of the hops of the second) -/
def chainOf (nodes : List CNode) (rules : List Rule) (edge target : Bytes) (start : Nat) : List (Hop × Option Rule) :=
  hopRules rules none (walk nodes (2 * nodes.length + 1) { node := start, host := edge, uri := target })

/-- the property speaks about rules with restart_on_redirect: every rule on the chain has it -/
def allRestart (chain : List (Hop × Option Rule)) : Bool :=
  chain.all fun (_, r) => match r with | some r => r.restartOnRedirect | none => false

/-! ### Known-finding classes (on the input)

   (C18-c — a loop whose hops are all stored was followed without bound and without origin
   contact — has been repaired together with C18-a by the per-request redirect counter; it never
   had a predicate on the input: its class was "the model's run is cut as `runaway` on a looping
   chain", which `Props.C18Cache.cached_terminates` now excludes.  The regression stream kf.C18-c
   must pass.) -/

/-- C18-d: a redirect on the chain carries a directive that forbids storing it, at a hop where
    some rule met so far has a cache (the cached branch of the handler hands such a redirect to
    the client instead of following it) -/
def inClass_C18_d (nodes : List CNode) (chain : List (Hop × Option Rule)) : Bool :=
  let rec go (cached : Bool) : List (Hop × Option Rule) → Bool
    | [] => false
    | (h, r) :: t =>
      let cached' := cached || (match r with | some r => r.cacheId ≠ [] | none => false)
      (match nodes[h.node]? with
       | some n => cached' && n.redirect && mustNotStore n
       | none => false) || go cached' t
  go false chain

/-- C09-b seen from C18: a node on the chain whose answer is stored (at a hop where some rule met so
    far has a cache) carries a validator, and the 304 it answers a conditional request with carries a
    Cache-Control of its own that forbids storing: when the stored entry is due, the handler hands
    that 304 (no body) to the client — who sent no validator — instead of the chain's final
    response.  `ticks` = the history lets time pass (an entry can be due). -/
def inClass_C09_b (nodes : List CNode) (chain : List (Hop × Option Rule)) (ticks : Bool) : Bool :=
  let rec go (cached : Bool) : List (Hop × Option Rule) → Bool
    | [] => false
    | (h, r) :: t =>
      let cached' := cached || (match r with | some r => r.cacheId ≠ [] | none => false)
      (match nodes[h.node]? with
       | some n => cached' && n.etag ≠ [] && n.cc304 ≠ [] && Spec.C10.carriesAny (ccHeader n.cc304) && !mustNotStore n
       | none => false) || go cached' t
  ticks && go false chain

/-! ### What was observed of one request -/

structure RObs where
  /-- the harness had to end the request: `runaway` (activations beyond the guard), `selfwait`
      (parked on a key its own stack holds), `noresponse` -/
  cut : Option String := none
  status : Nat := 0
  body : String := ""
  location : Bytes := []
  cacheStatus : Bytes := []
  age : Bytes := []
  contacts : List ContactObs := []
  deriving Repr

inductive ReqOp where
  | request (target : Bytes) (start : Nat)
  | tick (dt : Nat)
  deriving Repr

/-- verdict on one request -/
inductive V where
  | ok
  /-- the property text does not say / the harness cannot tell -/
  | skip (why : String)
  | bad (reasons : List String)
  deriving Repr, DecidableEq

def chainEndOf (nodes : List CNode) (start : Nat) : ChainEnd :=
  chainEnd (nodes.map (·.toNode)) nodes.length start

/-- F and T -/
def holdsFinal (nodes : List CNode) (start : Nat) (o : RObs) : List String :=
  match chainEndOf nodes start with
  | .sink i =>
    match nodes[i]? with
    | some n =>
      if o.cut.isNone && o.status == n.status && o.body == toHex n.body then []
      else [if o.cut.isSome then "bad:C18:request-did-not-end-by-itself" else "bad:C18:final-response-is-not-the-sinks"]
    | none => []
  | .cycle =>
    if o.cut == some "runaway" ∨ o.cut == some "noresponse" then ["bad:C18:loop-not-ended-by-an-error-response"]
    else if o.cut.isNone ∧ ¬ (o.status ≥ 400 ∧ o.contacts.length ≤ maxLoopContacts) then ["bad:C18:loop-answered-without-error-or-too-late"]
    else []
  | .unspecified => []

def xhopOf (r : Rule) : Option Bytes :=
  (r.requestHeaders.find? (·.1 == b!"x-hop")).bind (·.2)

/-- H, for a chain that ends: every contact made for a hop carries the x-hop override of the rule
    that hop's URL matches (a contact belongs to a hop when it asks for the hop's path or for the
    hop's node) -/
def holdsHeaders (nodes : List CNode) (rules : List Rule) (chain : List (Hop × Option Rule)) (o : RObs) : Bool :=
  chain.all fun (h, _) =>
    match (Spec.C01.firstProxy rules (queryOf h)).bind (rules[·]?) with
    | none => true
    | some r =>
      match xhopOf r with
      | none => true
      | some v =>
        let nodePath := (nodes[h.node]?.map (·.path)).getD []
        o.contacts.all fun c =>
          if pathOfUri c.uri == pathOfUri h.uri || pathOfUri c.uri == nodePath then c.failed || c.xhop == v else true

/-- the harness cannot play rrrouter answering a request to its own edge host: a chain with a
    Location that names the edge host is not judged when the edge host was in fact contacted -/
def contactsEdge (edge : Bytes) (chain : List (Hop × Option Rule)) (o : RObs) : Bool :=
  (chain.drop 1).any (fun (h, _) => hostNoPort h.host == hostNoPort edge) && o.contacts.any (·.host == edge)

def judge (nodes : List CNode) (rules : List Rule) (edge target : Bytes) (start : Nat) (o : RObs) : V :=
  let chain := chainOf nodes rules edge target start
  if ¬ allRestart chain then .skip "mixed-or-off"
  else if o.cut == some "selfwait" then .skip "selfwait"
  else if contactsEdge edge chain o then .skip "edge-contact"
  else
    let bad := holdsFinal nodes start o ++
      (match chainEndOf nodes start with
       | .sink _ => if holdsHeaders nodes rules chain o then [] else ["bad:C18:hop-without-the-matched-rules-header-overrides"]
       | _ => [])
    if bad.isEmpty then .ok else .bad bad

/-! ### W over a history -/

structure HState where
  /-- requests answered from their sink since the last tick: target -/
  served : List Bytes := []
  bad : List String := []
  skips : List String := []
  oks : Nat := 0

/-- W: the contacts of an immediate repeat go only to nodes whose answer must not be stored -/
def holdsWarm (nodes : List CNode) (o : RObs) : Bool :=
  o.contacts.all fun c =>
    match nodes.find? (·.path == pathOfUri c.uri) with
    | some n => mustNotStore n
    | none => true

def allCached (rules : List Rule) : Bool := rules.all (·.cacheId ≠ [])

/-- the oracle over a history: `obs` = one observation per request, in order (it may be shorter
    than the request list: the history ends at the first cut) -/
def holds (nodes : List CNode) (rules : List Rule) (edge : Bytes) : HState → List ReqOp → List RObs → HState
  | st, [], _ => st
  | st, .tick _ :: rest, obs => holds nodes rules edge { st with served := [] } rest obs
  | st, .request _ _ :: _, [] => st
  | st, .request target start :: rest, o :: obs =>
    let v := judge nodes rules edge target start o
    let chain := chainOf nodes rules edge target start
    let inD := inClass_C18_d nodes chain
    let warmBad :=
      if v == .ok ∧ allCached rules ∧ ¬ inD ∧ st.served.contains target ∧ ¬ holdsWarm nodes o
      then ["bad:C18:stored-hop-fetched-again-on-an-immediate-repeat"] else []
    let sinkServed := v == .ok && (match chainEndOf nodes start with | .sink _ => true | _ => false)
    let st' : HState :=
      match v with
      | .ok => { st with oks := st.oks + 1, bad := st.bad ++ warmBad }
      | .skip w => { st with skips := st.skips ++ [w] }
      | .bad b => { st with bad := st.bad ++ b }
    holds nodes rules edge { st' with served := if sinkServed then target :: st'.served else st'.served } rest obs

/-! ### The model's outcome as an observation -/

def sentStatus : Model.RedirectCache.Sent → Nat
  | .response st _ _ _ => st
  | .userError code _ => code
  | .plainError => 500
  | .panicked => 200
  | .outside => 0

def sentBodyTok : Model.RedirectCache.Sent → String
  | .response _ body _ _ => toHex body
  | .userError _ msg => "j" ++ (toHex msg).drop 1
  | _ => "x"

/-- what the harness would record if the implementation did what the model does -/
def obsOf : Model.RedirectCache.Outcome → RObs
  | .runaway cs => { cut := some "runaway", contacts := cs.map obsOfContact }
  | .selfwait cs => { cut := some "selfwait", contacts := cs.map obsOfContact }
  | .done d =>
    { status := sentStatus d.sent, body := sentBodyTok d.sent,
      location := (match d.sent with | .response _ _ loc _ => loc | _ => []),
      cacheStatus := (match d.sent with | .response _ _ _ inc => inc.status | _ => []),
      contacts := d.contacts.map obsOfContact }

end Spec.C18Cache
