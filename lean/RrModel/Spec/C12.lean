import RrModel.Conc
/-
  C12 / C13 — run-time oracles on a schedule observation: per-request client views, the origin's
  fetch log.  Written from the property texts.
-/
namespace Spec.C12
open Model.Conc

/-- observed client view token: C<v>[s] complete, T<v> truncated, H<v> headers only, E<code>, N -/
def viewComplete (tok : String) : Bool := tok.startsWith "C"
def viewTruncated (tok : String) : Bool := tok.startsWith "T"

/-- C12 (fault-free runs): at most one origin fetch in flight at any moment, every client served
    the complete response -/
def holds (maxInFlight : Nat) (views : List String) : Bool :=
  decide (maxInFlight ≤ 1) && views.all viewComplete

/-- C13: nobody other than the failing request itself is handed a strict prefix of a body, and
    every request terminates with some response (no wedge) -/
def holds13 (faults : List Fault) (views : List String) : Bool :=
  (views.zip faults).all fun (v, f) => v ≠ "N" && (f == .readErr || !viewTruncated v)

end Spec.C12
