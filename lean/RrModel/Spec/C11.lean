import RrModel.Key
/-
  C11 — declarative side, written from the property text:

    "Two requests are answered from the same cache entry only if they agree on the destination
     URL (host, path and query), on GET versus HEAD, on Accept-Encoding, on Authorization, and
     on Origin (its presence, or its value when the response varies by Origin)."

  `resourceId` is that tuple.  The oracle `holds` takes the entry NAMES two requests look up /
  fill (at run time: the implementation's `Key.FsName()`; in the theorems: the hashed string,
  SHA-1 being assumed collision-free) and demands: equal name ⇒ equal `resourceId`.

  Interpretation decisions (DESIGN 5.0, row C11, and this file):
  * the destination URL is the one the origin is asked for: authority and path of the rule's
    destination with the capture substituted, and the CLIENT's query (createOutgoingURLs
    overwrites RawQuery with the client's, proxy.go:676) as it survives the re-parse of the
    rendered URL (cut at `#`); an empty path goes on the wire as `/`.
  * methods: GET (and Go's empty method, which means GET), HEAD, and "anything else" — other
    methods are never cached (C10), the property only separates GET from HEAD.
  * Accept-Encoding / Authorization: the list of field values (`Header.Values`).
  * Origin is single-valued (RFC 6454 §7): "present" = `Header.Get("Origin")` is non-empty, i.e.
    the first field line carries a value.  A request with an Origin looks up two entries: one
    that is shared by all origins (responses that do not vary by Origin) and one that is
    specific to its Origin value (responses that do, after re-keying).
-/
namespace Spec.C11
open Go Model

inductive MethodClass where
  | get | head | other
  deriving DecidableEq, Repr

def methodClass (m : Bytes) : MethodClass :=
  if m = b!"GET" ∨ m = [] then .get else if m = b!"HEAD" then .head else .other

/-- what an entry says about Origin -/
inductive OriginId where
  | absent                      -- filled by / served to requests without Origin
  | present                     -- shared by every request that carries an Origin
  | value (vs : List Bytes)     -- specific to these Origin field values
  deriving DecidableEq, Repr

/-- the entry kinds a request consults, in lookup order -/
inductive KeyKind where
  | plain | full | opaqueOrigin
  deriving DecidableEq, Repr

structure Dest where
  authority : Bytes
  path : Bytes
  query : Bytes
  deriving DecidableEq, Repr

/-- a request together with the routing decision taken for it (C01/C02): the selected rule and
    the (scheme, host, request-target) triple `Rules.Match` compared it with -/
structure Routed where
  req : Req
  rule : Rule
  rScheme : Bytes
  rHost : Bytes
  rUri : Bytes
  deriving Repr

/-- the client's raw query: what follows the first `?` of the request-target -/
def clientQuery (uri : Bytes) : Bytes := (Url.cut1 63 uri).2.1

/-- the rule's destination with the capture substituted (C02), as `url.Parse` splits it -/
def target (x : Routed) : Option Url.Split :=
  match attemptMatch x.rule x.rScheme x.rHost x.rUri with
  | none => none
  | some t => Url.split t

/-- the URL the destination is asked for -/
def dest (x : Routed) : Option Dest :=
  match target x with
  | none => none
  | some u =>
    if ¬ Url.escapesOk u.fragment then none          -- url.Parse fails: no destination (500)
    else
      match UrlEsc.escapedPath u.path with
      | none => none
      | some p =>
        some { authority := UrlEsc.hostOfAuthority (u.authority.getD []),
               path := UrlEsc.wirePath p,
               query := Url.queryAfterReparse (clientQuery x.req.uri) }

def acceptEncoding (h : Header) : List Bytes := Header.values h b!"Accept-Encoding"
def authorization (h : Header) : List Bytes := Header.values h b!"Authorization"
def originValues (h : Header) : List Bytes := Header.values h b!"Origin"
def originPresent (h : Header) : Bool := Header.get h b!"Origin" != []

/-- which entries a request with these headers consults -/
def kinds (h : Header) : List KeyKind :=
  if originPresent h then [.full, .opaqueOrigin] else [.plain]

def originId (h : Header) : KeyKind → OriginId
  | .plain => .absent
  | .opaqueOrigin => .present
  | .full => .value (originValues h)

structure ResourceId where
  dest : Option Dest
  method : MethodClass
  acceptEncoding : List Bytes
  authorization : List Bytes
  origin : OriginId
  deriving DecidableEq, Repr

/-- the combination an entry of kind `k` consulted by request `x` must have been generated for -/
def resourceId (x : Routed) (k : KeyKind) : ResourceId :=
  { dest := dest x,
    method := methodClass x.req.method,
    acceptEncoding := acceptEncoding x.req.header,
    authorization := authorization x.req.header,
    origin := originId x.req.header k }

/-- the first component in which two resource identities differ (for the oracle's message) -/
def diffReason (r s : ResourceId) : String :=
  if r.dest ≠ s.dest then
    match r.dest, s.dest with
    | some d, some e =>
      if d.authority ≠ e.authority then "destination-host"
      else if d.path ≠ e.path then "destination-path" else "destination-query"
    | _, _ => "destination"
  else if r.method ≠ s.method then "method"
  else if r.acceptEncoding ≠ s.acceptEncoding then "accept-encoding"
  else if r.authorization ≠ s.authorization then "authorization"
  else if r.origin ≠ s.origin then "origin"
  else "none"

/-- names of one request paired with the kinds the property expects, lookup order -/
def tagged (x : Routed) (names : List Bytes) : List (Bytes × KeyKind) :=
  names.zip (kinds x.req.header)

/-- every pair of entries of the two requests that carry the same name but stand for different
    resources: the violations -/
def clashes (a b : Routed) (namesA namesB : List Bytes) : List (ResourceId × ResourceId) :=
  if a.rule.cacheId ≠ b.rule.cacheId then []          -- entries live in the rule's cache storage
  else
    (tagged a namesA).flatMap fun (na, ka) =>
      (tagged b namesB).filterMap fun (nb, kb) =>
        if na = nb ∧ resourceId a ka ≠ resourceId b kb then some (resourceId a ka, resourceId b kb)
        else none

/-- a request consults exactly the entries the property describes -/
def countOk (x : Routed) (names : List Bytes) : Bool := names.length == (kinds x.req.header).length

/-- **the oracle**: distinct resources never share an entry name -/
def holds (a b : Routed) (namesA namesB : List Bytes) : Bool :=
  countOk a namesA && countOk b namesB && (clashes a b namesA namesB).isEmpty

/-- single-request clause (`vary_origin_keys`): which keys exist, in which order, which of them
    is filled on a miss.  `opaques` = the opaque flags of the keys, `preferred` = index chosen. -/
def holdsKeys (h : Header) (opaques : List Bool) (preferred : Nat) : Bool :=
  if originPresent h then opaques == [false, true] && preferred == 1
  else opaques == [false] && preferred == 0

/-! ### Known-finding classes (decidable, on the inputs) -/

def modelKeys (x : Routed) : List Key := requestKeys x.rule x.req

/-- **C11-a** ambiguous concatenation: some key of `a` and some key of `b` (same cache) are
    hashed from the same string although their fields differ -/
def inClass_C11_a (a b : Routed) : Bool :=
  a.rule.cacheId == b.rule.cacheId &&
  (modelKeys a).any fun ka => (modelKeys b).any fun kb =>
    keyString ka == keyString kb && ka.fields != kb.fields

/-- did `OverrideOnRequest` install the destination URL in the keyed request? -/
def rewritten (x : Routed) : Bool := (overrideTarget x.rule x.req).isSome

def pathQuery (d : Option Dest) : Option (Bytes × Bytes) := d.map fun d => (d.path, d.query)

def sameFields (a b : Routed) : Bool :=
  a.rule.cacheId == b.rule.cacheId &&
  (modelKeys a).any fun ka => (modelKeys b).any fun kb => ka.fields == kb.fields

/-- **C11-b** some key of `a` equals some key of `b` field by field, yet the destinations
    differ — and they differ only in the authority (which is not keyed), or the rule did not
    re-match in `OverrideOnRequest` (host/scheme-constrained), so the CLIENT path was keyed -/
def inClass_C11_b (a b : Routed) : Bool :=
  sameFields a b && dest a != dest b &&
    (if rewritten a && rewritten b then pathQuery (dest a) == pathQuery (dest b) else true)

/-- **C11-c** equal keys, both rewritten, yet the destinations differ in path or query: the
    keyed request-target is that of the rule's destination with the capture substituted, but
    the destination is asked with the CLIENT's query (createOutgoingURLs overwrites RawQuery,
    OverrideOnRequest does not) — a destination without `$1` drops the query from the key -/
def inClass_C11_c (a b : Routed) : Bool :=
  sameFields a b && rewritten a && rewritten b && pathQuery (dest a) != pathQuery (dest b)

end Spec.C11
