import RrModel.Recompress
/-
  C06 — declarative side, written from the property text:

    "decoding the delivered body according to the delivered Content-Encoding yields exactly
     the origin's decoded content, and the delivered encoding is either the origin's own or
     one the client listed.  The response is byte-identical to the origin's when the rule has
     recompression off or the origin says no-transform; a response to which rrrouter applied
     an encoding carries no stale Content-Length, and its Vary keeps the origin's entries and
     adds Accept-Encoding."

  Nothing here looks at the decision table.  Header fields are parsed at token level
  (comma-separated lists, OWS-trimmed, names case-insensitive), over ALL lines of a field.
-/
namespace Spec.C06
open Go Model.Recompress

/-- optional white space of RFC 9110: SP / HTAB -/
def ows : Bytes := [32, 9]

/-- one list member, normalised: OWS-trimmed, lower-cased -/
def norm (t : Bytes) : Bytes := toLower (trim ows t)

/-- members of a comma-separated field value, normalised, empty members dropped -/
def listMembers (v : Bytes) : List Bytes := ((split1 44 v).map norm).filter (· ≠ [])

/-- the coding names of an Accept-Encoding value: each member up to its `;` parameters -/
def aeCodings (ae : Bytes) : List Bytes :=
  ((split1 44 ae).map fun m => norm ((split1 59 m).headD [])).filter (· ≠ [])

/-- a coding label with "identity" and "" identified, case-insensitive -/
def coding (ce : Bytes) : Bytes :=
  let e := toLower ce
  if e = b!"identity" then [] else e

/-- did the client list coding `enc` (normalised by `coding`)?  identity is always acceptable
    (DESIGN 5.0); `*` lists everything; `x-gzip` is the registered alias of gzip; a listed
    coding counts whatever its q-value (the property says "listed") -/
def clientLists (ae enc : Bytes) : Bool :=
  enc == [] || (aeCodings ae).any fun c => c == enc || c == b!"*" || (c == b!"x-gzip" && enc == b!"gzip")

/-- the content a body stands for under a Content-Encoding label: `(residual, bytes)` where
    `residual` is a coding this specification does not interpret (deflate, …), kept as a tag;
    `none` when the label does not describe the bytes (not decodable) -/
def decoded (E : Ext) (ce body : Bytes) : Option (Bytes × Bytes) :=
  let e := coding ce
  if e = [] then some ([], body)
  else if e = b!"gzip" then (E.gzipDec body).map fun p => ([], p)
  else if e = b!"br" then (E.brDec body).map fun p => ([], p)
  else some (e, body)

/-- the entries of the Vary field (all lines), normalised -/
def varyEntries (h : Header) : List Bytes := (h.values kVary).flatMap listMembers

/-- the origin says no-transform: some Cache-Control line carries the directive -/
def noTransform (h : Header) : Bool :=
  (h.values kCacheControl).any fun line => (listMembers line).contains b!"no-transform"

def acceptEncodingEntry : Bytes := b!"accept-encoding"

def subsetOf (a b : List Bytes) : Bool := a.all fun e => b.contains e

/-- the headers rrrouter documents as its own additions on a pass-through (C05) -/
def withoutAdditions (h : Header) : List (Bytes × List Bytes) := (h.del kCacheStatus).normal

/-! ### the clauses -/

/-- clause 1: decoded delivered body = origin's decoded content -/
def contentOk (E : Ext) (x : Input) (o : Response) : Bool :=
  match decoded E (x.originHeaders.get kContentEncoding) x.originBody with
  | none => true
  | some c => decoded E (o.headers.get kContentEncoding) o.body == some c

/-- clause 2: delivered encoding is the origin's own or one the client listed -/
def encodingOk (x : Input) (o : Response) : Bool :=
  let de := coding (o.headers.get kContentEncoding)
  de == coding (x.originHeaders.get kContentEncoding) || clientLists x.ae de

/-- clause 3: recompression off or no-transform ⇒ bytes and headers are the origin's
    (up to the documented addition) -/
def offOk (x : Input) (o : Response) : Bool :=
  if !x.flag || noTransform x.originHeaders then
    o.body == x.originBody && withoutAdditions o.headers == withoutAdditions x.originHeaders
  else true

/-- the body or its label was changed -/
def transformed (x : Input) (o : Response) : Bool :=
  o.body != x.originBody || o.headers.get kContentEncoding != x.originHeaders.get kContentEncoding

/-- rrrouter applied an encoding: the delivered label is gzip/br and label or bytes are new -/
def applied (x : Input) (o : Response) : Bool :=
  let de := coding (o.headers.get kContentEncoding)
  (de == b!"gzip" || de == b!"br") &&
    (de != coding (x.originHeaders.get kContentEncoding) || o.body != x.originBody)

/-- clause 4: no stale Content-Length on a transformed response -/
def lengthOk (x : Input) (o : Response) : Bool :=
  if transformed x o then (o.headers.values kContentLength).isEmpty else true

/-- clause 5: Vary keeps the origin's entries and adds Accept-Encoding -/
def varyOk (x : Input) (o : Response) : Bool :=
  if applied x o then subsetOf (varyEntries x.originHeaders ++ [acceptEncodingEntry]) (varyEntries o.headers)
  else true

/-- the property's domain: the origin's label describes its bytes -/
def inDomain (E : Ext) (x : Input) : Bool :=
  (decoded E (x.originHeaders.get kContentEncoding) x.originBody).isSome

/-- names of the violated clauses -/
def violations (E : Ext) (x : Input) (o : Response) : List String :=
  if !inDomain E x then [] else
  (if contentOk E x o then [] else ["content"]) ++
  (if encodingOk x o then [] else ["encoding"]) ++
  (if offOk x o then [] else ["not-identical"]) ++
  (if lengthOk x o then [] else ["content-length"]) ++
  (if varyOk x o then [] else ["vary"])

/-- the oracle: applied to the model's response in the theorems and to the implementation's
    observation at run time -/
def holds (E : Ext) (x : Input) (o : Response) : Bool :=
  !inDomain E x || (contentOk E x o && encodingOk x o && offOk x o && lengthOk x o && varyOk x o)

/-! ### known-finding classes (decidable on the input, as narrow as the defect) -/

/-- the gate of proxy.go:272 is open (the test runs over all Cache-Control lines, joined) -/
def gateOpen (x : Input) : Bool := x.flag && canTransform (cacheControlOf x.originHeaders)

/- (C06-a — client in the gzip class, origin `br`: Brotli on top of Brotli, labelled once — was
   repaired in util.GetRecompression; its class predicate is gone, the cell is covered by the
   full-strength theorem `Props.C06.content_preserved` and by the regression stream kf.C06-a.) -/

/-- does a Vary line mention accept-encoding the way the code tests it -/
def mentionsAE (line : Bytes) : Bool := contains (toLower line) b!"accept-encoding"

/-- C06-b: an encoding is added and some origin Vary entry other than accept-encoding is not
    on a surviving first line (the first Vary line survives iff it is non-empty and does not
    mention accept-encoding as a substring; all further lines are dropped) -/
def inClass_C06_b (x : Input) : Bool :=
  (decision x).add != .none &&
    let lines := x.originHeaders.values kVary
    let first := lines.headD []
    let kept := if first ≠ [] ∧ ¬ mentionsAE first = true then listMembers first else []
    (varyEntries x.originHeaders).any fun e => e != acceptEncodingEntry && !kept.contains e

/-- C06-c: a substring test (`br`, then `gzip`) succeeds on an Accept-Encoding value that does
    not list that coding -/
def inClass_C06_c (x : Input) : Bool :=
  gateOpen x && !contains x.ae b!";" &&
    ((contains x.ae b!"br" && !clientLists x.ae b!"br") ||
     (!contains x.ae b!"br" && contains x.ae b!"gzip" && !clientLists x.ae b!"gzip"))

/- (C06-d — a no-transform directive on a Cache-Control line other than the first was missed by
   the gate's `Header.Get` — was repaired in proxy.go: the gate now tests all Cache-Control lines;
   its class predicate is gone, the clause is covered by the full-strength theorem
   `Props.C06.identity_when_off` and by the regression stream kf.C06-d.) -/

def classes (x : Input) : List String :=
  (if inClass_C06_b x then ["C06-b"] else []) ++
  (if inClass_C06_c x then ["C06-c"] else [])

end Spec.C06
