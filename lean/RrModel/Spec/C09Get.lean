import RrModel.Go.Strings
import RrModel.Go.Header
/-
  C09, the client-304 clause — declarative side (function level).  From the property text:

    "A client receives 304 only if it sent a validator matching the representation it would
     otherwise have been sent (ETags compared without the configured ETAG_SUFFIX, which is
     appended to every ETag served and required on client validators); a client that sent no
     validator never receives 304."

  Entity-tags are compared weakly (RFC 9110 §8.8.3.2): two tags match when their opaque-tags
  are equal, the `W/` PREFIX aside.  The suffix sits at the end of the tag or, when the tag
  ends in a quote, directly before that quote (that is where it is appended when served).
  If-Modified-Since matches when it equals the stored Last-Modified.
-/
namespace Spec.C09Get
open Go

/-- the opaque-tag: the tag without ONE literal `W/` prefix -/
def opaqueTag (t : Bytes) : Bytes := if hasPrefix t b!"W/" then t.drop 2 else t

/-- `s` without its last `n` bytes -/
def dropRight (n : Nat) (s : Bytes) : Bytes := s.take (s.length - n)

/-- the client's tag with the configured suffix removed; no candidate = the required suffix
    is missing.  (Two readings only when the suffix itself ends in a quote.) -/
def stripCandidates (suffix : Option Bytes) (e : Bytes) : List Bytes :=
  match suffix with
  | none => [e]
  | some tok =>
    (if hasSuffix e tok then [dropRight tok.length e] else []) ++
    (if hasSuffix e (tok ++ [34]) then [dropRight (tok.length + 1) e ++ [34]] else [])

/-- the client's If-None-Match value matches the stored ETag -/
def etagMatches (suffix : Option Bytes) (inm storedEtag : Bytes) : Bool :=
  (stripCandidates suffix inm).any fun c => opaqueTag c == opaqueTag storedEtag

/-- the client sent a validator that matches the stored representation -/
def validatorMatches (suffix : Option Bytes) (inm ims : Bytes) (stored : Header) : Bool :=
  (inm != [] && etagMatches suffix inm (stored.get b!"etag")) ||
  (ims != [] && ims == stored.get b!"last-modified")

/-- the oracle of the clause: a 304 only with a matching validator -/
def holds (suffix : Option Bytes) (inm ims : Bytes) (stored : Header) (got304 : Bool) : Bool :=
  !got304 || validatorMatches suffix inm ims stored

/-- a configured ETAG_SUFFIX is a non-empty token without a double quote -/
def suffixOk (suffix : Option Bytes) : Bool :=
  match suffix with
  | none => true
  | some tok => tok != [] && !tok.contains 34

/- (C09-a — `normalizeEtag` was the CUTSET trim `strings.TrimLeft(t, "W/")`, so unquoted tags that
   differ by leading `W` / `/` characters compared equal — was repaired in caching.normalizeEtag
   (`strings.TrimPrefix`); its class predicate is gone, the clause is covered at full strength by
   `Props.C09Get.client_304_only_if_match` and by the regression stream kf.C09-a.) -/

end Spec.C09Get
