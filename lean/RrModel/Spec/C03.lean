import RrModel.Spec.Headers
import RrModel.Spec.Tables
import RrModel.Routing
/-
  C03 — every contacted destination receives the client's request intact: the HEADER clauses
  (declarative side, written from the property text).  Method and body clauses belong to the
  executor model and are added to this file with it (`holds` = `holdsHeaders` ∧ method ∧ body
  for every contact of a trace).

  "All client headers arrive unchanged in value and multiplicity, except that the listed
  hop-by-hop headers are removed, Host follows the rule's hostheader setting, the rule's
  request_headers overrides (set or delete) are applied, and on cache-enabled rules Range and
  the conditional headers are managed by the cache itself."
-/
namespace Spec.C03
open Go Model Spec

/-- what the rule says about request headers -/
structure RuleView where
  /-- `request_headers`: name ↦ `some v` (set to exactly `v`) or `none` (delete), in file order -/
  overrides : List (Bytes × Option Bytes) := []
  hostBehavior : HostHeaderBehavior := .default
  hostOverride : Bytes := []
  deriving Repr

/-- one override: every field of that name goes; `some v` puts back the single value `v` -/
def applyOverride (h : Header) (o : Bytes × Option Bytes) : Header :=
  h.filter (fun e => !sameName e.1 o.1) ++
    (match o.2 with
     | some v => [(o.1, [v])]
     | none => [])

def applyOverrides (h : Header) (ovs : List (Bytes × Option Bytes)) : Header := ovs.foldl applyOverride h

/-- names this clause does not compare: hop-by-hop headers and Host (removed / set by policy)
    and the three internal headers (C04's subject).  The cache-managed names (Range,
    If-None-Match, If-Modified-Since on cache-enabled rules) are added by the executor slice
    through `extra`. -/
def managed (extra : List Bytes := []) : List Bytes :=
  Spec.hopByHopAndHost ++ Spec.richieHeaders ++ extra

def isManaged (extra : List Bytes) (n : Bytes) : Bool := (managed extra).any (sameName n)

/-- the header fields the destination must see (outside `managed`): the client's, with the
    rule's overrides applied -/
def expectedHeaders (rv : RuleView) (client : Header) : Header := applyOverrides client rv.overrides

/-- "Host follows the rule's hostheader setting": default / destination ⇒ the destination
    URL's host; original ⇒ the client's Host; anything else ⇒ that text -/
def expectedHost (rv : RuleView) (clientHost urlHost : Bytes) : Bytes :=
  match rv.hostBehavior with
  | .default => urlHost
  | .destination => urlHost
  | .original => clientHost
  | .override => rv.hostOverride

/-- message-framing fields: net/http consumes them while reading the client request
    (`Transfer-Encoding` is in the hop-by-hop list already) and writes its own on the outgoing
    one; DESIGN 5.0: "transport business and not compared".  Used as `extra` only when the
    client side is given as raw header lines from the wire. -/
def framing : List Bytes := [b!"Content-Length", b!"Trailer"]

/-- what one destination received, header-wise -/
structure Obs where
  header : Header
  /-- the Host the request goes out with -/
  host : Bytes
  /-- the host of the URL that is contacted -/
  urlHost : Bytes
  deriving Repr, DecidableEq

def forwardedOk (rv : RuleView) (client : Header) (o : Obs) (extra : List Bytes := []) : Bool :=
  let exp := expectedHeaders rv client
  (namesOf exp ++ namesOf o.header).all fun n =>
    isManaged extra n || valuesOf o.header n == valuesOf exp n

def hopByHopRemoved (o : Obs) : Bool :=
  Spec.hopByHopAndHost.all fun n => (valuesOf o.header n).isEmpty

def hostOk (rv : RuleView) (clientHost : Bytes) (o : Obs) : Bool :=
  o.host == expectedHost rv clientHost o.urlHost

/-- the oracle for the header clauses of one contact -/
def holdsHeaders (rv : RuleView) (client : Header) (clientHost : Bytes) (o : Obs)
    (extra : List Bytes := []) : Bool :=
  forwardedOk rv client o extra && hopByHopRemoved o && hostOk rv clientHost o

def whyHeaders (rv : RuleView) (client : Header) (clientHost : Bytes) (o : Obs)
    (extra : List Bytes := []) : List String :=
  (if forwardedOk rv client o extra then [] else ["header-values-changed"]) ++
  (if hopByHopRemoved o then [] else ["hop-by-hop-header-forwarded"]) ++
  (if hostOk rv clientHost o then [] else ["host-policy-not-followed"])

/-- the filtering step alone (`filterHeader` with any list of names): a listed name is gone,
    every other (token) name keeps its values -/
def holdsFilter (h : Header) (names : List Bytes) (out : Header) : Bool :=
  (namesOf h ++ namesOf out ++ names).all fun n =>
    !tokenName n || valuesOf out n == (if names.any (sameName n) then [] else valuesOf h n)

/-- the override step alone (`preprocessHeaders`): the result is the client's header with the
    overrides applied, name by name -/
def holdsOverrides (h : Header) (ovs : List (Bytes × Option Bytes)) (out : Header) : Bool :=
  (namesOf h ++ namesOf out ++ ovs.map (·.1)).all fun n =>
    valuesOf out n == valuesOf (applyOverrides h ovs) n

end Spec.C03
