import RrModel.CacheControl
/-
  C10 — declarative side (function level): which responses CARRY one of the directives the
  property names, read at the token level of RFC 9111 §5.2 / RFC 9110 §5.6.1:

      Cache-Control = #cache-directive          (a comma-separated list, several field lines
                                                 are one list)
      list element  = OWS cache-directive OWS    OWS = *( SP / HTAB )
      directive names are case-insensitive

  The property names the BARE directives `no-store`, `no-cache`, `private` and the two
  numeric ones with the value zero, `max-age=0`, `s-maxage=0`.  Qualified forms
  (`private="x"`, `no-cache="set-cookie"`) and quoted numbers (`max-age="0"`) are not
  "carrying" (DESIGN 5.0).  Nothing here looks at how rrrouter parses.
-/
namespace Spec.C10
open Go

inductive Directive where
  | noStore | noCache | priv | maxAge0 | sMaxAge0
  deriving DecidableEq, Repr

/-- the directive as it is written (lower case, no white space) -/
def Directive.text : Directive → Bytes
  | .noStore => b!"no-store"
  | .noCache => b!"no-cache"
  | .priv => b!"private"
  | .maxAge0 => b!"max-age=0"
  | .sMaxAge0 => b!"s-maxage=0"

def allDirectives : List Directive := [.noStore, .noCache, .priv, .maxAge0, .sMaxAge0]

/-- optional white space: SP and HTAB -/
def isOWS (c : Nat) : Bool := c == 32 || c == 9
def isSP (c : Nat) : Bool := c == 32

/-- remove leading and trailing bytes satisfying `p` -/
def strip (p : Nat → Bool) (s : Bytes) : Bytes := ((s.dropWhile p).reverse.dropWhile p).reverse

def stripOWS (s : Bytes) : Bytes := strip isOWS s
def stripSP (s : Bytes) : Bytes := strip isSP s

/-- ASCII lower-casing (directive names are case-insensitive) -/
def lower (s : Bytes) : Bytes := s.map fun c => if 65 ≤ c ∧ c ≤ 90 then c + 32 else c

/-- the spec's own list tokeniser: cut at every comma (`cur` = current element, reversed) -/
def elemsAux : Bytes → Bytes → List Bytes
  | [], cur => [cur.reverse]
  | c :: t, cur => if c = 44 then cur.reverse :: elemsAux t [] else elemsAux t (c :: cur)

/-- the elements of one field value -/
def elems (v : Bytes) : List Bytes := elemsAux v []

/-- all list elements of all `Cache-Control` field lines, in order -/
def elements (h : Header) : List Bytes := (h.values b!"cache-control").flatMap elems

/-- the element is the directive `d`: surrounding OWS removed, compared case-insensitively -/
def isDirective (d : Directive) (e : Bytes) : Bool := lower (stripOWS e) == d.text

/-- **the response carries directive `d`** -/
def carries (d : Directive) (h : Header) : Bool := (elements h).any (isDirective d)

def carriesAny (h : Header) : Bool := allDirectives.any fun d => carries d h

/-- the oracle at function level: a response that carries one of the directives must be
    treated as "do not cache" (`doNotCache` = what the implementation / the model answered) -/
def holds (h : Header) (doNotCache : Bool) : Bool := !carriesAny h || doNotCache

/-- (no finding class any more.)  An element that the token-level reading recognises as one of
    the five directives has an HTAB in its surrounding optional white space.  This was the class
    of finding C10-a (rrrouter trimmed spaces only); since the fix the parser trims SP / HTAB and
    no theorem excludes these inputs.  Kept only as a distribution label of the driver, so that
    the evidence shows how many generated headers exercise the repaired spelling. -/
def htabAroundDirective (h : Header) : Bool :=
  (elements h).any fun e => allDirectives.any (fun d => isDirective d e) && stripOWS e != stripSP e

/-! ### known-finding classes -/

/-- what rrrouter's parser reads out of ONE list element for the numeric directive behind `d`:
    `true` when it reads a value other than zero (any spelling `strconv.Atoi` accepts) -/
def readsNonZero (d : Directive) (e : Bytes) : Bool :=
  let r := Model.applyPart {} (toLower (trim b!" \t" e))
  match d with
  | .maxAge0 => (match r.maxAge with | some n => n != 0 | none => false)
  | .sMaxAge0 => (match r.sMaxAge with | some n => n != 0 | none => false)
  | _ => false

/-- a recognised zero directive `d` followed, later in the list, by an element read as a
    non-zero value of the same directive -/
def zeroThenNonZero (d : Directive) : List Bytes → Bool
  | [] => false
  | e :: t => (isDirective d e && t.any (readsNonZero d)) || zeroThenNonZero d t

/-- C10-b: `max-age=0` (resp. `s-maxage=0`) is overwritten by a later duplicate of the same
    directive with a non-zero value (the parser keeps the LAST occurrence) -/
def inClass_C10_b (h : Header) : Bool :=
  zeroThenNonZero .maxAge0 (elements h) || zeroThenNonZero .sMaxAge0 (elements h)

/-! ### request side: Authorization and the method gate -/

/-- the request carries credentials (first `Authorization` field value non-empty) -/
def hasAuthorization (req : Header) : Bool := req.get b!"authorization" != []

/-- the rule strips the header: its `request_headers` maps `authorization` to null -/
def rulesStripAuthorization (overrides : List (Bytes × Option Bytes)) : Bool :=
  (overrides.find? (fun kv => kv.1 == b!"authorization")).map (·.2) == some none

/-- requests whose responses must never be stored or shared -/
def mustNotCacheRequest (method : Bytes) (req : Header) (overrides : List (Bytes × Option Bytes)) : Bool :=
  (method != b!"GET" && method != b!"HEAD") || (hasAuthorization req && !rulesStripAuthorization overrides)

/-- oracle for `shouldSkipCaching`: credentials the rule does not strip ⇒ disk writes disabled -/
def holdsSkip (req : Header) (overrides : List (Bytes × Option Bytes)) (skip : Bool) : Bool :=
  !(hasAuthorization req && !rulesStripAuthorization overrides) || skip

end Spec.C10
