import RrModel.Routing
/-
  C01 — declarative side: which rule must be chosen.  Nothing here looks at the loop.
-/
namespace Spec.C01
open Go Model

/-- enabled and allows the request method -/
def eligible (r : Rule) (method : Bytes) : Bool :=
  r.enabled && (r.methods.isEmpty || r.methods.contains method)

/-- scheme and host constraints (empty = unconstrained) -/
def schemeHostOk (r : Rule) (q : Query) : Bool :=
  (r.scheme.isEmpty || r.scheme == q.scheme) && (r.host.isEmpty || r.host == q.host)

/-- the path pattern relation as documented: exact patterns need equality with the
    request-target (escaped path + `?` + query); a trailing `*` needs the prefix and a
    non-empty capture, except that `*` and `/*` also match the bare root. -/
def pathMatches (r : Rule) (uri : Bytes) : Bool :=
  match r.wci with
  | none => r.path == uri
  | some wc =>
    (uri == b!"/" && (r.path == b!"*" || r.path == b!"/*")) ||
    (decide (wc < uri.length) && (r.path.take wc).isPrefixOf uri)

def applies (r : Rule) (q : Query) : Bool :=
  eligible r q.method && schemeHostOk r q && pathMatches r q.uri

def appliesProxy (q : Query) (r : Rule) : Bool := applies r q && r.type == .proxy
def appliesCopy (q : Query) (r : Rule) : Bool := applies r q && r.type == .copy

/-- the rule that must receive the proxied request: the first applicable proxy rule -/
def firstProxy (rs : List Rule) (q : Query) : Option Nat := rs.findIdx? (appliesProxy q)

/-- what is observed of one routed request: index of the rule whose destination was
    contacted as proxy target (`none`: no proxy contact), and the client status -/
structure Obs where
  proxyRule : Option Nat
  status : Nat
  deriving Repr, DecidableEq

/-- the oracle: applied to the model's result in the theorems and to the implementation's
    observation at run time -/
def holds (rs : List Rule) (q : Query) (o : Obs) : Bool :=
  match firstProxy rs q with
  | none => o.proxyRule.isNone && o.status == 404
  | some i => o.proxyRule == some i

end Spec.C01
