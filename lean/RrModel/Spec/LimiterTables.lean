import RrModel.Go.Bytes
/-
  Specification tables for the size limiter (C16, C17), written down independently of the Go
  source; RrProofs/Pins.lean proves the regenerated facts equal them.
-/
namespace Spec
open Go

/-- C16: the limiter looks at the cache at most every 5 s, frees at most 150 MiB per pass and
    books sizes in whole KiB -/
def purgeIntervalSec : Nat := 5
def maxPurgeBytes : Nat := 150 * 1024 * 1024
def kbDivisor : Nat := 1024

/-- C16/C17: the accounting statements `Model.Limiter` mirrors, in source order: exact byte sum
    but whole-KiB items at start-up, `uint32` KiB × 1024 on add / subtract / select, the 5 s
    guard, the `sizeBytes > maxSizeBytes` guard, the cap, re-basing `startedAt − unix` -/
def limiterArith : List Bytes := [
  b!"lastRun:=time.Now().Add(-sleepTime)",
  b!"s.sizeBytes+=int64((io.accessedItem.sizeKilobytes*1024))",
  b!"lastRun=time.Now()",
  b!"sizeKb:=s.withAccessTime[n].sizeKilobytes",
  b!"s.sizeBytes-=int64((sizeKb*1024))",
  b!"sizeKb:=s.withoutAccessTime[n].sizeKilobytes",
  b!"s.sizeBytes-=int64((sizeKb*1024))",
  b!"lastRun=time.Now()",
  b!"if (time.Now().Sub(lastRun)<sleepTime)",
  b!"if (s.sizeBytes>s.maxSizeBytes)",
  b!"sizeBytes+=size",
  b!"withoutAccessTime[itemName((prefixWithItemName(name)+name))]={sizeKilobytes:uint32((size/1024))}",
  b!"s.sizeBytes+=sizeBytes",
  b!"closeFinisher:if revalidate {return }",
  b!"closeFinisher:ai:={accessTime:accessTime((time.Now().Unix()-s.startedAt)),sizeKilobytes:uint32((size/1024))}",
  b!"closeFinisher:verifAdjustAccess(s,&ai,nil)",
  b!"closeFinisher:s.itemsChan<-&{op:opAdd,name:itemName(name),accessedItem:&ai}",
  b!"item:={accessTime((time.Now().Unix()-s.startedAt)),uint32((size/1024))}",
  b!"storableItem:={time.Now().Unix(),uint32((size/1024))}",
  b!"purgeBytes=maxPurgeBytes",
  b!"bytesFound+=int64((item.sizeKilobytes*1024))",
  b!"bytesFound+=int64((item.sizeKilobytes*1024))",
  b!"if (purgeBytes>maxPurgeBytes)",
  b!"if (bytesFound>=purgeBytes)",
  b!"if (bytesFound>=purgeBytes)",
  b!"l,err=reader.ReadString('\\n')",
  b!"l=<*ast.SliceExpr>",
  b!"parts:=strings.Split(l,\"|\")",
  b!"atime=uint32((s.startedAt-i64))",
  b!"size=uint32(v)" ]

/-- C17: trim arithmetic and file effects of `flushStorableAccessTimes`, in source order
    (rewrite = create `atimes-truncated`, copy, remove `atimes`, rename) -/
def atimeFlushShape : List Bytes := [
  b!"tp:=filepath.Join(s.path,\"atimes-truncated\")",
  b!"maxLength:=int64((60*3000000))",
  b!"maxLength=int64(l)",
  b!"s:=((((string(name)+\"|\")+strconv.FormatInt(item.accessTime,10))+\"|\")+strconv.Itoa(int(item.sizeKilobytes)))",
  b!"bytesToTrim:=((length-maxLength)+(maxLength/10))",
  b!"delimPos:=int64(bytes.IndexByte(b,delim))",
  b!"if (len(s.storableAccessedItems)==0)",
  b!"os.OpenFile(p,os.O_RDWR,0)",
  b!"os.Remove(p)",
  b!"os.Create(p)",
  b!"f.Seek(0,2)",
  b!"if (length>maxLength)",
  b!"f.Seek(bytesToTrim,0)",
  b!"if (delimPos==-1)",
  b!"f.Seek(((seekPos+delimPos)+1),0)",
  b!"os.Create(tp)",
  b!"os.Remove(tp)",
  b!"os.Create(tp)",
  b!"os.Remove(p)",
  b!"os.Rename(tp,p)" ]

end Spec
