import RrModel.Range
/-
  C15 — declarative side, written from the property text and DESIGN 5.0, not from the code:
  for a resource (status, bytes `B` of length `n`) and the value of the client's `Range` header, the
  set of responses the client may receive.  Only the observation type `ClientView`, the byte
  renderer `natDigits` and the digit reader `digitsVal` are shared with the model; nothing here
  looks at `getRange`, `start/end/size` or `setRangedHeaders` (the class predicates of C15-g and C15-h, which
  are *about* what the code's parser accepts, are the deliberate exceptions).
-/
namespace Spec.C15
open Go Model.Range

/-- RFC 9110 14.1.2 reading of a `Range` header value -/
inductive RangeSpec where
  | absent                     -- no Range header
  | invalid                    -- not a single well-formed byte range (other unit, multi-range, junk)
  | fromTo (a b : Nat)         -- `bytes=a-b`, a ≤ b
  | from_ (a : Nat)            -- `bytes=a-`
  | suffix (k : Nat)           -- `bytes=-k`
  deriving DecidableEq, Repr

/-- `1*DIGIT` -/
def decimal (s : Bytes) : Option Nat := if s.isEmpty then none else digitsVal s 0

/-- one `range-spec` (`int-range` or `suffix-range`); a comma or a second `-` makes it invalid -/
def parseSet (rs : Bytes) : RangeSpec :=
  match split1 45 rs with
  | [a, b] =>
    if a.isEmpty then
      match decimal b with
      | some k => .suffix k
      | none => .invalid
    else
      match decimal a with
      | none => .invalid
      | some x =>
        if b.isEmpty then .from_ x
        else match decimal b with
          | some y => if x ≤ y then .fromTo x y else .invalid
          | none => .invalid
  | _ => .invalid

/-- `ranges-specifier = range-unit "=" range-set` with the unit `bytes` (units are case-insensitive) -/
def parseRange : Option Bytes → RangeSpec
  | none => .absent
  | some v => if toLower (v.take 6) = b!"bytes=" then parseSet (v.drop 6) else .invalid

def RangeSpec.isRange : RangeSpec → Bool
  | .fromTo _ _ | .from_ _ | .suffix _ => true
  | _ => false

/-- bytes `first..last` (inclusive) of `B` -/
def slice (B : Bytes) (first last : Nat) : Bytes := (B.drop first).take (last + 1 - first)

/-- `bytes first-last/n` -/
def contentRangeText (first last n : Nat) : Bytes :=
  b!"bytes " ++ natDigits first ++ b!"-" ++ natDigits last ++ b!"/" ++ natDigits n

/-- the complete response: the resource's own status, no `Content-Range`, `Content-Length` absent
    or equal to the length -/
def fullHeaders (st n : Nat) (v : ClientView) : Bool :=
  v.status == st && v.contentRange.isNone && (v.contentLength.isNone || v.contentLength == some (natDigits n))

/-- `206` with matching `Content-Range` and `Content-Length` for bytes `first..last` of `n` -/
def partialHeaders (n first last : Nat) (v : ClientView) : Bool :=
  v.status == 206 && v.contentRange == some (contentRangeText first last n) &&
    v.contentLength == some (natDigits (last + 1 - first))

/-- the allowed responses, with the two body conditions abstracted (`isFull`: the body is all of the
    resource; `isSlice f l`: the body is bytes `f..l`) so that the same definition serves the wire
    oracle and the header-level oracle of the function-level streams -/
def allowedWith (st n : Nat) (r : RangeSpec) (v : ClientView) (isFull : Bool) (isSlice : Nat → Nat → Bool) : Bool :=
  (fullHeaders st n v && isFull) ||
  (st == 200 &&
    match r with
    | .fromTo a b =>
      decide (a ≤ b) &&
        ((decide (a < n) && partialHeaders n a (min b (n - 1)) v && isSlice a (min b (n - 1))) ||
         (decide (b ≥ n) && v.status == 416))
    | .from_ a =>
      (decide (a < n) && partialHeaders n a (n - 1) v && isSlice a (n - 1)) ||
      (decide (a ≥ n) && v.status == 416)
    | .suffix k =>
      (decide (0 < k ∧ 0 < n) && partialHeaders n (n - min k n) (n - 1) v && isSlice (n - min k n) (n - 1)) ||
      (decide (k = 0 ∨ k > n) && v.status == 416)
    | .absent => false
    | .invalid => false)

/-- **the allowed set** for resource `(st, B)` and parsed range `r` -/
def allowedSpec (st : Nat) (B : Bytes) (r : RangeSpec) (v : ClientView) : Bool :=
  allowedWith st B.length r v (v.body == B) (fun f l => v.body == slice B f l)

def allowed (st : Nat) (B : Bytes) (rangeHeader : Option Bytes) (v : ClientView) : Bool :=
  allowedSpec st B (parseRange rangeHeader) v

/-- status and headers only (what `setRangedHeaders` decides), for a resource of length `n` -/
def allowedHeaders (st n : Nat) (rangeHeader : Option Bytes) (v : ClientView) : Bool :=
  allowedWith st n (parseRange rangeHeader) v true (fun _ _ => true)

/-- one request against one resource -/
structure Input where
  path : Path
  status : Nat
  /-- the resource's `Content-Length` header as stored / as sent by the origin (`none`: absent) -/
  clh : Option Int
  body : Bytes
  range : Option Bytes
  deriving Repr

/-- the oracle: applied to the model's response in the theorems and to the implementation's
    response at run time -/
def holds (x : Input) (v : ClientView) : Bool := allowed x.status x.body x.range v

/-! Known-finding classes (decidable, as narrow as the defect).
    The former classes C15-a (suffix form `-k` with `k` larger than the resource) and C15-b (suffix
    form `-0`) are gone: the suffix arithmetic was repaired in the code (fix: commit for C15-a/C15-b);
    their witness streams kf.C15-a / kf.C15-b run as regression streams outside any class. -/

/-- C15-c: a `200` resource without a positive `Content-Length` header (chunked or recompressed
    origin), asked for a valid single range -/
def inClass_C15_c (x : Input) : Bool :=
  x.status == 200 && (parseRange x.range).isRange &&
    match x.clh with
    | some v => decide (v ≤ 0)
    | none => true

/-- C15-d: a cached non-`200` response (error, redirect) asked for a valid single range -/
def inClass_C15_d (x : Input) : Bool :=
  x.status != 200 && (parseRange x.range).isRange

/-- C15-f: hit on a zero-length entry with a valid single range -/
def inClass_C15_f (x : Input) : Bool :=
  x.path == .hit && x.body.isEmpty && (parseRange x.range).isRange

/-- C15-g: a header value that is not a valid single byte range but that the code's parser accepts
    (text in front of `bytes=`, `+` signs) -/
def inClass_C15_g (x : Input) : Bool :=
  parseRange x.range == .invalid && (getRange (rangeOnlyHeader x.range)).isSome

/-- C15-h: the filling request carries a `Range` line that the code's parser rejects (multi-range,
    other spelling of the unit, values beyond int64, junk): it is forwarded to the origin -/
def inClass_C15_h (x : Input) : Bool :=
  x.path == .fill && x.range.isSome && (getRange (rangeOnlyHeader x.range)).isNone

/-- "the origin is always asked for the whole resource": no contact carries a `Range` line -/
def originOk (originSawRange : Bool) : Bool := !originSawRange

def classes (x : Input) : List String :=
  (if inClass_C15_c x then ["C15-c"] else []) ++ (if inClass_C15_d x then ["C15-d"] else []) ++
  (if inClass_C15_f x then ["C15-f"] else []) ++ (if inClass_C15_g x then ["C15-g"] else []) ++
  (if inClass_C15_h x then ["C15-h"] else [])

/-- the classes that concern the response itself (C15-h concerns the origin request) -/
def inViewClass (x : Input) : Bool :=
  inClass_C15_c x || inClass_C15_d x || inClass_C15_f x || inClass_C15_g x

end Spec.C15
