import RrModel.Exec
import RrModel.Spec.C01
import RrModel.Spec.Tables
/-
  System-level observation types and the oracles that read them (DESIGN Appendix E):
  what the harness records of one exchange — the client's request, every contact that reached
  the scripted origin, the wire-level client view — and `holds` predicates written from the
  property texts.  Used on the model's output in the theorems and on the implementation's
  observation at run time.
-/
namespace Spec.Sys
open Go Model

structure ClientReq where
  method : Bytes
  target : Bytes
  host : Bytes
  headers : List (Bytes × Bytes)    -- wire order
  body : Bytes
  deriving Repr

/-- a contact as observed: compared skeleton + headers etc. -/
structure ContactObs where
  host : Bytes
  method : Bytes
  failed : Bool
  body : Bytes
  scheme : Bytes := []
  path : Bytes := []
  hostField : Bytes := []
  headers : List (Bytes × Bytes) := []
  deriving Repr

structure ViewObs where
  status : Nat
  framing : String
  /-- body token as printed (hex, atom, `j…` for rrrouter's JSON error, `rmux` for the mux redirect) -/
  body : String
  headers : List (Bytes × Bytes) := []
  deriving Repr

def hostOfDest (dest : Bytes) : Bytes :=
  -- the destination text up to the placeholder never changes its authority (C02); strip `$1`
  match Url.split (replaceFirst dest b!"$1" []) with
  | some u => u.authority.getD []
  | none => []

/-- C01 at system level: the proxied request goes to the first applicable proxy rule's
    destination; nothing matches ⇒ 404 and only copy destinations are contacted. -/
def holdsC01 (rs : List Rule) (retryHosts : Nat → List Bytes) (q : Query)
    (v : ViewObs) (cs : List ContactObs) : Bool :=
  let copyHosts := (rs.filter (·.type == .copy)).map (hostOfDest ·.dest)
  match Spec.C01.firstProxy rs q with
  | none => v.status == 404 && cs.all (fun c => copyHosts.contains c.host)
  | some i =>
    let h := (rs[i]?.map (hostOfDest ·.dest)).getD []
    let nonCopy := cs.filter (fun c => !copyHosts.contains c.host || c.host == h)
    -- an answer made before anything was contacted (407/500 while building the requests) is
    -- judged by C04/C05; here: whoever is contacted as proxy target is the selected rule's
    -- an answer made before anything was contacted must be an error of rrrouter's own (407/500
    -- while building the requests; judged by C04/C05); otherwise whoever is contacted as proxy
    -- target is the selected rule's destination
    (match nonCopy.head? with
     | none => decide (v.status ≥ 400)
     | some c => c.host == h) &&
    cs.all (fun c => c.host == h || copyHosts.contains c.host || (retryHosts i).contains c.host)

/-- C03 (method and body clause): every contact that was answered received the client's method
    and the complete body -/
def holdsC03Body (req : ClientReq) (cs : List ContactObs) : Bool :=
  cs.all fun c => c.failed || (c.method == req.method && c.body == req.body)

def statusIn (codes : List Nat) (s : Nat) : Bool := codes.contains s

/-- C05 for an exchange whose final origin answer is `e` (no body fault): status, body and
    framing mirror the origin; a self-made answer is a well-formed error -/
def holdsC05Plain (method : Bytes) (final : Option OriginEntry) (v : ViewObs) (bodyTok : Bytes → String) : Bool :=
  match final with
  | some e =>
    v.framing == "complete" && v.status == e.status &&
    (v.body == bodyTok (if method == b!"HEAD" then [] else e.body))
  | none =>
    v.framing == "complete" && v.status ≥ 400 &&
    (statusIn Spec.userErrorCodes v.status || v.status == 500) &&
    (v.status == 500 || method == b!"HEAD" || v.body.startsWith "j")

/-- header mirror: every origin header line arrives (same values, multiplicity, order per name);
    anything else on the response is a documented addition (richie-edge-cache, the rule's
    response_headers) or net/http's own framing (Content-Length, Content-Type sniffed when the
    origin sent none, Date, Connection, Transfer-Encoding) -/
def headerValues (h : List (Bytes × Bytes)) (name : Bytes) : List Bytes :=
  (h.filter fun kv => toLower kv.1 == toLower name).map (·.2)

def holdsC05Headers (origin : List (Bytes × Bytes)) (ruleResp : List (Bytes × Bytes)) (v : ViewObs) : Bool :=
  let managed : List Bytes := [b!"content-length", b!"transfer-encoding", b!"connection", b!"date", b!"richie-edge-cache"] ++
    ruleResp.map (fun kv => toLower (trimSpace kv.1))
  let originNames := origin.map (fun kv => toLower kv.1)
  (origin.all fun kv =>
      managed.contains (toLower kv.1) ||
      -- ETag is a singleton header that rrrouter rewrites (suffix): its first value is what counts
      (if toLower kv.1 == b!"etag" then (headerValues v.headers kv.1).head? == (headerValues origin kv.1).head?
       else headerValues v.headers kv.1 == headerValues origin kv.1)) &&
  (v.headers.all fun kv =>
      managed.contains (toLower kv.1) || originNames.contains (toLower kv.1) ||
      (toLower kv.1 == b!"content-type")) &&
  (ruleResp.all fun kv => headerValues v.headers (trimSpace kv.1) == [trimSpace kv.2]) &&
  headerValues v.headers b!"richie-edge-cache" == [b!"pass"]

/-- C04 at system level, per contact: an external destination never sees any of the three
    internal headers; an internal one (rule flagged internal AND secrets configured) always gets a
    configured secret, a request id and the originating-IP header -/
def holdsC04Contact (internal : Bool) (secrets clientSecret : List Bytes) (c : ContactObs) : Bool :=
  let sec := headerValues c.headers b!"Richie-Routing-Secret"
  let rid := headerValues c.headers b!"Richie-Request-ID"
  let ip := headerValues c.headers b!"Richie-Originating-IP"
  if internal then
    -- "the first configured secret unless the client supplied a valid one"
    (if clientSecret.isEmpty then sec == secrets.head?.toList
     else if clientSecret.all secrets.contains then sec == clientSecret     -- the client's own valid secret(s), as sent
     else !sec.isEmpty && sec.all secrets.contains) &&
    -- (a client holding a valid secret may send the other two itself, also on several lines: they pass as sent)
    !rid.isEmpty && rid.all (· ≠ []) && !ip.isEmpty
  else sec.isEmpty && rid.isEmpty && ip.isEmpty

/-- every answered contact, classified by the rule whose destination host it is; `clientSecret` =
    the Richie-Routing-Secret values of the client's request -/
def holdsC04 (ruleOfHost : Bytes → Option Bool) (secretsNil : Bool) (secrets clientSecret : List Bytes)
    (cs : List ContactObs) : Bool :=
  cs.all fun c =>
    match ruleOfHost c.host with
    | some internalFlag => holdsC04Contact (internalFlag && !secretsNil) secrets clientSecret c
    | none => true

/-- C20: with and without the copy rules the client sees the same response -/
def holdsC20Invisible (withCopy withoutCopy : ViewObs) : Bool :=
  withCopy.status == withoutCopy.status && withCopy.framing == withoutCopy.framing &&
  withCopy.body == withoutCopy.body && withCopy.headers == withoutCopy.headers

/-- `cleanPath(p) == p` of net/http's ServeMux: rooted, no empty / `.` / `..` segment (a
    trailing slash is fine) -/
def isCleanPath (p : Bytes) : Bool :=
  match p with
  | 47 :: t =>
    let segs := split1 47 t
    let inner := segs.dropLast
    inner.all (fun s => s ≠ [] && s ≠ b!"." && s ≠ b!"..") &&
    (match segs.getLast? with | some l => l ≠ b!"." && l ≠ b!".." | none => true)
  | _ => false

end Spec.Sys
