import RrModel.Spec.Headers
import RrModel.Spec.Tables
/-
  C04 — routing-secret firewall, declarative side (written from the property text; nothing here
  looks at `ensureInternalHeaders`).

  Reading of the text (DESIGN 5.0): "the secret / id / IP a request carries" is the first value
  of that field (what every consumer of a single-valued header reads); a field whose first
  value is empty counts as not supplied.  Field names are compared case-insensitively.  A
  destination is *internal* when its rule says so **and** routing secrets are configured at
  all; with no secrets configured every destination is external.
-/
namespace Spec.C04
open Go Spec

def secretName : Bytes := b!"Richie-Routing-Secret"
def idName : Bytes := b!"Richie-Request-ID"
def ipName : Bytes := b!"Richie-Originating-IP"

/-- one outgoing request about to be built -/
structure Input where
  /-- the header fields the client request carries -/
  client : Header
  /-- the rule's `internal` flag -/
  internal : Bool
  /-- configured `RoutingSecrets`; `none` = not configured -/
  secrets : Option (List Bytes)
  /-- the client address the router determined (empty when it cannot be determined) -/
  peerIP : Bytes := []
  deriving Repr, DecidableEq

/-- what happened to that request -/
inductive Obs where
  /-- the destination is contacted with these header fields -/
  | sent (h : Header)
  /-- answered with an error status, no destination contacted -/
  | rejected (status : Nat)
  /-- the handler crashed (run-time panic), no destination contacted -/
  | crashed
  deriving Repr, DecidableEq

def known (i : Input) : List Bytes := i.secrets.getD []

def internalDest (i : Input) : Bool := i.internal && i.secrets.isSome

def clientSecret (i : Input) : Bytes := firstOf i.client secretName

def suppliesSecret (i : Input) : Bool := clientSecret i != []
def suppliesValidSecret (i : Input) : Bool := suppliesSecret i && (known i).contains (clientSecret i)
def suppliesUnknownSecret (i : Input) : Bool := suppliesSecret i && !(known i).contains (clientSecret i)
def suppliesIdOrIp (i : Input) : Bool := firstOf i.client idName != [] || firstOf i.client ipName != []

/-- "A request carrying an unknown secret, or an id/IP without a secret on an internal route,
    is answered 407 and reaches no destination." -/
def mustReject (i : Input) : Bool :=
  suppliesUnknownSecret i || (internalDest i && !suppliesSecret i && suppliesIdOrIp i)

/-- "External destinations never receive Richie-Routing-Secret, Richie-Request-ID or
    Richie-Originating-IP, whatever the client sent": no entry under any casing of the names. -/
def richieFree (h : Header) : Bool :=
  h.all fun e => !(Spec.richieHeaders.any (sameName e.1)) || e.2.isEmpty

/-- "client-supplied id/IP values are kept only when accompanied by a valid secret" -/
def keptOnlyWithValidSecret (i : Input) (h : Header) (n : Bytes) : Bool :=
  !(firstOf i.client n != [] && valuesOf h n == valuesOf i.client n) || suppliesValidSecret i

/-- "Internal destinations always receive a valid secret (the first configured one unless the
    client supplied a valid one), a request id and an originating IP, and client-supplied id/IP
    values are kept only when accompanied by a valid secret." -/
def internalOk (i : Input) (h : Header) : Bool :=
  (known i).contains (firstOf h secretName)
  && (if suppliesValidSecret i then firstOf h secretName == clientSecret i
      else some (firstOf h secretName) == (known i).head?)
  && firstOf h idName != []
  && !(valuesOf h ipName).isEmpty && (i.peerIP == [] || firstOf h ipName != [])
  && keptOnlyWithValidSecret i h idName && keptOnlyWithValidSecret i h ipName

/-- the oracle: used in the theorems on the model's outcome and at run time on what the
    implementation did.  A crash reaches no destination, so it cannot breach the firewall
    (what the client then sees is C05's subject); the theorems say exactly when the model
    crashes. -/
def holds (i : Input) (o : Obs) : Bool :=
  match o with
  | .crashed => true
  | .rejected status => !mustReject i || status == 407
  | .sent h => !mustReject i && (if internalDest i then internalOk i h else richieFree h)

/-- reasons, for the run-time verdict line -/
def why (i : Input) (o : Obs) : List String :=
  match o with
  | .crashed => []
  | .rejected status => if mustReject i && status != 407 then ["rejected-with-other-status"] else []
  | .sent h =>
    (if mustReject i then ["forwarded-instead-of-407"] else []) ++
    (if internalDest i then (if internalOk i h then [] else ["internal-destination-headers-wrong"])
     else (if richieFree h then [] else ["external-destination-received-internal-header"]))

end Spec.C04
