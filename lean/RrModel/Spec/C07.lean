import RrModel.Codec
import RrModel.Spec.Tables
/-
  C07 — "a cache hit replays exactly what was stored", function level: the metadata codec and
  the header preparation at store time.  Declarative side, written from the property text:

  * what goes into the entry's metadata must come out again: host, path, status, redirect URL,
    the three numbers, and for both header maps every name, every value, every repeated value in
    order (`sameHeader`: equal value lists under every key);
  * the only store-time differences are the documented ones: `richie-edge-cache` is not stored,
    the ETag suffix is stripped, cached 400–404 answers get the fixed 60-second Cache-Control.
-/
namespace Spec.C07
open Go Model.Codec

/-- equal as multisets of (name, value) lines with the order of repeated values kept: the same
    value list under every key that occurs in either map -/
def sameHeader (a b : Header) : Bool :=
  (a.map (·.1) ++ b.map (·.1)).all fun k => Header.vals a k == Header.vals b k

/-- what the decoder is observed to do with an encoded entry -/
inductive Obs where
  | panic
  | err
  | ok (m : Meta)
  deriving Repr, DecidableEq

def obsOf : Res (Option Meta) → Obs
  | .panic _ => .panic
  | .ok none => .err
  | .ok (some m) => .ok m

def sameMeta (m m' : Meta) : Bool :=
  m'.host == m.host && m'.path == m.path && m'.status == m.status && m'.redirect == m.redirect &&
  m'.created == m.created && m'.revalidated == m.revalidated && m'.size == m.size &&
  sameHeader m.reqHeader m'.reqHeader && sameHeader m.respHeader m'.respHeader

/-- the oracle: decoding the encoded entry gives the entry back -/
def holdsCodec (m : Meta) (o : Obs) : Bool :=
  match o with
  | .ok m' => sameMeta m m'
  | _ => false

/-- what went wrong, for the verdict text (empty iff `holdsCodec`) -/
def headerReasons (orig got : Header) : List String :=
  let ks := orig.map (·.1)
  let lost := ks.any fun k => (Header.vals got k).length < (Header.vals orig k).length
  let injected := (got.map (·.1)).any fun k => (Header.vals orig k).isEmpty && !(Header.vals got k).isEmpty
  let changed := ks.any fun k =>
    (Header.vals got k).length ≥ (Header.vals orig k).length && Header.vals got k != Header.vals orig k
  (if lost then ["value-lost"] else []) ++ (if injected then ["header-injected"] else []) ++
  (if changed then ["value-changed"] else [])

def reasons (m : Meta) (o : Obs) : List String :=
  match o with
  | .panic => ["decode-panics"]
  | .err => ["entry-undecodable"]
  | .ok m' =>
    let f := m'.host == m.host && m'.path == m.path && m'.status == m.status && m'.redirect == m.redirect &&
      m'.created == m.created && m'.revalidated == m.revalidated && m'.size == m.size
    let r := (if f then [] else ["field-changed"]) ++
      (headerReasons m.reqHeader m'.reqHeader ++ headerReasons m.respHeader m'.respHeader).eraseDups
    if r.isEmpty && !holdsCodec m o then ["mismatch"] else r

/-! ### The class the codec can represent (known finding C07-a = its complement) -/

/-- no occurrence of the byte pair `a b` -/
def noPair (a b : Nat) : Bytes → Bool
  | [] => true
  | [_] => true
  | c :: d :: t => !(c == a && d == b) && noPair a b (d :: t)

/-- a header name the format carries: it is its own canonical form (what net/http produces),
    contains no `:` and no `|`, no `],`, and does not start with `{` or `}` -/
def goodKey (k : Bytes) : Bool :=
  canon k == k && !k.contains 58 && !k.contains 124 && noPair 93 44 k &&
  !(k.head? == some 123) && !(k.head? == some 125)

/-- a header value the format carries: no `|`, no `],`, neither first nor last byte is `[` or `]`
    (commas, spaces, `=`, `/`, `;`, `:`, quotes, braces, digits, `[`/`]` inside, bytes ≥ 0x80 are
    all fine; so is the empty value) -/
def goodVal (v : Bytes) : Bool :=
  !v.contains 124 && noPair 93 44 v &&
  !(v.head? == some 91) && !(v.head? == some 93) && !(v.getLast? == some 91) && !(v.getLast? == some 93)

/-- every name has exactly one value, and names and values are carried by the format -/
def goodHeader (h : Header) : Bool :=
  h.all fun e => goodKey e.1 && match e.2 with
    | [v] => goodVal v
    | _ => false

/-- metadata the custom format represents faithfully -/
def Representable (m : Meta) : Bool :=
  !m.host.contains 124 && !m.path.contains 124 && !m.redirect.contains 124 &&
  goodHeader m.reqHeader && goodHeader m.respHeader

/-- known-finding class C07-a: everything outside `Representable` -/
def inClass_C07_a (m : Meta) : Bool := !Representable m

/-- a `|` somewhere in what the encoder emits: host, path, redirect URL, a header name or the
    first value of a header -/
def pipeInHeader (h : Header) : Bool :=
  (mapKeys h).any fun k => k.contains 124 || (h.get k).contains 124

def hasPipe (m : Meta) : Bool :=
  m.host.contains 124 || m.path.contains 124 || m.redirect.contains 124 ||
  pipeInHeader m.reqHeader || pipeInHeader m.respHeader

/-! ### Store-time header preparation -/

/-- the documented ETag difference: the configured suffix (before a closing quote, or at the very
    end) is removed -/
def etagStripped (suffix : Option Bytes) (e : Bytes) : Bytes :=
  match suffix with
  | none => e
  | some t =>
    let n := e.length
    if e == e.take (n - (t.length + 1)) ++ t ++ b!"\"" then e.take (n - (t.length + 1)) ++ b!"\""
    else if e == e.take (n - t.length) ++ t then e.take (n - t.length)
    else e

/-- what must be stored under key `k` for origin status `s` and the assembled header map `h` -/
def expectedStored (suffix : Option Bytes) (s : Int) (h : Header) (k : Bytes) : List Bytes :=
  if k = b!"Richie-Edge-Cache" then []
  else if k = b!"Etag" then
    (match Header.vals h k with
     | [] => []
     | e :: rest => if e = [] then e :: rest else etagStripped suffix e :: rest)
  else if k = b!"Cache-Control" ∧ 400 ≤ s ∧ s ≤ 404 then [Spec.cacheable4xxCacheControl]
  else Header.vals h k

/-- oracle for the store-time preparation: under every key the stored map holds what is expected -/
def holdsStore (suffix : Option Bytes) (s : Int) (h out : Header) : Bool :=
  (h.map (·.1) ++ out.map (·.1) ++ [b!"Richie-Edge-Cache", b!"Etag", b!"Cache-Control"]).all fun k =>
    Header.vals out k == expectedStored suffix s h k

end Spec.C07
