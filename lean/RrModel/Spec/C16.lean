import RrModel.Limiter
import RrModel.Spec.LimiterTables
/-
  C16 — declarative side, written from the property text: "the bytes stored under a cache
  directory return to at most the configured size within a bounded time of exceeding it …
  While the stored bytes are within the limit, no entry is removed by the size limiter."

  Reading (DESIGN 5.0): "bounded time" = a bounded number of purge passes.  One pass may be
  capped (`Spec.maxPurgeBytes`), so a pass that starts over the limit must either end within
  the limit or shrink the stored bytes by at least min(excess, cap): ⌈excess / cap⌉ passes
  then suffice.  "Bytes stored" = the sizes of all regular files under the directory except
  the limiter's own access-time log.  Nothing here looks at the limiter's bookkeeping.
-/
namespace Spec.C16
open Go Model.Limiter

/-- what an observer of the directory records for one purge pass -/
structure Pass where
  max : Int
  /-- bytes stored when the pass starts / when it ends -/
  before : Int
  after : Int
  /-- files the pass deleted -/
  removed : List Bytes
  deriving Repr, DecidableEq

/-- second sentence: within the limit ⇒ nothing removed -/
def needless (p : Pass) : Bool := decide (p.before ≤ p.max) && !p.removed.isEmpty

/-- first sentence, per pass -/
def progress (p : Pass) : Bool :=
  decide (p.before ≤ p.max) || decide (p.after ≤ p.max) ||
    decide (p.before - p.after ≥ min (p.before - p.max) (Spec.maxPurgeBytes : Int))

def passOk (p : Pass) : Bool := !needless p && progress p

/-- the oracle over a limiter log -/
def holds (l : List Pass) : Bool := l.all passOk

/-- reasons, for the verdict line -/
def reasons (l : List Pass) : List String :=
  (if l.any needless then ["needless-eviction-within-limit"] else []) ++
  (if l.any (fun p => !progress p) then ["pass-over-limit-without-progress"] else [])

/-! ### known-finding classes: decidable per step of a history (state before the op, op) -/

/-- a size the limiter's bookkeeping can represent: whole KiB, below 4 GiB -/
def kbExact (size : Nat) : Bool := size % 1024 == 0 && decide (size < 4294967296)

/-- C16-a: an entry whose size is not a whole number of KiB below 4 GiB gets accounted -/
def inClass_a (s : Sys) : Op → Bool
  | .fill n size _ => !s.fs.files.has n && !kbExact size
  | .restart _ => s.fs.files.toList.any fun x => !kbExact x.2
  | _ => false

/-- C16-b: a revalidation changes the size of an existing entry -/
def inClass_b (s : Sys) : Op → Bool
  | .regrow n size => match s.fs.files.get n with | some old => old != size | none => false
  | _ => false

/-- C16-c: at start-up the access-time log names an entry that has no file, or gives a size
    other than the file's -/
def inClass_c (s : Sys) : Op → Bool
  | .restart now =>
    match s.fs.atimes with
    | none => false
    | some c => (readStorable now c).any fun x =>
        match s.fs.files.get x.1 with
        | none => true
        | some sz => x.2.kb != kbOfSize sz
  | _ => false

/-- C16-d: an entry is deleted behind the limiter's back -/
def inClass_d (s : Sys) : Op → Bool
  | .delete n => s.fs.files.has n
  | _ => false

/-- C16-e: at start-up a regular file does not sit at `prefix(base)+base` — always the case for
    the access-time log itself — and becomes a phantom entry -/
def inClass_e (s : Sys) : Op → Bool
  | .restart _ => (allFiles s.fs).any fun x => itemNameOfPath x.1 != .ok x.1
  | .fill n _ _ => itemNameOfPath n != .ok n
  | _ => false

/-- C16-f: a hit on (or a re-fill of) a name that is in the unknown-atime set puts it into both
    maps (C17-b), so that it is subtracted twice -/
def inClass_f (s : Sys) : Op → Bool
  | .hit n _ => s.fs.files.has n && s.st.without.has n
  | .fill n _ _ => !s.fs.files.has n && s.st.without.has n
  | _ => false

def classesOfStep (s : Sys) (op : Op) : List String :=
  (if inClass_a s op then ["C16-a"] else []) ++ (if inClass_b s op then ["C16-b"] else []) ++
  (if inClass_c s op then ["C16-c"] else []) ++ (if inClass_d s op then ["C16-d"] else []) ++
  (if inClass_e s op then ["C16-e"] else []) ++ (if inClass_f s op then ["C16-f"] else [])

/-- the hypothesis `H` of the partial theorems: the step is in none of the classes -/
def cleanStep (s : Sys) (op : Op) : Bool :=
  !(inClass_a s op || inClass_b s op || inClass_c s op || inClass_d s op || inClass_e s op || inClass_f s op)

end Spec.C16
