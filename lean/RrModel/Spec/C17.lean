import RrModel.Limiter
/-
  C17 — declarative side, from the property text: "entries whose last access is unknown go first
  and then entries in order of oldest access, where both fills and hits count as accesses.
  Access times recorded before a restart keep their order after it, so an entry used more
  recently is never evicted while one used earlier, or never, remains."

  The oracle only uses the history's OWN record of accesses (time of the last fill or hit of
  each entry) and what was on disk around each eviction.  Equal seconds: no order required.
-/
namespace Spec.C17
open Go Model.Limiter

structure Pass where
  /-- entry files the pass deleted -/
  removed : List Bytes
  /-- entry files still on disk after the pass -/
  survivors : List Bytes
  /-- the history's own access log when the pass ran: last fill or hit, `none` = never -/
  access : Bytes → Option Int
  /-- the history so far is inside the property's quantifier (every restart directly after an
      access-time flush) -/
  judged : Bool := true

/-- `s` stays although it was used earlier than `e`, or never, while `e` goes -/
def olderOrNever (access : Bytes → Option Int) (s e : Bytes) : Bool :=
  match access s, access e with
  | none, some _ => true
  | some ts, some te => decide (ts < te)
  | _, none => false

def passOk (p : Pass) : Bool :=
  !p.judged || p.removed.all fun e => p.survivors.all fun s => !olderOrNever p.access s e

def holds (l : List Pass) : Bool := l.all passOk

/-- the on-disk layout of a cache entry: `x/y/z/xyz…` (three one-byte directories spelling the
    first three bytes of the file name).  Other files under the directory are not entries. -/
def isEntryPath (p : Bytes) : Bool :=
  match p with
  | a :: 47 :: b :: 47 :: c :: 47 :: rest => rest.take 3 == [a, b, c] && !rest.contains 47
  | _ => false

/-- the access-time log as documented (`name|unix time|KiB` per line, append-only): what it
    records as the last access of each entry, oldest line first -/
def parseLog (c : Bytes) : List (Bytes × Int) :=
  ((split1 10 c).dropLast).filterMap fun l =>
    match split1 124 l with
    | [n, t, k] =>
      match parseInt t, atoi k with
      | some u, some _ => some (n, u)
      | _, _ => none
    | _ => none

/-! ### known-finding classes, per step of a history (state before the op, op) -/

/-- C17-a: at start-up the log holds two entries' times, or a logged time is installed at all:
    re-based values `startedAt − unix` run backwards and are not comparable with new ones -/
def inClass_a (s : Sys) : Op → Bool
  | .restart now =>
    match s.fs.atimes with
    | none => false
    | some c => !(readStorable now c).isEmpty
  | _ => false

/-- C17-b: an access — a hit, or a re-fill after the file disappeared — of a name that is in the
    unknown-atime set: neither `opAccessTime` nor `opAdd` takes it out of `withoutAccessTime` -/
def inClass_b (s : Sys) : Op → Bool
  | .hit n _ => s.fs.files.has n && s.st.without.has n
  | .fill n _ _ => !s.fs.files.has n && s.st.without.has n
  | _ => false

/-- C17-c: at a restart an entry on disk was filled in the ending lifetime and has no line in
    the log (fills are never written to it) -/
def inClass_c (s : Sys) : Op → Bool
  | .restart now =>
    let logged : List Bytes := match s.fs.atimes with | some c => (readStorable now c).map (fun x => x.1) | none => []
    s.fs.files.dom.any fun n => s.st.withA.has n && !logged.contains n
  | _ => false

def classesOfStep (s : Sys) (op : Op) : List String :=
  (if inClass_a s op then ["C17-a"] else []) ++ (if inClass_b s op then ["C17-b"] else []) ++
  (if inClass_c s op then ["C17-c"] else [])

end Spec.C17
