import RrModel.Conditional
/-
  C09 — declarative side, written from the property text:

    "Revalidation sends the stored validators to the origin; a 304 extends the entry's life and
     updates its headers while keeping the body, and any other answer replaces or bypasses the
     entry, so the client always receives the representation the origin currently vouches for.
     A client receives 304 only if it sent a validator matching the representation it would
     otherwise have been sent (ETags compared without the configured ETAG_SUFFIX, which is
     appended to every ETag served and required on client validators); a client that sent no
     validator never receives 304."

  Interpretation decisions (none demands more than the text):
  * "sends the stored validators": the validator the origin EVALUATES is the stored one.  By
    RFC 7232 §6 a recipient evaluates If-None-Match when present and then ignores
    If-Modified-Since, so an additional If-Modified-Since next to the stored ETag is harmless
    and accepted; an If-None-Match of the client next to the stored Last-Modified is not.
  * "a validator matching": SOME validator the client sent matches (If-None-Match by weak
    comparison after removing the required suffix, If-Modified-Since by equality with
    Last-Modified).
  * an origin that answers 304 to an unconditional request is outside the property (DESIGN 5.0).
-/
namespace Spec.C09
open Go Model.Conditional

/-! ### validators -/

inductive VKind where
  | etag | lastModified
  deriving DecidableEq, Repr

/-- the validator of a stored response: its ETag, else its Last-Modified -/
def storedValidator (stored : Header) : Option (VKind × Bytes) :=
  if stored.get b!"ETag" ≠ [] then some (.etag, stored.get b!"ETag")
  else if stored.get b!"Last-Modified" ≠ [] then some (.lastModified, stored.get b!"Last-Modified")
  else none

/-- the validator a recipient of this request evaluates (RFC 7232 §6 precedence) -/
def evaluated (req : Header) : Option (VKind × Bytes) :=
  if req.get b!"If-None-Match" ≠ [] then some (.etag, req.get b!"If-None-Match")
  else if req.get b!"If-Modified-Since" ≠ [] then some (.lastModified, req.get b!"If-Modified-Since")
  else none

def hasValidator (client : Header) : Bool :=
  client.get b!"If-None-Match" ≠ [] || client.get b!"If-Modified-Since" ≠ []

/-- clause "revalidation sends the stored validators", for one revalidation contact -/
def contactOk (stored req : Header) : Bool :=
  match storedValidator stored with
  | none => true
  | some v => evaluated req == some v

/-- clause "a client that sent no validator never receives 304", for one exchange -/
def no304WithoutValidator (client : Header) (status : Nat) : Bool :=
  status != 304 || hasValidator client

/-- RFC 7232 weak comparison: a leading `W/` is not significant -/
def opaqueTag (e : Bytes) : Bytes := if hasPrefix e b!"W/" then e.drop 2 else e

/-- the tag a client validator names once the configured suffix — required — is removed -/
def clientTag (sfx : Option Bytes) (v : Bytes) : Option Bytes :=
  match sfx with
  | none => some v
  | some t =>
    if hasSuffix v (t ++ [34]) then some (v.take (v.length - (t.length + 1)) ++ [34])
    else if hasSuffix v t then some (v.take (v.length - t.length))
    else none

/-- a representation as the origin states it (`[]` = validator absent) -/
structure Rep where
  body : Bytes
  etag : Bytes
  lm : Bytes
  deriving DecidableEq, Repr

/-- the client's tag names the representation: with the suffix removed (what this cache
    serves), or verbatim (a 304 of the origin handed through answers the tag as sent; accepting
    it demands less than the text) -/
def etagMatches (sfx : Option Bytes) (inm repEtag : Bytes) : Bool :=
  inm ≠ [] && repEtag ≠ [] &&
    ((match clientTag sfx inm with
      | some c => opaqueTag c == opaqueTag repEtag
      | none => false) || opaqueTag inm == opaqueTag repEtag)

def validatorMatches (sfx : Option Bytes) (inm ims : Bytes) (rep : Rep) : Bool :=
  etagMatches sfx inm rep.etag || (ims ≠ [] && rep.lm ≠ [] && ims == rep.lm)

/-! ### the origin of the `revalflow` histories: it answers conditional requests about its
    current representation, as RFC 7232 prescribes -/

def originNotModified (rep : Rep) (inm ims : Bytes) : Bool :=
  if inm ≠ [] then rep.etag ≠ [] && opaqueTag inm == opaqueTag rep.etag
  else ims ≠ [] && rep.lm ≠ [] && ims == rep.lm

structure OriginState where
  rep : Rep
  /-- 0 = answers normally; otherwise the 5xx it answers to everything -/
  err : Nat
  h200 : Header
  h304 : Header
  /-- `DoNotCache` of `h200` / `h304` (CacheControl's half; computed by the real code) -/
  dnc200 : Bool
  dnc304 : Bool
  deriving Repr

def OriginState.answer (o : OriginState) (req : Header) : Resp :=
  if o.err ≠ 0 then ⟨o.err, [], []⟩
  else if originNotModified o.rep (req.get b!"If-None-Match") (req.get b!"If-Modified-Since") then ⟨304, o.h304, []⟩
  else ⟨200, o.h200, o.rep.body⟩

def OriginState.doNotCache (o : OriginState) (h : Header) : Bool :=
  if h = o.h304 then o.dnc304 else if h = o.h200 then o.dnc200 else false

/-! ### histories of stream `revalflow`: fill, revalidation, a further request -/

structure ClientReq where
  inm : Bytes
  ims : Bytes
  range : Bytes
  rangeParsed : Bool
  deriving Repr

def ClientReq.header (c : ClientReq) : Header :=
  let h : Header := []
  let h := if c.inm ≠ [] then Header.set h b!"If-None-Match" c.inm else h
  let h := if c.ims ≠ [] then Header.set h b!"If-Modified-Since" c.ims else h
  if c.range ≠ [] then Header.set h b!"Range" c.range else h

/-- step 1 against `originA` (fill), then the clock passes the lifetime, steps 2 and 3 against
    `originB` -/
structure Scenario where
  sfx : Option Bytes
  originA : OriginState
  originB : OriginState
  c1 : ClientReq
  c2 : ClientReq
  c3 : ClientReq
  deriving Repr

structure Contact where
  inm : Bytes
  ims : Bytes
  range : Bytes
  deriving Repr, DecidableEq

/-- what is observed of one step -/
structure StepObs where
  contacts : List Contact
  /-- `none`: client view not recorded (a parsed Range: C15's domain) -/
  view : Option (Nat × Header × Bytes)
  deriving Repr

/-- the oracle's reference: the representation the entry holds (latest cacheable 200 that
    passed through) and the one the origin vouched for at the last successful contact -/
structure Ref where
  entry : Option Rep := none
  vouched : Option Rep := none
  deriving Repr

def contactHeader (c : Contact) : Header :=
  let h : Header := []
  let h := if c.inm ≠ [] then Header.set h b!"If-None-Match" c.inm else h
  if c.ims ≠ [] then Header.set h b!"If-Modified-Since" c.ims else h

def repHeader (r : Rep) : Header :=
  let h : Header := []
  let h := if r.etag ≠ [] then Header.set h b!"ETag" r.etag else h
  if r.lm ≠ [] then Header.set h b!"Last-Modified" r.lm else h

/-- one step of the oracle: verdict reasons (empty = ok) and the next reference -/
def stepHolds (sfx : Option Bytes) (o : OriginState) (c : ClientReq) (ref : Ref) (expired : Bool)
    (obs : StepObs) : List String × Ref :=
  let last := obs.contacts.getLast?
  let contacted := last.isSome && o.err = 0
  let vouchedNow := if contacted then some o.rep else ref.vouched
  -- clause 1: revalidation contacts carry the stored validator as the one the origin evaluates
  let bad1 :=
    match ref.entry with
    | none => []
    | some r =>
      if obs.contacts.all fun k => contactOk (repHeader r) (contactHeader k) then []
      else ["bad:C09:revalidation-evaluates-foreign-validator"]
  -- clauses 2 and 3 on the client's view
  let bad23 :=
    match obs.view with
    | none => []
    | some (status, _, body) =>
      if status = 304 then
        match vouchedNow with
        | some r => if validatorMatches sfx c.inm c.ims r then []
                    else if c.inm = [] ∧ c.ims = [] then ["bad:C09:304-without-validator"]
                    else ["bad:C09:304-validator-mismatch"]
        | none => ["bad:C09:304-nothing-vouched"]
      else if status = 200 then
        match vouchedNow with
        | some r => if body = r.body then [] else ["bad:C09:body-not-vouched"]
        | none => ["bad:C09:body-nothing-vouched"]
      else []
  -- clause 4: only a 304 (or a replacement) extends the entry's life
  let bad4 :=
    match obs.view with
    | some (status, _, _) =>
      if expired && ref.entry.isSome && obs.contacts.isEmpty && (status = 200 || status = 304) then
        ["bad:C09:life-extended-without-304"] else []
    | none => []
  let entry' :=
    match last with
    | some k =>
      if o.err = 0 ∧ ¬ originNotModified o.rep k.inm k.ims ∧ ¬ o.dnc200 then some o.rep else ref.entry
    | none => ref.entry
  (bad1 ++ bad23 ++ bad4, { entry := entry', vouched := vouchedNow })

/-- the oracle on a whole history (observations of steps 1, 2, 3; a shorter list = the
    remaining steps were not recorded) -/
def verdict (sc : Scenario) (obs : List StepObs) : List String :=
  match obs with
  | [] => []
  | o1 :: rest =>
    let r1 := stepHolds sc.sfx sc.originA sc.c1 {} false o1
    match rest with
    | [] => r1.1
    | o2 :: rest =>
      -- the clock has passed the lifetime of what step 1 stored
      let r2 := stepHolds sc.sfx sc.originB sc.c2 r1.2 true o2
      match rest with
      | [] => r1.1 ++ r2.1
      | o3 :: _ =>
        -- … and step 3 follows at once: the entry is within its lifetime again iff step 2
        -- obtained a 304 or stored a new response
        let extended :=
          match o2.contacts.getLast? with
          | some k => sc.originB.err = 0 && (originNotModified sc.originB.rep k.inm k.ims || !sc.originB.dnc200)
          | none => false
        let r3 := stepHolds sc.sfx sc.originB sc.c3 r2.2 (!extended) o3
        r1.1 ++ r2.1 ++ r3.1

def holds (sc : Scenario) (obs : List StepObs) : Bool := (verdict sc obs).isEmpty

/-! ### known-finding classes (function level: on the inputs of the writer branch) -/

/-- C09-d: the stored RESPONSE carries a header named like the request-side conditional header
    (`If-None-Match`, or `If-Modified-Since` without an ETag); `RevalidateHeaders` prefers it to
    the real validator -/
def inClass_C09_d (stored : Header) : Bool :=
  stored.get b!"If-None-Match" ≠ [] ||
    (stored.get b!"ETag" = [] && stored.get b!"If-Modified-Since" ≠ [])

/-- C09-c: the entry has only a Last-Modified and the client sent If-None-Match: both go out,
    and the origin evaluates the client's tag -/
def inClass_C09_c (client stored : Header) : Bool :=
  stored.get b!"ETag" = [] && stored.get b!"Last-Modified" ≠ [] && client.get b!"If-None-Match" ≠ []

/-- C09-e: a revalidation answered with a status outside the storage gate and other than 304
    (5xx in the histories generated here) -/
def inClass_C09_e (status : Nat) : Bool := status ≥ 500

/-- C09-b: the cache made the request conditional, the origin's 304 carries
    no-store/private/no-cache/max-age=0 (`DoNotCache`) -/
def inClass_C09_b (usedValidator : Bool) (status : Nat) (doNotCache304 : Bool) : Bool :=
  usedValidator && status == 304 && doNotCache304

end Spec.C09
