import RrModel.CacheControl
import RrModel.Go.Time
/-
  C08 — declarative side (function level).  From the property text:

    "a stored response is returned without contacting the origin only while its age is below
     its explicit lifetime (s-maxage, else max-age, else Expires, further capped by the rule's
     force_revalidate); past that it is revalidated with the origin first, except within the
     stale-if-error and stale-while-revalidate allowances the origin granted.  Conversely,
     while an entry is fresh the origin is not contacted for it."

  Interpretation decisions (DESIGN 5.0): a response without s-maxage / max-age / Expires has
  an unbounded lifetime (only force_revalidate caps it); not using an allowance is no
  violation (rrrouter compares the allowance with the WHOLE age, `allowance > age`, which is
  narrower than the RFC 5861 window `age < lifetime + allowance` used here).  The age runs from the last validation, else from the fill.  `Expires` is an
  instant: its lifetime is `Expires − age base`, i.e. fresh while `now < Expires`; an Expires
  value that is no date means "already expired" (RFC 9111 §5.3).

  Scope: directive RECOGNITION (spelling, white space, duplicates) is C10's subject and the
  `ccparse` stream's; this spec starts from the recognised directive VALUES and the parsed
  date (`storedOf`), and states which source wins, how it is compared, what Expires and
  force_revalidate do, and when a stale response may be served.
-/
namespace Spec.C08
open Go

/-- the lifetime data of a stored entry -/
structure Stored where
  sMaxAge : Option Int
  maxAge : Option Int
  /-- `none`: no Expires; `some none`: present but not a date; `some (some t)`: the instant -/
  expires : Option (Option Int)
  staleIfError : Option Int
  staleWhileRevalidate : Option Int
  /-- epoch seconds of the fill -/
  created : Int
  /-- epoch seconds of the last successful validation, `0` = never -/
  revalidated : Int
  deriving Repr, DecidableEq

/-- the instant the age is counted from -/
def Stored.base (s : Stored) : Int := if s.revalidated ≠ 0 then s.revalidated else s.created

def Stored.age (s : Stored) (now : Int) : Int := now - s.base

/-- a freshness lifetime -/
inductive Life where
  | unbounded
  | secs (n : Int)
  | expired
  deriving Repr, DecidableEq

/-- s-maxage, else max-age, else Expires (relative to the age base), else nothing explicit -/
def explicitLifetime (s : Stored) : Life :=
  match s.sMaxAge with
  | some n => .secs n
  | none =>
    match s.maxAge with
    | some n => .secs n
    | none =>
      match s.expires with
      | none => .unbounded
      | some none => .expired
      | some (some t) => .secs (t - s.base)

/-- "further capped by the rule's force_revalidate" (`0` = not configured) -/
def cap (l : Life) (force : Nat) : Life :=
  if force = 0 then l
  else match l with
    | .unbounded => .secs force
    | .secs n => .secs (min n force)
    | .expired => .expired

def lifetime (s : Stored) (force : Nat) : Life := cap (explicitLifetime s) force

/-- `age < lifetime` -/
def Life.exceeds (l : Life) (age : Int) : Bool :=
  match l with
  | .unbounded => true
  | .secs n => decide (age < n)
  | .expired => false

/-- the entry is fresh at `now` -/
def isFresh (s : Stored) (now : Int) (force : Nat) : Bool := (lifetime s force).exceeds (s.age now)

/-- seconds after the age base at which the origin's own lifetime ends — where an allowance
    window opens (`0` if the response was stale from the start; `none`: it never ends by
    itself, only force_revalidate asks for revalidation) -/
def staleSince (s : Stored) : Option Int :=
  match explicitLifetime s with
  | .unbounded => none
  | .secs n => some (max n 0)
  | .expired => some 0

/-- within `allowance` seconds after the response became stale (RFC 5861 §3 and §4: "after it
    becomes stale, up to the indicated number of seconds") -/
def withinWindow (s : Stored) (now : Int) (allowance : Option Int) : Bool :=
  match allowance with
  | none => false
  | some n =>
    match staleSince s with
    | none => true
    | some l => decide (s.age now < l + n)

/-- the allowances "the origin granted" -/
def withinStaleWhileRevalidate (s : Stored) (now : Int) : Bool :=
  withinWindow s now s.staleWhileRevalidate

def withinStaleIfError (s : Stored) (now : Int) : Bool :=
  withinWindow s now s.staleIfError

/-- what one call of `cache.Get` on a stored entry amounts to -/
inductive Obs where
  /-- the stored response (or a 304 made from it) is handed out, no origin contact -/
  | served
  /-- the caller is told to revalidate with the origin -/
  | contact
  /-- the caller is told to wait for somebody else's revalidation -/
  | wait
  deriving Repr, DecidableEq

/-- the oracle.  `staleRequested`: the caller asked for the stale copy (it does so after a
    failed revalidation inside the stale-if-error allowance, server.go:380-393);
    `revalidationInFlight`: another request holds the key. -/
def holds (s : Stored) (now : Int) (force : Nat) (staleRequested revalidationInFlight : Bool) (o : Obs) : Bool :=
  let fresh := isFresh s now force
  match o with
  | .served => fresh || staleRequested || (revalidationInFlight && withinStaleWhileRevalidate s now)
  | .contact => !fresh
  | .wait => !fresh

/-- the lifetime data as read from the stored headers: directive values as recognised by the
    parser (C10 / `ccparse` cover recognition), Expires through the HTTP-date reader -/
def expiresOf (h : Header) : Option (Option Int) :=
  let e := h.get b!"expires"
  if e = [] then none
  else match Time.parseRFC1123 e with
    | some t => some (some t)
    | none =>
      match Time.parseRFC1123Z e with
      | some t => some (some t)
      | none => some none

def storedOf (h : Header) (created revalidated : Int) : Stored :=
  let d := Model.getCacheControlDirectives h
  { sMaxAge := d.sMaxAge, maxAge := d.maxAge, expires := expiresOf h,
    staleIfError := d.staleIfError, staleWhileRevalidate := d.staleWhileRevalidate,
    created := created, revalidated := revalidated }

/-! ### known-finding classes -/

/-- the stored Expires header says "expired" at `now` -/
def expiredByExpires (s : Stored) (now : Int) : Bool :=
  match s.expires with
  | none => false
  | some none => true
  | some (some t) => decide (t ≤ now)

/-- C08-a: an entry whose only lifetime source is Expires, after its first revalidation,
    at a moment its Expires has passed -/
def inClass_C08_a (s : Stored) (now : Int) : Bool :=
  s.revalidated != 0 && s.sMaxAge.isNone && s.maxAge.isNone && expiredByExpires s now

/-- C08-b: an entry with s-maxage / max-age that has never been revalidated and carries an
    Expires header that has passed (or is no date) -/
def inClass_C08_b (s : Stored) (now : Int) : Bool :=
  s.revalidated == 0 && (s.sMaxAge.isSome || s.maxAge.isSome) && expiredByExpires s now

end Spec.C08
