import RrModel.Target
/-
  C02 — declarative side.  Written from the property text: the destination is the rule's
  destination text with the wildcard text substituted for the first `$1`; the client's query
  travels byte for byte; for a destination `scheme://authority/path` the scheme and authority
  contacted are the ones written in the rule.
-/
namespace Spec.C02
open Go Model

def isSchemeByte (c : Nat) : Bool := Url.isAlpha c || Url.isSchemeTail c

/-- `scheme://authority/rest` as written in a rule: the scheme text, the authority text (no
    `/`, `?`, `#`, no control bytes), and the text after the `/` that ends the authority -/
structure WfDest where
  scheme : Bytes
  authority : Bytes
  rest : Bytes
  deriving Repr, DecidableEq

def WfDest.text (d : WfDest) : Bytes := d.scheme ++ b!"://" ++ d.authority ++ b!"/" ++ d.rest

/-- well-formedness of the rule text (decidable): non-empty alphabetic-led scheme, authority
    free of delimiters and control bytes and of `$` (so the first `$1` lies in `rest`) -/
def WfDest.ok (d : WfDest) : Bool :=
  (match d.scheme with | [] => false | c :: t => Url.isAlpha c && t.all isSchemeByte) &&
  d.authority.all (fun c => c ≠ 47 && c ≠ 63 && c ≠ 35 && c ≠ 36 && ¬ (c < 32 || c = 127))

/-- read a destination text as `scheme://authority/rest`, if it has that shape -/
def parseDest (dest : Bytes) : Option WfDest :=
  match index b!"://" dest with
  | none => none
  | some i =>
    let sch := dest.take i
    let after := dest.drop (i + 3)
    match indexByte 47 after with
    | none => none
    | some j =>
      let d : WfDest := { scheme := sch, authority := after.take j, rest := after.drop (j + 1) }
      if d.ok then some d else none

/-- the expected target text: destination with the first `$1` replaced by the wildcard text -/
def expectedTarget (dest wildcardText : Bytes) : Bytes := replaceFirst dest b!"$1" wildcardText

/-- the target text the property asks for, for a rule that matched `uri`: a trailing-wildcard pattern
    hands everything after its prefix (the wildcard text, query included) to `$1`; an exact pattern
    has no wildcard text. Written from the property text, independent of `Model.attemptMatch`. -/
def targetFor (pattern dest uri : Bytes) : Bytes :=
  if pattern.getLast? = some 42 then expectedTarget dest (uri.drop (pattern.length - 1)) else dest

/-- observation of one outgoing request (as the performer sees it) -/
structure Obs where
  scheme : Bytes
  host : Bytes        -- URL.Host (authority without userinfo) as Go reports it
  rawQuery : Bytes
  deriving Repr, DecidableEq

/-- oracle: authority and scheme are the rule's; the query is the client's, byte for byte -/
def holds (dest clientRawQuery : Bytes) (o : Obs) : Bool :=
  (match parseDest dest with
   | some d => o.scheme == toLower d.scheme && (o.host == d.authority || (d.authority.contains 64))  -- userinfo: host compared only without '@'
   | none => true) &&
  o.rawQuery == clientRawQuery

/-- known-finding class C02-a: the client's query contains `#` -/
def inClassA (clientRawQuery : Bytes) : Bool := clientRawQuery.contains 35

end Spec.C02
