import RrModel.Go.Header
/-
  Specification-side view of a header collection, independent of Go's `http.Header`
  conventions: a header collection is a sequence of (field name, values) entries — one entry
  per header line on the wire, or one entry per key of a parsed map —, field names are
  compared case-insensitively (RFC 7230 §3.2), and "the values of a field" are all values of
  all entries with that name, in order.
-/
namespace Spec
open Go

/-- field names are case-insensitive -/
def sameName (a b : Bytes) : Bool := toLower a == toLower b

/-- all values carried under a field name, in order of appearance -/
def valuesOf (h : Header) (n : Bytes) : List Bytes :=
  (h.filter fun e => sameName e.1 n).flatMap (·.2)

/-- the value a reader of a single-valued field sees: the first one ("" when there is none) -/
def firstOf (h : Header) (n : Bytes) : Bytes := (valuesOf h n).headD []

/-- the field names that occur -/
def namesOf (h : Header) : List Bytes := h.map (·.1)

/-- RFC 7230 field-name = token -/
def tokenName (n : Bytes) : Bool := n.all isTokenByte

end Spec
