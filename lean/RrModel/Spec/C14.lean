import RrModel.Crash
/-
  C14 — declarative side.  `body r` is the complete body of origin response `r`; an entry is
  *good for key k* if it is complete and labelled for k.
-/
namespace Spec.C14
open Model.Crash

/-- a served entry is a complete response the origin once sent for that resource -/
def goodEntry (body : Nat → Bytes) (k : Nat) (f : File) (m : Meta) : Prop :=
  f.data = body m.resp ∧ m.key = k

/-- every published (xattr-carrying) file at an entry path is complete and correctly labelled -/
def Consistent (body : Nat → Bytes) (fs : FS) : Prop :=
  ∀ k f m, fs (.final k) = some f → f.xattr = some m → goodEntry body k f m ∧ m.size = f.data.length

/-- what a probe after restart may observe for key k' -/
def probeOk (body : Nat → Bytes) (fs : FS) (k' : Nat) : Prop :=
  match get fs k' with
  | (fs', .miss) => getWriterOk fs' k' false = true          -- refetchable without manual cleanup
  | (_, .found f m) => goodEntry body k' f m

/-- run-time oracle on a probe pair after a crash snapshot: each probe is a hit of a complete
    known version, or a miss answered by the origin; and after a miss the refill is a hit -/
structure ProbeObs where
  /-- 0 = miss (origin contacted), 1 = hit -/
  hit1 : Bool
  body1Known : Bool     -- body equals a complete body the origin once sent for this key (or the probe origin's)
  hit2 : Bool
  body2Known : Bool
  status1 : Nat
  status2 : Nat
  deriving Repr

def holdsProbe (o : ProbeObs) : Bool :=
  o.body1Known && o.body2Known && o.status1 == 200 && o.status2 == 200 && o.hit2

end Spec.C14
