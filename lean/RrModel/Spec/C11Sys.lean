import RrModel.Spec.C11
/-
  C11 at system level — declarative side, written from the property text:

    "Two requests are answered from the same cache entry only if they agree on the destination
     URL (host, path and query), on GET versus HEAD, on Accept-Encoding, on Authorization, and
     on Origin (its presence, or its value when the response varies by Origin).  Whatever bytes
     appear in those fields, a client never receives a response that was generated for a
     different combination."

  Observation (properties.jsonl, observe_at): the origin stub echoes what it was asked
  (destination id, URL, method, key headers); the client compares the echo its response carries
  with its own request.  The oracle needs no knowledge of keys, entries, locks or re-keying:
  whatever path a response took (fill, hit, coalesced behind another request's fetch, re-keyed),
  it must have been generated for the combination this client asked for.

  Interpretation decisions:
  * every response that carries an echo is judged, not only hits: a response the proxy fetched
    for this very request must of course be generated for it as well;
  * "its own request" is the request together with the routing decision taken for it
    (`Spec.C11.Routed`, C01/C02); the destination URL is `Spec.C11.dest` (C02: rule destination
    with the capture substituted, the client's query);
  * Origin: presence is `Header.Get("Origin") ≠ ""` on both sides (as in `Spec.C11`: an empty
    Origin line counts as no Origin); the VALUES are compared when the response that was delivered varies by Origin — it declares so in its
    Vary header, or the origin is known to vary its answer for the echoed URL by Origin.
-/
namespace Spec.C11Sys
open Go Model Spec.C11

/-- what a response says about the request it was generated for -/
structure Echo where
  host : Bytes
  uri : Bytes
  method : Bytes
  ae : List Bytes
  auth : List Bytes
  origin : List Bytes
  deriving DecidableEq, Repr

/-- one token of a `Vary` field value -/
def varyTokens (v : Bytes) : List Bytes := (split1 44 v).map fun t => toLower (trim b!" " t)

/-- does a response with these `Vary` field values vary by Origin -/
def variesByOrigin (varyValues : List Bytes) : Bool :=
  varyValues.any fun v => (varyTokens v).any fun t => t == b!"origin" || t == b!"*"

def echoPath (e : Echo) : Bytes := (Url.cut1 63 e.uri).1
def echoQuery (e : Echo) : Bytes := (Url.cut1 63 e.uri).2.1
def echoOriginPresent (e : Echo) : Bool := e.origin.headD [] != []

/-- the Origin a request identifies itself with: its field values when an Origin is present
    (`Header.Get("Origin") ≠ ""`), nothing otherwise — an empty Origin line is no Origin -/
def originIdentity (vs : List Bytes) : List Bytes := if vs.headD [] != [] then vs else []

/-- the first key field in which the echoed request differs from the client's own request -/
def mismatch (x : Routed) (e : Echo) (varies : Bool) : Option String :=
  match dest x with
  | none => some "destination"
  | some d =>
    if e.host ≠ d.authority then some "destination-host"
    else if echoPath e ≠ d.path then some "destination-path"
    else if echoQuery e ≠ d.query then some "destination-query"
    else if methodClass e.method ≠ methodClass x.req.method then some "method"
    else if e.ae ≠ acceptEncoding x.req.header then some "accept-encoding"
    else if e.auth ≠ authorization x.req.header then some "authorization"
    else if echoOriginPresent e ≠ originPresent x.req.header then some "origin-presence"
    else if varies ∧ originIdentity e.origin ≠ originIdentity (originValues x.req.header) then some "origin-value"
    else none

/-- **the oracle**, per response: the response this client received was generated for the
    combination this client asked for -/
def holds (x : Routed) (e : Echo) (varies : Bool) : Bool := (mismatch x e varies).isNone

/-- the echo the client's own request would produce (used to find, among the requests of a
    history, the one a cross-served response was generated for) -/
def ownEcho (x : Routed) : Option Echo :=
  (dest x).map fun d =>
    { host := d.authority, uri := d.path ++ (if d.query = [] then [] else b!"?" ++ d.query),
      method := x.req.method, ae := acceptEncoding x.req.header, auth := authorization x.req.header,
      origin := originValues x.req.header }

/-! ### Known-finding classes at system level

  A failing response falls into a known class only through the pair (generator, receiver): the
  request of the history the response was generated for, and the request that received it.  The
  class predicates are those of the function-level slice, applied to exactly that pair. -/

def pairClasses (gen recv : Routed) : List String :=
  (if inClass_C11_a gen recv then ["C11-a"] else []) ++
  (if inClass_C11_b gen recv then ["C11-b"] else []) ++
  (if inClass_C11_c gen recv then ["C11-c"] else [])

/-- classes of a cross-served response `e` received by `recv`, given all requests of the history -/
def classesOf (history : List Routed) (recv : Routed) (e : Echo) : List String :=
  ((history.filter fun g => ownEcho g == some e).flatMap fun g => pairClasses g recv).eraseDups

end Spec.C11Sys
