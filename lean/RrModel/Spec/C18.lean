import RrModel.Redirect
import RrModel.Spec.C01
/-
  C18 — declarative side, written from the property text:

    "With restart_on_redirect, a redirect from the destination is followed inside rrrouter by
     treating its Location (absolute or relative) as a new client request: rules are matched
     again, the matched rule's header overrides […] apply, the parent rule is the fallback when
     none matches, and the client receives the final non-redirect response.  Redirect chains
     that loop, whatever their length […], end in an error response after a bounded number of
     hops […]."

  Nothing here looks at `cachingFunc`, `RedirectedURL` or `urlEquals`.
-/
namespace Spec.C18
open Go Model Model.Redirect

/-! ### Location resolution (RFC 3986 §5.2 for references without dot segments) -/

/-- everything up to and including the last `/` -/
def dirOf : Bytes → Bytes
  | [] => []
  | c :: t => if (c :: t).contains 47 then c :: dirOf t else []

/-- the directory a relative reference is merged onto; a base without path counts as `/`
    (RFC 3986 §5.2.3) -/
def baseDir (basePath : Bytes) : Bytes := if basePath = [] then b!"/" else dirOf basePath

/-- the three forms of a Location -/
inductive Form where
  | absolute | rooted | relative
  deriving DecidableEq, Repr

def formOf (loc : RUrl) : Form :=
  if loc.scheme ≠ [] then .absolute
  else match loc.path with
    | 47 :: _ => .rooted
    | _ => .relative

/-- where a Location points, given the URL that answered with it (`baseHost`, `basePath`):
    host, path and query of the new request -/
structure Resolved where
  host : Bytes
  path : Bytes
  rawQuery : Bytes
  deriving DecidableEq, Repr

def resolve (baseHost basePath : Bytes) (loc : RUrl) : Resolved :=
  match formOf loc with
  | .absolute => ⟨loc.host, loc.path, loc.rawQuery⟩
  | .rooted => ⟨baseHost, loc.path, loc.rawQuery⟩
  | .relative => ⟨baseHost, baseDir basePath ++ loc.path, loc.rawQuery⟩

/- (C18-b — a relative reference below a base path of two or more segments lost its separator or
   its directory: `/s/a` + `b` ⇒ `/sb`, `/s/` + `b` ⇒ `/b` — was repaired in util.RedirectedURL;
   its class predicate is gone, the inputs are covered by the full-strength theorem
   `Props.C18.location_resolution` and by the regression stream kf.C18-b.) -/

/-! ### One hop -/

/-- a contact as observed at the scripted origin -/
structure ContactObs where
  host : Bytes
  /-- request-target as sent -/
  uri : Bytes
  hostField : Bytes
  failed : Bool
  /-- value of the `X-Hop` request header -/
  xhop : Bytes
  /-- indices `i` with an `X-Via-i` request header, comma separated -/
  via : Bytes
  deriving DecidableEq, Repr

def uriOf (r : Resolved) : Bytes :=
  (if r.path = [] then b!"/" else r.path) ++ (if r.rawQuery = [] then [] else 63 :: r.rawQuery)

def pathOfUri (uri : Bytes) : Bytes := (Url.cut1 63 uri).1

def destHost (dest : Bytes) : Bytes :=
  match Url.split (replaceFirst dest b!"$1" []) with
  | some u => u.authority.getD []
  | none => []

def hostNoPort (h : Bytes) : Bytes :=
  match dropPort h with
  | .ok x => x
  | .panic _ => h

/-- hop semantics: the Location of the previous answer, resolved against the URL that gave it,
    is treated as a new client request (plain http): if a rule matches, its destination is
    contacted and its request-header overrides are on the request; if none matches, the resolved
    URL itself is contacted -/
def holdsHop (rules : List Rule) (prev : ContactObs) (loc : RUrl) (cur : ContactObs) : Bool :=
  let r := resolve prev.host (pathOfUri prev.uri) loc
  let q : Query := { scheme := b!"http", host := hostNoPort r.host, uri := uriOf r, method := b!"GET" }
  match (Spec.C01.firstProxy rules q).bind (rules[·]?) with
  | some rule =>
    cur.host == destHost rule.dest && pathOfUri cur.uri == r.path &&
    rule.requestHeaders.all fun kv =>
      if kv.1 == b!"x-hop" then kv.2 == some cur.xhop else true
  | none => cur.host == r.host && cur.uri == uriOf r

/-! ### The whole exchange -/

/-- one URL of the scripted redirect graph -/
structure Node where
  path : Bytes
  redirect : Bool
  status : Nat
  body : Bytes
  hasLoc : Bool
  location : Bytes
  /-- the node the Location names (the graph's edge); -1 = final answer, -2 = the property text
      does not say (missing or unparsable Location, a host nobody answers for) -/
  intended : Int
  ruleIdx : Int
  deriving Repr

inductive ChainEnd where
  | sink (i : Nat)
  | cycle
  | unspecified
  deriving DecidableEq, Repr

/-- one step along the graph's edges: the chain ends here (`inl`), or goes on at a node (`inr`) -/
def nodeStep (nodes : List Node) (i : Nat) : Sum ChainEnd Nat :=
  match nodes[i]? with
  | none => .inl .unspecified
  | some n =>
    if ¬ n.redirect then .inl (.sink i)
    else if n.intended < 0 then .inl .unspecified
    else .inr n.intended.toNat

/-- follow the graph's edges from node `i`; more redirect steps than there are nodes = a cycle -/
def chainEnd (nodes : List Node) : Nat → Nat → ChainEnd
  | 0, i => match nodeStep nodes i with | .inl e => e | .inr _ => .cycle
  | f + 1, i => match nodeStep nodes i with | .inl e => e | .inr j => chainEnd nodes f j

/-- what the client and the origin saw of one exchange -/
structure Obs where
  /-- the handler recursed until the harness' watchdog refused further contacts -/
  runaway : Bool
  status : Nat
  /-- body token as printed (hex; `j…` = rrrouter's own JSON error) -/
  body : String
  contacts : List ContactObs
  deriving Repr

/- (C18-a — a redirect cycle of length ≥ 2, a self-redirect reached after one hop, an absolute
   self-redirect with another scheme: followed for ever — and C18-c — the same through stored hops,
   without any origin contact — were repaired by a per-request redirect counter in cachingFunc
   (`maxRedirects`, 508 Loop detected).  No class predicate stands for them any more; the inputs
   are covered by the full-strength theorems `Props.C18.terminates` / `Props.C18Cache.cached_terminates`
   and by the regression streams kf.C18-a / kf.C18-c.) -/

/-- bound on the origin contacts a looping chain may cause before the error answer ("after a
    bounded number of hops"; the code's own bound, `Spec.maxRedirects + 1` contacts, lies within
    it: `Props.C18.bound_within_oracle`) -/
def maxLoopContacts : Nat := 12

/-- the oracle: an acyclic chain ends with the sink's response at the client; a looping chain
    ends in an error response after a bounded number of origin contacts -/
def holds (nodes : List Node) (start : Nat) (o : Obs) : Bool :=
  match chainEnd nodes nodes.length start with
  | .sink i =>
    match nodes[i]? with
    | some n => !o.runaway && o.status == n.status && o.body == toHex n.body
    | none => true
  | .cycle => !o.runaway && decide (o.status ≥ 400) && decide (o.contacts.length ≤ maxLoopContacts)
  | .unspecified => true

/-! ### The model's outcome as an observation -/

def viaOf (h : Header) : Bytes :=
  join b!"," (([0, 1, 2, 3] : List Nat).filterMap fun i =>
    let d : Bytes := [48 + i]
    if Header.get h (b!"X-Via-" ++ d) ≠ [] then some d else none)

def obsOfContact (c : Contact) : ContactObs :=
  { host := c.url.host, uri := requestURI c.url, hostField := c.hostField, failed := c.failed,
    xhop := Header.get c.headers b!"X-Hop", via := viaOf c.headers }

def leafStatus : Leaf → Nat
  | .response r _ => r.status
  | .userError code _ => code
  | .plainError => 500
  | .panicked => 200
  | .outside => 0

def leafBodyTok : Leaf → String
  | .response r _ => toHex r.body
  | .userError _ msg => "j" ++ (toHex msg).drop 1
  | _ => "x"

/-- what the harness would record if the implementation did what the model does; a diverging
    run is what the watchdog reports as `runaway` (no run diverges once the fuel covers the
    redirect counter: `Props.C18.terminates`) -/
def obsOf : Outcome → Obs
  | .diverged => { runaway := true, status := 0, body := "", contacts := [] }
  | .done l hops => { runaway := false, status := leafStatus l, body := leafBodyTok l, contacts := hops.map obsOfContact }

end Spec.C18
