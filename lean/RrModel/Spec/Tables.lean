import RrModel.Go.Bytes
/-
  Specification tables: what the properties (and the RFCs they lean on) say, written down
  independently of the Go source.  RrProofs/Pins.lean proves the regenerated facts equal them.
-/
namespace Spec
open Go

/-- C03: the listed hop-by-hop headers, plus Host (which follows the rule's hostheader policy) -/
def hopByHopAndHost : List Bytes :=
  [b!"Host", b!"Connection", b!"Keep-Alive", b!"Proxy-Authenticate", b!"Proxy-Authorization",
   b!"TE", b!"Trailers", b!"Transfer-Encoding", b!"Upgrade"]

/-- C04: the three internal headers (secret, request id, originating IP) -/
def richieHeaders : List Bytes :=
  [b!"Richie-Routing-Secret", b!"Richie-Request-ID", b!"Richie-Originating-IP"]

/-- C05: statuses of the errors rrrouter originates through `usererror` (sorted, with multiplicity) -/
def userErrorCodes : List Nat := [400, 404, 407, 407, 499, 502, 503, 503, 508, 508]

/-- C19: methods a rule may list -/
def knownMethods : List Bytes :=
  [b!"DELETE", b!"GET", b!"HEAD", b!"OPTIONS", b!"POST", b!"PUT", b!"TRACE"]

def knownTypes : List Bytes := [b!"copy_traffic", b!"proxy"]

/-- C01/C20: the shape of the first-match loop that `Model.matchLoop`/`Model.ruleHit` mirror:
    skip disabled, skip method-excluded, attempt, proxy ⇒ set and break, copy ⇒ keep first -/
def matchLoopShape : List Bytes := [
  b!"range:rs.rules",
  b!"if (r.enabled==false) {continue}",
  b!"if ((len(r.methods)>0)&&!r.methods[method]) {continue}",
  b!"result,err:=r.attemptMatch(u.Scheme,u.Host,uri)",
  b!"if (err!=nil) {return nil,err}",
  b!"if (result!=nil) {rm:=&{rule:r,target:*result};switch r.ruleType {case ruleTypeProxy:proxyMatch=rm;break RulesLoop|case ruleTypeCopy:if (copyMatch==nil) {copyMatch=rm}}}" ]

/-- C10/C11: client headers that are part of the cache key -/
def keyClientHeaders : List Bytes := [b!"host", b!"accept-encoding", b!"authorization"]

/-- C09: headers a 304 may carry -/
def headersAllowedIn304 : List Bytes :=
  [b!"cache-control", b!"content-location", b!"date", b!"etag", b!"last-modified", b!"expires",
   b!"vary", b!"richie-edge-cache"]

def redirectStatuses : List Nat := [301, 302, 303, 307, 308]

end Spec
