import RrModel.Go.Bytes
/-
  Specification tables: what the properties (and the RFCs they lean on) say, written down
  independently of the Go source.  RrProofs/Pins.lean proves the regenerated facts equal them.
-/
namespace Spec
open Go

/-- C03: the listed hop-by-hop headers, plus Host (which follows the rule's hostheader policy) -/
def hopByHopAndHost : List Bytes :=
  [b!"Host", b!"Connection", b!"Keep-Alive", b!"Proxy-Authenticate", b!"Proxy-Authorization",
   b!"TE", b!"Trailers", b!"Transfer-Encoding", b!"Upgrade"]

/-- C04: the three internal headers (secret, request id, originating IP) -/
def richieHeaders : List Bytes :=
  [b!"Richie-Routing-Secret", b!"Richie-Request-ID", b!"Richie-Originating-IP"]

/-- C05: statuses of the errors rrrouter originates through `usererror` (sorted, with multiplicity) -/
def userErrorCodes : List Nat := [400, 404, 407, 407, 499, 502, 503, 503, 508, 508, 508, 508, 508, 508]

/-- C18: "after a bounded number of hops" — the number of redirects restart_on_redirect follows
    for one client request before it answers 508 (the bound of net/http's client) -/
def maxRedirects : Nat := 10

/-- C19: methods a rule may list -/
def knownMethods : List Bytes :=
  [b!"DELETE", b!"GET", b!"HEAD", b!"OPTIONS", b!"POST", b!"PUT", b!"TRACE"]

def knownTypes : List Bytes := [b!"copy_traffic", b!"proxy"]

/-- C01/C20: the shape of the first-match loop that `Model.matchLoop`/`Model.ruleHit` mirror:
    skip disabled, skip method-excluded, attempt, proxy ⇒ set and break, copy ⇒ keep first -/
def matchLoopShape : List Bytes := [
  b!"range:rs.rules",
  b!"if (r.enabled==false) {continue}",
  b!"if ((len(r.methods)>0)&&!r.methods[method]) {continue}",
  b!"result,err:=r.attemptMatch(u.Scheme,u.Host,uri)",
  b!"if (err!=nil) {return nil,err}",
  b!"if (result!=nil) {rm:=&{rule:r,target:*result};switch r.ruleType {case ruleTypeProxy:proxyMatch=rm;break RulesLoop|case ruleTypeCopy:if (copyMatch==nil) {copyMatch=rm}}}" ]

/-- C10/C11: client headers that are part of the cache key -/
def keyClientHeaders : List Bytes := [b!"host", b!"accept-encoding", b!"authorization"]

/-- C09: headers a 304 may carry -/
def headersAllowedIn304 : List Bytes :=
  [b!"cache-control", b!"content-location", b!"date", b!"etag", b!"last-modified", b!"expires",
   b!"vary", b!"richie-edge-cache"]

def redirectStatuses : List Nat := [301, 302, 303, 307, 308]

end Spec

namespace Spec
open Go

/-- C13/C14: source order of the file-system and notification calls in `storageWriter.Close`
    that `Model.Crash.freshFill` / `revalFill` / `reval304` mirror: stat, fd close, (error paths
    delete), xattr set, chtimes, rename, finishAndNotify — publication last -/
def effectsClose : List Bytes :=
  [b!"sw.Delete", b!"sw.finishAndNotify", b!"os.OpenFile", b!"sw.Delete", b!"sw.Delete", b!"sw.fd.Stat",
   b!"sw.Delete", b!"sw.fd.Close", b!"sw.Delete", b!"sw.Delete", b!"sw.Delete", b!"sw.Delete", b!"sw.Delete",
   b!"xattr.Set", b!"sw.Delete", b!"os.Chtimes", b!"os.Rename", b!"sw.Delete", b!"sw.finishAndNotify"]
def effectsWriteHeader : List Bytes :=
  [b!"createAllSubdirs", b!"sw.notify", b!"createIfNotExists", b!"os.Create", b!"sw.notify"]
def effectsWrite : List Bytes := [b!"sw.fd.Write"]
def effectsDelete : List Bytes := [b!"sw.fd.Close", b!"os.Remove"]
def effectsChangeKey : List Bytes := [b!"pathExists", b!"pathExists", b!"os.Rename"]
def effectsFinishAndNotify : List Bytes := [b!"sw.closeFinisher", b!"sw.notify"]
def effectsCreateIfNotExists : List Bytes := [b!"os.Stat", b!"os.Create"]

/-- C06: the decision table of util/compress.go as the specification reads it: every `return` of
    acceptsEncodingFromString, GetRecompression, fallbackCompressionWithDefault and
    ContentEncodingFromCompressionType with the conditions / case labels leading to it, in
    source order (the cell `acceptsGzip` x "br" passes the origin's coding through: rrrouter has
    no Brotli decoder; it used to add Brotli on top, the former finding C06-a, repaired) -/
def recompressTable : List Bytes := [
  b!"acceptsEncodingFromString: if strings.Contains(s,\";\") => acceptsBrokenClient",
  b!"acceptsEncodingFromString: elif strings.Contains(s,\"br\") => acceptsBrotli",
  b!"acceptsEncodingFromString: elif strings.Contains(s,\"gzip\") => acceptsGzip",
  b!"acceptsEncodingFromString:  => acceptsOther",
  b!"GetRecompression: switch acceptsEncodingFromString(acceptEncoding) case acceptsBrotli / switch contentEncoding case \"br\" => Recompression{Add:CompressionTypeNone,Remove:CompressionTypeNone}",
  b!"GetRecompression: switch acceptsEncodingFromString(acceptEncoding) case acceptsBrotli / switch contentEncoding case \"gzip\" => Recompression{Add:CompressionTypeBrotli,Remove:CompressionTypeGzip}",
  b!"GetRecompression: switch acceptsEncodingFromString(acceptEncoding) case acceptsBrotli / switch contentEncoding default => fallbackCompressionWithDefault(contentEncoding,contentType,CompressionTypeBrotli)",
  b!"GetRecompression: switch acceptsEncodingFromString(acceptEncoding) case acceptsGzip / switch contentEncoding case \"gzip\" => Recompression{Add:CompressionTypeNone,Remove:CompressionTypeNone}",
  b!"GetRecompression: switch acceptsEncodingFromString(acceptEncoding) case acceptsGzip / switch contentEncoding case \"br\" => Recompression{Add:CompressionTypeNone,Remove:CompressionTypeNone}",
  b!"GetRecompression: switch acceptsEncodingFromString(acceptEncoding) case acceptsGzip / switch contentEncoding default => fallbackCompressionWithDefault(contentEncoding,contentType,CompressionTypeGzip)",
  b!"GetRecompression: switch acceptsEncodingFromString(acceptEncoding) case acceptsBrokenClient / if (contentEncoding==\"gzip\") => Recompression{Add:CompressionTypeNone,Remove:CompressionTypeGzip}",
  b!"GetRecompression: switch acceptsEncodingFromString(acceptEncoding) case acceptsBrokenClient => Recompression{Add:CompressionTypeNone,Remove:CompressionTypeNone}",
  b!"GetRecompression: switch acceptsEncodingFromString(acceptEncoding) case acceptsOther => break",
  b!"GetRecompression:  => fallbackCompressionWithDefault(contentEncoding,contentType,CompressionTypeNone)",
  b!"fallbackCompressionWithDefault: if (((contentEncoding==\"\")||(contentEncoding==\"identity\"))&&((contentType==\"application/json\")||strings.HasPrefix(contentType,\"text/\"))) => Recompression{Add:def,Remove:CompressionTypeNone}",
  b!"fallbackCompressionWithDefault:  => Recompression{Add:CompressionTypeNone,Remove:CompressionTypeNone}",
  b!"ContentEncodingFromCompressionType: switch compressionType case CompressionTypeGzip => \"gzip\"",
  b!"ContentEncodingFromCompressionType: switch compressionType case CompressionTypeBrotli => \"br\"",
  b!"ContentEncodingFromCompressionType: switch compressionType default => \"\"" ]

end Spec

namespace Spec
open Go

/-- C07: the documented fixed Cache-Control of cached 400–404 answers (60 seconds) -/
def cacheable4xxCacheControl : Bytes := b!"s-maxage=60, max-age=60"

/-- C07: the cache-status header that is never stored -/
def cacheStatusHeader : Bytes := b!"richie-edge-cache"

/-- C07: the storing branch of `storageWriter.WriteHeader` that `Model.Codec.storePrep` mirrors:
    status recorded, 400–404 Cache-Control override, deny richie-edge-cache, strip the ETag suffix,
    deny again and keep the result as the entry's response header -/
def storePrepShape : List Bytes := [
  b!"if ((((s!=200)&&!IsCacheableError(s))&&!util.IsRedirect(s))||dirs.DoNotCache()) {…return} else",
  b!"sw.writtenStatus=s",
  b!"if IsCacheableError(s) {h.Set(\"cache-control\",\"s-maxage=60, max-age=60\")}",
  b!"h=util.DenyHeaders(h,{HeaderRrrouterCacheStatus})",
  b!"if etag:=h.Get(\"etag\"); (len(etag)>0) {h.Set(\"etag\",util.StripETagSuffix(etag))}",
  b!"sw.responseHeader=util.DenyHeaders(h,{HeaderRrrouterCacheStatus})" ]

/-- C19: the body of the `configReloader` loop, statement by statement (log calls abbreviated),
    in the order `Model.Config.step` mirrors: fetch · checksum compare · ParseRules ·
    ParseStorageConfigs · SetRules · SetStorageConfigs · checksum store (both sections are
    validated before either is applied); every error `continue`s. -/
def reloadSteps : List Bytes := [
  b!"<-c",
  b!"mappingData,err:=readMapping(gMappingURL,gMappingFile)",
  b!"if (err!=nil) {logger.Errorf(...);continue}",
  b!"mc:=util.SHA1String(mappingData)",
  b!"if (gMappingChecksum==mc) {continue}",
  b!"rules,err:=proxy.ParseRules(mappingData,logger)",
  b!"if (err!=nil) {logger.Errorf(...);continue}",
  b!"cfgs,err:=caching.ParseStorageConfigs(mappingData)",
  b!"if (err!=nil) {logger.Errorf(...);continue}",
  b!"router.SetRules(rules)",
  b!"cache.SetStorageConfigs(cfgs)",
  b!"gMappingChecksum=util.SHA1String(mappingData)",
  b!"logger.Infof(...)" ]

end Spec

namespace Spec
open Go

/-- C16/C17: the op switch of `runSizeLimiter` that `Model.Limiter`'s opAdd / opAccessTime / opFlush
    mirror (the limiter stream drives these through value-level wrappers, so the shape is pinned) -/
def limiterOpSwitch : List Bytes := [b!"switch io.op {case opAdd:if (io.accessedItem!=nil) {s.withAccessTime[io.name]=*io.accessedItem;s.sizeBytes+=int64((io.accessedItem.sizeKilobytes*1024))}|case opAccessTime:if (io.accessedItem!=nil) {s.withAccessTime[io.name]=*io.accessedItem};if (io.storableAccessedItem!=nil) {s.storableAccessedItems[io.name]=*io.storableAccessedItem}|case opFlushStorable:s.flushStorableAccessTimes()}"]

/-- C16: what a finished fill reports to the limiter: nothing on revalidation; the name and size
    handed in by `finishAndNotify` (the writer's CURRENT key, after any ChangeKey) -/
def closeFinisherShape : List Bytes := [b!"params:name,size", b!"if revalidate {return }", b!"ai:={accessTime:accessTime((time.Now().Unix()-s.startedAt)),sizeKilobytes:uint32((size/1024))}", b!"verifAdjustAccess(s,&ai,nil)", b!"s.itemsChan<-&{op:opAdd,name:itemName(name),accessedItem:&ai}"]
def finishAndNotifyShape : List Bytes := [b!"if (sw.closeFinisher!=nil) {sw.closeFinisher(sw.key.FsName(),sw.writtenSize)}", b!"sw.notify()"]

/-- C17: every Get books the access under the key that was FOUND (the loop variable), with the stored size -/
def getAccessCall : List Bytes := [b!"s.setAccessTime(key,sm.Size)"]

/-- C17: setAccessTime books it under the key handed in -/
def setAccessTimeShape : List Bytes := [b!"name:=itemName(key.FsName())", b!"item:={accessTime((time.Now().Unix()-s.startedAt)),uint32((size/1024))}", b!"storableItem:={time.Now().Unix(),uint32((size/1024))}", b!"verifAdjustAccess(s,&item,&storableItem)", b!"s.itemsChan<-&{op:opAccessTime,name:name,accessedItem:&item,storableAccessedItem:&storableItem}"]

/-- C07 C12 C14: the read side takes metadata AND size from the descriptor storage.Get opened (xattr.FGet / f.Stat,
    never by path): one inode is one stored response, so a reader sees the old unit or the new unit of a
    refresh, never headers of one and body of the other (the `View` of the interleaving and crash models) -/
def getStorageMetadataShape : List Bytes := [b!"defer mets.FromContext(ctx).MarkTime(time.Now())", b!"xattrb,err:=xattr.FGet(f,attrName)", b!"if (err!=nil) {return {},err}", b!"sm,err:=decodeStorageMetadata(xattrb)", b!"if (err!=nil) {return {},err}", b!"fi,err:=f.Stat()", b!"sm.FdSize=fi.Size()", b!"return sm,nil"]

/-- C12 C13: a hit whose bytes cannot be written to its client releases the key only on a FATAL (seek) error;
    an ordinary client write error leaves the lock table alone — `cache.Finish` is not owner-checked, and the
    entry under that name may by then be another request's revalidation (the interleaving model has no
    "failed hit" actor because a failed hit does nothing to the shared state) -/
def sendBodySites : List Bytes := [b!"fatal,err:=sendBody(*w,cr.Reader,cr.Metadata.Size,rRange,logctx)", b!"if (err!=nil) {if fatal {cache.Finish(key,logger)}}", b!"_,err:=sendBody(*w,cr.Reader,cr.Metadata.Size,rRange,logctx)", b!"if (err!=nil) {writeError(*w,err)}"]

/-- C16 C17: the whole body of runSizeLimiter — start-up scan, restored access times, then per item taken from
    the channel: the op switch, the 5 s throttle, the purge pass with its bookkeeping. The limiter stream drives
    the op switch and the purge through value-level wrappers; that nothing else stands between an item and a
    pass (no early `continue` by op kind, no other throttle) is what this pin says. -/
def runSizeLimiterShape : List Bytes := [b!"t:=time.Now()", b!"fileCount:=s.readFiles(s.path)", b!"s.logger.Infof(\"Read sizes of %v files in %v: %v\",fileCount,time.Now().Sub(t),s.sizeBytes)", b!"t=time.Now()", b!"withAccessTime,err:=s.readStorableAccessTimes()", b!"if (err!=nil) {s.logger.Infof(\"Errored when reading access times: %v\",err)} else if (len(withAccessTime)>0) {s.logger.Infof(\"Read access times of %v files in %v\",len(withAccessTime),time.Now().Sub(t));t=time.Now();range n,i:withAccessTime{s.withAccessTime[n]=i;delete(s.withoutAccessTime,n)};s.logger.Infof(\"Set access times of %v files in %v\",len(withAccessTime),time.Now().Sub(t))}", b!"sleepTime:=(time.Second*5)", b!"sleepTime=verifSleep(sleepTime)", b!"lastRun:=time.Now().Add(-sleepTime)", b!"printChanLen:=false", b!"for {if s.isReplaced {break};verifPointS(\"limiter.loop\",s.id);io:=<-s.itemsChan;switch io.op {case opAdd:if (io.accessedItem!=nil) {s.withAccessTime[io.name]=*io.accessedItem;s.sizeBytes+=int64((io.accessedItem.sizeKilobytes*1024))}|case opAccessTime:if (io.accessedItem!=nil) {s.withAccessTime[io.name]=*io.accessedItem};if (io.storableAccessedItem!=nil) {s.storableAccessedItems[io.name]=*io.storableAccessedItem}|case opFlushStorable:s.flushStorableAccessTimes()};if printChanLen {go mets.NewMetrics(nil,nil,nil).WithSampleRate(1).Mark(\"items channel length\",len(s.itemsChan));printChanLen=false};if (time.Now().Sub(lastRun)<sleepTime) {continue};printChanLen=true;s.logger.Info(s.stats());purgeable:={};if (s.sizeBytes>s.maxSizeBytes) {purgeable=s.purgeableItemNames((s.sizeBytes-s.maxSizeBytes))};if ((len(purgeable.withAccessTimes)==0)&&(len(purgeable.withoutAccessTimes)==0)) {lastRun=time.Now();continue};removedWithoutAccessTimes:={};removedWithAccessTimes:={};rmFiles:=func{range _,name:*ins{fsPath:=filepath.Join(s.path,string(name));err:=os.Remove(fsPath);if (err!=nil) {if os.IsNotExist(err) {s.logger.Infof(\"File had been removed already %v: %v\",fsPath,err)} else {s.logger.Infof(\"Failed to remove file %v: %v\",fsPath,err);continue}};*removed=append(*removed,name)}};rmFiles(&purgeable.withoutAccessTimes,&removedWithoutAccessTimes);rmFiles(&purgeable.withAccessTimes,&removedWithAccessTimes);range _,n:removedWithAccessTimes{sizeKb:=s.withAccessTime[n].sizeKilobytes;delete(s.withAccessTime,n);s.sizeBytes-=int64((sizeKb*1024))};range _,n:removedWithoutAccessTimes{sizeKb:=s.withoutAccessTime[n].sizeKilobytes;delete(s.withoutAccessTime,n);s.sizeBytes-=int64((sizeKb*1024))};s.logger.Infof(\"Removed %v / %v items to release at least %v MB\",(len(removedWithoutAccessTimes)+len(removedWithAccessTimes)),(len(purgeable.withoutAccessTimes)+len(purgeable.withAccessTimes)),((purgeable.size/1024)/1024));lastRun=time.Now()}"]

/-- C08 C18: every (re-)entry of cachingFunc with its arguments, in source order: the uncached redirect site,
    the Found site, the reader site, the two revalidation re-entries (after a 304 - since the fix: commit for the two-values loop - and after a
    failed revalidation covered by stale-if-error: the ONLY ones that skip revalidation, and both re-enter
    with the same request), the writer site, the client's own entry. A stale allowance granted for one
    entry is never handed on to another key (the redirect models re-enter with `skipRevalidate = false`). -/
def cachingFuncCalls : List Bytes := [b!"cachingFunc(w,rr,nil,alwaysInclude,&rf,false)", b!"cachingFunc(w,rr,rr.URL,nil,&rf,false)", b!"cachingFunc(w,rr,rr.URL,alwaysInclude,&rf,false)", b!"cachingFunc(w,r,nil,alwaysInclude,&rf,true)", b!"cachingFunc(w,r,nil,alwaysInclude,&rf,true)", b!"cachingFunc(w,rr,rr.URL,alwaysInclude,&rf,false)", b!"cachingFunc(&ow,or,nil,nil,nil,false)"]

/-- C19: the mapping document handed to the parsers is the whole response body (status 200) or the whole file:
    nothing is cut, limited or decoded in between ("accepted or rejected whole" starts here) -/
def readMappingShape : List Bytes := [b!"if (url!=\"\") {req,err:=http.NewRequest(\"GET\",url,nil);if (err!=nil) {return nil,err};resp,err:=http.DefaultClient.Do(req);if (err!=nil) {return nil,err};defer resp.Body.Close();if (resp.StatusCode!=200) {return nil,fmt.Errorf(\"couldn't read mapping rules from URL %q: %s\",url,resp.Status)};return ioutil.ReadAll(resp.Body)} else if (path!=\"\") {return ioutil.ReadFile(path)}", b!"return nil,errors.New(\"no URL or path to mapping file\")"]

/-- C12 C13: `cache.readerNotifier` (caching.go): the waiters of a key are read, woken and the key removed under ONE hold
    of `waitingReadersLock`. The interleaving model's notify step is atomic because of this; a request that reaches the
    lock table in between would register as a waiter of a key nobody will notify again (seeded change C12-m6). -/
def readerNotifierShape : List Bytes := [b!"if (c.closeNotifier==nil) {return }", b!"for {c.logger.Debugf(\"readerNotifier (%p) waiting for Key\",c.closeNotifier);verifPointS(\"notifier.idle\",\"\");ki:=<-*c.closeNotifier;verifPointS(\"notifier.got\",ki.Key.FsName());k:=ki.Key;rk:=k.FsName();c.logger.Debugf(\"readerNotifier (%p) got Key: %v / %v\",c.closeNotifier,(k.host+k.path),rk);c.waitingReadersLock.Lock();if readers,exists:=c.waitingReaders[rk]; exists {c.logger.Debugf(\"readerNotifier (%p) notifying %v (%p) with: %v / %v\",c.closeNotifier,len(readers),&c.waitingReaders,(k.host+k.path),rk);range i,ct:readers{c.logger.Debugf(\"readerNotifier notifying %v, ch (%p)\",i,ct.ch);*ct.ch<-ki};delete(c.waitingReaders,rk)} else {c.logger.Debugf(\"readerNotifier (%p) nothing to notify: %v / %v\",c.closeNotifier,(k.host+k.path),rk)};c.waitingReadersLock.Unlock();verifPointS(\"notifier.done\",rk)}"]

/-- C03 (and the executor model's retry gate): which requests are repeated after a failed attempt and buffered for a
    retry_rule - every method but POST, whatever the body (both callers, routeRequest and performRequest, ask this) -/
def retryableShape : List Bytes := [b!"return (req.Method!=\"POST\")"]

/-- C05: how an error becomes a response (the error rows of every system model): a user error is its code with the JSON
    message, a failed client write (`readfrom`) is nothing at all, everything else a bare 500 - in particular the error of
    a cancelled request context is ANSWERED (stream halfclose) -/
def writeErrorShape : List Bytes := [b!"typeswitch err:=<*ast.TypeAssertExpr> {case *usererror.UserError:jsonmap:=err.JSON();w.Header().Set(\"Content-Type\",\"application/json\");w.WriteHeader(err.Code);if err:=json.NewEncoder(w).Encode(jsonmap); (err!=nil) {panic(err)}|case *net.OpError:if (err.Op!=\"readfrom\") {w.WriteHeader(500)}|case :w.WriteHeader(500)}"]

/-- C01 C02: the transport NewRouter builds: net/http's Transport over the standard library's dialer (no address is
    remembered outside net/http's own per-authority connection pool); stream wire drives it -/
def newRouterShape : List Bytes := [b!"transport:=&{Proxy:http.ProxyFromEnvironment,DialContext:&{Timeout:(15*time.Second),KeepAlive:(30*time.Second),DualStack:true,Resolver:&{PreferGo:true}}.DialContext,ForceAttemptHTTP2:true,MaxConnsPerHost:1000,MaxIdleConns:1000,IdleConnTimeout:(10*time.Second),TLSHandshakeTimeout:(10*time.Second),ExpectContinueTimeout:(1*time.Second),ResponseHeaderTimeout:(20*time.Second),MaxIdleConnsPerHost:1000}", b!"return &{rules:rules,logger:logger,config:conf,requestPerformer:&{roundTripper:transport}}"]

/-- C05 C06 C13: the copy loop every writer stack runs (plain, encoding, caching): reader errors other than io.EOF end the
    transfer AS ERRORS - the writer is closed and `errCleanup` (the deletion of the cache entry) runs; in particular a body
    that breaks off is never taken for a complete one -/
def writeBodyShape : List Bytes := [b!"buf:=make(<*ast.ArrayType>,(32*1024))", b!"step:=func{rn,rerr:=reader.Read(buf);if (rn>0) {_,werr:=w.Write(<*ast.SliceExpr>);if (werr!=nil) {logctx.WithField(\"error\",werr).Info(\"Writing of response caused error\");return false,werr}};if (rerr!=nil) {if (rerr!=io.EOF) {logctx.WithField(\"error\",rerr).Info(\"Reading response caused an error\");return false,rerr};return false,nil};return true,nil}", b!"for {keepOpen,err:=step(writer);<*ast.TypeAssertExpr>.Flush();if !keepOpen {unrecognised:*ast.DeclStmt;if closeWriter {if v,ok:=<*ast.TypeAssertExpr>; ok {closeErr=v.Close();if (closeErr!=nil) {logctx.WithField(\"closeError\",closeErr).Info(\"Closing writer caused an error\")}}};if (((err!=nil)||(closeErr!=nil))&&(errCleanup!=nil)) {errCleanup()};return err}}"]

end Spec
