import RrModel.Spec.C01
/-
  C20 — declarative side of the copy-rule choice: the first applicable copy rule that
  precedes the selected proxy rule (or, when no proxy rule applies, the first applicable one).
-/
namespace Spec.C20
open Go Model Spec.C01

def firstCopyBeforeProxy (rs : List Rule) (q : Query) : Option Nat :=
  (rs.take ((firstProxy rs q).getD rs.length)).findIdx? (appliesCopy q)

/-- oracle on the observed copy choice (index of the rule whose destination got the copy) -/
def holdsChoice (rs : List Rule) (q : Query) (copyRule : Option Nat) : Bool :=
  copyRule == firstCopyBeforeProxy rs q

end Spec.C20
