import RrModel.Go.Strings
import RrModel.Go.Header
/-
  util/compress.go (acceptsEncodingFromString, GetRecompression, fallbackCompressionWithDefault,
  ContentEncodingFromCompressionType), proxy/proxy.go (canTransform and the gate at 271-274),
  server/server.go requestHandler 537-576 + writeError (the header rewrite and what is written
  as body) — written branch for branch.

  The codecs are NOT modelled: they are the parameter `Ext`.  Whatever a theorem needs to know
  about them is a hypothesis of that theorem (`Ext.Lawful`), never an axiom.
-/
namespace Model.Recompress
open Go

/-- `util.CompressionType` -/
inductive CType where
  | none | gzip | brotli
  deriving DecidableEq, Repr

def CType.code : CType → Nat
  | .none => 0 | .gzip => 1 | .brotli => 2

def CType.ofCode : Nat → CType
  | 1 => .gzip | 2 => .brotli | _ => .none

/-- `util.Recompression` -/
structure Recompression where
  add : CType
  remove : CType
  deriving DecidableEq, Repr

/-- `util.acceptsEncoding` -/
inductive Accepts where
  | other | gzip | brotli | brokenClient
  deriving DecidableEq, Repr

/-- compress.go:110-120 — substring tests, in this order -/
def acceptsEncodingFromString (s : Bytes) : Accepts :=
  if contains s b!";" then .brokenClient
  else if contains s b!"br" then .brotli
  else if contains s b!"gzip" then .gzip
  else .other

/-- compress.go:122-128 -/
def fallbackCompressionWithDefault (contentEncoding contentType : Bytes) (dflt : CType) : Recompression :=
  if (contentEncoding = [] ∨ contentEncoding = b!"identity") ∧
     (contentType = b!"application/json" ∨ hasPrefix contentType b!"text/") then
    { add := dflt, remove := .none }
  else
    { add := .none, remove := .none }

/-- compress.go:69-99 -/
def getRecompression (acceptEncoding contentEncoding contentType : Bytes) : Recompression :=
  match acceptsEncodingFromString acceptEncoding with
  | .brotli =>
    if contentEncoding = b!"br" then { add := .none, remove := .none }
    else if contentEncoding = b!"gzip" then { add := .brotli, remove := .gzip }
    else fallbackCompressionWithDefault contentEncoding contentType .brotli
  | .gzip =>
    if contentEncoding = b!"gzip" then { add := .none, remove := .none }
    else if contentEncoding = b!"br" then { add := .none, remove := .none }       -- no Brotli decoder: the origin's coding passes through
    else fallbackCompressionWithDefault contentEncoding contentType .gzip
  | .brokenClient =>
    if contentEncoding = b!"gzip" then { add := .none, remove := .gzip }
    else { add := .none, remove := .none }
  | .other => fallbackCompressionWithDefault contentEncoding contentType .none

/-- compress.go:58-67 -/
def contentEncodingFromCompressionType : CType → Bytes
  | .gzip => b!"gzip"
  | .brotli => b!"br"
  | .none => []

/-- proxy.go:314-320 -/
def canTransform (cc : Bytes) : Bool :=
  if cc.length > 0 then (index b!"no-transform" (toLower cc)).isNone else true

/-! ### the decision table in class form (what `classification` lifts to all strings) -/

/-- how `GetRecompression` looks at the origin's Content-Encoding -/
inductive CeClass where
  | empty | identity | gzip | br | other
  deriving DecidableEq, Repr

/-- how `fallbackCompressionWithDefault` looks at the Content-Type -/
inductive CtClass where
  | json | text | other
  deriving DecidableEq, Repr

def ceClass (ce : Bytes) : CeClass :=
  if ce = [] then .empty
  else if ce = b!"identity" then .identity
  else if ce = b!"gzip" then .gzip
  else if ce = b!"br" then .br
  else .other

def ctClass (ct : Bytes) : CtClass :=
  if ct = b!"application/json" then .json
  else if hasPrefix ct b!"text/" then .text
  else .other

def compressible : CeClass → CtClass → Bool
  | .empty, .json | .empty, .text | .identity, .json | .identity, .text => true
  | _, _ => false

/-- the 4 × 5 × 3 table -/
def table : Accepts → CeClass → CtClass → Recompression
  | .brotli, .br, _ => ⟨.none, .none⟩
  | .brotli, .gzip, _ => ⟨.brotli, .gzip⟩
  | .brotli, ce, ct => if compressible ce ct then ⟨.brotli, .none⟩ else ⟨.none, .none⟩
  | .gzip, .gzip, _ => ⟨.none, .none⟩
  | .gzip, .br, _ => ⟨.none, .none⟩
  | .gzip, ce, ct => if compressible ce ct then ⟨.gzip, .none⟩ else ⟨.none, .none⟩
  | .brokenClient, .gzip, _ => ⟨.none, .gzip⟩
  | .brokenClient, _, _ => ⟨.none, .none⟩
  | .other, _, _ => ⟨.none, .none⟩

def allAccepts : List Accepts := [.other, .gzip, .brotli, .brokenClient]
def allCe : List CeClass := [.empty, .identity, .gzip, .br, .other]
def allCt : List CtClass := [.json, .text, .other]

/-! ### the response path -/

/-- the external codecs (compress/gzip, itchio/go-brotli at the configured levels) -/
structure Ext where
  gzipEnc : Bytes → Bytes
  gzipDec : Bytes → Option Bytes
  brEnc : Bytes → Bytes
  brDec : Bytes → Option Bytes

/-- the codec contract (sampled on the real libraries by stream `codeclaw`); always a
    hypothesis, never an axiom -/
structure Ext.Lawful (E : Ext) : Prop where
  gzip : ∀ b, E.gzipDec (E.gzipEnc b) = some b
  br : ∀ b, E.brDec (E.brEnc b) = some b

/-- a concrete codec that satisfies the laws: one tag byte per layer.  It is also the
    representation the harness uses on the wire of the line protocol (real gzip/brotli layers
    are peeled with independent decoders and written as tag bytes), so the driver runs the
    model with this instance. -/
def toyExt : Ext where
  gzipEnc b := 1 :: b
  gzipDec
    | 1 :: b => some b
    | _ => none
  brEnc b := 2 :: b
  brDec
    | 2 :: b => some b
    | _ => none

def kContentLength : Bytes := b!"Content-Length"
def kContentEncoding : Bytes := b!"Content-Encoding"
def kContentType : Bytes := b!"Content-Type"
def kAcceptEncoding : Bytes := b!"Accept-Encoding"
def kVary : Bytes := b!"Vary"
def kCacheControl : Bytes := b!"cache-control"
def kCacheStatus : Bytes := b!"richie-edge-cache"

/-- one exchange on a rule without cache: the rule's `recompression` flag, the client's
    Accept-Encoding (`req.Header.Get`), the origin's response (status 200) -/
structure Input where
  flag : Bool
  ae : Bytes
  originHeaders : Header
  originBody : Bytes

/-- what the handler produced -/
structure Response where
  status : Nat
  headers : Header
  body : Bytes

/-- proxy.go:272 — what the gate hands to `canTransform`: ALL Cache-Control lines of the origin's
    response, `strings.Join(mainResp.Header.Values("cache-control"), ", ")` (it used to be the
    first line only, `Header.Get`: the former finding C06-d, repaired) -/
def cacheControlOf (h : Header) : Bytes := join b!", " (h.values kCacheControl)

/-- proxy.go:271-274 -/
def decision (x : Input) : Recompression :=
  if x.flag && canTransform (cacheControlOf x.originHeaders) then
    getRecompression x.ae (x.originHeaders.get kContentEncoding) (x.originHeaders.get kContentType)
  else { add := .none, remove := .none }

/-- server.go:602-622 with an empty `w.Header()`: the origin's map is copied (keys are already
    canonical, as `http.Transport` delivers them), then `alwaysInclude` is `Set` on top -/
def clearAndCopyHeaders (origin : Header) (alwaysInclude : List (Bytes × Bytes)) : Header :=
  alwaysInclude.foldl (fun h kv => h.set kv.1 kv.2) origin

/-- server.go:543-551 (header part) -/
def rewriteRemove (rc : Recompression) (h : Header) : Header :=
  if rc.remove = .gzip then (h.del kContentLength).del kContentEncoding else h

/-- server.go:567-572 -/
def varyRewrite (vary : Bytes) : Bytes :=
  if vary.length > 0 ∧ ¬ contains (toLower vary) (toLower kAcceptEncoding) = true then
    vary ++ b!", " ++ kAcceptEncoding
  else kAcceptEncoding

/-- server.go:557-573 (header part) -/
def rewriteAdd (rc : Recompression) (h : Header) : Header :=
  if rc.add ≠ .none then
    let h1 := (h.del kContentLength).set kContentEncoding (contentEncodingFromCompressionType rc.add)
    h1.set kVary (varyRewrite (h1.get kVary))
  else h

/-- `NewEncodingResponseWriter` + `writeBody`: what the encoding writer emits for the bytes read -/
def encode (E : Ext) : CType → Bytes → Bytes
  | .none, b => b
  | .gzip, b => E.gzipEnc b
  | .brotli, b => E.brEnc b

/-- requestHandler for a given decision (server.go:537-598, status 200, no ETag) -/
def handle (E : Ext) (rc : Recompression) (x : Input) : Response :=
  let header := clearAndCopyHeaders x.originHeaders [(kCacheStatus, b!"pass")]
  let reader := if rc.remove = .gzip then E.gzipDec x.originBody else some x.originBody
  match reader with
  | none => { status := 500, headers := header, body := [] }       -- NewGzipDecodingReader failed: writeError
  | some plain =>
    { status := 200, headers := rewriteAdd rc (rewriteRemove rc header), body := encode E rc.add plain }

def respond (E : Ext) (x : Input) : Response := handle E (decision x) x

/-! ### the source table, rendered from the model

  `Facts.recompressTable` lists every `return` of the four functions of util/compress.go with
  the conditions leading to it.  `renderedTable` produces the same rows, but every returned
  value in it is COMPUTED by the model functions above on a representative of the row's class
  (`classification` shows that representatives suffice).  `Props.C06.table_pinned` proves the two
  lists equal, so a changed constant, case label or test order in the Go source breaks the build. -/

def showCType : CType → Bytes
  | .none => b!"CompressionTypeNone"
  | .gzip => b!"CompressionTypeGzip"
  | .brotli => b!"CompressionTypeBrotli"

def showRecompression (r : Recompression) : Bytes :=
  b!"Recompression{Add:" ++ showCType r.add ++ b!",Remove:" ++ showCType r.remove ++ b!"}"

def showAccepts : Accepts → Bytes
  | .other => b!"acceptsOther"
  | .gzip => b!"acceptsGzip"
  | .brotli => b!"acceptsBrotli"
  | .brokenClient => b!"acceptsBrokenClient"

/-- a representative Accept-Encoding value of each class -/
def repAE : Accepts → Bytes
  | .other => b!"deflate"
  | .gzip => b!"gzip"
  | .brotli => b!"gzip, br"
  | .brokenClient => b!"br;q=1, gzip;q=0.5"

/-- `case <class> / switch contentEncoding case "<ce>" => <what the model returns there>` -/
def rowCase (a : Accepts) (ce : Bytes) : Bytes :=
  b!"GetRecompression: switch acceptsEncodingFromString(acceptEncoding) case " ++ showAccepts a ++
  b!" / switch contentEncoding case \"" ++ ce ++ b!"\" => " ++
  showRecompression (getRecompression (repAE a) ce b!"image/png")

/-- `… default => fallbackCompressionWithDefault(contentEncoding,contentType,<default the model uses>)` -/
def rowDefault (a : Accepts) : Bytes :=
  b!"GetRecompression: switch acceptsEncodingFromString(acceptEncoding) case " ++ showAccepts a ++
  b!" / switch contentEncoding default => fallbackCompressionWithDefault(contentEncoding,contentType," ++
  showCType (getRecompression (repAE a) [] b!"text/").add ++ b!")"

def renderedTable : List Bytes := [
  -- the order of the substring tests: each representative also satisfies all LATER tests
  b!"acceptsEncodingFromString: if strings.Contains(s,\";\") => " ++ showAccepts (acceptsEncodingFromString b!"gzip, br;q=1"),
  b!"acceptsEncodingFromString: elif strings.Contains(s,\"br\") => " ++ showAccepts (acceptsEncodingFromString b!"gzip, br"),
  b!"acceptsEncodingFromString: elif strings.Contains(s,\"gzip\") => " ++ showAccepts (acceptsEncodingFromString b!"gzip"),
  b!"acceptsEncodingFromString:  => " ++ showAccepts (acceptsEncodingFromString b!"deflate"),
  rowCase .brotli b!"br",
  rowCase .brotli b!"gzip",
  rowDefault .brotli,
  rowCase .gzip b!"gzip",
  rowCase .gzip b!"br",
  rowDefault .gzip,
  b!"GetRecompression: switch acceptsEncodingFromString(acceptEncoding) case acceptsBrokenClient / if (contentEncoding==\"gzip\") => " ++
    showRecompression (getRecompression (repAE .brokenClient) b!"gzip" b!"text/html"),
  b!"GetRecompression: switch acceptsEncodingFromString(acceptEncoding) case acceptsBrokenClient => " ++
    showRecompression (getRecompression (repAE .brokenClient) [] b!"text/html"),
  b!"GetRecompression: switch acceptsEncodingFromString(acceptEncoding) case acceptsOther => break",
  b!"GetRecompression:  => fallbackCompressionWithDefault(contentEncoding,contentType," ++
    showCType (getRecompression (repAE .other) [] b!"text/").add ++ b!")",
  b!"fallbackCompressionWithDefault: if (((contentEncoding==\"\")||(contentEncoding==\"identity\"))&&((contentType==\"application/json\")||strings.HasPrefix(contentType,\"text/\"))) => " ++
    (if [CType.none, .gzip, .brotli].all (fun d =>
          decide (fallbackCompressionWithDefault [] b!"application/json" d = ⟨d, .none⟩) &&
          decide (fallbackCompressionWithDefault b!"identity" b!"text/" d = ⟨d, .none⟩))
     then b!"Recompression{Add:def,Remove:CompressionTypeNone}" else b!"?"),
  b!"fallbackCompressionWithDefault:  => " ++ showRecompression (fallbackCompressionWithDefault b!"deflate" b!"text/html" .gzip),
  b!"ContentEncodingFromCompressionType: switch compressionType case CompressionTypeGzip => \"" ++ contentEncodingFromCompressionType .gzip ++ b!"\"",
  b!"ContentEncodingFromCompressionType: switch compressionType case CompressionTypeBrotli => \"" ++ contentEncodingFromCompressionType .brotli ++ b!"\"",
  b!"ContentEncodingFromCompressionType: switch compressionType default => \"" ++ contentEncodingFromCompressionType .none ++ b!"\"" ]

end Model.Recompress
