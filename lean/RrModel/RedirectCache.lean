import RrModel.Redirect
import RrModel.Key
import RrModel.Freshness
import RrModel.Conditional
/-
  restart_on_redirect through CACHE-ENABLED rules (C18, cached half), branch for branch:

    server/server.go   cachingFunc: prologue (96-106), the uncached branch as re-entered from a
                       cached activation (106-138: `overrideURL` is handed on to RouteRequest),
                       key derivation (140-141), `case caching.Found` (204-263: the re-entry on a
                       stored redirect, the hit), `case NotFoundWriter, RevalidatingWriter`
                       (311-457: RouteRequest, `rf = reqres.FinalRoutingFlavors`, the do-not-cache
                       branch, the 508 check, SetRedirectedURL, SetClientWritesDisabled, the
                       re-entry, and the hop being written to the cache AFTER the re-entry returns),
                       the wait on a key that is being written (169-198), requestWithRedirect (516-525)
    caching/caching.go cache.Get (176-287: age, max-age / s-maxage — via Model.Freshness),
                       getReaderOrWriter (290-334: the lock table is keyed by FsName alone),
                       cachingResponseWriter.WriteHeader (the status gate 200 / 400-404 / redirects)
    caching/disk.go    storageWriter.WriteHeader (cacheable errors get `s-maxage=60, max-age=60`),
                       Close (RedirectedURL = `redirectedURL.String()`, Created / Revalidated)
    proxy/proxy.go     createOutgoingRequests (505-520: `overrideURL` wins over the matched rule's
                       target and over `useReqURL`)

  Built on Model.Redirect: `query`, `matchedRule`, `preprocess`, `effectiveRule`, `outgoing`,
  `hostField`, `parseURL`, `urlEquals`, `redirectedURL`, `reenter` are used as they are there.

  Declared domain (what the stream generates): GET, no Range, no conditional request headers, no
  Authorization / Origin, origin answers with or without an ETag (no Last-Modified), without Vary,
  stale-* directives or Expires, statuses 200 / 404 / 301-308 with non-empty bodies and — to a
  conditional request that names the current ETag — 304; no copy rules, no retry_rule, no
  response_headers, force_revalidate 0, ETAG_SUFFIX unset.  A branch outside it ends the run with
  `Sent.outside`.

  Validators (server.go:346-357, 381-398; caching.go SetRevalidatedAndClose; disk.go Close, branch
  `sw.fd == nil && sw.wasRevalidated`): a RevalidatingWriter sends the stored validator
  (`Conditional.surgery`: `If-None-Match: <stored ETag>`); a 304 that does not forbid caching
  re-publishes the entry as it is on disk — status, body and RedirectedURL untouched, `Revalidated
  = now`, the 304's headers merged (`Conditional.merge304`) — and `cachingFunc` re-enters with the
  SAME request, `overrideURL = nil`, `frf = reqres.FinalRoutingFlavors` and `skipRevalidate = true`.
  That re-entry is not a redirect and is not counted; an activation that runs with `skipRevalidate`
  is never handed a RevalidatingWriter (`Freshness.decide`), so it cannot take the 304 row itself:
  between two counted redirects there is at most one such activation
  (`Props.C18Cache.run_not_runaway`: nesting ≤ 2 · (maxRedirects + 1)).
  Sequential histories: the only holder of a key's lock is an activation further up the SAME
  stack; waiting for it is a 30 s self-deadlock (`Outcome.selfwait`).

  Every redirect that leads to a re-entry is counted per client request (`redirects++; if
  redirects > maxRedirects` ⇒ 508 Loop detected) at the uncached, the Found and the writer site
  alike (and at the reader site, which a sequential history cannot reach) — the repair of
  findings C18-a / C18-c.  The nesting of activations is therefore bounded by `maxRedirects + 1`
  (`Props.C18Cache.cached_terminates`); the fuel parameter stays for structural recursion.
-/
namespace Model.RedirectCache
open Go Model Model.Redirect

/-- what the destination answers, as far as this slice reads it (`[]` = header absent) -/
structure OResp where
  status : Nat
  location : Bytes := []
  cacheControl : Bytes := []
  body : Bytes := []
  /-- the validator: the `ETag` line (`[]` = none) -/
  etag : Bytes := []
  deriving Repr, DecidableEq

/-- the response headers this slice looks at -/
def OResp.header (r : OResp) : Header :=
  (if r.cacheControl = [] then [] else [(b!"Cache-Control", [r.cacheControl])]) ++
  (if r.location = [] then [] else [(b!"Location", [r.location])]) ++
  (if r.etag = [] then [] else [(b!"Etag", [r.etag])])

/-- one stored response: the part of `StorageMetadata` + file the handler reads back -/
structure Entry where
  status : Nat
  /-- stored response header (Location, Cache-Control) -/
  header : Header
  body : Bytes
  /-- `StorageMetadata.RedirectedURL` -/
  redirectedURL : Bytes
  created : Int
  revalidated : Int
  deriving Repr

/-- `SetRevalidatedAndClose(h304)` then `storageWriter.Close` on its branch `sw.fd == nil &&
    sw.wasRevalidated` (disk.go:1057-1072, 1124-1136): the metadata is read back from the file,
    `Revalidated` is stamped, the 304's header lines are merged over the stored ones (a
    `Content-Length: 0` of the 304 dropped first); status, size, body and RedirectedURL are kept
    as stored -/
def Entry.after304 (e : Entry) (h304 : Header) (now : Int) : Entry :=
  { e with revalidated := now,
           header := Conditional.merge304 e.header (Conditional.dropZeroContentLength h304) }

/-- storage id and key string (what `FsName` hashes) -/
abbrev StoreKey := Bytes × Bytes
abbrev Store := List (StoreKey × Entry)

def Store.get (s : Store) (k : StoreKey) : Option Entry := (s.find? (·.1 = k)).map (·.2)
def Store.put (s : Store) (k : StoreKey) (e : Entry) : Store := (k, e) :: s.filter (·.1 ≠ k)

/-- `cr.Metadata.Header` of a RevalidatingWriter: the stored response header -/
def Store.headerOf (s : Store) (k : StoreKey) : Header :=
  match s.get k with
  | some e => e.header
  | none => []

/-- the store after `cr.Writer.SetRevalidatedAndClose(reqres.Response.Header)` for key `k` -/
def Store.revalidate (s : Store) (k : StoreKey) (h304 : Header) (now : Int) : Store :=
  match s.get k with
  | some e => s.put k (e.after304 h304 now)
  | none => s

structure Cfg where
  rules : List Rule
  origin : Contact → Option OResp
  isRedirect : Nat → Bool
  hasStorage : Bytes → Bool
  /-- `Facts.maxRedirects` (server.go `const maxRedirects`) -/
  maxRedirects : Nat

def Cfg.toRedirect (cfg : Cfg) : Redirect.Cfg :=
  { rules := cfg.rules, origin := fun _ => none, isRedirect := cfg.isRedirect, hasStorage := cfg.hasStorage,
    maxRedirects := cfg.maxRedirects }

/-- `alwaysInclude`: the two headers cachingFunc puts there in this domain -/
structure Inc where
  /-- `richie-edge-cache` (`[]` = not set) -/
  status : Bytes := []
  /-- `Age` -/
  age : Option Int := none
  deriving Repr, DecidableEq

/-- the arguments of one activation of `cachingFunc` -/
structure Act where
  req : Redirect.Req
  overrideURL : Option RUrl := none
  /-- `frf.Rule` (`none` = `frf == nil`) -/
  frf : Option Rule := none
  /-- `none` = `alwaysInclude == nil` -/
  inc : Inc := {}
  /-- `redirects`, the counter in `cachingHandler`'s closure, as this activation finds it: the
      redirects followed so far for this client request -/
  hops : Nat := 0
  /-- `skipRevalidate`: true only on the re-entry after a 304 (server.go:395) -/
  skipRevalidate : Bool := false
  deriving Repr

/-- what is written to the client -/
inductive Sent where
  /-- an origin's or a stored answer: status, body, its Location header, plus `alwaysInclude` -/
  | response (status : Nat) (body location : Bytes) (inc : Inc)
  | userError (code : Nat) (msg : Bytes)
  /-- non-user error ⇒ bare 500 -/
  | plainError
  /-- panic below the handler (sentry.Recover): net/http's empty 200 -/
  | panicked
  /-- a branch outside the declared domain -/
  | outside
  deriving Repr, DecidableEq

structure Done where
  sent : Sent
  contacts : List Contact
  store : Store
  deriving Repr

inductive Outcome where
  | done (d : Done)
  /-- more activations than the fuel: unbounded recursion as far as the harness can tell
      (`Props.C18Cache.run_not_runaway`: never with fuel > `maxRedirects`) -/
  | runaway (contacts : List Contact)
  /-- the activation waits for a key its own ancestor is writing (30 s, then 503) -/
  | selfwait (contacts : List Contact)
  deriving Repr

def Outcome.prepend (c : Contact) : Outcome → Outcome
  | .done d => .done { d with contacts := c :: d.contacts }
  | .runaway cs => .runaway (c :: cs)
  | .selfwait cs => .selfwait (c :: cs)

/-! ### `url.URL.String()` for the stored RedirectedURL -/

/-- `u.String()` inside the declared URL domain (no opaque part; hosts and fragments need no
    escaping) -/
def urlString (u : RUrl) : Bytes :=
  let scheme := if u.scheme ≠ [] then u.scheme ++ b!":" else []
  let path := escapedPath u
  let auth :=
    if u.scheme ≠ [] ∨ u.host ≠ [] ∨ u.user.isSome then
      (if u.host ≠ [] ∨ u.path ≠ [] ∨ u.user.isSome then b!"//" else []) ++
      (match u.user with | some usr => usr ++ b!"@" | none => []) ++ u.host
    else []
  let sep := if path ≠ [] ∧ path.head? ≠ some 47 ∧ u.host ≠ [] then b!"/" else []
  scheme ++ auth ++ sep ++ path ++ querySuffix u ++ (if u.fragment ≠ [] then 35 :: u.fragment else [])

/-! ### RouteRequest with `overrideURL` -/

structure Routed where
  /-- `reqres.FinalRoutingFlavors`' rule: the matched rule, else the fallback -/
  rule : Rule
  contact : Contact
  resp : OResp
  /-- `reqres.RedirectedURL` (non-nil exactly for a redirect status: `url.Parse("")` succeeds) -/
  redir : Option RUrl
  deriving Repr

inductive RouteErr where
  | prep (e : PrepErr)
  /-- connection error ⇒ 502 -/
  | unreachable (c : Contact)
  /-- `url.Parse(location)` failed ⇒ non-user error -/
  | badLocation (c : Contact)
  deriving Repr

/-- `router.RouteRequest(ctx, r, overrideURL, fallbackRule)` (proxy.go:160-283, 494-547):
    the rules are matched on the request; a matching rule (else the fallback) shapes the outgoing
    request; its URL is `overrideURL` when that is given, else the request's own URL for the
    fallback, else the rule's target -/
def route (cfg : Cfg) (r : Redirect.Req) (overrideURL : Option RUrl) (fallback : Option Rule) :
    Except RouteErr Routed :=
  match query r with
  | .panic _ => .error (.prep .panicked)
  | .ok q =>
    match outgoing cfg.rules q r fallback with
    | .error e => .error (.prep e)
    | .ok (rule, u0) =>
      let u := overrideURL.getD u0
      let c : Contact := { url := u, hostField := hostField rule r u, headers := r.headers }
      match cfg.origin c with
      | none => .error (.unreachable { c with failed := true })
      | some resp =>
        if cfg.isRedirect resp.status then
          match parseURL resp.location with
          | none => .error (.badLocation c)
          | some l => .ok { rule := rule, contact := c, resp := resp, redir := some l }
        else .ok { rule := rule, contact := c, resp := resp, redir := none }

def RouteErr.done (e : RouteErr) (store : Store) : Done :=
  match e with
  | .prep .panicked => { sent := .panicked, contacts := [], store := store }
  | .prep .outside => { sent := .outside, contacts := [], store := store }
  | .prep .plainError => { sent := .plainError, contacts := [], store := store }
  | .prep .noDestination => { sent := .userError 404 b!"No destination found for request target", contacts := [], store := store }
  | .unreachable c => { sent := .userError 502 b!"Destination unreachable", contacts := [c], store := store }
  | .badLocation c => { sent := .plainError, contacts := [c], store := store }

/-! ### The cache front as this slice sees it -/

/-- `KeysFromRequest(ruleDestinationRequest(r, *rf.Rule))` then `FsName`'s input: the key string
    (no Origin header in this domain: exactly one key) -/
def keyOf (rule : Rule) (r : Redirect.Req) : Bytes :=
  let kr : Model.Req := { method := r.method, host := r.host, urlScheme := r.url.scheme, urlHost := r.url.host,
                          uri := requestURI r.url, header := r.headers }
  match requestKeys rule kr with
  | k :: _ => keyString k
  | [] => []

/-- what `cache.Get` hands the handler -/
inductive Got where
  | found (e : Entry) (age : Int) (stale : Bool)
  | writer (revalidating : Bool)
  /-- `NotFoundReader` / `RevalidatingReader` with a wait channel: somebody holds the key -/
  | wait
  | outside
  deriving Repr

/-- `cache.Get` + `getReaderOrWriter`; `locked` = `waitingReaders[rk]` exists -/
def cacheGet (store : Store) (sk : StoreKey) (locked : Bool) (now : Int) (force : Nat)
    (skipRevalidate : Bool := false) : Got :=
  match store.get sk with
  | none => if locked then .wait else .writer false
  | some e =>
    match Freshness.get locked { header := e.header, created := e.created, revalidated := e.revalidated }
            now force skipRevalidate [] [] none with
    | .ok (.foundFresh age) => .found e age false
    -- `IsStale`: only with skipRevalidate (the entry is due, but the origin has just confirmed it)
    | .ok (.foundStale age) => .found e age true
    | .ok (.revalidatingWriter _) => .writer true
    | .ok (.revalidatingReader _) => .wait
    | _ => .outside

/-- the status gate of `cachingResponseWriter.WriteHeader` / `storageWriter.WriteHeader` -/
def inGate (cfg : Cfg) (status : Nat) : Bool :=
  status == 200 || (400 ≤ status && status ≤ 404) || cfg.isRedirect status

/-- the entry `storageWriter.Close` publishes for an origin answer -/
def entryOf (resp : OResp) (redirectedURL : Bytes) (now : Int) (revalidating : Bool) : Entry :=
  let cc : Bytes := if 400 ≤ resp.status ∧ resp.status ≤ 404 then b!"s-maxage=60, max-age=60" else resp.cacheControl
  { status := resp.status,
    header := ({ resp with cacheControl := cc } : OResp).header,
    body := resp.body, redirectedURL := redirectedURL,
    created := now, revalidated := if revalidating then now else 0 }

/-- `requestWithRedirect(r, cr.Metadata.RedirectedURL)` (server.go:516-525) -/
def requestWithRedirect (r : Redirect.Req) (location : Bytes) : Option Redirect.Req :=
  (parseURL location).map fun loc =>
    let u := redirectedURL r.url r.host r.url loc
    { r with url := u, host := u.host }

/-- the stored entry grants stale-if-error (server.go:386-399: outside this slice) -/
def staleIfErrorGranted (store : Store) (sk : StoreKey) : Bool :=
  match store.get sk with
  | some e => (getCacheControlDirectives e.header).staleIfError.isSome
  | none => false

/-- the hit's `richie-edge-cache` (server.go:234-242) -/
def hitStatus (inc : Inc) (stale : Bool := false) : Bytes :=
  if inc.status = [] then (if stale then b!"stale" else b!"hit")
  else if inc.status = b!"pass" then b!"hit" else inc.status

/-- the header surgery of a writer-kind cache result (server.go:346-357): `If-None-Match` with the
    stored validator for a RevalidatingWriter, the client's own conditional headers deleted for a
    NotFoundWriter (no Range in this domain) -/
def surgeryOf (revalidating : Bool) (client stored : Header) : Conditional.Surgery :=
  Conditional.surgery (if revalidating then .revalidating else .notFound) false client stored

/-- `r.Header` after `r.Header.Del(usedRevalidateHeader)` (server.go:382-383) -/
def afterDel (sg : Conditional.Surgery) : Header :=
  if sg.used.length > 0 then sg.req.del sg.used else sg.req

/-- `r.Header` as the 304 re-entry gets it: the client's own validator restored (server.go:390-392) -/
def afterRestore (sg : Conditional.Surgery) : Header :=
  if sg.clientKey.length > 0 ∧ sg.clientVal.length > 0 then (afterDel sg).set sg.clientKey sg.clientVal else afterDel sg

/-! ### cachingFunc

   One activation is `step`: it either ends (`Step.done`) or calls `cachingFunc` again
   (`Step.reenter`) and, when that call returns, finishes with `Step.finish`.  The rows of the
   activation are small functions of their own (`uncachedRow`, `foundRow`, `writerRow` →
   `afterAnswer`), so that the theorems can take them one at a time. -/

inductive Step where
  | done (o : Outcome)
  /-- `cachingFunc(w, a.req, a.overrideURL, …)` with the lock set and the store as this activation
      leaves them; `contact` = the origin contact this activation made before; `put` = the hop
      this activation publishes AFTER the re-entry has returned (writer path) -/
  | reenter (locks : List Bytes) (store : Store) (a : Act) (contact : Option Contact) (put : Option (StoreKey × Entry))

/-- back from the re-entry -/
def Step.finish (contact : Option Contact) (put : Option (StoreKey × Entry)) (o : Outcome) : Outcome :=
  match contact, put with
  | none, _ => o
  | some c, none => o.prepend c
  | some c, some (sk, entry) =>
    match o with
    -- the hop itself goes to the cache, not to the client
    | .done d => .done { sent := d.sent, contacts := c :: d.contacts, store := d.store.put sk entry }
    | o => o.prepend c

/-- the uncached branch (server.go:112-150) -/
def uncachedRow (cfg : Cfg) (locks : List Bytes) (store : Store) (a : Act) (r : Redirect.Req) (rf : Option Rule) : Step :=
  let restartRf := (rf.map (·.restartOnRedirect)).getD false
  match route cfg r a.overrideURL rf with
  | .error e => .done (.done (e.done store))
  | .ok rt =>
    match rt.redir with
    | some redir =>
      if restartRf then
        if urlEquals redir r.url then
          .done (.done { sent := .userError 508 b!"Loop detected", contacts := [rt.contact], store := store })
        -- redirects++; if redirects > maxRedirects { 508 }
        else if a.hops + 1 > cfg.maxRedirects then
          .done (.done { sent := .userError 508 b!"Loop detected", contacts := [rt.contact], store := store })
        else
          let lvl := reenter { r := r, rf := rf, rule := rt.rule, contact := rt.contact } redir
          .reenter locks store { req := lvl.req, overrideURL := none, frf := rf, inc := a.inc, hops := a.hops + 1 } (some rt.contact) none
      else
        .done (.done { sent := .response rt.resp.status rt.resp.body rt.resp.location { a.inc with status := b!"pass" },
                       contacts := [rt.contact], store := store })
    | none =>
      .done (.done { sent := .response rt.resp.status rt.resp.body rt.resp.location { a.inc with status := b!"pass" },
                     contacts := [rt.contact], store := store })

/-- `case caching.Found` (server.go:216-281) -/
def foundRow (cfg : Cfg) (locks : List Bytes) (store : Store) (a : Act) (r : Redirect.Req) (rule : Rule)
    (e : Entry) (age : Int) (stale : Bool) : Step :=
  if rule.restartOnRedirect ∧ cfg.isRedirect e.status then
    -- server.go:217-231: no URL is compared with any other; the redirect is counted;
    -- alwaysInclude starts afresh
    match requestWithRedirect r e.redirectedURL with
    | none => .done (.done { sent := .plainError, contacts := [], store := store })
    | some rr =>
      -- redirects++; if redirects > maxRedirects { cache.Finish(key); 508 }
      if a.hops + 1 > cfg.maxRedirects then
        .done (.done { sent := .userError 508 b!"Loop detected", contacts := [], store := store })
      else
        .reenter locks store { req := rr, overrideURL := some rr.url, frf := some rule, inc := {}, hops := a.hops + 1 } none none
  else
    .done (.done { sent := .response e.status e.body (e.header.get b!"Location") { status := hitStatus a.inc stale, age := some age },
                   contacts := [], store := store })

/-- the writer rows after the origin has answered (server.go:365-487); `r` = the request after
    `r.Header.Del(usedRevalidateHeader)`, `sg` = the header surgery that was applied -/
def afterAnswer (cfg : Cfg) (now : Int) (locks : List Bytes) (store : Store) (a : Act) (r : Redirect.Req)
    (ks : Bytes) (sk : StoreKey) (revalidating : Bool) (sg : Conditional.Surgery) (rt : Routed) : Step :=
  -- rf = reqres.FinalRoutingFlavors
  let rfF := rt.rule
  let dirs := getCacheControlDirectives rt.resp.header
  if sg.used.length > 0 ∧ rt.resp.status = 304 ∧ dirs.doNotCache = false then
    -- server.go:384-397: SetRevalidatedAndClose (the key is released by Close), the client's own
    -- validator restored, "revalidated"; cachingFunc(w, r, nil, alwaysInclude, &rf, true) — the
    -- same request, NOT a redirect: the counter stays
    .reenter locks (store.revalidate sk rt.resp.header now)
      { req := { r with headers := afterRestore sg }, overrideURL := none, frf := some rfF,
        inc := { a.inc with status := b!"revalidated" }, hops := a.hops, skipRevalidate := true } (some rt.contact) none
  else if dirs.doNotCache then
    -- "uncacheable": plain writer, nothing stored — and a redirect is NOT followed
    .done (.done { sent := .response rt.resp.status rt.resp.body rt.resp.location { a.inc with status := b!"uncacheable" },
                   contacts := [rt.contact], store := store })
  else if revalidating && decide (rt.resp.status ≥ 400) && staleIfErrorGranted store sk then
    .done (.done { sent := .outside, contacts := [rt.contact], store := store })
  else if ¬ inGate cfg rt.resp.status ∨ (rt.resp.status = 200 ∧ rt.resp.body = []) then
    .done (.done { sent := .outside, contacts := [rt.contact], store := store })
  else
  let inc1 : Inc := { status := if revalidating then b!"revalidated" else b!"miss", age := some 0 }
  match rt.redir with
  | some redir =>
    if urlEquals redir r.url then
      .done (.done { sent := .userError 508 b!"Loop detected", contacts := [rt.contact], store := store })
    else
      let lvl := reenter { r := r, rf := some rfF, rule := rfF, contact := rt.contact } redir
      -- cr.Writer.SetRedirectedURL(redirectedUrl): rendered by Close, i.e. after the re-entry
      let entry := entryOf rt.resp (urlString lvl.req.url) now revalidating
      if rfF.restartOnRedirect then
        -- redirects++; if redirects > maxRedirects { 508 }: the writer is abandoned as on
        -- the urlEquals branch, nothing is stored for this hop
        if a.hops + 1 > cfg.maxRedirects then
          .done (.done { sent := .userError 508 b!"Loop detected", contacts := [rt.contact], store := store })
        else
          -- SetClientWritesDisabled; cachingFunc(w, rr, rr.URL, alwaysInclude, &rf, false); back from
          -- it the hop is published
          .reenter (ks :: locks) store
            { req := lvl.req, overrideURL := some lvl.req.url, frf := some rfF, inc := inc1, hops := a.hops + 1 }
            (some rt.contact) (some (sk, entry))
      else
        .done (.done { sent := .response rt.resp.status rt.resp.body rt.resp.location inc1,
                       contacts := [rt.contact], store := store.put sk entry })
  | none =>
    .done (.done { sent := .response rt.resp.status rt.resp.body rt.resp.location inc1,
                   contacts := [rt.contact], store := store.put sk (entryOf rt.resp [] now revalidating) })

/-- `case NotFoundWriter, RevalidatingWriter` (server.go:334-487) -/
def writerRow (cfg : Cfg) (now : Int) (locks : List Bytes) (store : Store) (a : Act) (r : Redirect.Req)
    (rf : Option Rule) (ks : Bytes) (sk : StoreKey) (revalidating : Bool) : Step :=
  -- server.go:346-357: the stored validator goes onto the request of a RevalidatingWriter
  let sg := surgeryOf revalidating r.headers (store.headerOf sk)
  match route cfg { r with headers := sg.req } a.overrideURL rf with
  | .error e => .done (.done (e.done store))
  | .ok rt =>
    -- r.Header.Del(usedRevalidateHeader)
    afterAnswer cfg now locks store a { r with headers := afterDel sg } ks sk revalidating sg rt

/-- ONE activation of `cachingFunc`; `locks` = the keys (FsName inputs) whose writers are further
    up the stack -/
def step (cfg : Cfg) (now : Int) (locks : List Bytes) (store : Store) (a : Act) : Step :=
  -- rf := router.GetRoutingFlavors(r); r = preprocessHeaders(r, rf.RequestHeaders)
  match query a.req with
  | .panic _ => .done (.done { sent := .panicked, contacts := [], store := store })
  | .ok q1 =>
  let matched := matchedRule cfg.rules q1
  let r : Redirect.Req := { a.req with headers := preprocess a.req.headers ((matched.map (·.requestHeaders)).getD []) }
  -- if len(rf.CacheId) == 0 && frf != nil { rf = *frf }
  let rf := effectiveRule matched a.frf
  let cacheId := (rf.map (·.cacheId)).getD []
  if cacheId.length = 0 ∨ ¬ cfg.hasStorage cacheId ∨ ¬ (r.method = b!"GET" ∨ r.method = b!"HEAD") then
    uncachedRow cfg locks store a r rf
  else
  match rf with
  | none => .done (.done { sent := .outside, contacts := [], store := store })     -- unreachable: a cache id comes from a rule
  | some rule =>
  let ks := keyOf rule r
  let sk : StoreKey := (cacheId, ks)
  match cacheGet store sk (locks.contains ks) now rule.forceRevalidate a.skipRevalidate with
  | .outside => .done (.done { sent := .outside, contacts := [], store := store })
  | .wait => .done (.selfwait [])
  | .found e age stale => foundRow cfg locks store a r rule e age stale
  | .writer revalidating => writerRow cfg now locks store a r rf ks sk revalidating

/-- `cachingFunc`; `fuel` bounds the number of nested activations -/
def run (cfg : Cfg) (now : Int) : Nat → List Bytes → Store → Act → Outcome
  | 0, _, _, _ => .runaway []
  | n + 1, locks, store, a =>
    match step cfg now locks store a with
    | .done o => o
    | .reenter locks' store' a' contact put => Step.finish contact put (run cfg now n locks' store' a')

/-- the client's request as `net/http` hands it to the handler -/
def clientAct (target host : Bytes) : Option Act :=
  (parseURL target).map fun u => { req := { url := u, host := host, headers := [], method := b!"GET" } }

/-! ### Histories -/

inductive Op where
  | request (target : Bytes)
  | tick (dt : Nat)
  deriving Repr

/-- a history on one cache: the outcomes of its requests; it ends at the first request the
    harness has to cut (runaway / selfwait) -/
def history (cfg : Cfg) (host : Bytes) (limit : Nat) : Int → Store → List Op → List Outcome
  | _, _, [] => []
  | now, store, .tick dt :: rest => history cfg host limit (now + dt) store rest
  | now, store, .request target :: rest =>
    match clientAct target host with
    | none => []
    | some a =>
      match run cfg now limit [] store a with
      | .done d => .done d :: history cfg host limit now d.store rest
      | o => [o]

end Model.RedirectCache
