import RrModel.Redirect
import RrModel.Key
import RrModel.Freshness
/-
  restart_on_redirect through CACHE-ENABLED rules (C18, cached half), branch for branch:

    server/server.go   cachingFunc: prologue (96-106), the uncached branch as re-entered from a
                       cached activation (106-138: `overrideURL` is handed on to RouteRequest),
                       key derivation (140-141), `case caching.Found` (204-263: the re-entry on a
                       stored redirect, the hit), `case NotFoundWriter, RevalidatingWriter`
                       (311-457: RouteRequest, `rf = reqres.FinalRoutingFlavors`, the do-not-cache
                       branch, the 508 check, SetRedirectedURL, SetClientWritesDisabled, the
                       re-entry, and the hop being written to the cache AFTER the re-entry returns),
                       the wait on a key that is being written (169-198), requestWithRedirect (516-525)
    caching/caching.go cache.Get (176-287: age, max-age / s-maxage — via Model.Freshness),
                       getReaderOrWriter (290-334: the lock table is keyed by FsName alone),
                       cachingResponseWriter.WriteHeader (the status gate 200 / 400-404 / redirects)
    caching/disk.go    storageWriter.WriteHeader (cacheable errors get `s-maxage=60, max-age=60`),
                       Close (RedirectedURL = `redirectedURL.String()`, Created / Revalidated)
    proxy/proxy.go     createOutgoingRequests (505-520: `overrideURL` wins over the matched rule's
                       target and over `useReqURL`)

  Built on Model.Redirect: `query`, `matchedRule`, `preprocess`, `effectiveRule`, `outgoing`,
  `hostField`, `parseURL`, `urlEquals`, `redirectedURL`, `reenter` are used as they are there.

  Declared domain (what the stream generates): GET, no Range, no conditional request headers, no
  Authorization / Origin, origin answers without validators, Vary, stale-* directives or Expires,
  statuses 200 / 404 / 301-308 with non-empty bodies, no copy rules, no retry_rule, no
  response_headers, force_revalidate 0.  A branch outside it ends the run with `Sent.outside`.
  Sequential histories: the only holder of a key's lock is an activation further up the SAME
  stack; waiting for it is a 30 s self-deadlock (`Outcome.selfwait`).

  Every redirect that leads to a re-entry is counted per client request (`redirects++; if
  redirects > maxRedirects` ⇒ 508 Loop detected) at the uncached, the Found and the writer site
  alike (and at the reader site, which a sequential history cannot reach) — the repair of
  findings C18-a / C18-c.  The nesting of activations is therefore bounded by `maxRedirects + 1`
  (`Props.C18Cache.cached_terminates`); the fuel parameter stays for structural recursion.
-/
namespace Model.RedirectCache
open Go Model Model.Redirect

/-- what the destination answers, as far as this slice reads it (`[]` = header absent) -/
structure OResp where
  status : Nat
  location : Bytes := []
  cacheControl : Bytes := []
  body : Bytes := []
  deriving Repr, DecidableEq

/-- the response headers this slice looks at -/
def OResp.header (r : OResp) : Header :=
  (if r.cacheControl = [] then [] else [(b!"Cache-Control", [r.cacheControl])]) ++
  (if r.location = [] then [] else [(b!"Location", [r.location])])

/-- one stored response: the part of `StorageMetadata` + file the handler reads back -/
structure Entry where
  status : Nat
  /-- stored response header (Location, Cache-Control) -/
  header : Header
  body : Bytes
  /-- `StorageMetadata.RedirectedURL` -/
  redirectedURL : Bytes
  created : Int
  revalidated : Int
  deriving Repr

/-- storage id and key string (what `FsName` hashes) -/
abbrev StoreKey := Bytes × Bytes
abbrev Store := List (StoreKey × Entry)

def Store.get (s : Store) (k : StoreKey) : Option Entry := (s.find? (·.1 = k)).map (·.2)
def Store.put (s : Store) (k : StoreKey) (e : Entry) : Store := (k, e) :: s.filter (·.1 ≠ k)

structure Cfg where
  rules : List Rule
  origin : Contact → Option OResp
  isRedirect : Nat → Bool
  hasStorage : Bytes → Bool
  /-- `Facts.maxRedirects` (server.go `const maxRedirects`) -/
  maxRedirects : Nat

def Cfg.toRedirect (cfg : Cfg) : Redirect.Cfg :=
  { rules := cfg.rules, origin := fun _ => none, isRedirect := cfg.isRedirect, hasStorage := cfg.hasStorage,
    maxRedirects := cfg.maxRedirects }

/-- `alwaysInclude`: the two headers cachingFunc puts there in this domain -/
structure Inc where
  /-- `richie-edge-cache` (`[]` = not set) -/
  status : Bytes := []
  /-- `Age` -/
  age : Option Int := none
  deriving Repr, DecidableEq

/-- the arguments of one activation of `cachingFunc` -/
structure Act where
  req : Redirect.Req
  overrideURL : Option RUrl := none
  /-- `frf.Rule` (`none` = `frf == nil`) -/
  frf : Option Rule := none
  /-- `none` = `alwaysInclude == nil` -/
  inc : Inc := {}
  /-- `redirects`, the counter in `cachingHandler`'s closure, as this activation finds it: the
      redirects followed so far for this client request -/
  hops : Nat := 0
  deriving Repr

/-- what is written to the client -/
inductive Sent where
  /-- an origin's or a stored answer: status, body, its Location header, plus `alwaysInclude` -/
  | response (status : Nat) (body location : Bytes) (inc : Inc)
  | userError (code : Nat) (msg : Bytes)
  /-- non-user error ⇒ bare 500 -/
  | plainError
  /-- panic below the handler (sentry.Recover): net/http's empty 200 -/
  | panicked
  /-- a branch outside the declared domain -/
  | outside
  deriving Repr, DecidableEq

structure Done where
  sent : Sent
  contacts : List Contact
  store : Store
  deriving Repr

inductive Outcome where
  | done (d : Done)
  /-- more activations than the fuel: unbounded recursion as far as the harness can tell
      (`Props.C18Cache.run_not_runaway`: never with fuel > `maxRedirects`) -/
  | runaway (contacts : List Contact)
  /-- the activation waits for a key its own ancestor is writing (30 s, then 503) -/
  | selfwait (contacts : List Contact)
  deriving Repr

def Outcome.prepend (c : Contact) : Outcome → Outcome
  | .done d => .done { d with contacts := c :: d.contacts }
  | .runaway cs => .runaway (c :: cs)
  | .selfwait cs => .selfwait (c :: cs)

/-! ### `url.URL.String()` for the stored RedirectedURL -/

/-- `u.String()` inside the declared URL domain (no opaque part; hosts and fragments need no
    escaping) -/
def urlString (u : RUrl) : Bytes :=
  let scheme := if u.scheme ≠ [] then u.scheme ++ b!":" else []
  let path := escapedPath u
  let auth :=
    if u.scheme ≠ [] ∨ u.host ≠ [] ∨ u.user.isSome then
      (if u.host ≠ [] ∨ u.path ≠ [] ∨ u.user.isSome then b!"//" else []) ++
      (match u.user with | some usr => usr ++ b!"@" | none => []) ++ u.host
    else []
  let sep := if path ≠ [] ∧ path.head? ≠ some 47 ∧ u.host ≠ [] then b!"/" else []
  scheme ++ auth ++ sep ++ path ++ querySuffix u ++ (if u.fragment ≠ [] then 35 :: u.fragment else [])

/-! ### RouteRequest with `overrideURL` -/

structure Routed where
  /-- `reqres.FinalRoutingFlavors`' rule: the matched rule, else the fallback -/
  rule : Rule
  contact : Contact
  resp : OResp
  /-- `reqres.RedirectedURL` (non-nil exactly for a redirect status: `url.Parse("")` succeeds) -/
  redir : Option RUrl
  deriving Repr

inductive RouteErr where
  | prep (e : PrepErr)
  /-- connection error ⇒ 502 -/
  | unreachable (c : Contact)
  /-- `url.Parse(location)` failed ⇒ non-user error -/
  | badLocation (c : Contact)
  deriving Repr

/-- `router.RouteRequest(ctx, r, overrideURL, fallbackRule)` (proxy.go:160-283, 494-547):
    the rules are matched on the request; a matching rule (else the fallback) shapes the outgoing
    request; its URL is `overrideURL` when that is given, else the request's own URL for the
    fallback, else the rule's target -/
def route (cfg : Cfg) (r : Redirect.Req) (overrideURL : Option RUrl) (fallback : Option Rule) :
    Except RouteErr Routed :=
  match query r with
  | .panic _ => .error (.prep .panicked)
  | .ok q =>
    match outgoing cfg.rules q r fallback with
    | .error e => .error (.prep e)
    | .ok (rule, u0) =>
      let u := overrideURL.getD u0
      let c : Contact := { url := u, hostField := hostField rule r u, headers := r.headers }
      match cfg.origin c with
      | none => .error (.unreachable { c with failed := true })
      | some resp =>
        if cfg.isRedirect resp.status then
          match parseURL resp.location with
          | none => .error (.badLocation c)
          | some l => .ok { rule := rule, contact := c, resp := resp, redir := some l }
        else .ok { rule := rule, contact := c, resp := resp, redir := none }

def RouteErr.done (e : RouteErr) (store : Store) : Done :=
  match e with
  | .prep .panicked => { sent := .panicked, contacts := [], store := store }
  | .prep .outside => { sent := .outside, contacts := [], store := store }
  | .prep .plainError => { sent := .plainError, contacts := [], store := store }
  | .prep .noDestination => { sent := .userError 404 b!"No destination found for request target", contacts := [], store := store }
  | .unreachable c => { sent := .userError 502 b!"Destination unreachable", contacts := [c], store := store }
  | .badLocation c => { sent := .plainError, contacts := [c], store := store }

/-! ### The cache front as this slice sees it -/

/-- `KeysFromRequest(ruleDestinationRequest(r, *rf.Rule))` then `FsName`'s input: the key string
    (no Origin header in this domain: exactly one key) -/
def keyOf (rule : Rule) (r : Redirect.Req) : Bytes :=
  let kr : Model.Req := { method := r.method, host := r.host, urlScheme := r.url.scheme, urlHost := r.url.host,
                          uri := requestURI r.url, header := r.headers }
  match requestKeys rule kr with
  | k :: _ => keyString k
  | [] => []

/-- what `cache.Get` hands the handler -/
inductive Got where
  | found (e : Entry) (age : Int)
  | writer (revalidating : Bool)
  /-- `NotFoundReader` / `RevalidatingReader` with a wait channel: somebody holds the key -/
  | wait
  | outside
  deriving Repr

/-- `cache.Get` + `getReaderOrWriter`; `locked` = `waitingReaders[rk]` exists -/
def cacheGet (store : Store) (sk : StoreKey) (locked : Bool) (now : Int) (force : Nat) : Got :=
  match store.get sk with
  | none => if locked then .wait else .writer false
  | some e =>
    match Freshness.get locked { header := e.header, created := e.created, revalidated := e.revalidated }
            now force false [] [] none with
    | .ok (.foundFresh age) => .found e age
    | .ok (.revalidatingWriter _) => .writer true
    | .ok (.revalidatingReader _) => .wait
    | _ => .outside

/-- the status gate of `cachingResponseWriter.WriteHeader` / `storageWriter.WriteHeader` -/
def inGate (cfg : Cfg) (status : Nat) : Bool :=
  status == 200 || (400 ≤ status && status ≤ 404) || cfg.isRedirect status

/-- the entry `storageWriter.Close` publishes for an origin answer -/
def entryOf (resp : OResp) (redirectedURL : Bytes) (now : Int) (revalidating : Bool) : Entry :=
  let cc : Bytes := if 400 ≤ resp.status ∧ resp.status ≤ 404 then b!"s-maxage=60, max-age=60" else resp.cacheControl
  { status := resp.status,
    header := ({ resp with cacheControl := cc } : OResp).header,
    body := resp.body, redirectedURL := redirectedURL,
    created := now, revalidated := if revalidating then now else 0 }

/-- `requestWithRedirect(r, cr.Metadata.RedirectedURL)` (server.go:516-525) -/
def requestWithRedirect (r : Redirect.Req) (location : Bytes) : Option Redirect.Req :=
  (parseURL location).map fun loc =>
    let u := redirectedURL r.url r.host r.url loc
    { r with url := u, host := u.host }

/-- the stored entry grants stale-if-error (server.go:386-399: outside this slice) -/
def staleIfErrorGranted (store : Store) (sk : StoreKey) : Bool :=
  match store.get sk with
  | some e => (getCacheControlDirectives e.header).staleIfError.isSome
  | none => false

/-- the hit's `richie-edge-cache` (server.go:216-224; never stale here) -/
def hitStatus (inc : Inc) : Bytes :=
  if inc.status = [] then b!"hit" else if inc.status = b!"pass" then b!"hit" else inc.status

/-! ### cachingFunc -/

/-- `cachingFunc`; `fuel` bounds the number of nested activations, `locks` = the keys (FsName
    inputs) whose writers are further up the stack -/
def run (cfg : Cfg) (now : Int) : Nat → List Bytes → Store → Act → Outcome
  | 0, _, _, _ => .runaway []
  | n + 1, locks, store, a =>
    -- rf := router.GetRoutingFlavors(r); r = preprocessHeaders(r, rf.RequestHeaders)
    match query a.req with
    | .panic _ => .done { sent := .panicked, contacts := [], store := store }
    | .ok q1 =>
    let matched := matchedRule cfg.rules q1
    let r : Redirect.Req := { a.req with headers := preprocess a.req.headers ((matched.map (·.requestHeaders)).getD []) }
    -- if len(rf.CacheId) == 0 && frf != nil { rf = *frf }
    let rf := effectiveRule matched a.frf
    let cacheId := (rf.map (·.cacheId)).getD []
    let restartRf := (rf.map (·.restartOnRedirect)).getD false
    if cacheId.length = 0 ∨ ¬ cfg.hasStorage cacheId ∨ ¬ (r.method = b!"GET" ∨ r.method = b!"HEAD") then
      -- the uncached branch (server.go:106-138)
      match route cfg r a.overrideURL rf with
      | .error e => .done (e.done store)
      | .ok rt =>
        match rt.redir with
        | some redir =>
          if restartRf then
            if urlEquals redir r.url then
              .done { sent := .userError 508 b!"Loop detected", contacts := [rt.contact], store := store }
            -- redirects++; if redirects > maxRedirects { 508 }
            else if a.hops + 1 > cfg.maxRedirects then
              .done { sent := .userError 508 b!"Loop detected", contacts := [rt.contact], store := store }
            else
              let lvl := reenter { r := r, rf := rf, rule := rt.rule, contact := rt.contact } redir
              (run cfg now n locks store { req := lvl.req, overrideURL := none, frf := rf, inc := a.inc, hops := a.hops + 1 }).prepend rt.contact
          else
            .done { sent := .response rt.resp.status rt.resp.body rt.resp.location { a.inc with status := b!"pass" },
                    contacts := [rt.contact], store := store }
        | none =>
          .done { sent := .response rt.resp.status rt.resp.body rt.resp.location { a.inc with status := b!"pass" },
                  contacts := [rt.contact], store := store }
    else
    match rf with
    | none => .done { sent := .outside, contacts := [], store := store }     -- unreachable: a cache id comes from a rule
    | some rule =>
    let ks := keyOf rule r
    let sk : StoreKey := (cacheId, ks)
    match cacheGet store sk (locks.contains ks) now rule.forceRevalidate with
    | .outside => .done { sent := .outside, contacts := [], store := store }
    | .wait => .selfwait []
    | .found e age =>
      if rule.restartOnRedirect ∧ cfg.isRedirect e.status then
        -- server.go:213-226: no URL is compared with any other; the redirect is counted;
        -- alwaysInclude starts afresh
        match requestWithRedirect r e.redirectedURL with
        | none => .done { sent := .plainError, contacts := [], store := store }
        | some rr =>
          -- redirects++; if redirects > maxRedirects { cache.Finish(key); 508 }
          if a.hops + 1 > cfg.maxRedirects then
            .done { sent := .userError 508 b!"Loop detected", contacts := [], store := store }
          else
            run cfg now n locks store { req := rr, overrideURL := some rr.url, frf := some rule, inc := {}, hops := a.hops + 1 }
      else
        .done { sent := .response e.status e.body (e.header.get b!"Location") { status := hitStatus a.inc, age := some age },
                contacts := [], store := store }
    | .writer revalidating =>
      match route cfg r a.overrideURL rf with
      | .error e => .done (e.done store)
      | .ok rt =>
        -- rf = reqres.FinalRoutingFlavors
        let rfF := rt.rule
        let dirs := getCacheControlDirectives rt.resp.header
        if dirs.doNotCache then
          -- "uncacheable": plain writer, nothing stored — and a redirect is NOT followed
          .done { sent := .response rt.resp.status rt.resp.body rt.resp.location { a.inc with status := b!"uncacheable" },
                  contacts := [rt.contact], store := store }
        else if revalidating && decide (rt.resp.status ≥ 400) && staleIfErrorGranted store sk then
          .done { sent := .outside, contacts := [rt.contact], store := store }
        else if ¬ inGate cfg rt.resp.status ∨ (rt.resp.status = 200 ∧ rt.resp.body = []) then
          .done { sent := .outside, contacts := [rt.contact], store := store }
        else
        let inc1 : Inc := { status := if revalidating then b!"revalidated" else b!"miss", age := some 0 }
        match rt.redir with
        | some redir =>
          if urlEquals redir r.url then
            .done { sent := .userError 508 b!"Loop detected", contacts := [rt.contact], store := store }
          else
            let lvl := reenter { r := r, rf := some rfF, rule := rfF, contact := rt.contact } redir
            -- cr.Writer.SetRedirectedURL(redirectedUrl): rendered by Close, i.e. after the re-entry
            let entry := entryOf rt.resp (urlString lvl.req.url) now revalidating
            if rfF.restartOnRedirect then
              -- redirects++; if redirects > maxRedirects { 508 }: the writer is abandoned as on
              -- the urlEquals branch, nothing is stored for this hop
              if a.hops + 1 > cfg.maxRedirects then
                .done { sent := .userError 508 b!"Loop detected", contacts := [rt.contact], store := store }
              else
              -- SetClientWritesDisabled; cachingFunc(w, rr, rr.URL, alwaysInclude, &rf, false)
              match run cfg now n (ks :: locks) store
                      { req := lvl.req, overrideURL := some lvl.req.url, frf := some rfF, inc := inc1, hops := a.hops + 1 } with
              | .done d =>
                -- back from the re-entry: the hop itself goes to the cache, not to the client
                .done { sent := d.sent, contacts := rt.contact :: d.contacts, store := d.store.put sk entry }
              | o => o.prepend rt.contact
            else
              .done { sent := .response rt.resp.status rt.resp.body rt.resp.location inc1,
                      contacts := [rt.contact], store := store.put sk entry }
        | none =>
          .done { sent := .response rt.resp.status rt.resp.body rt.resp.location inc1,
                  contacts := [rt.contact], store := store.put sk (entryOf rt.resp [] now revalidating) }

/-- the client's request as `net/http` hands it to the handler -/
def clientAct (target host : Bytes) : Option Act :=
  (parseURL target).map fun u => { req := { url := u, host := host, headers := [], method := b!"GET" } }

/-! ### Histories -/

inductive Op where
  | request (target : Bytes)
  | tick (dt : Nat)
  deriving Repr

/-- a history on one cache: the outcomes of its requests; it ends at the first request the
    harness has to cut (runaway / selfwait) -/
def history (cfg : Cfg) (host : Bytes) (limit : Nat) : Int → Store → List Op → List Outcome
  | _, _, [] => []
  | now, store, .tick dt :: rest => history cfg host limit (now + dt) store rest
  | now, store, .request target :: rest =>
    match clientAct target host with
    | none => []
    | some a =>
      match run cfg now limit [] store a with
      | .done d => .done d :: history cfg host limit now d.store rest
      | o => [o]

end Model.RedirectCache
