import RrModel.Routing
import RrModel.Go.Strconv
import RrModel.Go.Datasize
import RrModel.Generated.Facts
/-
  Configuration: from the parsed document to the rule list and the storage list, and the
  reload loop.  Written branch for branch from

    yamlconfig/yamlconfig.go            cleanupMapValue / cleanupInterfaceMap / cleanupInterfaceArray
    proxy/ruleconfig.go:39-61           RuleSource, rulesConfig      (typed encoding/json decode)
    proxy/ruleconfig.go:69-188          NewRules, checkMethods, ParseRules
    proxy/rule.go:62-105                NewRule                      (Model.wildcardIndex)
    caching/caching.go:494-502,564-594  cacheConfig, ParseStorageConfigs
    caching/caching.go:340-366          SetStorageConfigs
    cmd/richie-request-router/main.go   Run (start-up), configReloader

  The YAML and the JSON *parsers* are third-party / std-lib code and are not modelled: a
  document is the `Tree` they produce (trusted base; the correspondence streams feed the real
  parsers and compare everything downstream).
-/
namespace Model.Config
open Go Model

/-! ## Documents -/

/-- a scalar as `yaml.Unmarshal` into `interface{}` (resp. the JSON tokenizer) delivers it.
    `other text` = a scalar of any Go type besides nil/bool/int/string (float64, uint64, …),
    carrying its `fmt.Sprintf("%v", ·)` rendering, which is all `cleanupMapValue` uses; on the
    JSON side it is a number literal that is not a decimal integer. -/
inductive Scalar where
  | null
  | bool (b : Bool)
  | int (i : Int)
  | other (text : Bytes)
  | str (s : Bytes)
  deriving DecidableEq, Repr

/-- a parsed document: scalars, sequences, mappings (keys are scalars: YAML allows
    `1:`, `true:`, `null:`; JSON keys are always `str`). Entries keep document order. -/
inductive Tree where
  | sc (s : Scalar)
  | list (l : List Tree)
  | map (m : List (Scalar × Tree))
  deriving Repr

/-- `fmt.Sprintf("%v", k)` -/
def sprintV : Scalar → Bytes
  | .null => b!"<nil>"
  | .bool true => b!"true"
  | .bool false => b!"false"
  | .int i => itoa i
  | .other t => t
  | .str s => s

mutual
/-- `cleanupMapValue` (yamlconfig.go:42-58) -/
def cleanup : Tree → Tree
  | .sc (.other t) => .sc (.str t)          -- default: fmt.Sprintf("%v", v)
  | .sc s => .sc s                          -- bool, int, string, nil
  | .list l => .list (cleanupList l)
  | .map m => .map (cleanupMap m)
/-- `cleanupInterfaceArray` -/
def cleanupList : List Tree → List Tree
  | [] => []
  | t :: r => cleanup t :: cleanupList r
/-- `cleanupInterfaceMap`: every key becomes the string `%v` prints for it -/
def cleanupMap : List (Scalar × Tree) → List (Scalar × Tree)
  | [] => []
  | (k, v) :: r => (.str (sprintV k), cleanup v) :: cleanupMap r
end

/-- what the two parsers make of one configuration text. `yaml` is the result of
    `yaml.Unmarshal` into `map[interface{}]interface{}` (`none`: error), `json` the JSON syntax
    tree (`none`: not JSON). -/
structure Doc where
  yaml : Option Tree
  json : Option Tree
  deriving Repr

/-- the tree that reaches the typed decode (ParseRules 174-180, ParseStorageConfigs 565-571):
    YAML first — `yamlconfig.Convert`, i.e. `cleanupMapValue` and a `json.Marshal`/`Unmarshal`
    round trip that is the identity on cleaned trees — and the raw JSON only when the YAML
    parser failed. `none`: neither parser accepted the text. -/
def Doc.source (d : Doc) : Option Tree :=
  match d.yaml with
  | some t => some (cleanup t)
  | none => d.json

/-! ## The typed decode (`encoding/json` into `rulesConfig` / `cacheConfig`)

  Only the field TYPES matter: a JSON value of the wrong type is an `UnmarshalTypeError`
  (decoding goes on, but `Unmarshal` returns the error: the document is rejected); `null`
  leaves a non-pointer field as it is and clears pointers, slices and maps; unknown keys are
  skipped whatever their value. Keys match field names case-insensitively (ASCII).
  `none` = `Unmarshal` returned an error.
  Declared domain: within one mapping no two keys name the same field. -/

def keyIs (k : Scalar) (name : Bytes) : Bool := toLower (sprintV k) == name

/-- into a `string` -/
def decString (old : Bytes) : Tree → Option Bytes
  | .sc .null => some old
  | .sc (.str s) => some s
  | _ => none

/-- into a `bool` -/
def decBool (old : Bool) : Tree → Option Bool
  | .sc .null => some old
  | .sc (.bool b) => some b
  | _ => none

/-- into an `int`: the number literal must be accepted by `strconv.ParseInt(·, 10, 64)` -/
def decInt (old : Int) : Tree → Option Int
  | .sc .null => some old
  | .sc (.int i) => if minInt64 ≤ i ∧ i ≤ maxInt64 then some i else none
  | _ => none

/-- into a `*bool` -/
def decBoolPtr : Tree → Option (Option Bool)
  | .sc .null => some none
  | .sc (.bool b) => some (some b)
  | _ => none

/-- into a `*string` -/
def decStringPtr : Tree → Option (Option Bytes)
  | .sc .null => some none
  | .sc (.str s) => some (some s)
  | _ => none

/-- all-or-nothing map over a list -/
def allOk {α β} (f : α → Option β) : List α → Option (List β)
  | [] => some []
  | a :: r =>
    match f a, allOk f r with
    | some b, some bs => some (b :: bs)
    | _, _ => none

/-- into a `[]string` (a `null` element is the zero string) -/
def decStringList : Tree → Option (List Bytes)
  | .sc .null => some []
  | .list l => allOk (decString []) l
  | _ => none

/-- a value of `map[string]interface{}` as far as NewRules looks at it -/
inductive HVal where
  | str (s : Bytes)
  | null
  | other
  deriving DecidableEq, Repr

def hvalOf : Tree → HVal
  | .sc (.str s) => .str s
  | .sc .null => .null
  | _ => .other

/-- into `map[string]interface{}`: any value is fine -/
def decAnyMap : Tree → Option (List (Bytes × HVal))
  | .sc .null => some []
  | .map kvs => some (kvs.map fun kv => (sprintV kv.1, hvalOf kv.2))
  | _ => none

/-- into `map[string]string` (a `null` value is the zero string) -/
def decStringMap : Tree → Option (List (Bytes × Bytes))
  | .sc .null => some []
  | .map kvs => allOk (fun kv => (decString [] kv.2).map fun v => (sprintV kv.1, v)) kvs
  | _ => none

/-- `RuleSource` without its `retry_rule` (ruleconfig.go:39-55) -/
structure RS where
  enabled : Option Bool := none
  methods : List Bytes := []
  scheme : Bytes := []
  host : Bytes := []
  path : Bytes := []
  dest : Bytes := []
  internal : Bool := false
  type : Option Bytes := none
  hostHeader : Bytes := []
  recompression : Bool := false
  cacheId : Bytes := []
  forceRevalidate : Int := 0
  requestHeaders : List (Bytes × HVal) := []
  responseHeaders : List (Bytes × Bytes) := []
  restartOnRedirect : Bool := false
  deriving DecidableEq, Repr

/-- one `key: value` of a rule object (every field but `retry_rule`) -/
def setField (s : RS) (k : Scalar) (v : Tree) : Option RS :=
  if keyIs k b!"enabled" then (decBoolPtr v).map fun x => { s with enabled := x }
  else if keyIs k b!"methods" then (decStringList v).map fun x => { s with methods := x }
  else if keyIs k b!"scheme" then (decString s.scheme v).map fun x => { s with scheme := x }
  else if keyIs k b!"host" then (decString s.host v).map fun x => { s with host := x }
  else if keyIs k b!"path" then (decString s.path v).map fun x => { s with path := x }
  else if keyIs k b!"destination" then (decString s.dest v).map fun x => { s with dest := x }
  else if keyIs k b!"internal" then (decBool s.internal v).map fun x => { s with internal := x }
  else if keyIs k b!"type" then (decStringPtr v).map fun x => { s with type := x }
  else if keyIs k b!"hostheader" then (decString s.hostHeader v).map fun x => { s with hostHeader := x }
  else if keyIs k b!"recompression" then (decBool s.recompression v).map fun x => { s with recompression := x }
  else if keyIs k b!"cache" then (decString s.cacheId v).map fun x => { s with cacheId := x }
  else if keyIs k b!"force_revalidate" then (decInt s.forceRevalidate v).map fun x => { s with forceRevalidate := x }
  else if keyIs k b!"request_headers" then (decAnyMap v).map fun x => { s with requestHeaders := x }
  else if keyIs k b!"response_headers" then (decStringMap v).map fun x => { s with responseHeaders := x }
  else if keyIs k b!"restart_on_redirect" then (decBool s.restartOnRedirect v).map fun x => { s with restartOnRedirect := x }
  else some s

mutual
/-- into a `*RuleSource` (`retry_rule`): `null` is the nil pointer -/
def decodeRSPtr : Tree → Option (Option (RS × List RS))
  | .sc .null => some none
  | .map kvs =>
    match decodeRSFields kvs {} [] with
    | none => none
    | some r => some (some r)
  | _ => none
/-- the object loop of the decoder for a `RuleSource`: keys in document order, each one
    setting its field. Result: the rule source and the chain hanging off its `retry_rule`
    (its retry rule, that rule's retry rule, …). -/
def decodeRSFields : List (Scalar × Tree) → RS → List RS → Option (RS × List RS)
  | [], self, retry => some (self, retry)
  | (k, v) :: rest, self, retry =>
    if keyIs k b!"retry_rule" then
      match decodeRSPtr v with
      | none => none
      | some none => decodeRSFields rest self []
      | some (some r) => decodeRSFields rest self (r.1 :: r.2)
    else
      match setField self k v with
      | none => none
      | some self' => decodeRSFields rest self' retry
end

/-- one element of the `rules` array, into a `RuleSource` (a `null` element is the zero value) -/
def decodeRS : Tree → Option (RS × List RS)
  | .map kvs => decodeRSFields kvs {} []
  | .sc .null => some ({}, [])
  | _ => none

/-- into `rulesConfig` (`[]RuleSource` under `rules`) -/
def decodeRulesKvs : List (Scalar × Tree) → List (RS × List RS) → Option (List (RS × List RS))
  | [], acc => some acc
  | (k, v) :: rest, acc =>
    if keyIs k b!"rules" then
      match v with
      | .sc .null => decodeRulesKvs rest []
      | .list l =>
        match allOk decodeRS l with
        | none => none
        | some rs => decodeRulesKvs rest rs
      | _ => none
    else decodeRulesKvs rest acc

def decodeRulesConfig : Tree → Option (List (RS × List RS))
  | .map kvs => decodeRulesKvs kvs []
  | .sc .null => some []
  | _ => none

/-! ## NewRules / NewRule -/

inductive RuleErr where
  | decode              -- "error parsing rules configuration: <yaml/json error>"
  | noRules             -- "at least one rule is required"
  | emptyPathOrDest     -- "rule had empty path %q or destination %q"
  | badMethods          -- "rule had bad methods …"
  | badType             -- "unrecognized rule type"
  | newRule (e : NewRuleError)
  deriving DecidableEq, Repr

/-- `checkMethods` (ruleconfig.go:159-170): (the method set, the unknown methods) -/
def checkMethods (methods : List Bytes) : List Bytes × List Bytes :=
  ((methods.filter fun m => Facts.knownMethods.contains m).eraseDups,
   methods.filter fun m => !Facts.knownMethods.contains m)

/-- Go map assignment `m[k] = v` on an association list -/
def mapSet {α} (m : List (Bytes × α)) (k : Bytes) (v : α) : List (Bytes × α) :=
  match m with
  | [] => [(k, v)]
  | (k', v') :: r => if k' = k then (k, v) :: r else (k', v') :: mapSet r k v

/-- ruleconfig.go:117-126 -/
def requestHeadersOf (src : List (Bytes × HVal)) : List (Bytes × Option Bytes) :=
  src.foldl (fun m kv =>
    match kv.2 with
    | .null => mapSet m (toLower (trimSpace kv.1)) none
    | .str s => mapSet m (toLower (trimSpace kv.1)) (some s)
    | .other => m) []

/-- ruleconfig.go:127-132 -/
def responseHeadersOf (src : List (Bytes × Bytes)) : List (Bytes × Bytes) :=
  src.foldl (fun m kv => mapSet m (trimSpace kv.1) (trimSpace kv.2)) []

/-- the loop body of NewRules up to (not including) the retry rule and `NewRule`
    (ruleconfig.go:72-136); the wildcard index is filled in by `newRuleChain` -/
def preRule (s : RS) : Except RuleErr Rule :=
  let enabled := match s.enabled with | some b => b | none => true
  if s.path = [] ∨ s.dest = [] then .error .emptyPathOrDest
  else
    let mm := checkMethods s.methods
    if mm.2.length > 0 then .error .badMethods
    else
      let rt : Option RuleType :=
        match s.type with
        | none => some .proxy
        | some t =>
          if Facts.knownTypes.contains t then (if t = b!"copy_traffic" then some .copy else some .proxy)
          else none
      match rt with
      | none => .error .badType
      | some ruleType =>
        let hh : HostHeaderBehavior × Bytes :=
          if s.hostHeader = b!"" then (.default, [])
          else if s.hostHeader = b!"original" then (.original, [])
          else if s.hostHeader = b!"destination" then (.destination, [])
          else (.override, s.hostHeader)
        .ok { enabled := enabled, scheme := s.scheme, host := s.host, path := s.path, wci := none,
              dest := s.dest, internal := s.internal, methods := mm.1, type := ruleType,
              recompression := s.recompression, hostBehavior := hh.1, hostOverride := hh.2,
              cacheId := s.cacheId,
              forceRevalidate := if s.forceRevalidate > 0 then s.forceRevalidate.toNat else 0,
              requestHeaders := requestHeadersOf s.requestHeaders,
              responseHeaders := responseHeadersOf s.responseHeaders,
              restartOnRedirect := s.restartOnRedirect }

/-- `NewRule` (rule.go:62-105) on the fields `preRule` prepared -/
def finishRule (r : Rule) : Except RuleErr Rule :=
  match wildcardIndex r.path r.dest with
  | .error e => .error (.newRule e)
  | .ok w => .ok { r with wci := w }

/-- a rule with the chain of its retry rules (`retryRule`, its `retryRule`, …) -/
structure RuleChain where
  rule : Rule
  retries : List Rule
  deriving Repr

/-- one iteration of the NewRules loop with its recursion on `retry_rule`
    (ruleconfig.go:137-151): own checks, then the retry rule completely, then `NewRule` -/
def newRuleChain : RS → List RS → Except RuleErr RuleChain
  | s, [] =>
    match preRule s with
    | .error e => .error e
    | .ok r =>
      match finishRule r with
      | .error e => .error e
      | .ok r' => .ok ⟨r', []⟩
  | s, s' :: more =>
    match preRule s with
    | .error e => .error e
    | .ok r =>
      match newRuleChain s' more with
      | .error e => .error e
      | .ok c =>
        match finishRule r with
        | .error e => .error e
        | .ok r' => .ok ⟨r', c.rule :: c.retries⟩

/-- `NewRules` (ruleconfig.go:69-157): the first error ends the loop and discards everything -/
def newRules : List (RS × List RS) → Except RuleErr (List RuleChain)
  | [] => .ok []
  | c :: rest =>
    match newRuleChain c.1 c.2 with
    | .error e => .error e
    | .ok r =>
      match newRules rest with
      | .error e => .error e
      | .ok rs => .ok (r :: rs)

/-- `ParseRules` (ruleconfig.go:173-188) -/
def parseRules (d : Doc) : Except RuleErr (List RuleChain) :=
  match d.source with
  | none => .error .decode
  | some t =>
    match decodeRulesConfig t with
    | none => .error .decode
    | some srcs => if srcs.length = 0 then .error .noRules else newRules srcs

/-! ## Storage configuration -/

/-- `storageConfiguration` (caching.go:498-502): three strings -/
structure SC where
  size : Bytes := []
  path : Bytes := []
  id : Bytes := []
  deriving DecidableEq, Repr

/-- `StorageConfiguration` (caching.go:504-508) -/
structure StorageCfg where
  size : Nat
  path : Bytes
  id : Bytes
  deriving DecidableEq, Repr

def setSCField (s : SC) (k : Scalar) (v : Tree) : Option SC :=
  if keyIs k b!"size" then (decString s.size v).map fun x => { s with size := x }
  else if keyIs k b!"path" then (decString s.path v).map fun x => { s with path := x }
  else if keyIs k b!"id" then (decString s.id v).map fun x => { s with id := x }
  else some s

def decodeSCFields : List (Scalar × Tree) → SC → Option SC
  | [], s => some s
  | (k, v) :: rest, s =>
    match setSCField s k v with
    | none => none
    | some s' => decodeSCFields rest s'

def decodeSC : Tree → Option SC
  | .map kvs => decodeSCFields kvs {}
  | .sc .null => some {}
  | _ => none

def decodeCachesKvs : List (Scalar × Tree) → List SC → Option (List SC)
  | [], acc => some acc
  | (k, v) :: rest, acc =>
    if keyIs k b!"caches" then
      match v with
      | .sc .null => decodeCachesKvs rest []
      | .list l =>
        match allOk decodeSC l with
        | none => none
        | some scs => decodeCachesKvs rest scs
      | _ => none
    else decodeCachesKvs rest acc

/-- into `cacheConfig` -/
def decodeCacheConfig : Tree → Option (List SC)
  | .map kvs => decodeCachesKvs kvs []
  | .sc .null => some []
  | _ => none

/-- the loop of ParseStorageConfigs (caching.go:576-591). An entry without path or id is
    skipped; an entry that shares its path or id with an entry ALREADY TAKEN ends the loop with
    an error (`none`; a `panic` before the fix for finding C19-b) — before its own size is looked
    at; an entry whose size does not parse is dropped. -/
def storageLoop : List SC → List StorageCfg → Option (List StorageCfg)
  | [], configs => some configs
  | s :: rest, configs =>
    if s.path.length = 0 ∨ s.id.length = 0 then storageLoop rest configs
    else if configs.any (fun c => c.path = s.path ∨ c.id = s.id) then
      none                                   -- "two storages share the same path or id"
    else
      match datasizeParse s.size with
      | some v => storageLoop rest (configs ++ [{ size := v, path := s.path, id := s.id }])
      | none => storageLoop rest configs

/-- `ParseStorageConfigs` (caching.go:564-594): `none` = returned an error (the text does not
    parse, the typed decode rejects the cache section, or an id / a path is listed twice).
    The function has no panic site. -/
def parseStorageConfigs (d : Doc) : Option (List StorageCfg) :=
  match d.source with
  | none => none
  | some t =>
    match decodeCacheConfig t with
    | none => none
    | some scs => storageLoop scs []

/-- a live `storage` as far as the configuration is concerned (disk.go:259-275) -/
structure Storage where
  id : Bytes
  path : Bytes
  maxSize : Nat
  deriving DecidableEq, Repr

def Storage.ofCfg (c : StorageCfg) : Storage := { id := c.id, path := c.path, maxSize := c.size }

/-- `(*existing).Update(cfg)` on the storage `storageWithCacheId` returns: the FIRST one
    with that id (disk.go:427-436; the `s.id != cfg.Id` guard cannot fire there) -/
def updateFirst : List Storage → StorageCfg → List Storage
  | [], _ => []
  | s :: r, cfg =>
    if s.id = cfg.id then { s with path := cfg.path, maxSize := cfg.size } :: r
    else s :: updateFirst r cfg

/-- first loop of SetStorageConfigs (caching.go:341-350): known ids are updated in place,
    unknown ids become new storages. Result: (the old list after the updates, the new storages). -/
def applyCfgs : List StorageCfg → List Storage → List Storage → List Storage × List Storage
  | [], old, news => (old, news)
  | cfg :: rest, old, news =>
    if old.any (fun s => s.id = cfg.id) then applyCfgs rest (updateFirst old cfg) news
    else applyCfgs rest old (news ++ [Storage.ofCfg cfg])

/-- `SetStorageConfigs` (caching.go:340-366). No new storage at all: return early, the old
    list stays (with the updates). Otherwise the list is REPLACED by the new storages only:
    every old storage — none of them can share an id with a new one — is flagged `isReplaced`
    (its size limiter stops) and dropped, including those the configuration still lists. -/
def setStorageConfigs (old : List Storage) (cfgs : List StorageCfg) : List Storage :=
  let r := applyCfgs cfgs old []
  if r.2.length = 0 then r.1 else r.2

/-! ## Start-up and reload -/

/-- what serves: `router.rules`, `cache.storages`, `gMappingChecksum`. The checksum is
    abstract: equal texts ⇔ equal checksums (SHA-1, trusted). -/
structure State where
  rules : List RuleChain
  storages : List Storage
  checksum : Nat
  deriving Repr

/-- `StartCmd.Run` (main.go:77-104): any error refuses to start (`none`) -/
def start (sum : Nat) (d : Doc) : Option State :=
  match parseRules d with
  | .error _ => none
  | .ok rules =>
    match parseStorageConfigs d with
    | none => none
    | some cfgs => some { rules := rules, storages := cfgs.map Storage.ofCfg, checksum := sum }

/-- what `readMapping` delivered on one wake-up of the reloader -/
inductive Fetch where
  | error
  | doc (sum : Nat) (d : Doc)
  deriving Repr

/-- how one pass through the loop body ended (for labels and for the oracle) -/
inductive StepEnd where
  | fetchError | unchanged | rulesRejected | storagesRejected | crashed | loaded
  deriving DecidableEq, Repr

/-- the body of the `configReloader` loop, in the order of the source (main.go:121-144):
    readMapping · checksum compare · ParseRules · ParseStorageConfigs · **SetRules** ·
    SetStorageConfigs · checksum store: both sections are parsed and validated before either is
    applied (fix for finding C19-a). None of the modelled calls can panic any more (fix for
    finding C19-b), so the step is a total function on states. -/
def step (s : State) : Fetch → State × StepEnd
  | .error => (s, .fetchError)
  | .doc sum d =>
    if s.checksum = sum then (s, .unchanged)
    else
      match parseRules d with
      | .error _ => (s, .rulesRejected)
      | .ok rules =>
        match parseStorageConfigs d with
        | none => (s, .storagesRejected)
        | some cfgs =>
          let s1 := { s with rules := rules }                        -- router.SetRules(rules)
          ({ s1 with storages := setStorageConfigs s1.storages cfgs, checksum := sum }, .loaded)

/-- the statements of the loop body that `step` mirrors, normalised as the extractor prints
    them (pinned against `Facts.reloadSteps` through `Spec.reloadSteps`) -/
def reloadProtocol : List Bytes := [
  b!"<-c",
  b!"mappingData,err:=readMapping(gMappingURL,gMappingFile)",
  b!"if (err!=nil) {logger.Errorf(...);continue}",
  b!"mc:=util.SHA1String(mappingData)",
  b!"if (gMappingChecksum==mc) {continue}",
  b!"rules,err:=proxy.ParseRules(mappingData,logger)",
  b!"if (err!=nil) {logger.Errorf(...);continue}",
  b!"cfgs,err:=caching.ParseStorageConfigs(mappingData)",
  b!"if (err!=nil) {logger.Errorf(...);continue}",
  b!"router.SetRules(rules)",
  b!"cache.SetStorageConfigs(cfgs)",
  b!"gMappingChecksum=util.SHA1String(mappingData)",
  b!"logger.Infof(...)" ]

/-! ## The request path with its run-time panic sites made explicit -/

/-- `Rule.attemptMatch` (rule.go:132-159) with the two slice expressions checked as Go checks
    them: `r.path[:wcIdx]` and `uri[wcIdx:]` -/
def matchPathChecked (r : Rule) (uri : Bytes) : Res (Option Bytes) :=
  match r.wci with
  | some wcIdx =>
    if uri = b!"/" ∧ (r.path = b!"*" ∨ r.path = b!"/*") then
      .ok (some (replaceFirst r.dest dollar1 []))
    else if uri.length ≤ wcIdx then .ok none
    else
      match sliceTo r.path wcIdx with
      | none => .panic "attemptMatch: r.path[:wcIdx] out of range"
      | some pre =>
        if index pre uri ≠ some 0 then .ok none
        else
          match sliceFrom uri wcIdx with
          | none => .panic "attemptMatch: uri[wcIdx:] out of range"
          | some captured => .ok (some (replaceFirst r.dest dollar1 captured))
  | none => .ok (if r.path = uri then some r.dest else none)

def attemptMatchChecked (r : Rule) (scheme host uri : Bytes) : Res (Option Bytes) :=
  if (r.scheme.length > 0 ∧ r.scheme ≠ scheme) ∨ (r.host.length > 0 ∧ r.host ≠ host) then .ok none
  else matchPathChecked r uri

/-- the `RulesLoop` (ruleconfig.go:254-280) over the checked `attemptMatch` -/
def matchLoopChecked (q : Query) : List Rule → Nat → Option (Nat × Bytes) → Res MatchRes
  | [], _, copy => .ok { proxy := none, copy := copy }
  | r :: rs, i, copy =>
    if r.enabled = false then matchLoopChecked q rs (i + 1) copy
    else if methodExcluded r q.method = true then matchLoopChecked q rs (i + 1) copy
    else
      match attemptMatchChecked r q.scheme q.host q.uri with
      | .panic s => .panic s
      | .ok none => matchLoopChecked q rs (i + 1) copy
      | .ok (some t) =>
        match r.type with
        | .proxy => .ok { proxy := some (i, t), copy := copy }
        | .copy => matchLoopChecked q rs (i + 1) (match copy with | none => some (i, t) | some c => some c)

/-- the control skeleton of `ensureInternalHeaders` (proxy.go:606-642) around its only panic
    site, `secrets[0]` -/
def secretsSite (passHeaders : Bool) (secrets : List Bytes) (oldSecret oldReqID oldOrigIP : Bytes) : Res Unit :=
  if oldSecret ≠ [] ∧ ¬ secrets.contains oldSecret then .ok ()        -- 407
  else if passHeaders then
    if oldSecret ≠ [] then .ok ()
    else if oldReqID ≠ [] ∨ oldOrigIP ≠ [] then .ok ()                 -- 407
    else
      match secrets with
      | [] => .panic "ensureInternalHeaders: secrets[0] index out of range"
      | _ :: _ => .ok ()
  else .ok ()

/-- the part of an incoming request the modelled path looks at -/
structure Req where
  tls : Bool := false
  xForwardedProto : Bytes := []
  host : Bytes
  uri : Bytes
  method : Bytes
  secret : Bytes := []
  requestID : Bytes := []
  originatingIP : Bytes := []
  deriving Repr

/-- `createProxyRequest` (proxy.go:595-601): `RoutingSecrets == nil` ⇒ every destination is
    treated as external -/
def internalSite (routingSecrets : Option (List Bytes)) (internal : Bool) (req : Req) : Res Unit :=
  match routingSecrets with
  | none => secretsSite false [] req.secret req.requestID req.originatingIP
  | some secrets => secretsSite internal secrets req.secret req.requestID req.originatingIP

def ruleSite (routingSecrets : Option (List Bytes)) (rs : List Rule) (req : Req) : Option (Nat × Bytes) → Res Unit
  | none => .ok ()
  | some (i, _) =>
    match rs[i]? with
    | none => .ok ()
    | some r => internalSite routingSecrets r.internal req

/-- the modelled request path of one request: `destinationString` (DropPort on the Host; it
    cannot panic since the fix for finding C05-b, the branch is kept because `dropPort` still
    returns a `Res`), the rule loop, and the internal-header step for the chosen copy and proxy
    rules.
    `reparse` stands for the `url.URL.String()` / `url.Parse` round trip between the first
    two (net/url; not modelled here, see C02): `none` = `url.Parse` returned an error, which
    `Rules.Match` hands back — nothing is routed. -/
def requestPath (routingSecrets : Option (List Bytes)) (reparse : Query → Option Query)
    (rs : List Rule) (req : Req) : Res MatchRes :=
  match dropPort req.host with
  | .panic s => .panic s
  | .ok h =>
    match reparse ⟨scheme req.tls req.xForwardedProto, h, req.uri, req.method⟩ with
    | none => .ok {}
    | some q =>
      match matchLoopChecked q rs 0 none with
      | .panic s => .panic s
      | .ok m =>
        match ruleSite routingSecrets rs req m.copy with
        | .panic s => .panic s
        | .ok _ =>
          match ruleSite routingSecrets rs req m.proxy with
          | .panic s => .panic s
          | .ok _ => .ok m

end Model.Config
