import RrModel.Routing
import RrModel.Target
import RrModel.Go.UrlEscape
/-
  restart_on_redirect on the UNCACHED path of `cachingFunc` (C18), branch for branch:

    util/http.go      RedirectedURL (57-104)
    server/server.go  urlEquals (493-508), preprocessHeaders (468-478), the prologue and the
                      uncached branch of cachingFunc (94-138) with its re-entry (120-127)
    proxy/proxy.go    GetRoutingFlavors (318-329), completeURL/destinationString (698-720),
                      createOutgoingURLs (651-696), createOutgoingRequests (490-543: matched rule
                      ⇒ its target; none ⇒ `fallbackRule` with `useReqURL`), createProxyRequest's
                      Host policy (586-593), routeRequest 228-240 (Location parse error ⇒ error)

  Slice: rules WITHOUT cache, copy rules and retry_rule (a cache-enabled effective rule or a
  copy match ends the model run with `Leaf.outside`); routing secrets not configured; no
  connection retries.  The cached re-entry sites (Appendix A rows f:redir, r:redir, w:redir,
  w:508) belong to a later slice.

  `cachingFunc` calls itself; every redirect that leads to a re-entry is counted per client request
  (`redirects++; if redirects > maxRedirects` ⇒ 508 Loop detected, server.go — the repair of
  findings C18-a / C18-c), so the nesting is bounded.  The model keeps a fuel parameter for
  structural recursion and returns `diverged` at 0; fuel `maxRedirects + 1` always suffices
  (`Props.C18.terminates`, RrProofs/Props/C18.lean).

  Declared domain of the URL layer (Go/Url.lean, Go/UrlEscape.lean are at split level): hosts
  are plain `name[:port]`, no userinfo errors, no `#` inside a query, fragments need no
  escaping.  Inside it `url.Parse(u.String()) = u` up to `RawPath`, which is what
  `http.NewRequestWithContext(…, u.String(), …)` does to the outgoing URL.
-/
namespace Model.Redirect
open Go

/-- `net/url.URL`, the ten fields `urlEquals` reads (`user` = `User.String()`, `none` = nil) -/
structure RUrl where
  scheme : Bytes := []
  opaq : Bytes := []
  user : Option Bytes := none
  host : Bytes := []
  path : Bytes := []
  rawPath : Bytes := []
  forceQuery : Bool := false
  rawQuery : Bytes := []
  fragment : Bytes := []
  rawFragment : Bytes := []
  deriving DecidableEq, Repr

/-- `urlEquals` (server.go:493-508) for two non-nil URLs.  A nil `*Userinfo` renders as "". -/
def urlEquals (u1 u2 : RUrl) : Bool :=
  u1.scheme == u2.scheme &&
  u1.opaq == u2.opaq &&
  ((u1.user.isNone && u2.user.isNone) || (u1.user.isSome && u1.user.getD [] == u2.user.getD [])) &&
  u1.host == u2.host &&
  u1.path == u2.path &&
  u1.rawPath == u2.rawPath &&
  u1.forceQuery == u2.forceQuery &&
  u1.rawQuery == u2.rawQuery &&
  u1.fragment == u2.fragment &&
  u1.rawFragment == u2.rawFragment

/-- `url.Parse` as a `*url.URL`: the split of Go/Url.lean, then `parseAuthority`'s userinfo cut
    and `setPath` (`Path` = unescaped, `RawPath` only when the default escaping differs);
    `none` = parse error -/
def parseURL (raw : Bytes) : Option RUrl :=
  match Url.split raw with
  | none => none
  | some s =>
    match UrlEsc.unescapePath s.path with
    | none => none
    | some p =>
      let (user, host) : Option Bytes × Bytes :=
        match s.authority with
        | none => (none, [])
        | some a =>
          match lastIndex b!"@" a with
          | none => (none, a)
          | some i => (some (a.take i), a.drop (i + 1))
      some { scheme := s.scheme, opaq := s.opaq, user := user, host := host, path := p,
             rawPath := if s.path = UrlEsc.escapePath p then [] else s.path,
             forceQuery := s.forceQuery, rawQuery := s.rawQuery, fragment := s.fragment }

/-- `u.EscapedPath()` of a URL whose `RawPath` is still empty (http.go:100) -/
def escapedPathFresh (path : Bytes) : Bytes :=
  if path = b!"*" then b!"*" else UrlEsc.escapePath path

/-- `p[:strings.LastIndex(p, "/")+1]`: everything up to and including the last `/`
    (`LastIndex` = -1 without one: the empty prefix) -/
def uptoLastSlash (p : Bytes) : Bytes :=
  match lastIndex b!"/" p with
  | some i => p.take (i + 1)
  | none => p.take 0

/-- the path the relative branch of `RedirectedURL` builds (http.go:82-88): a non-empty request
    path is cut behind its last `/` and `redir.Path` appended; an empty one counts as `/` -/
def relativePath (origPath redirPath : Bytes) : Bytes :=
  if origPath.length > 0 then uptoLastSlash origPath ++ redirPath
  else b!"/" ++ redirPath

/-- `util.RedirectedURL(orig, requestedUrl, redir)` (http.go:57-104); of `orig` the function
    reads `orig.URL` and `orig.Host` -/
def redirectedURL (origUrl : RUrl) (origHost : Bytes) (requested redir : RUrl) : RUrl :=
  if redir.scheme.length > 0 then redir
  else
    let host : Bytes :=
      if requested.host.length > 0 then requested.host
      else if origHost.length > 0 then origHost
      else []
    if index b!"/" redir.path = some 0 then
      { scheme := origUrl.scheme, opaq := origUrl.opaq, user := origUrl.user, host := host,
        path := redir.path, rawPath := redir.rawPath, forceQuery := redir.forceQuery,
        rawQuery := redir.rawQuery, fragment := redir.fragment, rawFragment := redir.rawFragment }
    else
      let newPath := relativePath origUrl.path redir.path
      { scheme := origUrl.scheme, opaq := origUrl.opaq, user := origUrl.user, host := host,
        path := newPath, rawPath := escapedPathFresh newPath, forceQuery := redir.forceQuery,
        rawQuery := redir.rawQuery, fragment := redir.fragment, rawFragment := redir.rawFragment }

/-- the `*http.Request` as far as the redirect loop reads it -/
structure Req where
  url : RUrl
  host : Bytes
  headers : Header
  method : Bytes
  deriving Repr

/-- `preprocessHeaders` (server.go:468-478): the matched rule's `request_headers` -/
def preprocess (h : Header) (overrides : List (Bytes × Option Bytes)) : Header :=
  overrides.foldl (fun h kv => match kv.2 with | none => Header.del h kv.1 | some v => Header.set h kv.1 v) h

/-- `u.EscapedPath()`: a non-empty `RawPath` is used when it is a valid encoding of `Path` -/
def escapedPath (u : RUrl) : Bytes :=
  if u.rawPath ≠ [] ∧ UrlEsc.validEncodedPath u.rawPath ∧ UrlEsc.unescapePath u.rawPath = some u.path then u.rawPath
  else escapedPathFresh u.path

def querySuffix (u : RUrl) : Bytes :=
  if u.forceQuery ∨ u.rawQuery ≠ [] then 63 :: u.rawQuery else []

/-- `u.RequestURI()` for a non-opaque URL -/
def requestURI (u : RUrl) : Bytes :=
  UrlEsc.wirePath (escapedPath u) ++ querySuffix u

/-- what `Rules.Match` is asked for a request: `destinationString(completeURL(req))` parsed
    again (ruleconfig.go:245-252): the scheme comes from TLS / X-Forwarded-Proto (never from
    `req.URL`), the host is `req.Host` without port; `panic` = `DropPort` on `[…` without `]` -/
def query (r : Req) : Res Query :=
  match dropPort r.host with
  | .panic s => .panic s
  | .ok h => .ok { scheme := scheme false (Header.get r.headers b!"X-Forwarded-Proto"), host := h,
                   uri := requestURI r.url, method := r.method }

/-- one outgoing request as the performer sees it -/
structure Contact where
  url : RUrl
  /-- `preq.Host` -/
  hostField : Bytes
  headers : Header
  failed : Bool := false
  deriving Repr

/-- what the destination answers; `none` from the origin function = connection error -/
structure Resp where
  status : Nat
  /-- `Header.Get("location")` (empty when there is none) -/
  location : Bytes := []
  body : Bytes := []
  deriving Repr, DecidableEq

structure Cfg where
  rules : List Rule
  origin : Contact → Option Resp
  /-- `Facts.redirectStatuses` -/
  isRedirect : Nat → Bool
  /-- `cache.HasStorage` -/
  hasStorage : Bytes → Bool := fun _ => false
  /-- `Facts.maxRedirects` (server.go `const maxRedirects`): the number of redirects followed for
      one client request -/
  maxRedirects : Nat

/-- how one activation of `cachingFunc` ends when it does not call itself -/
inductive Leaf where
  /-- the destination's answer goes to the client through the plain writer; `rule` = the rule
      whose response headers apply (`FinalRoutingFlavors`) -/
  | response (r : Resp) (rule : Rule)
  | userError (code : Nat) (msg : Bytes)
  /-- non-user error ⇒ bare 500 -/
  | plainError
  /-- panic below the handler (sentry.Recover): empty 200 -/
  | panicked
  /-- outside this slice (cache-enabled rule, copy rule) -/
  | outside
  deriving Repr

/-- why an activation answers before anything is contacted -/
inductive PrepErr where
  | panicked       -- `DropPort` panic while building the matched string
  | outside        -- cache-enabled effective rule, or a copy rule matches: not this slice
  | plainError     -- `url.Parse(target)` failed: non-user error ⇒ 500
  | noDestination  -- no rule and no fallback: 404
  deriving DecidableEq, Repr

def PrepErr.leaf : PrepErr → Leaf
  | .panicked => .panicked
  | .outside => .outside
  | .plainError => .plainError
  | .noDestination => .userError 404 b!"No destination found for request target"

/-- the arguments of one activation of `cachingFunc` that matter here: the request and `frf`,
    and the closure's counter as the activation finds it -/
structure Level where
  req : Req
  /-- `frf.Rule`; `none` = `frf == nil` (the client's own request).  A re-entry always carries a
      rule: without one `RouteRequest` answers 404 before any redirect is seen. -/
  frf : Option Rule := none
  /-- `redirects`: the redirects followed so far for this client request (the variable lives in
      `cachingHandler`'s closure, one per client request; 0 for the client's own request) -/
  hops : Nat := 0
  deriving Repr

inductive HopRes where
  | leaf (l : Leaf) (c : Option Contact)
  | next (lvl : Level) (c : Contact)
  deriving Repr

/-- `GetRoutingFlavors(r).Rule`: the first matching proxy rule (`none` = zero flavors) -/
def matchedRule (rules : List Rule) (q : Query) : Option Rule :=
  (matchRules rules q).proxy.bind fun (i, _) => rules[i]?

/-- the prologue's choice (server.go:100-102): `if len(rf.CacheId) == 0 && frf != nil { rf = *frf }` -/
def effectiveRule (matched frf : Option Rule) : Option Rule :=
  if ((matched.map (·.cacheId)).getD []).length = 0 ∧ frf.isSome then frf else matched

/-- `preq.Host` (proxy.go:586-593; `NewRequest` sets it to the URL's host) -/
def hostField (rule : Rule) (r : Req) (u : RUrl) : Bytes :=
  match rule.hostBehavior with
  | .default | .destination => u.host
  | .original => r.host
  | .override => rule.hostOverride

/-- `createOutgoingURLs` + `createOutgoingRequests` for the proxy target: the rule that shapes the
    outgoing request and its URL; `Except`: the error answer -/
def outgoing (rules : List Rule) (q : Query) (r : Req) (fallback : Option Rule) : Except PrepErr (Rule × RUrl) :=
  let res := matchRules rules q
  if res.copy.isSome then .error .outside else
  match res.proxy with
  | some (i, target) =>
    match rules[i]? with
    | none => .error .plainError             -- unreachable: the index comes from the list
    | some rule =>
      match parseURL target with
      | none => .error .plainError           -- url.Parse(target) failed
      | some t => .ok (rule, { t with rawQuery := r.url.rawQuery, fragment := r.url.fragment })
  | none =>
    match fallback with
    | none => .error .noDestination
    | some rule => .ok (rule, r.url)         -- useReqURL: the request's own URL is the destination

/-- what one activation has decided when it calls `requestPerformer.Do` -/
structure Prepared where
  /-- the request after `preprocessHeaders` -/
  r : Req
  /-- the effective routing flavors' rule (`rf.Rule` after the `frf` substitution) -/
  rf : Option Rule
  /-- the rule that shapes the outgoing request (the matched one, else the fallback) -/
  rule : Rule
  contact : Contact
  deriving Repr

/-- the prologue of `cachingFunc` and `RouteRequest` up to the outgoing request
    (server.go:96-108, proxy.go:160-189, 490-543) -/
def prepare (cfg : Cfg) (lvl : Level) : Except PrepErr Prepared :=
  -- rf := router.GetRoutingFlavors(r)
  match query lvl.req with
  | .panic _ => .error .panicked
  | .ok q1 =>
  let matched := matchedRule cfg.rules q1
  -- r = preprocessHeaders(r, rf.RequestHeaders): the MATCHED rule's overrides, in place
  let r : Req := { lvl.req with headers := preprocess lvl.req.headers ((matched.map (·.requestHeaders)).getD []) }
  -- if len(rf.CacheId) == 0 && frf != nil { rf = *frf }
  let rf := effectiveRule matched lvl.frf
  let cacheId := (rf.map (·.cacheId)).getD []
  if cacheId.length ≠ 0 ∧ cfg.hasStorage cacheId ∧ (r.method = b!"GET" ∨ r.method = b!"HEAD") then .error .outside else
  -- reqres, err := router.RouteRequest(ctx, r, nil, rf.Rule): the rules are matched again
  match query r with
  | .panic _ => .error .panicked
  | .ok q2 =>
  match outgoing cfg.rules q2 r rf with
  | .error l => .error l
  | .ok (rule, u) =>
    .ok { r := r, rf := rf, rule := rule, contact := { url := u, hostField := hostField rule r u, headers := r.headers } }

/-- `url.Parse(mainResp.Header.Get("location"))` for a redirect status (proxy.go:232-240);
    `none` = parse error, `some none` = not a redirect -/
def redirectOf (cfg : Cfg) (resp : Resp) : Option (Option RUrl) :=
  if cfg.isRedirect resp.status then
    match parseURL resp.location with
    | none => none
    | some l => some (some l)
  else some none

/-- the re-entry (server.go:125-131): `OriginalURL` = the contacted URL; `hops` = the counter
    after this redirect has been counted -/
def reenter (p : Prepared) (redir : RUrl) (hops : Nat := 0) : Level :=
  let u := p.contact.url
  let resolved := { redirectedURL p.r.url p.r.host u redir with scheme := u.scheme }
  { req := { p.r with url := resolved, host := resolved.host }, frf := p.rf, hops := hops }

/-- performing the request and what `cachingFunc` does with the answer (server.go:108-142);
    `hops` = `redirects` as this activation finds it -/
def conclude (cfg : Cfg) (hops : Nat) (p : Prepared) : HopRes :=
  let c := p.contact
  match cfg.origin c with
  | none => .leaf (.userError 502 b!"Destination unreachable") (some { c with failed := true })
  | some resp =>
    match redirectOf cfg resp with
    | none => .leaf .plainError (some c)
    | some none => .leaf (.response resp p.rule) (some c)
    | some (some redir) =>
      if (p.rf.map (·.restartOnRedirect)).getD false then
        if urlEquals redir p.r.url then .leaf (.userError 508 b!"Loop detected") (some c)
        -- redirects++; if redirects > maxRedirects { 508 }
        else if hops + 1 > cfg.maxRedirects then .leaf (.userError 508 b!"Loop detected") (some c)
        else .next (reenter p redir (hops + 1)) c
      else .leaf (.response resp p.rule) (some c)

/-- one activation of `cachingFunc` on the uncached path, up to (not including) the recursive call -/
def hop (cfg : Cfg) (lvl : Level) : HopRes :=
  match prepare cfg lvl with
  | .error e => .leaf e.leaf none
  | .ok p => conclude cfg lvl.hops p

inductive Outcome where
  | done (l : Leaf) (hops : List Contact)
  | diverged
  deriving Repr

def Outcome.prepend (c : Contact) : Outcome → Outcome
  | .done l hops => .done l (c :: hops)
  | .diverged => .diverged

/-- `cachingFunc` on the uncached path; `fuel` bounds the nesting of activations (the code's own
    bound is the redirect counter: `maxRedirects + 1` activations at most) -/
def follow (cfg : Cfg) : Nat → Level → Outcome
  | 0, _ => .diverged
  | n + 1, lvl =>
    match hop cfg lvl with
    | .leaf l c => .done l c.toList
    | .next lvl' c => (follow cfg n lvl').prepend c

/-- the contacts of the first `n` activations -/
def trace (cfg : Cfg) : Nat → Level → List Contact
  | 0, _ => []
  | n + 1, lvl =>
    match hop cfg lvl with
    | .leaf _ c => c.toList
    | .next lvl' c => c :: trace cfg n lvl'

/-- the activation `k` re-entries after `lvl` (`none`: the chain has ended before) -/
def levelAt (cfg : Cfg) : Nat → Level → Option Level
  | 0, lvl => some lvl
  | k + 1, lvl =>
    match hop cfg lvl with
    | .leaf _ _ => none
    | .next lvl' _ => levelAt cfg k lvl'

/-- the client's request as `net/http` hands it to the handler (origin-form target) -/
def clientLevel (target host : Bytes) (headers : Header) (method : Bytes) : Option Level :=
  (parseURL target).map fun u => { req := { url := u, host := host, headers := headers, method := method } }

end Model.Redirect
