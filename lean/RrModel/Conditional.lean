import RrModel.Go.Strings
import RrModel.Go.Header
import RrModel.Generated.Facts
/-
  C09 — conditional requests and revalidation, function level.  Written branch for branch from
  (line numbers drift with the verif hooks; the places are named by function and statement)

    util/http.go      RevalidateHeaders, CurrentEtagSuffix/AddETagSuffix/StripETagSuffix,
                      AllowHeaders, DenyHeaders, HeadersAllowedIn304
    server/server.go  cachingFunc, `case caching.NotFoundWriter, caching.RevalidatingWriter`:
                      the header surgery from `r.Header.Del("range")` to the `RouteRequest`
                      call, and the post-response logic from
                      `dirs := caching.GetCacheControlDirectives(reqres.Response.Header)` to the
                      `if dirs.DoNotCache()` branch; the Found/304 row
                      (`if cr.Metadata.Status == 304`); suffixETag; clearAndCopyHeaders;
                      requestHandler's header copy, ETag suffix and `if status == 304` short-cut
    caching/caching.go  cachingResponseWriter.SetRevalidatedAndClose, WriteHeader
    caching/disk.go     storage.GetWriter (`wasRevalidated: revalidate`),
                        storageWriter.WriteHeader's header clean-up,
                        storageWriter.Close: `sm.Revalidated = sw.now().Unix()` and the merge
                        `for k, vv := range sw.revalidatedHeader`; WrittenFile

  NOT here (owned by RrModel/Freshness.lean): the freshness decision and the client-validator
  comparison of cache.Get (normalizeEtag).  Where the flow below needs their outcome it takes
  it as a parameter (`stale`, `cmp304`), like `doNotCache`.
-/
namespace Model.Conditional
open Go

def kINM : Bytes := b!"if-none-match"
def kEtag : Bytes := b!"etag"
def kIMS : Bytes := b!"if-modified-since"
def kLM : Bytes := b!"last-modified"
def kRange : Bytes := b!"range"
def kContentLength : Bytes := b!"content-length"
/-- caching.HeaderRrrouterCacheStatus -/
def kStatus : Bytes := b!"richie-edge-cache"
def kAge : Bytes := b!"Age"
def quote : Bytes := [34]

/-! ### util/http.go -/

/-- `util.RevalidateHeaders`: (client key, origin key, value).  Note that the FIRST
    tuple element is returned also when the value was found under the second key. -/
def revalidateHeaders (h : Header) : Bytes × Bytes × Bytes :=
  if h.get kINM ≠ [] then (kINM, kEtag, h.get kINM)
  else if h.get kEtag ≠ [] then (kINM, kEtag, h.get kEtag)
  else if h.get kIMS ≠ [] then (kIMS, kLM, h.get kIMS)
  else if h.get kLM ≠ [] then (kIMS, kLM, h.get kLM)
  else ([], [], [])

/-- `util.CurrentEtagSuffix`: the environment value, `nil` when empty -/
def currentSuffix (env : Bytes) : Option Bytes := if env.length > 0 then some env else none

/-- `util.AddETagSuffix` with `CurrentEtagSuffix() = sfx` -/
def addSuffix (sfx : Option Bytes) (etag : Bytes) : Bytes :=
  match sfx with
  | none => etag
  | some t =>
    if hasSuffix (trimRight quote etag) t then etag
    else match lastIndex quote etag with
      | some idx => etag.take idx ++ t ++ quote          -- etag[:idx] + token + "\""
      | none => etag ++ t

/-- `util.StripETagSuffix` with `CurrentEtagSuffix() = sfx` -/
def stripSuffix (sfx : Option Bytes) (etag : Bytes) : Bytes :=
  match sfx with
  | none => etag
  | some t =>
    if hasSuffix etag (t ++ quote) then trimSuffix etag (t ++ quote) ++ quote
    else if hasSuffix etag t then trimSuffix etag t
    else etag

/-- raw keys of the map (every entry of the association list; `del` is idempotent, so a
    shadowed duplicate entry changes nothing) -/
def rawKeys (h : Header) : List Bytes := h.map (·.1)

/-- `util.AllowHeaders`: the raw keys whose lower-cased form is not in the list are collected
    and then removed with `out.Del(k)` — which canonicalises `k`, so for a raw key that is not
    in canonical form it removes the *canonical* entry and leaves the raw one in place. -/
def allowHeaders (h : Header) (allow : List Bytes) : Header :=
  ((rawKeys h).filter fun k => !allow.contains (toLower k)).foldl (fun out k => out.del k) h

/-- `util.DenyHeaders` -/
def denyHeaders (h : Header) (deny : List Bytes) : Header :=
  ((rawKeys h).filter fun k => deny.contains (toLower k)).foldl (fun out k => out.del k) h

/-- `util.AllowHeaders(·, util.HeadersAllowedIn304)` -/
def allow304 (h : Header) : Header := allowHeaders h Facts.headersAllowedIn304

/-! ### server.go: header surgery before the origin request -/

inductive WriterKind where
  | notFound | revalidating
  deriving DecidableEq, Repr

structure Surgery where
  /-- `r.Header` as handed to `router.RouteRequest` -/
  req : Header
  /-- `clientRevalidateHeader`, `clientRevalidateValue` -/
  clientKey : Bytes
  clientVal : Bytes
  /-- `usedRevalidateHeader` (`[]` = "") -/
  used : Bytes
  deriving Repr

/-- `rangeParsed` = `rRange != nil` with `rRange := getRange(r.Header)` (`getRange` belongs to
    C15's model).  The `Range` header is deleted only then: a Range value that `getRange` cannot
    parse is forwarded to the origin. -/
def surgery (kind : WriterKind) (rangeParsed : Bool) (client stored : Header) : Surgery :=
  let r0 := if rangeParsed then client.del kRange else client
  let cr := revalidateHeaders r0
  match kind with
  | .revalidating =>
    let sr := revalidateHeaders stored
    if sr.2.2.length > 0 then
      { req := r0.set sr.1 sr.2.2, clientKey := cr.1, clientVal := cr.2.2, used := sr.1 }
    else { req := r0, clientKey := cr.1, clientVal := cr.2.2, used := [] }
  | .notFound =>
    { req := (r0.del kINM).del kIMS, clientKey := cr.1, clientVal := cr.2.2, used := [] }

/-- the header map sent to the origin by a writer-kind cache result -/
def originRequestHeaders (kind : WriterKind) (rangeParsed : Bool) (client stored : Header) : Header :=
  (surgery kind rangeParsed client stored).req

/-! ### caching.go / disk.go: what a 304 does to the stored entry -/

/-- the fields of `StorageMetadata` (plus the file content) a revalidation can touch -/
structure Meta where
  header : Header
  status : Nat
  created : Int
  revalidated : Int
  size : Nat
  redirectedURL : Bytes
  body : Bytes
  deriving Repr, DecidableEq

/-- `SetRevalidatedAndClose`: a `content-length: 0` of the 304 is dropped -/
def dropZeroContentLength (h304 : Header) : Header :=
  if h304.get kContentLength = b!"0" then h304.del kContentLength else h304

/-- `storageWriter.Close`, one key of the 304: `Del` if the stored `Get(k)` is non-empty, then
    `Add` every value -/
def mergeKey (stored : Header) (k : Bytes) (vv : List Bytes) : Header :=
  vv.foldl (fun h v => h.add k v) (if (stored.get k).length > 0 then stored.del k else stored)

/-- `storageWriter.Close`: `for k, vv := range sw.revalidatedHeader` (order-insensitive when the keys
    of the 304 stay distinct after canonicalisation, as they are for a parsed response) -/
def merge304 (stored h304 : Header) : Header :=
  h304.foldl (fun s e => mergeKey s e.1 e.2) stored

/-- the entry after `SetRevalidatedAndClose(h304)` + `storageWriter.Close` (in memory, before
    the metadata codec) -/
def after304 (m : Meta) (h304 : Header) (now : Int) : Meta :=
  { m with revalidated := now, header := merge304 m.header (dropZeroContentLength h304) }

/-! ### server.go: what the client is sent -/

structure Resp where
  status : Nat
  header : Header
  body : Bytes
  deriving Repr, DecidableEq

structure ClientView where
  status : Nat
  header : Header
  body : Bytes
  deriving Repr, DecidableEq

/-- `clearAndCopyHeaders`: every origin value is `Add`ed, every alwaysInclude value is `Set` -/
def copyHeaders (origin alwaysInclude : Header) : Header :=
  alwaysInclude.foldl (fun h e => e.2.foldl (fun h v => h.set e.1 v) h)
    (origin.foldl (fun h e => e.2.foldl (fun h v => h.add e.1 v) h) [])

/-- `suffixETag`, and the same three lines in requestHandler -/
def suffixETag (sfx : Option Bytes) (h : Header) : Header :=
  if (h.get kEtag).length > 0 then h.set kEtag (addSuffix sfx (h.get kEtag)) else h

/-- the Found/304 row (`if cr.Metadata.Status == 304`): `alwaysInclude.Set(status, "hit")`, stored headers filtered by
    `HeadersAllowedIn304`, ETag suffixed, 304, no body -/
def found304View (sfx : Option Bytes) (stored alwaysInclude : Header) : ClientView :=
  { status := 304
    header := suffixETag sfx (copyHeaders (allow304 stored) (alwaysInclude.set kStatus b!"hit"))
    body := [] }

/-- `requestHandler` with the plain `writeBody` and no recompression: origin headers ⊕
    alwaysInclude, ETag suffixed, the origin's status; `status == 304` ⇒ header only (the
    `AllowHeaders` call there discards its result: every header of the origin's 304 passes) -/
def passThroughView (sfx : Option Bytes) (resp : Resp) (alwaysInclude : Header) : ClientView :=
  { status := resp.status
    header := suffixETag sfx (copyHeaders resp.header alwaysInclude)
    body := if resp.status = 304 then [] else resp.body }

/-- the row `w:uncacheable` for an origin 304: what the client is sent -/
def clientViewOn304Uncacheable (sfx : Option Bytes) (h304 alwaysInclude : Header) : ClientView :=
  passThroughView sfx ⟨304, h304, []⟩ (alwaysInclude.set kStatus b!"uncacheable")

/-! ### server.go: after the origin answered -/

inductive Outcome where
  /-- `w:304`: entry updated in place, client validator restored, `cachingFunc` re-entered with
      `alwaysInclude ⊕ revalidated` -/
  | reenter (req : Header) (entry : Meta) (alwaysInclude : Header)
  /-- `w:uncacheable`: early `Finish`, plain pass-through of the origin's answer -/
  | passThrough (req : Header) (view : ClientView)
  /-- every other row of the writer branch (fill, stale-if-error, redirect …): other slices -/
  | other (req : Header)
  deriving Repr

/-- from `if len(usedRevalidateHeader) > 0` to the `if dirs.DoNotCache()` branch, for a
    writer-kind result after `surgery`; `doNotCache` is
    `GetCacheControlDirectives(·).DoNotCache()` (CacheControl.lean) -/
def afterResponse (doNotCache : Header → Bool) (sfx : Option Bytes) (s : Surgery) (m : Meta)
    (resp : Resp) (now : Int) (alwaysInclude : Header) : Outcome :=
  if s.used.length > 0 then
    let r1 := s.req.del s.used
    if resp.status = 304 ∧ ¬ doNotCache resp.header then
      let r2 := if s.clientKey.length > 0 ∧ s.clientVal.length > 0 then r1.set s.clientKey s.clientVal else r1
      .reenter r2 (after304 m resp.header now) (alwaysInclude.set kStatus b!"revalidated")
    else if doNotCache resp.header then
      .passThrough r1 (passThroughView sfx resp (alwaysInclude.set kStatus b!"uncacheable"))
    else .other r1
  else if doNotCache resp.header then
    .passThrough s.req (passThroughView sfx resp (alwaysInclude.set kStatus b!"uncacheable"))
  else .other s.req

/-- a RevalidatingWriter from request to outcome -/
def revalidatingWriter (doNotCache : Header → Bool) (sfx : Option Bytes) (rangeParsed : Bool)
    (client : Header) (m : Meta) (origin : Header → Resp) (now : Int) (alwaysInclude : Header) : Outcome :=
  let s := surgery .revalidating rangeParsed client m.header
  afterResponse doNotCache sfx s m (origin s.req) now alwaysInclude

/-! ### one request through the cache on a single-rule GET configuration (stream `revalflow`)

  The rows `w:fill` (status 200 / 304 / 5xx only), `w:304`, `w:uncacheable`, `f:304`, `f:hit`
  of DESIGN Appendix A, assembled from the functions above.  `none` = a row outside this slice. -/

/-- what `decodeStorageMetadata ∘ encodeStorageMetadata` leaves of a header map on the declared
    domain (values without `[ ] { } |`): the first value of every key (C07's codec) -/
def persistHeader (h : Header) : Header :=
  h.filterMap fun e => match e.2 with | [] => none | v :: _ => some (e.1, [v])

/-- `cachingResponseWriter.WriteHeader` → `storageWriter.WriteHeader`: the client's
    header map without the cache-status header, ETag without the suffix -/
def storedHeaderOf (sfx : Option Bytes) (clientHeader : Header) : Header :=
  let h := denyHeaders clientHeader [kStatus]
  let h := if (h.get kEtag).length > 0 then h.set kEtag (stripSuffix sfx (h.get kEtag)) else h
  denyHeaders h [kStatus]

structure FlowParams where
  sfx : Option Bytes
  doNotCache : Header → Bool
  origin : Header → Resp
  now : Int
  /-- outcome of cache.Get's freshness decision for the stored entry (Freshness.lean) -/
  stale : Bool
  /-- outcome of cache.Get's client-validator comparison on a fresh entry (Freshness.lean) -/
  cmp304 : Bool
  /-- `CanStaleIfError(age)` of the stored directives (CacheControl.lean); the row `w:stale` it
      leads to is outside this slice -/
  staleIfError : Bool := false

structure FlowOut where
  contacts : List Header
  view : ClientView
  entry : Option Meta
  label : String
  deriving Repr

def hasClientValidator (client : Header) : Bool :=
  (client.get kINM).length > 0 || (client.get kIMS).length > 0

/-- Found (fresh) entry: `f:304` when the comparison says so, else `f:hit` -/
def foundView (p : FlowParams) (m : Meta) (client alwaysInclude : Header) (age : Bytes) : ClientView × String :=
  if hasClientValidator client && p.cmp304 then (found304View p.sfx m.header alwaysInclude, "f:304")
  else
    let st := alwaysInclude.get kStatus
    let ai := if st.length = 0 then alwaysInclude.set kStatus b!"hit"
              else if st = b!"pass" then alwaysInclude.set kStatus b!"hit" else alwaysInclude
    let ai := ai.set kAge age
    ({ status := m.status, header := suffixETag p.sfx (copyHeaders m.header ai), body := m.body }, "f:hit")

/-- the rest of the writer branch (`w:fill`) for the statuses of this slice: the caching writer
    around the client.
    * 200: stored (a revalidating `storageWriter` has `wasRevalidated = true` from its
      construction in `storage.GetWriter`, so the new entry carries `Revalidated = now`) and served.
    * 304 (only reachable when the cache injected no validator): header only, `requestHandler`
      returns before any body writer or `Close`; the entry is untouched.
    * ≥ 500 (outside the storage gate, `storageWriter.WriteHeader` never called, `fd == nil`):
      `writeBody` closes the writer; for a revalidating writer `Close` finds `wasRevalidated`,
      re-opens the OLD file, sets `Revalidated = now` and re-publishes it — the entry's life is
      extended by a 5xx — and `makeCachingWriteBody` then sends the client the content of
      `WrittenFile()`, which is the old entry's body, under the origin's 5xx status.  Without an
      old file (NotFoundWriter) `WrittenFile` fails and the client gets no body (C05-a). -/
def fillView (p : FlowParams) (resp : Resp) (statusLabel : Bytes) (old : Option Meta) :
    Option (ClientView × Option Meta) :=
  let ai : Header := Header.set (Header.set [] kStatus statusLabel) kAge b!"0"
  let ch := suffixETag p.sfx (copyHeaders resp.header ai)
  if resp.status = 200 then
    some ({ status := 200, header := ch, body := resp.body },
          some { header := persistHeader (storedHeaderOf p.sfx ch), status := 200, created := p.now,
                 revalidated := if old.isSome then p.now else 0, size := resp.body.length,
                 redirectedURL := [], body := resp.body })
  else if resp.status = 304 then some ({ status := 304, header := ch, body := [] }, old)
  else if resp.status ≥ 500 then
    match old with
    | some m => some ({ status := resp.status, header := ch, body := m.body }, some { m with revalidated := p.now })
    | none => some ({ status := resp.status, header := ch, body := [] }, none)
  else none

def flowStep (p : FlowParams) (rangeParsed : Bool) (client : Header) (e : Option Meta) : Option FlowOut :=
  match e with
  | none =>
    let s := surgery .notFound rangeParsed client []
    let resp := p.origin s.req
    if p.doNotCache resp.header then
      some { contacts := [s.req], entry := none, label := "w:uncacheable",
             view := passThroughView p.sfx resp (Header.set [] kStatus b!"uncacheable") }
    else (fillView p resp b!"miss" none).map fun r =>
      { contacts := [s.req], view := r.1, entry := r.2, label := "w:fill" }
  | some m =>
    if p.stale then
      let s := surgery .revalidating rangeParsed client m.header
      let resp := p.origin s.req
      match afterResponse p.doNotCache p.sfx s m resp p.now [] with
      | .reenter r2 m' ai =>
        let m'' := { m' with header := persistHeader m'.header }
        let fv := foundView p m'' r2 ai b!"0"
        some { contacts := [s.req], view := fv.1, entry := some m'', label := "w:304>" ++ fv.2 }
      | .passThrough _ v => some { contacts := [s.req], view := v, entry := some m, label := "w:uncacheable" }
      | .other _ =>
        if resp.status ≥ 400 && p.staleIfError then none else
        (fillView p resp b!"revalidated" (some m)).map fun r =>
          { contacts := [s.req], view := r.1, entry := r.2,
            label := if s.used.length > 0 then "w:fill" else "w:fill-novalidator" }
    else
      let fv := foundView p m client [] b!"0"
      some { contacts := [], view := fv.1, entry := some m, label := fv.2 }

end Model.Conditional
