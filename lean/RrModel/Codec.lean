import RrModel.Go.Strings
import RrModel.Go.Strconv
import RrModel.Go.Header
import RrModel.Go.Res
import RrModel.Generated.Facts
/-
  The metadata codec of the disk cache (caching/disk.go:51-186) and the header preparation of
  `storageWriter.WriteHeader` (caching/disk.go:946-954, util/http.go StripETagSuffix, DenyHeaders),
  branch for branch from the Go text, quirks included:

  * `headerToS` writes only `h.Get(k)` — the FIRST value of every key — as `k:[v]`, keys sorted,
    joined by `,`, wrapped in `{…}`; `h.Get` canonicalises `k` before the lookup.
  * `sToHeader` undoes this with `strings.Trim(s, "{}")` (a CUTSET trim), `strings.Split(ts, "],")`,
    the slice `p[:len(p)-1]` on the last part when it is not also the first (a run-time panic when
    that part is empty: `Res.panic`), `strings.SplitN(p, ":", 2)`, `strings.Trim(v, "[]")` (cutset
    again) and `h.Set`, which canonicalises the key.
  * `encodeCustom` joins nine fields with `|`; `decodeCustom` splits on `|` and insists on nine parts.
  * `decodeStorageMetadata` falls back to `json.Unmarshal` when `decodeCustom` returns an error.
    The fallback is NOT modelled: `decode` reports "undecodable" (`none`).  Declared domain: inputs
    on which the custom format fails are not JSON documents.  Everything `encodeCustom` produces
    is in that domain (it contains at least eight `|` outside any JSON string context and ends in a
    decimal digit, so it is neither a JSON object, string, array, literal nor number); the raw
    decoder stream only generates inputs whose first byte cannot start a JSON value.
  * `FdSize` is not part of the encoded form (it is taken from the file on `Get`), so it is not a
    field of `Meta`.
  * `int`/`int64` fields are `Int`; Go's types keep them inside the int64 range (`Meta.inRange`).
-/
namespace Model.Codec
open Go

/-- `caching.StorageMetadata` without `FdSize` -/
structure Meta where
  host : Bytes := []
  path : Bytes := []
  reqHeader : Header := []
  respHeader : Header := []
  status : Int := 0
  redirect : Bytes := []
  created : Int := 0
  revalidated : Int := 0
  size : Int := 0
  deriving Repr, DecidableEq

def inInt64 (i : Int) : Bool := decide (minInt64 ≤ i) && decide (i ≤ maxInt64)

/-- the invariant Go's field types (`int` on a 64-bit platform, `int64`) give for free -/
def Meta.inRange (m : Meta) : Bool :=
  inInt64 m.status && inInt64 m.created && inInt64 m.revalidated && inInt64 m.size

/-- the keys of the Go map (`for k := range *h`): every raw key once, also keys whose value slice
    is empty.  In an association list a later entry with the same raw key is shadowed. -/
def mapKeys : Header → List Bytes
  | [] => []
  | (k, _) :: t => k :: (mapKeys t).filter (· != k)

/-- `k + ":[" + h.Get(k) + "]"` -/
def item (h : Header) (k : Bytes) : Bytes := k ++ b!":[" ++ h.get k ++ b!"]"

/-- `headerToS` (disk.go:98-118).  The loop appends `,` after every item but the last, which is
    `strings.Join(items, ",")`. -/
def headerToS (h : Header) : Bytes :=
  if (mapKeys h).isEmpty then b!"{}"
  else b!"{" ++ join b!"," ((sortBytes (mapKeys h)).map (item h)) ++ b!"}"

/-- `encodeCustom` (disk.go:120-132), nine fields -/
def encodeCustom (m : Meta) : Bytes :=
  m.host ++ b!"|" ++ (m.path ++ b!"|" ++ (headerToS m.reqHeader ++ b!"|" ++ (headerToS m.respHeader ++ b!"|" ++
  (itoa m.status ++ b!"|" ++ (m.redirect ++ b!"|" ++ (itoa m.created ++ b!"|" ++ (itoa m.revalidated ++ b!"|" ++
  itoa m.size)))))))

/-- `encodeStorageMetadata` -/
def encode (m : Meta) : Bytes := encodeCustom m

inductive DecodeErr where
  | badLength        -- "Bad length": not nine `|`-separated parts
  | invalidFormat    -- "Invalid format": header string does not start with `{`
  | oddHeader        -- "Odd header: …": a part without `:`
  | badInt           -- strconv.ParseInt error
  deriving Repr, DecidableEq

/-- value or returned `error` -/
inductive ErrOr (α : Type) where
  | val (a : α)
  | err (e : DecodeErr)
  deriving Repr, DecidableEq

/-- Go slice expression `p[:len(p)-1]`: panics when `p` is empty -/
def chopLast (p : Bytes) : Res Bytes :=
  if p.length = 0 then .panic "disk.go:85 p[:len(p)-1]" else .ok (p.take (p.length - 1))

/-- the part of the loop body after the slice adjustment: `SplitN(p, ":", 2)`, the length check,
    `h.Set(hk, strings.Trim(splat[1], "[]"))` -/
def setPart (h : Header) (p : Bytes) : ErrOr Header :=
  match splitN2 p b!":" with
  | [hk, v] => .val (h.set hk (trim b!"[]" v))
  | _ => .err .oddHeader

/-- the `for i, p := range parts` loop of `sToHeader` (disk.go:81-93); `n` = `partsLen`, `i` the
    index of the head of the remaining list -/
def sToHeaderLoop (n : Nat) (h : Header) : Nat → List Bytes → Res (ErrOr Header)
  | _, [] => .ok (.val h)
  | i, p :: rest =>
    match (if i = 0 then Res.ok p else if i = n - 1 then chopLast p else Res.ok p) with
    | .panic s => .panic s
    | .ok p' =>
      match setPart h p' with
      | .err e => .ok (.err e)
      | .val h' => sToHeaderLoop n h' (i + 1) rest

/-- `sToHeader` (disk.go:71-96) -/
def sToHeader (h : Header) (s : Bytes) : Res (ErrOr Header) :=
  if !hasPrefix s b!"{" then .ok (.err .invalidFormat)
  else
    let ts := trim b!"{}" s
    if ts.length = 0 then .ok (.val h)
    else
      let parts := split ts b!"],"
      sToHeaderLoop parts.length h 0 parts

/-- `sToInt64` -/
def sToInt64 (s : Bytes) : ErrOr Int :=
  match parseInt s with
  | some v => .val v
  | none => .err .badInt

/-- `decodeCustom` (disk.go:134-186): the checks in source order (an error in an earlier field
    hides a panic in a later one) -/
def decodeCustom (bs : Bytes) : Res (ErrOr Meta) :=
  match split1 124 bs with
  | [f0, f1, f2, f3, f4, f5, f6, f7, f8] =>
    match sToHeader [] f2 with
    | .panic s => .panic s
    | .ok (.err e) => .ok (.err e)
    | .ok (.val rq) =>
      match sToHeader [] f3 with
      | .panic s => .panic s
      | .ok (.err e) => .ok (.err e)
      | .ok (.val rs) =>
        match sToInt64 f4 with
        | .err e => .ok (.err e)
        | .val st =>
          match sToInt64 f6 with
          | .err e => .ok (.err e)
          | .val cr =>
            match sToInt64 f7 with
            | .err e => .ok (.err e)
            | .val rv =>
              match sToInt64 f8 with
              | .err e => .ok (.err e)
              | .val sz =>
                .ok (.val { host := f0, path := f1, reqHeader := rq, respHeader := rs, status := st,
                            redirect := f5, created := cr, revalidated := rv, size := sz })
  | _ => .ok (.err .badLength)

/-- `decodeStorageMetadata` (disk.go:55-65) on the declared domain (see the header comment):
    `none` = an error is returned, the entry is undecodable -/
def decode (bs : Bytes) : Res (Option Meta) :=
  match decodeCustom bs with
  | .panic s => .panic s
  | .ok (.val m) => .ok (some m)
  | .ok (.err _) => .ok none

/-! ### What `storageWriter.WriteHeader` does to the header map before it is stored -/

/-- `util.CurrentEtagSuffix`: the environment variable `ETAG_SUFFIX`, nil when empty -/
def currentEtagSuffix (env : Bytes) : Option Bytes := if env.length > 0 then some env else none

/-- `util.StripETagSuffix` with the suffix as a parameter (`none` = `CurrentEtagSuffix() == nil`) -/
def stripETagSuffix (suffix : Option Bytes) (etag : Bytes) : Bytes :=
  match suffix with
  | none => etag
  | some token =>
    if hasSuffix etag (token ++ b!"\"") then trimSuffix etag (token ++ b!"\"") ++ b!"\""
    else if hasSuffix etag token then trimSuffix etag token
    else etag

/-- `util.DenyHeaders`: collect the raw keys whose lower-cased form is in the deny list, clone,
    then `out.Del(k)` for each — `Del` canonicalises `k`, so a raw non-canonical key survives. -/
def denyHeaders (h : Header) (deny : List Bytes) : Header :=
  ((mapKeys h).filter fun k => deny.contains (toLower k)).foldl (fun out k => out.del k) h

/-- `caching.IsCacheableError` -/
def isCacheableError (s : Int) : Bool :=
  decide ((Facts.cacheableErrorLo : Int) ≤ s) && decide (s ≤ (Facts.cacheableErrorHi : Int))

/-- the else-branch of `storageWriter.WriteHeader` (disk.go:946-954): the header map that becomes
    `sw.responseHeader`, i.e. what `Close` encodes into the xattr -/
def storePrep (suffix : Option Bytes) (s : Int) (h : Header) : Header :=
  let h1 := if isCacheableError s then h.set b!"cache-control" Facts.cacheable4xxCacheControl else h
  let h2 := denyHeaders h1 [Facts.cacheStatusHeader]
  let etag := h2.get b!"etag"
  let h3 := if etag.length > 0 then h2.set b!"etag" (stripETagSuffix suffix etag) else h2
  denyHeaders h3 [Facts.cacheStatusHeader]

end Model.Codec
