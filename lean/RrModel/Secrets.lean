import RrModel.Go.Header
import RrModel.Go.Res
import RrModel.Routing
import RrModel.Generated.Facts
/-
  proxy/proxy.go `ensureInternalHeaders` (605-642), util/strings.go `StringInSlice`,
  util/ip.go `RequestIP`, written statement for statement.

  * `uuid.NewV4().String()` is a parameter (`uuid`): at most one call site is reached per call.
  * `readIP` is a closure in Go and is only *called* on some branches; the model takes its
    result (`Res Bytes`: a closure may panic; `util.RequestIP` itself no longer can, since
    `DropPort` was repaired — finding C05-b) and looks at it on exactly those branches, in
    statement order.
  * `secrets[0]` on an empty list is a run-time panic (`Res.panic`); a nil and an empty non-nil
    slice behave alike inside this function (the difference is made by `createProxyRequest`).
-/
namespace Model
open Go

def hdrRoutingSecret : Bytes := b!"Richie-Routing-Secret"
def hdrRequestID : Bytes := b!"Richie-Request-ID"
def hdrOriginatingIP : Bytes := b!"Richie-Originating-IP"

/-- the three constants in the order of `Facts.internalHeaderNames` (pinned in Props/C04) -/
def internalHeaders : List Bytes := [hdrRoutingSecret, hdrRequestID, hdrOriginatingIP]

/-- `util.StringInSlice` (the literal loop) -/
def stringInSlice : List Bytes → Bytes → Bool
  | [], _ => false
  | ss :: rest, s => if s = ss then true else stringInSlice rest s

/-- the two `usererror … CreateError(http.StatusProxyAuthRequired, …)` sites -/
inductive Reject where
  | badSecret               -- "Bad routing secret"
  | idOrIpWithoutSecret     -- "Specifying originating IP or request ID without routing secret not allowed"
  deriving DecidableEq, Repr

/-- `http.StatusProxyAuthRequired` at both sites -/
def Reject.status : Reject → Nat
  | .badSecret => 407
  | .idOrIpWithoutSecret => 407

def panicSecrets0 : String := "ensureInternalHeaders: secrets[0]: index out of range [0] with length 0"

/-- `ensureInternalHeaders(header, passHeaders, secrets, readIP)`; the mutated header is the
    `ok` result, the returned error the `error` result. -/
def ensureInternalHeaders (header : Header) (passHeaders : Bool) (secrets : List Bytes)
    (uuid : Bytes) (readIP : Res Bytes) : Res (Except Reject Header) :=
  let oldSecret := header.get hdrRoutingSecret
  if oldSecret ≠ [] ∧ stringInSlice secrets oldSecret = false then .ok (.error .badSecret)
  else if passHeaders then
    let oldReqID := header.get hdrRequestID
    let oldOrigIP := header.get hdrOriginatingIP
    if oldSecret ≠ [] then
      let h1 := if oldReqID = [] then header.set hdrRequestID uuid else header
      if oldOrigIP = [] then
        match readIP with
        | .panic s => .panic s
        | .ok ip => .ok (.ok (h1.set hdrOriginatingIP ip))
      else .ok (.ok h1)
    else
      if oldReqID ≠ [] ∨ oldOrigIP ≠ [] then .ok (.error .idOrIpWithoutSecret)
      else
        let h1 := header.set hdrRequestID uuid
        match readIP with
        | .panic s => .panic s
        | .ok ip =>
          let h2 := h1.set hdrOriginatingIP ip
          match secrets with
          | [] => .panic panicSecrets0
          | s0 :: _ => .ok (.ok (h2.set hdrRoutingSecret s0))
  else
    .ok (.ok (((header.del hdrRoutingSecret).del hdrRequestID).del hdrOriginatingIP))

/-- `util.RequestIP(req)` (ip.go:32-58). `remoteIP` = the host part returned by
    `net.SplitHostPort(strings.TrimSpace(req.RemoteAddr))`, `none` when that call errs
    (harness-supplied: `net.SplitHostPort` is not modelled). Declared domain of `TrimSpace`:
    ASCII. `DropPort` hands a value with `[` and no `]` on unchanged (it panicked there before
    the fix for finding C05-b), so no branch of this function panics. -/
def requestIP (header : Header) (remoteIP : Option Bytes) : Res Bytes :=
  let cfip := header.get b!"cf-connecting-ip"
  if cfip ≠ [] then .ok cfip
  else
    let clientIP := trimSpace (header.get b!"X-Real-Ip")
    if clientIP.length > 0 then dropPort clientIP
    else
      let xff := header.get b!"X-Forwarded-For"
      let xff := match indexByte 44 xff with
        | some index => xff.take index
        | none => xff
      let clientIP := trimSpace xff
      if clientIP.length > 0 then dropPort clientIP
      else
        match remoteIP with
        | some ip => dropPort ip
        | none => .ok []

end Model
