import RrModel.Go.Bytes
/-
  caching/disk.go as a file-system protocol (C14).  The FS is a total map from path to an
  optional file {data, xattr}; every disk operation of the writer is one `Effect` applied
  atomically (one syscall); a body `write` may be torn, which the theorems cover by
  quantifying over every chunking of the body.  `get` is storage.Get with its self-healing.
-/
namespace Model.Crash

/-- where an entry lives: the final name of key `k`, or `<name>.tmp` -/
inductive Path where
  | final (k : Nat)
  | tmp (k : Nat)
  deriving DecidableEq, Repr

/-- the `user.rrrouter` attribute, abstractly: which key it was written for, which origin response
    it describes, the size recorded (`writtenSize`), and whether the stored headers carry a
    Content-Length (then storage.Get's size comparison is the dead `err != nil` branch) -/
structure Meta where
  key : Nat
  resp : Nat
  size : Nat
  hasContentLength : Bool
  revalidated : Nat := 0
  deriving DecidableEq, Repr

structure File where
  data : Bytes
  xattr : Option Meta
  deriving DecidableEq, Repr

abbrev FS := Path → Option File

def FS.empty : FS := fun _ => none
def upd (fs : FS) (p : Path) (f : Option File) : FS := fun q => if q = p then f else fs q

inductive Effect where
  /-- `os.Create`: O_CREAT|O_TRUNC — data emptied; an existing file keeps its xattr -/
  | create (p : Path)
  | append (p : Path) (bytes : Bytes)
  | setxattr (p : Path) (m : Meta)
  | rename (src dst : Path)
  | remove (p : Path)
  /-- syscalls without an effect on what a restarted process can read: fd.Close, Chtimes, MkdirAll -/
  | nop (what : String)
  deriving Repr

def applyEffect (fs : FS) : Effect → FS
  | .create p => upd fs p (some { data := [], xattr := (fs p).bind (·.xattr) })
  | .append p b => match fs p with
    | some f => upd fs p (some { f with data := f.data ++ b })
    | none => fs                      -- write to an unlinked file: not visible under the name
  | .setxattr p m => match fs p with
    | some f => upd fs p (some { f with xattr := some m })
    | none => fs                      -- ENOENT
  | .rename s d => match fs s with
    | some f => upd (upd fs d (some f)) s none
    | none => fs
  | .remove p => upd fs p none
  | .nop _ => fs

def applyAll (fs : FS) (es : List Effect) : FS := es.foldl applyEffect fs

/-- the appends of a body written in the given chunks -/
def appends (p : Path) (chunks : List Bytes) : List Effect := chunks.map (.append p)

/-- fresh fill (disk.go WriteHeader 960-983 → Write → Close 1062-1185): the file is created at
    its FINAL name without metadata; the xattr is set after the last write and the fd close -/
def freshFill (k : Nat) (chunks : List Bytes) (m : Meta) : List Effect :=
  [.nop "mkdirAll", .create (.final k)] ++ appends (.final k) chunks ++
  [.nop "fd.Close", .setxattr (.final k) m, .nop "chtimes"]

/-- revalidating 200 fill: `<name>.tmp`, xattr on the tmp file, then rename over the entry -/
def revalFill (k : Nat) (chunks : List Bytes) (m : Meta) : List Effect :=
  [.nop "mkdirAll", .create (.tmp k)] ++ appends (.tmp k) chunks ++
  [.nop "fd.Close", .setxattr (.tmp k) m, .nop "chtimes", .rename (.tmp k) (.final k)]

/-- 304 revalidation: the metadata is rewritten in place, the data is not touched -/
def reval304 (k : Nat) (m : Meta) : List Effect :=
  [.nop "fd.Close", .setxattr (.final k) m, .nop "chtimes"]

/-- Vary: Origin key change of a revalidating writer (ChangeKey 1228-1255 runs BEFORE the
    header is written): the old entry is renamed to the new key's name if that is free -/
def changeKey (kOld kNew : Nat) (newExists : Bool) : List Effect :=
  if newExists then [] else [.rename (.final kOld) (.final kNew)]

def deleteEntry (p : Path) : List Effect := [.nop "fd.Close", .remove p]
def evict (k : Nat) : List Effect := [.remove (.final k)]

inductive GetRes where
  | miss
  | found (f : File) (m : Meta)
  deriving DecidableEq, Repr

/-- `storage.Get` for one key (disk.go:353-399) with its self-healing removal; returns the FS
    it leaves behind -/
def get (fs : FS) (k : Nat) : FS × GetRes :=
  match fs (.final k) with
  | none => (fs, .miss)
  | some f =>
    match f.xattr with
    | none => (upd fs (.final k) none, .miss)                  -- unreadable metadata ⇒ removed
    | some m =>
      if m.hasContentLength then (fs, .found f m)              -- `err != nil && …`: check never fires
      else if f.data.length ≠ m.size then (upd fs (.final k) none, .miss)
      else (fs, .found f m)

/-- `GetWriter` refuses only when the entry path exists and the writer is not revalidating -/
def getWriterOk (fs : FS) (k : Nat) (revalidate : Bool) : Bool :=
  revalidate || (fs (.final k)).isNone

end Model.Crash

namespace Model.Crash

/-! ### Hook points ↔ protocol prefixes (DESIGN Appendix B)

For each scenario the writer passes the `verifhook` points below in this order; the number is
how many effects of the scenario's protocol have been performed when the point is reached, i.e.
the prefix a crash at that point leaves behind. -/

def writePoints (base : Nat) : Nat → List (String × Nat)
  | 0 => []
  | n + 1 => writePoints base n ++ [("write.before", base + n), ("write.after", base + n + 1)]

/-- fresh fill of a body written in `n` chunks: protocol `freshFill` -/
def pointsFresh (n : Nat) : List (String × Nat) :=
  [("wh.before-create", 0), ("wh.created", 2)] ++ writePoints 2 n ++
  [("close.enter", 2 + n), ("close.before-fdclose", 2 + n), ("close.before-xattr", 3 + n),
   ("close.after-xattr", 4 + n), ("close.after-chtimes", 5 + n), ("close.before-finish", 5 + n),
   ("notify.before-send", 5 + n)]

/-- revalidating 200 fill: protocol `revalFill` -/
def pointsReval (n : Nat) : List (String × Nat) :=
  [("wh.before-create", 0), ("wh.created", 2)] ++ writePoints 2 n ++
  [("close.enter", 2 + n), ("close.before-fdclose", 2 + n), ("close.before-xattr", 3 + n),
   ("close.after-xattr", 4 + n), ("close.after-chtimes", 5 + n), ("close.before-rename", 5 + n),
   ("close.after-rename", 6 + n), ("close.before-finish", 6 + n), ("notify.before-send", 6 + n)]

/-- 304 revalidation: protocol `reval304` -/
def points304 : List (String × Nat) :=
  [("close.enter", 0), ("close.before-fdclose", 0), ("close.before-xattr", 1), ("close.after-xattr", 2),
   ("close.after-chtimes", 3), ("close.before-finish", 3), ("notify.before-send", 3)]

end Model.Crash
