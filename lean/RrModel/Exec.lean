import RrModel.Routing
import RrModel.Target
/-
  proxy/proxy.go routeRequest (188-279) and performRequest (397-457) as a state machine over a
  consumable client body, a scripted origin (per destination host: `k` connection failures,
  then an answer) and up to three destinations (copy, main, retry_rule fallback chain);
  server/server.go: the uncached path of cachingFunc (105-136), requestHandler/writeBody for
  the plain writer, writeError.  Slice S1 of DESIGN section 9.
-/
namespace Model
open Go

/-- scripted origin behaviour for one destination host (harness: sysx.OriginResp) -/
structure OriginEntry where
  host : Bytes
  status : Nat
  headers : List (Bytes × Bytes)
  body : Bytes
  chunked : Bool
  connectErrors : Nat
  /-- `some n`: reading the body fails after `n` bytes -/
  readErrAt : Option Nat
  deriving Repr

/-- one request that reached the performer -/
structure Contact where
  host : Bytes
  method : Bytes
  failed : Bool
  body : Bytes
  deriving Repr, DecidableEq

structure ExecState where
  /-- connection failures already served, per host -/
  failed : List (Bytes × Nat) := []
  contacts : List Contact := []
  /-- what is still unread of the client's request body (`req.Body`) -/
  remaining : Bytes
  deriving Repr

def failCount (st : ExecState) (host : Bytes) : Nat :=
  match st.failed.lookup host with
  | some n => n
  | none => 0

def bumpFail (st : ExecState) (host : Bytes) : ExecState :=
  { st with failed := (host, failCount st host + 1) :: st.failed.filter (·.1 ≠ host) }

/-- one `requestPerformer.Do`: a connection failure (no script entry, or failures left) or
    the scripted answer; the performer reads the request body only when it answers -/
def doOnce (script : List OriginEntry) (st : ExecState) (host method body : Bytes) :
    ExecState × Option OriginEntry :=
  match script.find? (·.host = host) with
  | none => ({ bumpFail st host with contacts := st.contacts ++ [⟨host, method, true, []⟩] }, none)
  | some e =>
    if failCount st host < e.connectErrors then
      ({ bumpFail st host with contacts := st.contacts ++ [⟨host, method, true, []⟩] }, none)
    else
      ({ st with contacts := st.contacts ++ [⟨host, method, false, body⟩] }, some e)

/-- the attempt loop of `performRequest` for a retryable request (proxy.go:404-433):
    `attempts` = len(RetryTimes)+1; the body is re-armed from `requestData` before every repeat -/
def attemptLoop (script : List OriginEntry) (host method body : Bytes) :
    Nat → ExecState → ExecState × Option OriginEntry
  | 0, st => (st, none)
  | n + 1, st =>
    match doOnce script st host method body with
    | (st', some e) => (st', some e)
    | (st', none) => attemptLoop script host method body n st'

/-- where the body of an outgoing request comes from -/
inductive BodySrc where
  /-- `newByteSliceBody(bodyData)`: a fresh reader over the buffered bytes -/
  | buffered (data : Bytes)
  /-- the client's `req.Body` itself (consumed by whoever reads it) -/
  | client
  deriving Repr

/-- `performRequest` (proxy.go:397-457); `none` = 502 "Destination unreachable" -/
def performRequest (script : List OriginEntry) (retries : Nat) (excluded : Bytes)
    (st : ExecState) (host method : Bytes) (src : BodySrc) (retryAllowed : Bool) :
    ExecState × Option OriginEntry :=
  if method ≠ excluded ∧ retryAllowed then
    match src with
    | .buffered d => attemptLoop script host method d (retries + 1) st
    | .client =>
      -- not reachable from routeRequest (retryable ⇒ buffered); kept total: body read once
      let b := st.remaining
      attemptLoop script host method b (retries + 1) { st with remaining := [] }
  else
    -- setContentLength: ReadAll(req.Body), then a single Do
    match src with
    | .buffered d => doOnce script st host method d
    | .client =>
      let b := st.remaining
      doOnce script { st with remaining := [] } host method b

/-- what building one outgoing request can fail with (createProxyRequest → ensureInternalHeaders) -/
inductive BuildErr where
  | badSecret      -- 407 "Bad routing secret"
  | idOrIpNoSecret -- 407 "Specifying originating IP or request ID without routing secret not allowed"
  | panicNoSecrets -- secrets[0] on an empty, non-nil list
  | unparsable     -- url.Parse(target) failed in createOutgoingURLs ⇒ plain error ⇒ 500
  deriving Repr, DecidableEq

/-- outcome of the routing half of a request -/
inductive RouteRes where
  | response (e : OriginEntry) (ruleIdx : Option Nat)   -- the main destination's answer
  | userError (code : Nat) (msg : Bytes)
  | plainError                                          -- non-user error ⇒ bare 500
  | panicked
  deriving Repr

structure ExecCfg where
  script : List OriginEntry
  retries : Nat
  /-- `Facts.retryableExcludedMethod` -/
  excluded : Bytes
  /-- the 407 / panic decision of `createProxyRequest` for a rule's `internal` flag (the header
      half lives in Secrets.lean; here only the verdict matters) -/
  build : (internal : Bool) → Option BuildErr
  is4xx : Nat → Bool
  isRedirect : Nat → Bool
  /-- `url.Parse(Location)` succeeds -/
  locationOk : List (Bytes × Bytes) → Bool

def destHost (target : Bytes) : Option Bytes :=
  match Url.split target with
  | some u => if targetEscapesOk target then u.authority else none
  | none => none

def buildErrRes : BuildErr → RouteRes
  | .badSecret => .userError 407 b!"Bad routing secret"
  | .idOrIpNoSecret => .userError 407 b!"Specifying originating IP or request ID without routing secret not allowed"
  | .panicNoSecrets => .panicked
  | .unparsable => .plainError

/-- how one pass of `routeRequest` ends, before the retry_rule decision -/
inductive Stage where
  | done (r : RouteRes)                              -- decided without a main response
  | answered (e : OriginEntry) (idx : Option Nat)    -- the main destination answered
  | unreachable                                      -- the main destination never answered
  deriving Repr

/-- the copy request is performed first; its outcome is only logged (proxy.go:217-226) -/
def copyStage (cfg : ExecCfg) (method : Bytes) (hasRetry : Bool) (copyHost : Option (Option Bytes))
    (src : BodySrc) (st : ExecState) : ExecState :=
  match copyHost with
  | some (some h) => (performRequest cfg.script cfg.retries cfg.excluded st h method src (!hasRetry)).1
  | _ => st

/-- the main request (proxy.go:228-231, 262-265) -/
def mainStage (cfg : ExecCfg) (method : Bytes) (hasRetry : Bool) (mainHost : Option (Option Bytes))
    (idx : Option Nat) (src : BodySrc) (st : ExecState) : ExecState × Stage :=
  match mainHost with
  | some (some h) =>
    match performRequest cfg.script cfg.retries cfg.excluded st h method src (!hasRetry) with
    | (st2, some e) => (st2, .answered e idx)
    | (st2, none) => (st2, .unreachable)
  | _ => (st, .done (.userError 404 b!"No destination found for request target"))

/-- the copy request `createOutgoingRequests` hands on (proxy.go:530-539): when it cannot be built
    the error is only logged and the request goes on without a copy -/
def builtCopy (cfg : ExecCfg) (copy : Option (Rule × Bytes)) : Option (Rule × Bytes) :=
  match copy with
  | some x => if (cfg.build x.1.internal).isSome then none else some x
  | none => none

/-- body buffering and the two performs (proxy.go:196-269) on the requests that were built: the
    copy first (its failure is only logged), then the main request -/
def performBoth (cfg : ExecCfg) (method : Bytes) (hasRetry : Bool)
    (main : Option (Rule × Bytes × Option Nat)) (copy : Option (Rule × Bytes))
    (st : ExecState) : ExecState × Stage :=
  let mainHost := main.map fun x => destHost x.2.1
  let copyHost := copy.map fun x => destHost x.2
  -- body buffering (proxy.go:200-216): two targets, a retryable method, or a retry_rule (the
  -- fallback must be able to send the body again)
  if (main.isSome && copy.isSome) || decide (method ≠ cfg.excluded) || hasRetry then
    let src := BodySrc.buffered st.remaining
    let st0 : ExecState := { st with remaining := [] }
    mainStage cfg method hasRetry mainHost (main.bind (·.2.2)) src (copyStage cfg method hasRetry copyHost src st0)
  else
    mainStage cfg method hasRetry mainHost (main.bind (·.2.2)) .client (copyStage cfg method hasRetry copyHost .client st)

/-- one pass of `routeRequest` (proxy.go:188-240): build both requests, buffer the body, perform
    the copy (its failure is only logged), perform the main request.  `hasRetry` = the selected
    rule has a retry_rule (it switches connection retries off). -/
def routeOnce (cfg : ExecCfg) (method : Bytes) (hasRetry : Bool)
    (main : Option (Rule × Bytes × Option Nat)) (copy : Option (Rule × Bytes))
    (st : ExecState) : ExecState × Stage :=
  -- createOutgoingURLs: both targets are parsed first
  let mainHost := main.map fun x => destHost x.2.1
  let copyHost := copy.map fun x => destHost x.2
  if mainHost = some none ∨ copyHost = some none then (st, .done .plainError) else
  -- createOutgoingRequests: main request first; its build error ends the pass
  match (main.bind fun x => cfg.build x.1.internal) with
  | some e => (st, .done (buildErrRes e))
  | none =>
  -- then the copy request: an error it returns is only logged and the copy dropped (`builtCopy`);
  -- the `secrets[0]` panic of ensureInternalHeaders is not an error value and still ends the pass
  if (copy.bind fun x => cfg.build x.1.internal) = some .panicNoSecrets then (st, .done .panicked) else
  performBoth cfg method hasRetry main (builtCopy cfg copy) st

/-- re-matching against the retry rule alone (proxy.go:242-249) -/
def fallbackMatch (q : Query) (method : Bytes) (rr : Rule) : Option (Rule × Bytes × Option Nat) :=
  match (matchRules [rr] { q with method := method }).proxy with
  | some (_, t) => some (rr, t, none)
  | none => none

/-- `routeRequest` (proxy.go:188-279). `main`/`copy` = matched rule + computed target;
    the list = the main rule's retry_rule, its retry_rule, …; `q` for re-matching the
    fallback rule. Structural recursion on the retry chain. -/
def routeRequest (cfg : ExecCfg) (q : Query) (method : Bytes) :
    List Rule → Option (Rule × Bytes × Option Nat) → Option (Rule × Bytes) →
    ExecState → ExecState × RouteRes
  | [], main, copy, st =>
    match routeOnce cfg method false main copy st with
    | (st, .done r) => (st, r)
    | (st, .answered e idx) =>
      if cfg.isRedirect e.status ∧ ¬ cfg.locationOk e.headers then (st, .plainError) else (st, .response e idx)
    | (st, .unreachable) => (st, .userError 502 b!"Destination unreachable")
  | rr :: rest, main, copy, st0 =>
    match routeOnce cfg method true main copy st0 with
    | (st, .done r) => (st, r)
    | (st, .answered e idx) =>
      -- a redirect whose Location does not parse is an error (proxy.go:232-240)
      if cfg.isRedirect e.status ∧ ¬ cfg.locationOk e.headers then (st, .plainError)
      else if cfg.is4xx e.status then
        -- fallback: recurse with the same request, its body re-armed from the buffered bytes
        routeRequest cfg q method rest (fallbackMatch q method rr) none { st with remaining := st0.remaining }
      else (st, .response e idx)
    | (st, .unreachable) =>
      routeRequest cfg q method rest (fallbackMatch q method rr) none { st with remaining := st0.remaining }

/-- client view at the wire -/
structure View where
  status : Nat
  framing : String        -- complete | cutshort
  /-- `inl bytes` = body bytes; `inr msg` = rrrouter's own JSON error with that Message -/
  body : Sum Bytes Bytes
  deriving Repr

/-- `writeError` (server.go:855-871) -/
def errorView : RouteRes → View
  | .userError code msg => { status := code, framing := "complete", body := .inr msg }
  | _ => { status := 500, framing := "complete", body := .inl [] }

/-- plain writer stack: status, then `writeBody` until EOF or the first read error -/
def passView (method : Bytes) (e : OriginEntry) : View :=
  if method = b!"HEAD" then { status := e.status, framing := "complete", body := .inl [] }
  else
    match e.readErrAt with
    | some n =>
      if n < e.body.length then
        { status := e.status, framing := if e.chunked then "complete" else "cutshort", body := .inl (e.body.take n) }
      else { status := e.status, framing := "complete", body := .inl e.body }
    | none => { status := e.status, framing := "complete", body := .inl e.body }

end Model
