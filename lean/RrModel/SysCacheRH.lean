import RrModel.SysCache
/-
  SysCacheRH — `Model.SysCache` with the rule's `response_headers` (RoutingFlavors.ResponseHeaders): the
  same sequential system model of the cached request path, for a rule that carries response headers.

  What the Go text does with them (server/server.go, cachingFunc):
    * uncached row (method other than GET/HEAD): `reqres.FinalRoutingFlavors.ResponseHeaders` are `Set` into
      `alwaysInclude` after the origin has answered, then `richie-edge-cache: pass`;
    * cached rows: after `cache.Get` and AFTER the `Metadata.Status == 304` row (which returns before), every
      `rf.ResponseHeaders` value is `Set` into `alwaysInclude`; the writer rows set them once more after
      `RouteRequest` (`rf = reqres.FinalRoutingFlavors`; the same rule here, so the second round changes nothing);
    * `clearAndCopyHeaders` lets `alwaysInclude` REPLACE the origin's lines of the same name: the header the client
      is sent — and the header `storageWriter.WriteHeader` decides on — is the origin's with the rule's on top;
    * since the repair of finding C05-e the writer rows take the `uncacheable` branch (plain writer stack) also when
      the RULE's response headers forbid storing (`GetCacheControlDirectives(rf.ResponseHeaders).DoNotCache()`):
      before, such a response went through the caching stack, `storageWriter.WriteHeader` refused it
      (`sw.invalidated`), every write was dropped and the client was sent the header without a body.

  Declared domain: the rule's header names are none of `richie-edge-cache`, `Age`, `Content-Length`,
  `Content-Range` (the names `cachingFunc` itself puts into `alwaysInclude`).

  The model is a WRAPPER: every row that does not read the rule's headers is `Model.SysCache`'s own
  (`Props.SysCacheRH.stepOnceRH_nil`: with no response headers it IS `Model.SysCache.stepOnce`, so every theorem
  about the base model speaks about this one at `rh = []`).
-/
namespace Model.SysCacheRH
open Go Model Model.SysCache

/-- `for hname, hvals := range rf.ResponseHeaders { for … { alwaysInclude.Set(hname, hval) } }` -/
def applyRH (rh : List (Bytes × Bytes)) (ai : Header) : Header :=
  rh.foldl (fun h kv => h.set kv.1 kv.2) ai

/-- `rf.ResponseHeaders` as `getRoutingFlavors` builds it (`h.Set(k, v)` per configured pair) -/
def ruleHeader (rh : List (Bytes × Bytes)) : Header := applyRH rh []

/-- the rule's own response headers forbid storing (the second half of the condition the repair of C05-e added) -/
def ruleForbids (rh : List (Bytes × Bytes)) : Bool := (getCacheControlDirectives (ruleHeader rh)).doNotCache

/-- a writer row after the origin has answered (server.go:371-478), `ai` = alwaysInclude WITH the rule's headers -/
def afterAnswerRH (cfg : Config) (rh : List (Bytes × Bytes)) (now : Int) (keys : List Key) (rr : Option Range.ReqRange) (d : Disk)
    (ai : Header) (cs : List Contact) (reval : Option (Key × Stored × Int)) (w : Writer)
    (sg : Conditional.Surgery) (resp : Resp) : Step :=
  match rangeAdjust rr resp ai with
  | (some _, _, _) => afterAnswer cfg now keys rr d ai cs reval w sg resp
  | (none, statusOverride, ai') =>
    let dirs := getCacheControlDirectives resp.header
    if sg.used.length > 0 ∧ resp.status = 304 ∧ !dirs.doNotCache then afterAnswer cfg now keys rr d ai cs reval w sg resp
    else if !dirs.doNotCache ∧ ruleForbids rh then
      -- `dirs.DoNotCache() || GetCacheControlDirectives(rf.ResponseHeaders).DoNotCache()`: plain stack, the entry stays
      .done { disk := d, out := plainOut cfg resp (ai'.set kStatus b!"uncacheable") statusOverride, contacts := cs, label := "w:uncacheable-rule" }
    else afterAnswer cfg now keys rr d ai cs reval w sg resp

def writerRowRH (cfg : Config) (rh : List (Bytes × Bytes)) (origin : Bytes → Option Origin) (now : Int) (req : Request)
    (keys : List Key) (rr : Option Range.ReqRange) (d : Disk) (client ai : Header) (cs : List Contact)
    (reval : Option (Key × Stored × Int)) : Step :=
  let w := writerOf keys client reval
  let sg := surgeryOf rr client reval
  match ask cfg origin req cs sg.req with
  | none => .done { disk := d, out := errorJSON 502 b!"Destination unreachable", contacts := logged cfg cs sg.req, label := "w:err" }
  | some resp => afterAnswerRH cfg rh now keys rr d ai (logged cfg cs sg.req) reval w sg resp

/-- one activation of `cachingFunc` for a rule with response headers `rh` -/
def stepOnceRH (cfg : Config) (rh : List (Bytes × Bytes)) (origin : Bytes → Option Origin) (now : Int) (req : Request)
    (d : Disk) (client ai : Header) (skipRevalidate : Bool) (cs : List Contact) : Step :=
  if req.method ≠ b!"GET" ∧ req.method ≠ b!"HEAD" then
    match ask cfg origin req cs client with
    | none => .done { disk := d, out := errorJSON 502 b!"Destination unreachable", contacts := logged cfg cs client, label := "u:err" }
    | some resp =>
      .done { disk := d, out := plainOut cfg resp ((applyRH rh ai).set kStatus b!"pass") none, contacts := logged cfg cs client, label := "u:pass" }
  else
  let keys := keysOf cfg req client
  let rr := Range.getRange client
  match lookup cfg now keys d client skipRevalidate with
  | (d, .panic) => .done { disk := d, out := { wrote := false }, contacts := cs, label := "g:panic" }
  | (d, .notModified s) =>
    -- the row `f:304` returns BEFORE the rule's headers are put into alwaysInclude
    let h := Conditional.suffixETag cfg.sfx
      (Conditional.copyHeaders (Conditional.allow304 s.meta.respHeader) (ai.set kStatus b!"hit"))
    .done { disk := d, out := { status := 304, header := h }, contacts := cs, label := "f:304" }
  | (d, .serve s age stale) =>
    let (o, l) := foundHit cfg s age stale (applyRH rh ai) rr
    .done { disk := d, out := o, contacts := cs, label := if stale then l ++ ":stale" else l }
  | (d, .writer reval) => writerRowRH cfg rh origin now req keys rr d client (applyRH rh ai) cs reval

/-- the activation that finds the key held by its own request (`Step.reenterLocked`, only after a writer row): the
    alwaysInclude map it is handed already carries the rule's headers (they were `Set` before the writer row asked the
    origin), so putting them there once more changes nothing: the base model's row as it is -/
def lockedReentryRH (cfg : Config) (origin : Bytes → Option Origin) (now : Int) (req : Request)
    (d : Disk) (client ai : Header) (cs : List Contact) : Ans :=
  lockedReentry cfg origin now req d client ai cs

def cachingFuncRH (cfg : Config) (rh : List (Bytes × Bytes)) (origin : Bytes → Option Origin) (now : Int) (req : Request) :
    Nat → Disk → Header → Header → Bool → List Contact → Ans
  | 0, d, _, _, _, cs => { disk := d, out := { wrote := false }, contacts := cs, label := "fuel" }
  | fuel + 1, d, client, ai, skipRevalidate, cs =>
    match stepOnceRH cfg rh origin now req d client ai skipRevalidate cs with
    | .done a => a
    | .reenter d' client' ai' skip' cs' tag =>
      let a := cachingFuncRH cfg rh origin now req fuel d' client' ai' skip' cs'
      { a with label := tag ++ a.label }
    | .reenterLocked d' client' ai' cs' tag =>
      let a := lockedReentryRH cfg origin now req d' client' ai' cs'
      { a with label := tag ++ a.label }

def stepRH (cfg : Config) (rh : List (Bytes × Bytes)) (s : State) : Op → State × Option Obs
  | .tick dt => ({ s with now := s.now + dt }, none)
  | .setOrigin p o => ({ s with origin := fun p' => if p' = p then some o else s.origin p' }, none)
  | .req r =>
    let a := cachingFuncRH cfg rh s.origin s.now r defaultFuel s.disk r.header [] false []
    ({ s with disk := a.disk }, some (obsOf r a))

def runRH (cfg : Config) (rh : List (Bytes × Bytes)) : State → List Op → List Obs
  | _, [] => []
  | s, op :: ops =>
    match stepRH cfg rh s op with
    | (s', some o) => o :: runRH cfg rh s' ops
    | (s', none) => runRH cfg rh s' ops

end Model.SysCacheRH
