import RrModel.Routing
import RrModel.Go.Url
/-
  proxy/proxy.go createOutgoingURLs (651-696) and the URL of the outgoing request
  (createProxyRequest: http.NewRequestWithContext(ctx, method, url.String(), body)), at the
  split level of Go/Url.lean.
-/
namespace Model
open Go

/-- what `createOutgoingURLs` computes for one match: the parsed target with RawQuery and
    Fragment overwritten from the source URL (proxy.go:671-679) -/
def outgoingURL (target srcRawQuery srcFragment : Bytes) : Option Url.Split :=
  (Url.split target).map fun u => { u with rawQuery := srcRawQuery, fragment := srcFragment }

/-- `url.Parse` also rejects a target whose path or fragment carries a malformed `%` escape
    (the only deeper validation a *capture* can trigger: it always lands behind the authority) -/
def targetEscapesOk (target : Bytes) : Bool :=
  match Url.split target with
  | some u => Url.escapesOk u.path && Url.escapesOk u.fragment
  | none => false

/-- the raw query the destination finally sees: the URL is rendered with `String()` and parsed
    again when the outgoing request is built (proxy.go:566) -/
def sentRawQuery (u : Url.Split) : Bytes := Url.queryAfterReparse u.rawQuery

/-- capture of a wildcard rule for a request-target (rule.go:149); the root special case
    captures nothing -/
def capture (r : Rule) (uri : Bytes) : Bytes :=
  match r.wci with
  | some wcIdx => if uri = b!"/" ∧ (r.path = b!"*" ∨ r.path = b!"/*") then [] else uri.drop wcIdx
  | none => []

end Model
