import RrModel.Go.Strings
import RrModel.Go.Strconv
import RrModel.Go.Header
/-
  Range handling of the caching handler, written branch for branch from
    server/server.go   getRange (972-1022), requestRange.start/end/size/contentRangeValue (919-970),
                       setRangedHeaders (630-647), sendBody's window (649-685),
                       the Found branch (224-259) and the writer branch (342-351, 728-783)
    caching/caching.go contentLengthFromRange (858-870), cachingResponseWriter.WriteHeader 206→200 (636-645)
  All arithmetic is Go's `int64`: exact `Int` followed by `wrap64` after every operation that can leave
  the range (two's-complement wrap-around, which is what the compiled code does).
-/
namespace Model.Range
open Go

/-- two's-complement wrap-around of an exact integer into `int64` -/
def wrap64 (x : Int) : Int := (x + 9223372036854775808) % 18446744073709551616 - 9223372036854775808

/-- `requestRange{s, e *int64}`; the suffix form `-k` is stored as `s = nil`, `e = -k` -/
structure ReqRange where
  s : Option Int
  e : Option Int
  deriving DecidableEq, Repr

/-- `(*requestRange).start` (server.go:924-939); the suffix form is clamped at the first byte:
    `start := cl + *rr.e; if start < 0 { return 0 }; return start` (fix of C15-a) -/
def ReqRange.start (rr : ReqRange) (cl : Int) : Int :=
  match rr.s, rr.e with
  | some s, some _ => s
  | none, some e =>
    let start := wrap64 (cl + e)
    if start < 0 then 0 else start
  | some s, none => s
  | none, none => 0

/-- `(*requestRange).end` (server.go:941-951) -/
def ReqRange.end (rr : ReqRange) (cl : Int) : Int :=
  match rr.s, rr.e with
  | some _, some e => e
  | none, some _ => wrap64 (cl - 1)
  | some _, none => wrap64 (cl - 1)
  | none, none => wrap64 (cl - 1)

/-- `(*requestRange).size` (server.go:953-966); the `*rr.s == 0` special case computes the same value;
    the suffix form is `cl - rr.start(cl)` (fix of C15-a) -/
def ReqRange.size (rr : ReqRange) (cl : Int) : Int :=
  match rr.s, rr.e with
  | some s, some e => wrap64 (wrap64 (e - s) + 1)
  | none, some _ => wrap64 (cl - rr.start cl)
  | some s, none => wrap64 (cl - s)
  | none, none => cl

/-- `(*requestRange).contentRangeValue`: `fmt.Sprintf("bytes %v-%v/%v", start, end, cl)` -/
def ReqRange.contentRangeValue (rr : ReqRange) (cl : Int) : Bytes :=
  b!"bytes " ++ itoa (rr.start cl) ++ b!"-" ++ itoa (rr.end cl) ++ b!"/" ++ itoa cl

/-- `len(x) == 0 ⇒ nil`, else `strconv.ParseInt(x, 10, 64)`; outer `none` = parse error -/
def optInt (x : Bytes) : Option (Option Int) :=
  if x.length = 0 then some none
  else match parseInt x with
    | some v => some (some v)
    | none => none

/-- the two texts `st`, `e` of getRange (server.go:968-981): a leading `-` makes the WHOLE rest the
    end text (sign included), otherwise the rest must split on `-` into exactly two parts -/
def rangeTexts (bs : Bytes) : Option (Bytes × Bytes) :=
  if index b!"-" bs = some 0 then some ([], bs)
  else match split1 45 bs with
    | [st, e] => some (st, e)
    | _ => none

/-- the part of `getRange` after `bs := splat[1]` (server.go:966-1007) -/
def parseBounds (bs : Bytes) : Option ReqRange :=
  match rangeTexts bs with
  | none => none
  | some (st, e) =>
    match optInt st with
    | none => none
    | some start =>
      match optInt e with
      | none => none
      | some end_ =>
        match start, end_ with
        | some sv, some ev => if ev < sv then none else some ⟨start, end_⟩
        | _, _ => some ⟨start, end_⟩

/-- `getRange` on the value of `h.Get("range")` (server.go:958-965, then `parseBounds`) -/
def getRangeValue (s : Bytes) : Option ReqRange :=
  if s.length = 0 then none
  else match split s b!"bytes=" with
    | [_, bs] => parseBounds bs
    | _ => none

/-- `getRange(h http.Header)` -/
def getRange (h : Header) : Option ReqRange := getRangeValue (h.get b!"range")

/-- the header of a request that carries (at most) a Range line -/
def rangeOnlyHeader : Option Bytes → Header
  | none => []
  | some v => [(b!"Range", [v])]

/-- `x != nil && *x > lim` -/
def exceeds (x : Option Int) (lim : Int) : Bool :=
  match x with
  | some v => decide (v > lim)
  | none => false

/-- `rr.s == nil && rr.e != nil && *rr.e == 0`: the suffix form of length zero -/
def emptySuffix (r : ReqRange) : Bool :=
  match r.s, r.e with
  | none, some e => decide (e = 0)
  | _, _ => false

/-- `setRangedHeaders` (server.go:630-647): the status, and the values given to
    `h.Set("content-length", …)` and `h.Set("content-range", …)` when it gets that far; a suffix of
    length zero is unsatisfiable like a range beyond the resource (fix of C15-b) -/
def setRangedHeaders (rr : Option ReqRange) (contentLength : Int) (statusCode : Nat) :
    Nat × Option (Bytes × Bytes) :=
  match rr with
  | none => (statusCode, none)
  | some r =>
    if statusCode ≠ 200 ∨ contentLength ≤ 0 then (statusCode, none)
    else if exceeds r.s (wrap64 (contentLength - 1)) || exceeds r.e (wrap64 (contentLength - 1)) then (416, none)
    else if emptySuffix r then (416, none)
    else (206, some (itoa (r.size contentLength), r.contentRangeValue contentLength))

/-- what `sendBody` (server.go:649-685) copies to the client from a file with content `file`:
    `fd.Seek(start, 0)` fails for a negative offset (nothing is sent); `io.LimitReader(fd, n)` yields
    nothing for `n ≤ 0`; reading stops at end of file. A parsed range is applied unconditionally. -/
def sendBodyWindow (rr : Option ReqRange) (file : Bytes) : Bytes :=
  match rr with
  | none => file
  | some r =>
    let size : Int := file.length
    let start := r.start size
    if start < 0 then []
    else
      let readSize := r.size size
      if readSize ≤ 0 then [] else (file.drop start.toNat).take readSize.toNat

/-- `contentLengthFromRange` (caching.go:858-870) -/
def contentLengthFromRange (s : Bytes) : Bytes :=
  match split1 47 s with
  | [_, total] =>
    match atoi total with
    | some i => if i < 0 then [] else total
    | none => []
  | _ => []

/-- status, the two range-related response headers (`none` = header absent) and the body bytes the
    handler hands to the client's `http.ResponseWriter` -/
structure ClientView where
  status : Nat
  contentLength : Option Bytes
  contentRange : Option Bytes
  body : Bytes
  deriving DecidableEq, Repr

/-- `(*w).WriteHeader(s); return` before any header was copied -/
def bare (status : Nat) : ClientView := ⟨status, none, none, []⟩

inductive Path where
  | hit    -- entry found in the cache (`caching.Found`)
  | fill   -- this request fetches from the origin and fills the entry (`NotFoundWriter`)
  deriving DecidableEq, Repr

/-- a `Content-Length` header as the origin / the stored metadata carries it -/
def clText : Option Int → Option Bytes
  | none => none
  | some v => some (itoa v)

/-- headers after `clearAndCopyHeaders(w, stored-or-origin, alwaysInclude)`: the two values put
    into `alwaysInclude` by `setRangedHeaders` override what was copied -/
def mergedLength (copied : Option Bytes) (set : Option (Bytes × Bytes)) : Option Bytes :=
  match set with
  | some (cl, _) => some cl
  | none => copied

def mergedRange (set : Option (Bytes × Bytes)) : Option Bytes := set.map (·.2)

/-- the Found branch with a stored entry `(storedStatus, Content-Length header, body)`
    (server.go:224-259). `clh = none`: header absent or not a number (`Atoi` error ⇒ `cl = 0`). -/
def respondHit (storedStatus : Nat) (clh : Option Int) (body : Bytes) (rr : Option ReqRange) : ClientView :=
  match rr with
  | none => ⟨storedStatus, clText clh, none, sendBodyWindow none body⟩
  | some _ =>
    if body.length = 0 then bare 503                      -- `cr.Metadata.FdSize == 0`
    else if storedStatus = 200 then
      let cl : Int := clh.getD 0
      let (s, set) := setRangedHeaders rr cl storedStatus
      if s ≥ 400 then bare s
      else ⟨s, mergedLength (clText clh) set, mergedRange set, sendBodyWindow rr body⟩
    else ⟨storedStatus, clText clh, none, sendBodyWindow rr body⟩

/-- statuses `cachingResponseWriter.WriteHeader` / `storageWriter.WriteHeader` let into the store -/
def cacheGate (status : Nat) : Bool :=
  status = 200 || (400 ≤ status && status ≤ 404) || [301, 302, 303, 307, 308].contains status

/-- the writer branch (server.go:342-351, requestHandler, makeCachingWriteBody 718-773) for an
    origin response `(originStatus, ContentLength, body)`; `clh = none`: chunked, `ContentLength = -1`
    and no header. The whole origin body goes to the store first; the client is then served from
    the re-opened file through the same window. For a status outside the gate no file is created
    and the client receives no body (defect C05-a, kept). -/
def respondFill (originStatus : Nat) (clh : Option Int) (body : Bytes) (rr : Option ReqRange) : ClientView :=
  let file : Bytes := if cacheGate originStatus then body else []
  if rr.isSome ∧ originStatus = 200 then
    let (s, set) := setRangedHeaders rr (clh.getD (-1)) originStatus
    if s ≥ 400 then bare s
    else ⟨s, mergedLength (clText clh) set, mergedRange set, sendBodyWindow rr file⟩
  else ⟨originStatus, clText clh, none, sendBodyWindow rr file⟩

/-- the response to a request whose range has already been parsed -/
def respondParsed (path : Path) (status : Nat) (clh : Option Int) (body : Bytes) (rr : Option ReqRange) : ClientView :=
  match path with
  | .hit => respondHit status clh body rr
  | .fill => respondFill status clh body rr

/-- **the composed function**: what the client receives for a resource `(status, Content-Length
    header, body)` and a request with the given `Range` header (`none` = no such header), on the
    hit path and on the path that fills the entry -/
def respond (path : Path) (storedStatus : Nat) (contentLengthHeader : Option Int) (body : Bytes)
    (rangeHeader : Option Bytes) : ClientView :=
  respondParsed path storedStatus contentLengthHeader body (getRange (rangeOnlyHeader rangeHeader))

/-- whether the origin request of the filling path still carries the client's `Range` line:
    `if rRange != nil { r.Header.Del("range") }` (server.go:315-317) removes it only when `getRange`
    could parse it -/
def forwardsRange (rangeHeader : Option Bytes) : Bool :=
  rangeHeader.isSome && (getRange (rangeOnlyHeader rangeHeader)).isNone

/-- `cachingResponseWriter.WriteHeader` (caching.go:631-655): what goes to the store for the status
    and range headers sent to the client: `206` becomes `200`, `content-range` is dropped and
    `content-length` becomes the total taken from `content-range` (kept when that is empty) -/
def storeRewrite (v : ClientView) : Nat × Option Bytes :=
  if v.status = 206 then
    let cl := contentLengthFromRange (v.contentRange.getD [])
    (200, if cl.length > 0 then some cl else v.contentLength)
  else (v.status, v.contentLength)

/-- whether the filling request leaves a published entry: the early `416` returns before anything is
    written; `storageWriter.Close` deletes a zero-length file unless the status is a cacheable error
    or a redirect (disk.go:1134) -/
def fillPublishes (originStatus : Nat) (body : Bytes) (v : ClientView) : Bool :=
  cacheGate originStatus && v.status ≠ 416 &&
    !(body.length = 0 && !(400 ≤ originStatus && originStatus ≤ 404) && ![301, 302, 303, 307, 308].contains originStatus)

/-- the entry a published fill leaves behind, as the hit path reads it: status after the 206→200
    rewrite and `strconv.Atoi` of the stored `Content-Length` text -/
def storedAfterFill (v : ClientView) : Nat × Option Int :=
  let (st, cl) := storeRewrite v
  (st, cl.bind atoi)

/-- a request that fills the entry followed by the same request again: the second response is a
    hit (`some`) only if the first one published the entry -/
def fillThenHit (originStatus : Nat) (clh : Option Int) (body : Bytes) (rangeHeader : Option Bytes) :
    ClientView × Option ClientView :=
  let first := respond .fill originStatus clh body rangeHeader
  if fillPublishes originStatus body first then
    let (st, cl) := storedAfterFill first
    (first, some (respond .hit st cl body rangeHeader))
  else (first, none)

end Model.Range
