import RrModel.Key
import RrModel.Target
import RrModel.CacheControl
/-
  The keyed cache at SYSTEM level, as far as C11 needs it: which entry a request is served from,
  which entry it fills, and which key it holds while it does so.  Read off

    server/server.go   cachingFunc: keys := KeysFromRequest(ruleDestinationRequest(r, rule)) (140),
                       cache.Get(keys) (141), the coalescing wait with `key = waitedKeyInfo.Key`
                       and the second Get with `[]Key{waitedKeyInfo.Key}` (170-198), the writer
                       branch (311-457): shouldSkip ⇒ SetDiskWritesDisabled, DoNotCache ⇒
                       "uncacheable" + Finish(key), the `Vary: Origin` re-keying loop
                       `for k in keys { if k.HasFullOrigin() { ChangeKey(k) } }` under
                       `dirs.VaryByOrigin() && key.HasOpaqueOrigin()` (428-438), `defer Finish(key)`
    caching/caching.go cache.Get (miss ⇒ notFoundPreferredKey ⇒ getReaderOrWriter; found and fresh
                       ⇒ Found), getReaderOrWriter (lock table `waitingReaders` keyed by FsName
                       ONLY — not by cache id), readerNotifier (wakes every waiter of the name with
                       the KeyInfo it received), cachingResponseWriter (ChangeKey is a no-op when
                       disk writes are disabled)
    caching/disk.go    storage.Get (first key of the list whose file exists), storageWriter
                       WriteHeader/Close (file at `sw.path`, replaced through `.tmp` when it exists;
                       a zero-length body is refused unless `sw.key.method == "HEAD"`), notify
                       (`sw.key`, then `*sw.oldKey`), ChangeKey (`sw.path` := the new key's path;
                       `oldKey` := the old key WITHOUT its method field; `sw.key` := the new key)

  Domain (what stream `sysk` generates): GET/HEAD on cache-enabled rules, origin answers 200 with
  a non-empty body, no validators, entries never expire within a history (ticks stay below every
  max-age), at most two requests in flight at once.  Outside it the functions return a marker
  response (`outside-domain:…`) so that a difference shows.

  An entry is described by the request it was generated for (`Tag`): the scripted origin echoes
  exactly that.
-/
namespace Model.KeySys
open Go Model

/-- what an origin was asked: destination host, request-target, method, key headers -/
structure Tag where
  host : Bytes
  uri : Bytes
  method : Bytes
  ae : List Bytes
  auth : List Bytes
  origin : List Bytes
  deriving DecidableEq, Repr

/-- a client request as sent: origin-form target, Host, header lines in wire order -/
structure CReq where
  method : Bytes
  host : Bytes
  target : Bytes
  lines : List (Bytes × Bytes)
  deriving DecidableEq, Repr

def CReq.header (r : CReq) : Header := r.lines.foldl (fun h kv => Header.add h kv.1 kv.2) []

/-- the `*http.Request` the key derivation reads (origin-form: `r.URL.Scheme/Host` empty) -/
def CReq.toReq (r : CReq) : Req :=
  { method := r.method, host := r.host, uri := r.target, header := r.header }

/-- the query of the client's request-target (what follows the first `?`) -/
def clientRawQuery (uri : Bytes) : Bytes := (Url.cut1 63 uri).2.1

/-- what the destination is asked for: `createOutgoingURLs` (target re-parsed, RawQuery := the
    client's) rendered and parsed again by `createProxyRequest`; (URL host, request-target) -/
def contact (rule : Rule) (scheme host uri : Bytes) : Option (Bytes × Bytes) :=
  match attemptMatch rule scheme host uri with
  | none => none
  | some t =>
    match outgoingURL t (clientRawQuery uri) [] with
    | none => none
    | some u =>
      match UrlEsc.escapedPath u.path with
      | none => none
      | some p =>
        let q := sentRawQuery u
        some (UrlEsc.hostOfAuthority (u.authority.getD []),
              UrlEsc.wirePath p ++ (if q = [] then [] else b!"?" ++ q))

/-! ### the scripted origin of stream `sysk` (harness/streams/sysk.go: skVaryOf, skCCOf) -/

def varyOf (uri : Bytes) : Bytes :=
  if contains uri b!"va" then b!"Accept-Encoding, Origin"
  else if contains uri b!"vo" then b!"Origin"
  else if contains uri b!"vx" then b!"Accept-Encoding"
  else []

def ccOf (uri : Bytes) : Bytes :=
  if contains uri b!"ns" then b!"no-store"
  else if contains uri b!"nc" then []
  else if contains uri b!"ml" then b!"public, max-age=600"
  else b!"max-age=60"

/-- the response headers the origin sends for a request-target, as far as the cache reads them -/
def originHeader (uri : Bytes) : Header :=
  let h : Header := []
  let h := if ccOf uri = [] then h else Header.set h b!"Cache-Control" (ccOf uri)
  if varyOf uri = [] then h else Header.set h b!"Vary" (varyOf uri)

/-! ### state -/

structure Entry where
  /-- the request the stored response was generated for -/
  tag : Tag
  created : Nat
  /-- filled by a HEAD fetch: headers only, no body bytes on disk -/
  head : Bool
  deriving DecidableEq, Repr

structure St where
  now : Nat := 0
  /-- (cache id, FsName) ↦ entry -/
  disk : List ((Bytes × Bytes) × Entry) := []
  deriving Repr

def St.find (s : St) (cache name : Bytes) : Option Entry :=
  (s.disk.find? fun e => e.1 == (cache, name)).map (·.2)

def St.put (s : St) (cache name : Bytes) (e : Entry) : St :=
  { s with disk := ((cache, name), e) :: s.disk.filter fun x => x.1 != (cache, name) }

def nameOf (k : Key) : Bytes :=
  match fsName k with
  | .ok n => n
  | .panic _ => []

/-! ### responses -/

inductive BodyKind where
  | echo      -- the body generated together with the echo header
  | empty
  | other     -- something else (rrrouter's own error text)
  deriving DecidableEq, Repr

structure Resp where
  status : Nat := 200
  cacheStatus : Bytes := []
  age : Option Nat := none
  tag : Option Tag := none
  body : BodyKind := .empty
  framing : String := "complete"
  vary : Bytes := []
  cc : Bytes := []
  contacts : Nat := 0
  deriving DecidableEq, Repr

def marker (what : String) : Resp := { status := 0, cacheStatus := ofString ("outside-domain:" ++ what) }

/-- a routed request: rule, own keys (server.go:140), what the origin would be asked -/
structure Ctx where
  req : CReq
  rule : Rule
  keys : List Key
  tag : Tag
  deriving Repr

def Ctx.isHead (x : Ctx) : Bool := x.req.method == b!"HEAD"
def Ctx.cache (x : Ctx) : Bytes := x.rule.cacheId

/-- routing of a client request through a plain-HTTP listener (C01): first matching rule -/
def route (rules : List Rule) (r : CReq) : Option Ctx :=
  match (matchRules rules ⟨b!"http", r.host, r.target, r.method⟩).proxy with
  | none => none
  | some (i, _) =>
    match rules[i]? with
    | none => none
    | some rule =>
      match contact rule b!"http" r.host r.target with
      | none => none
      | some (h, u) =>
        let hd := r.header
        some { req := r, rule := rule, keys := requestKeys rule r.toReq,
               tag := { host := h, uri := u, method := r.method,
                        ae := Header.values hd b!"Accept-Encoding",
                        auth := Header.values hd b!"Authorization",
                        origin := Header.values hd b!"Origin" } }

/-- `storage.Get(keys)`: the first key of the list that has an entry in the rule's storage -/
def lookup (s : St) (cache : Bytes) : List Key → Option (Key × Entry)
  | [] => none
  | k :: ks =>
    match s.find cache (nameOf k) with
    | some e => some (k, e)
    | none => lookup s cache ks

/-- the freshness half of `cache.Get`, as far as this domain goes: max-age against the age -/
def isFresh (s : St) (e : Entry) : Bool :=
  let dirs := getCacheControlDirectives (originHeader e.tag.uri)
  match dirs.sMaxAge, dirs.maxAge with
  | some m, _ => decide (((s.now - e.created : Nat) : Int) < m)
  | none, some m => decide (((s.now - e.created : Nat) : Int) < m)
  | none, none => true

/-- the `Found` branch (server.go:204-263): stored headers and body, `hit`, Age.  A GET served
    from an entry a HEAD fetch filled declares the stored Content-Length and sends no bytes. -/
def hitResp (s : St) (x : Ctx) (e : Entry) : Resp :=
  if isFresh s e then
    { cacheStatus := b!"hit", age := some (s.now - e.created), tag := some e.tag,
      body := if x.isHead || e.head then .empty else .echo,
      framing := if !x.isHead && e.head then "cutshort" else "complete",
      vary := varyOf e.tag.uri, cc := ccOf e.tag.uri, contacts := 0 }
  else marker "stale-entry"

/-! ### the writer branch -/

/-- `storageWriter` as far as keys go -/
structure Writer where
  key : Key
  oldKey : Option Key := none
  deriving Repr

/-- `storageWriter.ChangeKey`: the old key is kept WITHOUT its method (disk.go:1275) -/
def changeKey (w : Writer) (k : Key) : Writer :=
  { key := k, oldKey := some { w.key with method := [] } }

/-- the re-keying loop (server.go:428-438): under `dirs.VaryByOrigin() && key.HasOpaqueOrigin()`
    every one of the request's OWN keys that `HasFullOrigin()` is handed to `ChangeKey` -/
def rekeyWriter (x : Ctx) (inHand : Key) (varyByOrigin : Bool) : Writer :=
  if varyByOrigin && inHand.hasOpaqueOrigin then
    (x.keys.filter (·.hasFullOrigin)).foldl changeKey { key := inHand }
  else { key := inHand }

structure FillOut where
  st : St
  resp : Resp
  /-- the notifications this request sends to the notifier, in order -/
  notes : List Key
  /-- did the Vary: Origin re-keying run -/
  rekeyed : Bool := false
  deriving Repr

/-- the writer branch for request `x` holding key `inHand` (its own preferred key, or — after a
    coalescing wait — the key the notifier delivered) -/
def fill (s : St) (x : Ctx) (inHand : Key) : FillOut :=
  let skip := shouldSkipCaching x.req.header []
  let dirs := getCacheControlDirectives (originHeader x.tag.uri)
  let base : Resp :=
    { tag := some x.tag, body := if x.isHead then .empty else .echo,
      vary := varyOf x.tag.uri, cc := ccOf x.tag.uri, contacts := 1 }
  if dirs.doNotCache then
    -- "uncacheable": Finish(key) at once, written straight to the client, deferred Finish(key)
    { st := s, resp := { base with cacheStatus := b!"uncacheable" }, notes := [inHand, inHand] }
  else if skip then
    -- disk writes disabled: ChangeKey is a no-op, nothing is stored; deferred Finish(key) only
    { st := s, resp := { base with cacheStatus := b!"pass", age := some 0 }, notes := [inHand] }
  else
    let w := rekeyWriter x inHand dirs.varyByOrigin
    let rekeyed := w.oldKey.isSome
    let resp := { base with cacheStatus := b!"miss", age := some 0 }
    -- Close: a zero-length file is refused unless the writer's key says HEAD
    if x.isHead && w.key.method != b!"HEAD" then
      { st := s, resp := resp, notes := [inHand], rekeyed := rekeyed }
    else
      { st := s.put x.cache (nameOf w.key) { tag := x.tag, created := s.now, head := x.isHead },
        resp := resp,
        notes := [w.key] ++ w.oldKey.toList ++ [inHand],
        rekeyed := rekeyed }

/-! ### one request -/

inductive Start where
  /-- served without the origin -/
  | done (r : Resp)
  /-- holds the lock of `nameOf inHand`, goes to the origin -/
  | writer (inHand : Key)
  /-- parked on the wait channel of this entry name -/
  | waiter (name : Bytes)
  deriving Repr

/-- `cache.Get(keys)` with the lock table `locks` (entry names that have a writer in flight) -/
def start (s : St) (x : Ctx) (locks : List Bytes) : Start :=
  if cacheBypassed x.cache true x.req.method then .done (marker "method")
  else
    match lookup s x.cache x.keys with
    | some (_, e) => .done (hitResp s x e)
    | none =>
      match notFoundPreferredKey x.keys with
      | .panic _ => .done (marker "no-keys")
      | .ok k => if locks.contains (nameOf k) then .waiter (nameOf k) else .writer k

/-- no rule matches: `rf.CacheId` is empty, `RouteRequest` fails with the user error 404
    (JSON text; nothing for HEAD) -/
def unroutedResp (r : CReq) : Resp :=
  { status := 404, body := if r.method == b!"HEAD" then .empty else .other }

/-- a request with nothing else in flight -/
def single (s : St) (r : CReq) (x : Option Ctx) : FillOut :=
  match x with
  | none => { st := s, resp := unroutedResp r, notes := [] }
  | some x =>
    match start s x [] with
    | .done r => { st := s, resp := r, notes := [] }
    | .writer k => fill s x k
    | .waiter _ => { st := s, resp := marker "waiter-without-writer", notes := [] }

/-- a woken waiter (server.go:175-177): `cache.Get([]Key{delivered})`, `key = delivered`; its own
    `keys` stay what they were -/
def resume (s : St) (x : Ctx) (delivered : Key) : FillOut :=
  match lookup s x.cache [delivered] with
  | some (_, e) => { st := s, resp := hitResp s x e, notes := [] }
  | none => fill s x delivered

inductive Overlap where
  | seq | free | parked
  deriving DecidableEq, Repr

def Overlap.toString : Overlap → String
  | .seq => "seq" | .free => "free" | .parked => "parked"

structure PairOut where
  st : St
  how : Overlap
  r1 : Resp
  r2 : Resp
  /-- a woken waiter became a writer itself / re-keyed -/
  wokenFilled : Bool := false
  rekeyed : Bool := false
  deriving Repr

/-- `r2` is issued while the origin holds `r1`'s answer; `r1`'s answer is released once `r2` has
    completed or is parked; a woken `r2` that goes to the origin is answered after `r1`'s end -/
def pair (s : St) (r1 : CReq) (x1 : Option Ctx) (r2 : CReq) (x2 : Option Ctx) : PairOut :=
  match x1 with
  | none =>
    let f2 := single s r2 x2
    { st := f2.st, how := .seq, r1 := unroutedResp r1, r2 := f2.resp, rekeyed := f2.rekeyed }
  | some c1 =>
    match start s c1 [] with
    | .done resp1 =>
      -- served without the origin: nothing to overlap with
      let f2 := single s r2 x2
      { st := f2.st, how := .seq, r1 := resp1, r2 := f2.resp, rekeyed := f2.rekeyed }
    | .waiter _ => { st := s, how := .seq, r1 := marker "waiter-without-writer", r2 := marker "-" }
    | .writer k1 =>
      match x2 with
      | none =>
        let f1 := fill s c1 k1
        { st := f1.st, how := .free, r1 := f1.resp, r2 := unroutedResp r2, rekeyed := f1.rekeyed }
      | some c2 =>
        match start s c2 [nameOf k1] with
        | .done resp2 =>
          let f1 := fill s c1 k1
          { st := f1.st, how := .free, r1 := f1.resp, r2 := resp2, rekeyed := f1.rekeyed }
        | .writer k2 =>
          -- another entry name: r2 fetches and completes while r1's answer is held
          let f2 := fill s c2 k2
          let f1 := fill f2.st c1 k1
          { st := f1.st, how := .free, r1 := f1.resp, r2 := f2.resp, rekeyed := f1.rekeyed || f2.rekeyed }
        | .waiter n =>
          let f1 := fill s c1 k1
          -- the notifier delivers the first notification for the name the waiter is registered under
          match f1.notes.find? fun k => nameOf k == n with
          | none => { st := f1.st, how := .parked, r1 := f1.resp, r2 := marker "never-woken" }
          | some delivered =>
            let f2 := resume f1.st c2 delivered
            { st := f2.st, how := .parked, r1 := f1.resp, r2 := f2.resp,
              wokenFilled := decide (f2.resp.contacts > 0), rekeyed := f1.rekeyed || f2.rekeyed }

/-! ### histories -/

inductive Step where
  | tick (dt : Nat)
  | one (r : CReq)
  | two (r1 r2 : CReq)
  deriving Repr

/-- what a step produced: each request with the response it received -/
inductive Out where
  | one (r : CReq) (resp : Resp)
  | two (how : Overlap) (r1 : CReq) (resp1 : Resp) (r2 : CReq) (resp2 : Resp)
  deriving Repr

/-- the (request, response) pairs of a step -/
def Out.served : Out → List (CReq × Resp)
  | .one r resp => [(r, resp)]
  | .two _ r1 resp1 r2 resp2 => [(r1, resp1), (r2, resp2)]

structure RunOut where
  st : St := {}
  outs : List Out := []
  anyRekey : Bool := false
  anyWokenFill : Bool := false
  deriving Repr

def step (rules : List Rule) (acc : RunOut) : Step → RunOut
  | .tick dt => { acc with st := { acc.st with now := acc.st.now + dt } }
  | .one r =>
    let f := single acc.st r (route rules r)
    { acc with st := f.st, outs := acc.outs ++ [.one r f.resp], anyRekey := acc.anyRekey || f.rekeyed }
  | .two r1 r2 =>
    let p := pair acc.st r1 (route rules r1) r2 (route rules r2)
    { st := p.st, outs := acc.outs ++ [.two p.how r1 p.r1 r2 p.r2],
      anyRekey := acc.anyRekey || p.rekeyed, anyWokenFill := acc.anyWokenFill || p.wokenFilled }

def run (rules : List Rule) (steps : List Step) : RunOut := steps.foldl (step rules) {}

/-- the client requests of a history, in order -/
def Step.requests : Step → List CReq
  | .tick _ => []
  | .one r => [r]
  | .two a b => [a, b]

def requestsOf (steps : List Step) : List CReq := steps.flatMap Step.requests

end Model.KeySys
