/-
  Interleaving semantics of the cache front for ONE key (C12, C13): request threads with program
  counters, the lock table entry `waitingReaders[k]`, the single notifier goroutine, the entry's
  file state, the origin.  One model step = the code between two `verifhook` points (DESIGN
  Appendix B).  Keys interact only through ChangeKey (not modelled here), so per-key statements
  lift to the lock table by independence.

  Maps are total functions with point update (`setT`), executable over an explicit thread count.
-/
namespace Model.Conc

/-- the entry's file under its final name -/
inductive FileSt where
  | absent
  /-- created by a fresh fill, no metadata yet (disk.go:961-982 … before xattr.Set) -/
  | unpublished
  /-- metadata set: `v` = origin version stored, `whole` = all bytes present, `fresh` = within lifetime -/
  | published (v : Nat) (whole fresh : Bool)
  deriving DecidableEq, Repr

/-- what an origin fetch of this thread runs into (C13 fault kinds) -/
inductive Fault where
  | none
  | connectErr      -- RouteRequest fails: 502
  | readErr         -- origin body read error after some bytes
  | uncacheable     -- response carries no-store etc.
  deriving DecidableEq, Repr

inductive View where
  | nothing
  | headers (v : Nat)            -- status + Content-Length sent, body not (yet)
  | complete (v : Nat) (stale : Bool)
  | truncated (v : Nat)          -- a strict prefix of version v, well framed or cut short
  | error (code : Nat)
  deriving DecidableEq, Repr

inductive Pc where
  | start                         -- before storage.Get
  | lookedUp (reval : Bool)       -- storage.Get missed (or entry stale ⇒ reval); before getReaderOrWriter
  | route (reval : Bool)          -- writer, lock taken; before RouteRequest (origin headers)
  | whCreate (reval : Bool)       -- status+headers at the client; before file creation
  | write (reval : Bool)          -- file created; before the body write (origin body read here)
  | close (reval : Bool) (readFailed : Bool)   -- before storageWriter.Close's publication
  | notify (next : Nat)           -- inside Close / Finish: blocked on the notifier rendezvous
                                  --   next: 0 = sendBody, 1 = errCleanup+finish, 2 = finish, 3 = done
  | sendBody                      -- before re-opening the written file and streaming it
  | cleanup                       -- errCleanup: storageWriter.Delete
  | waiting                       -- parked on the wait channel
  | done
  deriving DecidableEq, Repr

structure Thread where
  pc : Pc := .start
  fault : Fault := .none
  view : View := .nothing
  /-- fetched version (fixed when the origin answers) -/
  ver : Nat := 0
  /-- an origin fetch of this thread is in flight (between `route` and the end of its body) -/
  fetching : Bool := false
  /-- this thread created the file it is writing (fresh fill at the final name) -/
  ownsFile : Bool := false
  /-- its own file was removed under it -/
  fileLost : Bool := false
  /-- a message is in its wait channel -/
  woken : Bool := false
  /-- CanUseStale of the message -/
  wokenStale : Bool := false
  deriving DecidableEq, Repr

inductive Notifier where
  | idle
  /-- received a KeyInfo sent by thread `sender`, about to lock, fan out and delete the lock -/
  | got (sender : Nat)
  deriving DecidableEq, Repr

structure Sys where
  n : Nat                                   -- number of threads
  threads : Nat → Thread
  file : FileSt := .absent
  /-- `.tmp` file of a revalidating fill exists -/
  tmp : Bool := false
  /-- `waitingReaders[k]`: none = no entry; some ws = locked, waiters ws -/
  lock : Option (List Nat) := none
  /-- ghost: the thread that took the lock entry currently present -/
  holder : Option Nat := none
  notifier : Notifier := .idle
  originVersion : Nat := 1
  /-- log: number of origin fetches started, maximum concurrently in flight -/
  fetches : Nat := 0
  maxInFlight : Nat := 0
  /-- ghost: releases that deleted a lock entry taken by ANOTHER thread (finding C12-b) -/
  staleReleases : Nat := 0
  /-- ghost: metadata-less files of a live writer removed by another request's Get (finding C12-a) -/
  liveRemovals : Nat := 0
  /-- ghost: "Could not get writer" — a request that missed in storage.Get takes the lock after the
      entry has meanwhile been published and released (GetWriter refuses): answered 500 -/
  lateWriters : Nat := 0

def setT (f : Nat → Thread) (i : Nat) (t : Thread) : Nat → Thread := fun j => if j = i then t else f j

inductive Actor where
  | thread (i : Nat)
  | notifier
  | expire            -- the entry's lifetime passes
  | originChange      -- the origin publishes a new version
  deriving DecidableEq, Repr

def inFlight (s : Sys) : Nat := ((List.range s.n).filter fun i => (s.threads i).fetching).length

/-- `storage.Get` as one step (disk.go:353-399) including its self-healing removal -/
def stepStart (s : Sys) (i : Nat) (t : Thread) : Sys :=
  match s.file with
  | .absent => { s with threads := setT s.threads i { t with pc := .lookedUp false } }
  | .unpublished =>
    -- a file without readable metadata is "corrupt": REMOVED, even though a live writer owns it
    { s with file := .absent,
             liveRemovals := s.liveRemovals + (if (List.range s.n).any (fun j => decide (j ≠ i) && (s.threads j).ownsFile) then 1 else 0),
             threads := fun j =>
               let u := if j = i then { t with pc := .lookedUp false } else s.threads j
               if u.ownsFile ∧ j ≠ i then { u with fileLost := true } else u }
  | .published v whole fresh =>
    if fresh then
      { s with threads := setT s.threads i { t with pc := .done, view := if whole then .complete v false else .truncated v } }
    else { s with threads := setT s.threads i { t with pc := .lookedUp true } }

/-- `getReaderOrWriter` under the mutex (caching.go:290-334): first caller becomes the writer -/
def stepLookedUp (s : Sys) (i : Nat) (t : Thread) (reval : Bool) : Sys :=
  match s.lock with
  | none =>
    -- GetWriter refuses when the entry path exists and the writer is not revalidating
    if s.file ≠ .absent ∧ ¬ reval then
      -- "Could not get writer": the lock entry stays; cache.Get's error path calls Finish(key)
      { s with lock := some [], holder := some i, lateWriters := s.lateWriters + 1,
               threads := setT s.threads i { t with pc := .notify 3, view := .error 500 } }
    else { s with lock := some [], holder := some i, threads := setT s.threads i { t with pc := .route reval } }
  | some ws =>
    { s with lock := some (ws ++ [i]), threads := setT s.threads i { t with pc := .waiting, woken := false } }

def bumpFetch (s : Sys) : Sys :=
  let s' := { s with fetches := s.fetches + 1 }
  { s' with maxInFlight := max s'.maxInFlight (inFlight s') }

/-- the writer branch, one step per program counter (server.go:306-451, disk.go:940-1211) -/
def stepThread (s : Sys) (i : Nat) : Option Sys :=
  let t := s.threads i
  if i ≥ s.n then none else
  match t.pc with
  | .start => some (stepStart s i t)
  | .lookedUp reval => some (stepLookedUp s i t reval)
  | .route reval =>
    match t.fault with
    | .connectErr =>
      -- RouteRequest error ⇒ writeError 502; the deferred Finish releases the key
      some { s with threads := setT s.threads i { t with pc := .notify 3, view := .error 502 } }
    | .uncacheable =>
      -- DoNotCache: explicit early Finish, plain pass-through, then the deferred Finish
      let t' : Thread := { t with pc := .notify 2, ver := s.originVersion, fetching := false,
                                  view := .complete s.originVersion false }
      some (bumpFetch { s with threads := setT s.threads i t' })
    | _ =>
      let t' : Thread := { t with pc := .whCreate reval, ver := s.originVersion, fetching := true }
      some (bumpFetch { s with threads := setT s.threads i t' })
  | .whCreate reval =>
    -- cachingResponseWriter.WriteHeader: client first, then the file
    if reval then some { s with tmp := true, threads := setT s.threads i { t with pc := .write reval, view := .headers t.ver } }
    else
      match s.file with
      | .absent => some { s with file := .unpublished,
                                 threads := setT s.threads i { t with pc := .write reval, view := .headers t.ver, ownsFile := true } }
      | _ => -- the name is taken again (createIfNotExists ⇒ exists): written through `.tmp`
        some { s with tmp := true, threads := setT s.threads i { t with pc := .write true, view := .headers t.ver } }
  | .write reval =>
    -- the body is read from the origin and written; a read error still leads to Close (writeBody)
    some { s with threads := setT s.threads i { t with pc := .close reval (t.fault = .readErr), fetching := false } }
  | .close reval readFailed =>
    if reval then
      if s.tmp then
        -- xattr on the tmp file, rename over the entry
        some { s with tmp := false, file := .published t.ver (!readFailed) true,
                      threads := setT s.threads i { t with pc := .notify (if readFailed then 1 else 0) } }
      else
        -- the shared `<name>.tmp` was already renamed away by another revalidating writer (two
        -- writers at once: only after a stale release): xattr.Set fails with ENOENT ⇒ Delete ⇒ Close
        -- returns the error; notify is NOT reached, the client has only the headers
        some { s with threads := setT s.threads i { t with pc := .notify 3 } }
    else if t.fileLost then
      -- xattr.Set fails with ENOENT ⇒ Delete ⇒ Close returns the error ⇒ errCleanup; notify is NOT reached
      some { s with threads := setT s.threads i { t with pc := .notify 3, ownsFile := false } }
    else
      -- publication: the size checks are dead (`err != nil &&`), so a truncated body publishes too
      some { s with file := .published t.ver (!readFailed) true,
                    threads := setT s.threads i { t with pc := .notify (if readFailed then 1 else 0), ownsFile := false } }
  | .notify next =>
    -- rendezvous on the unbuffered closeNotifier channel
    if s.notifier = .idle then
      some { s with notifier := .got i,
                    threads := setT s.threads i { t with pc := match next with
                                                                | 0 => .sendBody
                                                                | 1 => .cleanup
                                                                | 2 => .notify 3
                                                                | _ => .done } }
    else none
  | .sendBody =>
    -- WrittenFile re-opens the path; sendBody streams what is there NOW
    match s.file with
    | .published v whole _ => some { s with threads := setT s.threads i { t with pc := .notify 3, view := if whole then .complete v false else .truncated v } }
    | _ => some { s with threads := setT s.threads i { t with pc := .notify 3 } }   -- open fails: nothing more is sent
  | .cleanup =>
    -- errCleanup ⇒ storageWriter.Delete ⇒ os.Remove(path)
    some { s with file := .absent, threads := setT s.threads i { t with pc := .notify 3 } }
  | .waiting =>
    if t.woken then
      -- re-Get with the waited key (server.go:172-174)
      match s.file with
      | .published v whole fresh =>
        if fresh ∨ t.wokenStale then
          some { s with threads := setT s.threads i { t with pc := .done, view := if whole then .complete v (!fresh) else .truncated v } }
        else some (stepLookedUp s i { t with woken := false } true)
      | .absent => some (stepLookedUp s i { t with woken := false } false)
      | .unpublished => some (stepStart s i { t with woken := false, pc := .start })
    else none
  | .done => none

/-- `readerNotifier` (caching.go:93-111): wake every waiter, delete the lock entry — whoever's it is -/
def stepNotifier (s : Sys) : Option Sys :=
  match s.notifier with
  | .idle => none
  | .got sender =>
    let ws := s.lock.getD []
    some { s with notifier := .idle, lock := none, holder := none,
                  staleReleases := s.staleReleases + (match s.holder with | some h => if h = sender then 0 else 1 | none => 0),
                  threads := fun j => if ws.contains j then { s.threads j with woken := true } else s.threads j }

def step (s : Sys) : Actor → Option Sys
  | .thread i => stepThread s i
  | .notifier => stepNotifier s
  | .expire =>
    match s.file with
    | .published v whole true => some { s with file := .published v whole false }
    | _ => none
  | .originChange => some { s with originVersion := s.originVersion + 1 }

/-- run a schedule; steps that are not enabled are skipped -/
def run (s : Sys) : List Actor → Sys
  | [] => s
  | a :: as => run ((step s a).getD s) as

def init (n : Nat) (faults : Nat → Fault) : Sys :=
  { n := n, threads := fun i => { fault := faults i } }

end Model.Conc
