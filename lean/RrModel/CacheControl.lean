import RrModel.Go.Strings
import RrModel.Go.Strconv
import RrModel.Go.Header
/-
  caching/caching.go:758-856 — `allHeaderValues`, `GetCacheControlDirectives`, `DoNotCache`,
  `CanStaleIfError`, `CanStaleWhileRevalidate`, `VaryByOrigin`, `normalizeEtag`;
  server/server.go:480-491 `shouldSkipCaching` and the method gate of server.go:105.
  Written branch for branch, quirks kept:
    * optional white space is SP / HTAB: every trim is `strings.Trim(s, " \t")` (since the fix
      for finding C10-a; before it only spaces were trimmed);
    * a part containing `=` is split on every `=` and dropped unless that gives exactly 2 pieces;
    * the key and the value are trimmed again, so `max-age = 5` is read as `max-age=5`;
    * `strconv.Atoi` accepts a sign; an unparsable or overflowing number leaves the field alone;
    * a later occurrence of a numeric directive overwrites an earlier one;
    * bare directives are only looked for in parts WITHOUT `=` (`private="x"` is nothing);
    * the header value is split on `,` twice (in `allHeaderValues` and again in the loop).
-/
namespace Model
open Go

/-- `caching.CacheControlDirectives` -/
structure Directives where
  noCache : Bool := false
  noStore : Bool := false
  maxAge : Option Int := none
  sMaxAge : Option Int := none
  priv : Bool := false
  staleIfError : Option Int := none
  staleWhileRevalidate : Option Int := none
  vary : List Bytes := []
  deriving Repr, DecidableEq

/-- caching.go:853-862: every value of header `k`, split on `,`, each piece trimmed of
    SP / HTAB and lower-cased -/
def allHeaderValues (k : Bytes) (h : Header) : List Bytes :=
  (h.values k).flatMap fun vs => (split1 44 vs).map fun s => toLower (trim b!" \t" s)

/-- the assignment (at most one) that one comma-separated part makes the loop body execute -/
inductive PartEffect where
  | nothing
  | maxAge (n : Int)
  | sMaxAge (n : Int)
  | staleIfError (n : Int)
  | staleWhileRevalidate (n : Int)
  | priv
  | noCache
  | noStore
  deriving Repr, DecidableEq

/-- the `case` of `switch k` with its `strconv.Atoi` guard (caching.go:803-828) -/
def numericEffect (v : Bytes) (mk : Int → PartEffect) : PartEffect :=
  match atoi v with
  | some n => mk n
  | none => .nothing          -- err != nil ⇒ the field is left alone

/-- the body of the inner loop of `GetCacheControlDirectives` (caching.go:796-839) for one
    comma-separated part `d`: which assignment it executes -/
def partEffect (d : Bytes) : PartEffect :=
  if contains d b!"=" then
    match split1 61 d with
    | [k0, v0] =>
      let k := trim b!" \t" k0
      let v := trim b!" \t" v0
      if k = b!"max-age" then numericEffect v .maxAge
      else if k = b!"s-maxage" then numericEffect v .sMaxAge
      else if k = b!"stale-if-error" then numericEffect v .staleIfError
      else if k = b!"stale-while-revalidate" then numericEffect v .staleWhileRevalidate
      else .nothing
    | _ => .nothing          -- len(kv) != 2 ⇒ continue
  else
    let d' := trim b!" \t" d
    if d' = b!"private" then .priv
    else if d' = b!"no-cache" then .noCache
    else if d' = b!"no-store" then .noStore
    else .nothing

def PartEffect.apply (e : PartEffect) (dirs : Directives) : Directives :=
  match e with
  | .nothing => dirs
  | .maxAge n => { dirs with maxAge := some n }
  | .sMaxAge n => { dirs with sMaxAge := some n }
  | .staleIfError n => { dirs with staleIfError := some n }
  | .staleWhileRevalidate n => { dirs with staleWhileRevalidate := some n }
  | .priv => { dirs with priv := true }
  | .noCache => { dirs with noCache := true }
  | .noStore => { dirs with noStore := true }

/-- one iteration of the inner loop -/
def applyPart (dirs : Directives) (d : Bytes) : Directives := (partEffect d).apply dirs

/-- the two nested loops of caching.go:794-841 -/
def applyValues (dirs : Directives) (ds : List Bytes) : Directives :=
  ds.foldl (fun acc dd => (split1 44 dd).foldl applyPart acc) dirs

/-- `caching.GetCacheControlDirectives` -/
def getCacheControlDirectives (h : Header) : Directives :=
  { applyValues {} (allHeaderValues b!"cache-control" h) with vary := allHeaderValues b!"vary" h }

/-- `x != nil && *x <= 0` -/
def nonPositive : Option Int → Bool
  | some n => decide (n ≤ 0)
  | none => false

/-- `CacheControlDirectives.DoNotCache`; a NEGATIVE lifetime counts like zero since the fix: commit for
    finding C09-g (it used to be `== 0`: `max-age=-1` was stored with a lifetime that is over at age 0) -/
def Directives.doNotCache (d : Directives) : Bool :=
  d.noCache || d.priv || d.noStore || nonPositive d.sMaxAge || nonPositive d.maxAge

/-- `CacheControlDirectives.CanStaleIfError` -/
def Directives.canStaleIfError (d : Directives) (age : Int) : Bool :=
  match d.staleIfError with
  | some n => decide (n > age)
  | none => false

/-- `CacheControlDirectives.CanStaleWhileRevalidate` -/
def Directives.canStaleWhileRevalidate (d : Directives) (age : Int) : Bool :=
  match d.staleWhileRevalidate with
  | some n => decide (n > age)
  | none => false

/-- `CacheControlDirectives.VaryByOrigin` -/
def Directives.varyByOrigin (d : Directives) : Bool := d.vary.contains b!"origin"

/-- `caching.normalizeEtag` = `strings.TrimPrefix(s, "W/")`: ONE weak-validator prefix is removed
    (it used to be `strings.TrimLeft(s, "W/")`, a CUTSET trim: the former finding C09-a, repaired) -/
def normalizeEtag (s : Bytes) : Bytes := trimPrefix s b!"W/"

/-- `rf.RequestHeaders["authorization"]` on the rule's override map (keys are unique in Go;
    the list keeps the first entry for a key) -/
def overrideLookup (ov : List (Bytes × Option Bytes)) (k : Bytes) : Option (Option Bytes) :=
  match ov with
  | [] => none
  | (k', v) :: t => if k' = k then some v else overrideLookup t k

/-- server.go:480-491 `shouldSkipCaching` -/
def shouldSkipCaching (h : Header) (overrides : List (Bytes × Option Bytes)) : Bool :=
  if (h.get b!"authorization").length > 0 then
    match overrideLookup overrides b!"authorization" with
    | some none => false     -- the override deletes the header
    | _ => true
  else false

/-- the gate of server.go:105: `true` = the request bypasses the cache altogether
    (`len(rf.CacheId) == 0 || !cache.HasStorage(rf.CacheId) || (method != GET && != HEAD)`) -/
def cacheBypassed (cacheId : Bytes) (hasStorage : Bool) (method : Bytes) : Bool :=
  cacheId.length == 0 || !hasStorage || (method != b!"GET" && method != b!"HEAD")

end Model
