import RrModel.CacheControl
import RrModel.Go.Time
import RrModel.Go.Res
/-
  caching/caching.go:199-287 — the decision half of `cache.Get`, after `storage.Get` has
  found and decoded an entry — as a pure function, plus the lock-dependent tail
  (`getReaderOrWriter`, caching.go:290-334) as far as it decides between "revalidate",
  "wait" and the stale-while-revalidate re-entry.
  Written branch for branch:
    * the age base is `Revalidated` when it is non-zero, else `Created`;
    * (since the fix: commit for finding C08-c a non-zero `forceRevalidate` no longer switches
      `skipRevalidate` off: the line `skipRevalidate = false` is gone);
    * s-maxage, else max-age, compared with `<=`;
    * `Expires` is looked at only when nothing has asked for revalidation yet AND the entry
      has never been revalidated; `time.Parse` failing twice leaves the zero `Time`, whose
      Unix value (year 1) is `<= now`, i.e. an unparsable date means "expired";
    * the client validators are only compared when no revalidation is due; If-None-Match
      shadows If-Modified-Since; `normalizeEtag` removes one `W/` prefix; with ETAG_SUFFIX set the
      client's tag must end in the suffix (or suffix + `"`), and the cut `clientEtag[:idx]`
      uses `strings.LastIndex` on the NORMALISED tag (a run-time panic when that is -1).
-/
namespace Model.Freshness
open Go Model

/-- the part of `StorageMetadata` the decision depends on (headers as decoded from the xattr) -/
structure Entry where
  header : Header
  created : Int
  revalidated : Int
  deriving Repr

/-- what `cache.Get` decides for a stored entry -/
inductive Decision where
  /-- `Found`, reader attached, `IsStale = false` -/
  | fresh (age : Int)
  /-- `Found`, `Metadata.Status = 304`, no reader -/
  | notModified304
  /-- `Found`, reader attached, `IsStale = true` -/
  | staleServe (age : Int)
  /-- `getReaderOrWriter(…, isRevalidating = true, canStaleWhileRevalidate)` -/
  | revalidate (canStaleWhileRevalidate : Bool) (age : Int)
  deriving Repr, DecidableEq

/-- caching.go:199-206 : age and `ageFromRevalidate` -/
def ageOf (m : Entry) (now : Int) : Int × Bool :=
  if m.revalidated ≠ 0 then (now - m.revalidated, true) else (now - m.created, false)

/-- `util.CurrentEtagSuffix` on the value of the environment variable -/
def currentEtagSuffix (env : Bytes) : Option Bytes := if env.length > 0 then some env else none

/-- caching.go:208-212, first half: `shouldRevalidate` after the force_revalidate test -/
def staleByForce (force : Nat) (age : Int) : Bool :=
  if force ≠ 0 then decide (age ≥ (force : Int)) else false

/-- caching.go:215-221 -/
def staleByDirectives (dirs : Directives) (age : Int) : Bool :=
  match dirs.sMaxAge with
  | some s => decide (s ≤ age)
  | none =>
    match dirs.maxAge with
    | some m => decide (m ≤ age)
    | none => false

/-- caching.go:223-236, given that `shouldRevalidate` is still false -/
def staleByExpires (expires : Bytes) (ageFromRevalidate : Bool) (now : Int) : Bool :=
  if expires.length > 0 && !ageFromRevalidate then decide (Time.expiresUnix expires ≤ now) else false

/-- caching.go:208-236 : the value of `shouldRevalidate` before the client validators -/
def shouldRevalidate (m : Entry) (now : Int) (force : Nat) : Bool :=
  let (age, fromReval) := ageOf m now
  let dirs := getCacheControlDirectives m.header
  let sr := staleByForce force age
  let sr := if !sr then staleByDirectives dirs age else sr
  let sr := if !sr then staleByExpires (m.header.get b!"expires") fromReval now else sr
  sr

/-- caching.go:239-257 : the If-None-Match comparison; `ok true` = answer 304 -/
def etagCheck (suffix : Option Bytes) (etag storedEtag : Bytes) : Res Bool :=
  let clientEtag := normalizeEtag etag
  match suffix with
  | some token =>
    if hasSuffix etag token || hasSuffix etag (token ++ [34]) then
      let hasQuotes := hasSuffix clientEtag [34]
      match lastIndex token clientEtag with
      | none => .panic "caching.go:245 clientEtag[:idx] with idx = -1"
      | some idx =>
        let cut := clientEtag.take idx
        let cut := if hasQuotes then cut ++ [34] else cut
        .ok (cut == normalizeEtag storedEtag)
    else .ok false
  | none => .ok (normalizeEtag etag == normalizeEtag storedEtag)

/-- caching.go:238-265 : the client-validator comparison; `ok true` = answer 304 -/
def clientCheck (suffix : Option Bytes) (inm ims : Bytes) (stored : Header) : Res Bool :=
  if inm.length > 0 then etagCheck suffix inm (stored.get b!"etag")
  else if ims.length > 0 then .ok (stored.get b!"last-modified" == ims)
  else .ok false

/-- caching.go:199-287.  `inm`, `ims` = `k.originalHeaders.Get("if-none-match")` /
    `Get("if-modified-since")` (`[]` = absent or empty). -/
def decide (m : Entry) (now : Int) (force : Nat) (skipRevalidate : Bool)
    (inm ims : Bytes) (suffix : Option Bytes) : Res Decision :=
  let age := (ageOf m now).1
  let skip := skipRevalidate
  let sr := shouldRevalidate m now force
  let tail : Res Decision :=
    let isStale := sr
    let sr' := if sr && skip then false else sr
    if sr' then
      .ok (.revalidate ((getCacheControlDirectives m.header).canStaleWhileRevalidate age) age)
    else .ok (if isStale then .staleServe age else .fresh age)
  if !sr then
    match clientCheck suffix inm ims m.header with
    | .panic s => .panic s
    | .ok true => .ok .notModified304
    | .ok false => tail
  else tail

/-- what the caller of `cache.Get` holds in its hands afterwards -/
inductive Outcome where
  | foundFresh (age : Int)
  | found304 (age : Int)
  | foundStale (age : Int)
  /-- `Found` with `Metadata.Status` = the stored status but NO reader: the 304 answer of the
      stale-while-revalidate re-entry after caching.go:282 has overwritten its metadata -/
  | foundNoReader (age : Int)
  | revalidatingWriter (age : Int)
  | revalidatingReader (age : Int)
  deriving Repr, DecidableEq

/-- `cache.Get` for a stored entry including caching.go:290-334: `lockHeld` = another request
    holds the key (`waitingReaders[rk]` exists).  The re-entry of line 299 calls `Get` with
    `forceRevalidate = 0` and `skipRevalidate = true`; lines 282-283 then overwrite the
    metadata and the age of whatever came back. -/
def get (lockHeld : Bool) (m : Entry) (now : Int) (force : Nat) (skipRevalidate : Bool)
    (inm ims : Bytes) (suffix : Option Bytes) : Res Outcome :=
  let age := (ageOf m now).1
  match decide m now force skipRevalidate inm ims suffix with
  | .panic s => .panic s
  | .ok (.fresh a) => .ok (.foundFresh a)
  | .ok .notModified304 => .ok (.found304 age)
  | .ok (.staleServe a) => .ok (.foundStale a)
  | .ok (.revalidate canSWR a) =>
    if lockHeld then
      if canSWR then
        match decide m now 0 true inm ims suffix with
        | .panic s => .panic s
        | .ok (.fresh _) => .ok (.foundFresh a)
        | .ok .notModified304 => .ok (.foundNoReader a)
        | .ok (.staleServe _) => .ok (.foundStale a)
        | .ok (.revalidate _ _) => .ok (.revalidatingReader a)     -- unreachable (skip = true, force = 0)
      else .ok (.revalidatingReader a)
    else .ok (.revalidatingWriter a)

/-- server.go:380-393 : the guard under which the handler re-enters with
    `skipRevalidate = true` after a failed revalidation -/
def staleIfErrorReentry (originStatus : Nat) (stored : Header) (age : Int) : Bool :=
  Decidable.decide (originStatus ≥ 400) && (getCacheControlDirectives stored).canStaleIfError age

end Model.Freshness
