import RrModel.Go.Strings
import RrModel.Go.Header
import RrModel.Go.Res
/-
  proxy/rule.go, proxy/ruleconfig.go (Rules.Match), util/ip.go (DropPort), proxy/proxy.go (scheme)
  written branch for branch.
-/
namespace Model
open Go

inductive RuleType where
  | proxy | copy
  deriving DecidableEq, Repr

inductive HostHeaderBehavior where
  | default | original | override | destination
  deriving DecidableEq, Repr

/-- `proxy.Rule` (the fields the properties depend on). `retry` is kept as a list of length
    ≤ 1 so that the type stays a plain structure-recursive inductive. -/
structure Rule where
  enabled : Bool := true
  scheme : Bytes := []
  host : Bytes := []
  path : Bytes
  wci : Option Nat := none
  dest : Bytes
  internal : Bool := false
  methods : List Bytes := []
  type : RuleType := .proxy
  recompression : Bool := false
  hostBehavior : HostHeaderBehavior := .default
  hostOverride : Bytes := []
  cacheId : Bytes := []
  forceRevalidate : Nat := 0
  /-- `request_headers`: lower-cased trimmed key ↦ `some v` (set) or `none` (delete) -/
  requestHeaders : List (Bytes × Option Bytes) := []
  responseHeaders : List (Bytes × Bytes) := []
  restartOnRedirect : Bool := false
  deriving Repr

inductive NewRuleError where
  | emptyPath | emptyDestination | wildcardCount | wildcardNotLast
  deriving DecidableEq, Repr

/-- the wildcard analysis of `NewRule` (rule.go:65-82): index of the single trailing `*` -/
def wildcardIndex (path dest : Bytes) : Except NewRuleError (Option Nat) :=
  if path.length = 0 then .error .emptyPath
  else if dest.length = 0 then .error .emptyDestination
  else
    let lowpat := toLower path
    match index b!"*" lowpat with
    | none => .ok none
    | some firstIdx =>
      if lastIndex b!"*" lowpat ≠ some firstIdx then .error .wildcardCount
      else if firstIdx ≠ lowpat.length - 1 then .error .wildcardNotLast
      else .ok (some firstIdx)

def dollar1 : Bytes := b!"$1"

/-- the path half of `Rule.attemptMatch` (rule.go:132-159); `none` = nil result. The error
    branch (`len(r.wci) > 1`) cannot be reached for rules built by `NewRule`. -/
def matchPath (r : Rule) (uri : Bytes) : Option Bytes :=
  match r.wci with
  | some wcIdx =>
    if uri = b!"/" ∧ (r.path = b!"*" ∨ r.path = b!"/*") then
      some (replaceFirst r.dest dollar1 [])
    else if uri.length ≤ wcIdx then none          -- Go: uriLen-1 < wcIdx (signed)
    else if index (r.path.take wcIdx) uri ≠ some 0 then none
    else some (replaceFirst r.dest dollar1 (uri.drop wcIdx))
  | none => if r.path = uri then some r.dest else none

/-- `Rule.attemptMatch` (rule.go:127-160) -/
def attemptMatch (r : Rule) (scheme host uri : Bytes) : Option Bytes :=
  if (r.scheme.length > 0 ∧ r.scheme ≠ scheme) ∨ (r.host.length > 0 ∧ r.host ≠ host) then none
  else matchPath r uri

/-- what `Rules.Match` is asked: the parsed matched string and the method -/
structure Query where
  scheme : Bytes
  host : Bytes
  uri : Bytes
  method : Bytes
  deriving Repr, DecidableEq

/-- `RuleMatchResults`: index of the rule in the list and computed target -/
structure MatchRes where
  proxy : Option (Nat × Bytes) := none
  copy : Option (Nat × Bytes) := none
  deriving Repr, DecidableEq

/-- what one iteration of the `RulesLoop` finds for one rule (ruleconfig.go:255-279) -/
inductive RuleHit where
  | skip
  | proxy (target : Bytes)
  | copy (target : Bytes)
  deriving DecidableEq, Repr

/-- `len(r.methods) > 0 && !r.methods[method]` -/
def methodExcluded (r : Rule) (method : Bytes) : Bool :=
  decide (r.methods.length > 0) && !(r.methods.contains method)

def ruleHit (q : Query) (r : Rule) : RuleHit :=
  if r.enabled = false then .skip
  else if methodExcluded r q.method = true then .skip
  else match attemptMatch r q.scheme q.host q.uri with
    | none => .skip
    | some t =>
      match r.type with
      | .proxy => .proxy t
      | .copy => .copy t

/-- the `RulesLoop` of `Rules.Match` (ruleconfig.go:254-280); `i` = index of the head of `rs`.
    A proxy hit breaks the loop; a copy hit is kept only if the slot is still empty. -/
def matchLoop (q : Query) : List Rule → Nat → Option (Nat × Bytes) → MatchRes
  | [], _, copy => { proxy := none, copy := copy }
  | r :: rs, i, copy =>
    match ruleHit q r with
    | .skip => matchLoop q rs (i + 1) copy
    | .proxy t => { proxy := some (i, t), copy := copy }
    | .copy t => matchLoop q rs (i + 1) (match copy with | none => some (i, t) | some c => some c)

def matchRules (rs : List Rule) (q : Query) : MatchRes := matchLoop q rs 0 none

/-- `util.DropPort` (ip.go:9-33). `[` without `]`: the input is returned unchanged (before the
    fix for finding C05-b the slice `ipport[1:-1]` panicked there). No panic site is left; the
    result type stays `Res` for the callers that thread it. -/
def dropPort (ipport : Bytes) : Res Bytes :=
  match ipport with
  | [] => .ok []
  | 91 :: _ =>   -- '['
    match lastIndex b!"]" ipport with
    | none => .ok ipport
    | some cb => .ok ((ipport.take cb).drop 1)      -- cb ≥ 1 cannot hold cb = 0 (byte 0 is '[')
  | 58 :: _ => .ok ipport   -- ':'
  | _ =>
    match lastIndex b!":" ipport with
    | none => .ok ipport
    | some i => .ok (ipport.take i)

/-- `proxy.scheme` (proxy.go:705-710) -/
def scheme (tls : Bool) (xForwardedProto : Bytes) : Bytes :=
  if tls ∨ toLower xForwardedProto = b!"https" then b!"https" else b!"http"

end Model
