import RrModel.Go.Bytes
/-
  SHA-1 (FIPS 180-4) over `Bytes`, executable, so that the model computes the real entry
  names of `Key.FsName` (`util.SHA1String` = hex of `crypto/sha1`).  Bytes are converted to
  `UInt32` words at the boundary; all arithmetic inside is machine `UInt32`.
  Nothing is proved about this function: that it has no collisions among the keys in play is
  an assumption of C11 (trusted base).  It is validated against `crypto/sha1` by the streams
  `selftest` (FIPS vectors, block-boundary lengths, random strings) and `key`.
-/
namespace Go.Sha1

def rotl (x : UInt32) (n : UInt32) : UInt32 := (x <<< n) ||| (x >>> (32 - n))

def byte32 (n : Nat) : UInt32 := UInt32.ofNat (n % 256)

/-- big-endian 32-bit words of a byte string whose length is a multiple of 4 -/
def wordsOf : List Nat → List UInt32
  | a :: b :: c :: d :: t =>
    ((byte32 a <<< 24) ||| (byte32 b <<< 16) ||| (byte32 c <<< 8) ||| byte32 d) :: wordsOf t
  | _ => []

/-- `n` as 8 big-endian bytes (mod 2^64) -/
def be64 (n : Nat) : List Nat :=
  [n / 2^56 % 256, n / 2^48 % 256, n / 2^40 % 256, n / 2^32 % 256,
   n / 2^24 % 256, n / 2^16 % 256, n / 2^8 % 256, n % 256]

/-- the padded message: `m ‖ 0x80 ‖ 0…0 ‖ bitlength(64)`, a multiple of 64 bytes -/
def pad (m : List Nat) : List Nat :=
  let n := m.length
  m ++ 128 :: (List.replicate ((119 - n % 64) % 64) 0 ++ be64 (8 * n))

/-- the 80-word message schedule of one block (`w` = its 16 words) -/
def schedule (w : Array UInt32) : Array UInt32 :=
  (List.range 64).foldl (fun w i =>
    w.push (rotl (w.getD (i + 13) 0 ^^^ w.getD (i + 8) 0 ^^^ w.getD (i + 2) 0 ^^^ w.getD i 0) 1)) w

structure State where
  a : UInt32
  b : UInt32
  c : UInt32
  d : UInt32
  e : UInt32

def init : State := ⟨0x67452301, 0xEFCDAB89, 0x98BADCFE, 0x10325476, 0xC3D2E1F0⟩

def round (w : Array UInt32) (s : State) (t : Nat) : State :=
  let (f, k) : UInt32 × UInt32 :=
    if t < 20 then ((s.b &&& s.c) ||| ((~~~ s.b) &&& s.d), 0x5A827999)
    else if t < 40 then (s.b ^^^ s.c ^^^ s.d, 0x6ED9EBA1)
    else if t < 60 then ((s.b &&& s.c) ||| (s.b &&& s.d) ||| (s.c &&& s.d), 0x8F1BBCDC)
    else (s.b ^^^ s.c ^^^ s.d, 0xCA62C1D6)
  let tmp := rotl s.a 5 + f + s.e + k + w.getD t 0
  ⟨tmp, s.a, rotl s.b 30, s.c, s.d⟩

def block (h : State) (w16 : Array UInt32) : State :=
  let w := schedule w16
  let s := (List.range 80).foldl (round w) h
  ⟨h.a + s.a, h.b + s.b, h.c + s.c, h.d + s.d, h.e + s.e⟩

def digestState (m : List Nat) : State :=
  let ws := (wordsOf (pad m)).toArray
  (List.range (ws.size / 16)).foldl (fun h i => block h (ws.extract (16 * i) (16 * i + 16))) init

def wordBytes (x : UInt32) : List Nat :=
  let n := x.toNat
  [n / 2^24 % 256, n / 2^16 % 256, n / 2^8 % 256, n % 256]

/-- the 20 digest bytes -/
def sum (m : Bytes) : Bytes :=
  let s := digestState m
  wordBytes s.a ++ wordBytes s.b ++ wordBytes s.c ++ wordBytes s.d ++ wordBytes s.e

def hexByte (n : Nat) : Nat := if n < 10 then 48 + n else 87 + n

/-- `hex.EncodeToString` as bytes (lower-case ASCII) -/
def hexEncode (b : Bytes) : Bytes := b.flatMap fun n => [hexByte (n % 256 / 16), hexByte (n % 16)]

/-- `util.SHA1String` -/
def sha1Hex (m : Bytes) : Bytes := hexEncode (sum m)

end Go.Sha1
