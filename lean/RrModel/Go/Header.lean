import RrModel.Go.Strings
/-
  `net/http.Header` as an association list (raw key ↦ value list).  Lookup takes the first
  entry for a key; `del` removes every entry for it, so the representation invariant
  "keys are unique" is never needed by the get-after-update lemmas.  Entry order is not
  observable in Go (a map); every renderer sorts by key.
-/
namespace Go

abbrev Header := List (Bytes × List Bytes)

/-- `httpguts.IsTokenRune` restricted to bytes: the bytes allowed in a header field name -/
def isTokenByte (c : Nat) : Bool :=
  (48 ≤ c && c ≤ 57) || (65 ≤ c && c ≤ 90) || (97 ≤ c && c ≤ 122) ||
  [33, 35, 36, 37, 38, 39, 42, 43, 45, 46, 94, 95, 96, 124, 126].contains c

/-- the casing loop of `textproto.canonicalMIMEHeaderKey` -/
def canonGo : Bytes → Bool → Bytes
  | [], _ => []
  | c :: t, upper =>
    let c' := if upper then upperByte c else lowerByte c
    c' :: canonGo t (c' = 45)

/-- `textproto.CanonicalMIMEHeaderKey`: keys with a non-token byte are returned unchanged -/
def canon (k : Bytes) : Bytes := if k.all isTokenByte then canonGo k true else k

namespace Header

/-- raw lookup (no canonicalisation): the value list stored under exactly `k` -/
def vals : Header → Bytes → List Bytes
  | [], _ => []
  | (k', vs) :: t, k => if k' = k then vs else vals t k

def delRaw (h : Header) (k : Bytes) : Header := h.filter (fun e => e.1 ≠ k)
def setRaw (h : Header) (k v : Bytes) : Header := (k, [v]) :: delRaw h k
def addRaw (h : Header) (k v : Bytes) : Header := (k, vals h k ++ [v]) :: delRaw h k

/-- `h.Values(k)` -/
def values (h : Header) (k : Bytes) : List Bytes := vals h (canon k)
/-- `h.Get(k)`: first value or "" -/
def get (h : Header) (k : Bytes) : Bytes := (values h k).headD []
/-- `h.Set(k, v)` -/
def set (h : Header) (k v : Bytes) : Header := setRaw h (canon k) v
/-- `h.Add(k, v)` -/
def add (h : Header) (k v : Bytes) : Header := addRaw h (canon k) v
/-- `h.Del(k)` -/
def del (h : Header) (k : Bytes) : Header := delRaw h (canon k)

/-- keys with at least one value, first occurrence only -/
def keys : Header → List Bytes
  | [] => []
  | (k, vs) :: t => if vs.isEmpty then keys (delRaw t k) else k :: keys (delRaw t k)
termination_by h => h.length
decreasing_by
  all_goals simp only [delRaw, List.length_cons]
  all_goals exact Nat.lt_succ_of_le (List.length_filter_le _ _)

end Header

/-- bytewise lexicographic `<` (Go's string comparison) -/
def bytesLt : Bytes → Bytes → Bool
  | [], [] => false
  | [], _ :: _ => true
  | _ :: _, [] => false
  | a :: s, b :: t => if a < b then true else if b < a then false else bytesLt s t

def insertSorted (x : Bytes) : List Bytes → List Bytes
  | [] => [x]
  | y :: t => if bytesLt y x then y :: insertSorted x t else x :: y :: t

/-- `sort.Strings` -/
def sortBytes (l : List Bytes) : List Bytes := l.foldr insertSorted []

namespace Header
/-- canonical form used for comparison: sorted keys, each with its value list -/
def normal (h : Header) : List (Bytes × List Bytes) :=
  (sortBytes (keys h)).map fun k => (k, vals h k)
end Header

end Go
