/-
  Go run-time panics are outcomes of the model, not junk values.
-/
namespace Go

inductive Res (α : Type) where
  | ok (a : α)
  | panic (site : String)
  deriving Repr, DecidableEq

namespace Res
def map {α β} (f : α → β) : Res α → Res β
  | ok a => ok (f a)
  | panic s => panic s
def bind {α β} (r : Res α) (f : α → Res β) : Res β :=
  match r with
  | ok a => f a
  | panic s => panic s
instance : Monad Res where
  pure := ok
  bind := bind
def isOk {α} : Res α → Bool
  | ok _ => true
  | panic _ => false
end Res

end Go
