import RrModel.Go.Strings
/-
  The part of `net/url.Parse` the properties lean on, at *split level*: fragment cut, control
  bytes, scheme, query cut, authority cut — in the order url.go performs them.  Deeper
  validation (port syntax, host characters, %-escapes in the path) can only turn a successful
  split into an error, never move a boundary; the correspondence stream `urlsplit` therefore
  compares fields whenever Go's parser succeeds.
-/
namespace Go.Url

def isAlpha (c : Nat) : Bool := (65 ≤ c && c ≤ 90) || (97 ≤ c && c ≤ 122)
def isSchemeTail (c : Nat) : Bool := (48 ≤ c && c ≤ 57) || c = 43 || c = 45 || c = 46   -- digits + - .

inductive SchemeRes where
  | none                                   -- no scheme: whole input is `rest`
  | some (scheme rest : Bytes)
  | missing                                -- ':' at index 0: "missing protocol scheme"
  deriving DecidableEq, Repr

/-- `getScheme` (url.go): `acc` = scheme bytes read so far, reversed -/
def getSchemeGo : Bytes → Bytes → SchemeRes
  | [], _ => .none
  | c :: t, acc =>
    if isAlpha c then getSchemeGo t (c :: acc)
    else if isSchemeTail c then (if acc.isEmpty then .none else getSchemeGo t (c :: acc))
    else if c = 58 then (if acc.isEmpty then .missing else .some acc.reverse t)
    else .none

def getScheme (s : Bytes) : SchemeRes := getSchemeGo s []

def hasCTL (s : Bytes) : Bool := s.any fun c => c < 32 || c = 127

/-- `strings.Cut s [c]` -/
def cut1 (c : Nat) (s : Bytes) : Bytes × Bytes × Bool :=
  match indexByte c s with
  | none => (s, [], false)
  | some i => (s.take i, s.drop (i + 1), true)

structure Split where
  scheme : Bytes := []
  /-- text between `//` and the next `/` (userinfo@host:port as written), when present -/
  authority : Option Bytes := none
  /-- path as written (escaped form) -/
  path : Bytes := []
  opaq : Bytes := []
  rawQuery : Bytes := []
  forceQuery : Bool := false
  fragment : Bytes := []
  deriving DecidableEq, Repr

/-- `url.Parse` at split level; `none` = an error Go reports at this level -/
def split (raw : Bytes) : Option Split :=
  let (u, frag, _) := cut1 35 raw                    -- '#'
  if hasCTL u then none
  else if u = b!"*" then some { path := b!"*", fragment := frag }
  else
    match getScheme u with
    | .missing => none
    | sr =>
      let (scheme, rest) : Bytes × Bytes :=
        match sr with
        | .some s r => (toLower s, r)
        | _ => ([], u)
      let (rest, rawQuery, forceQuery) : Bytes × Bytes × Bool :=
        if hasSuffix rest b!"?" ∧ (rest.filter (· = 63)).length = 1 then (rest.take (rest.length - 1), [], true)
        else let (r, q, _) := cut1 63 rest; (r, q, false)
      if ¬ hasPrefix rest b!"/" then
        if scheme ≠ [] then some { scheme := scheme, opaq := rest, rawQuery := rawQuery, forceQuery := forceQuery, fragment := frag }
        else
          let (seg, _, _) := cut1 47 rest
          if seg.contains 58 then none      -- first path segment cannot contain colon
          else some { scheme := scheme, path := rest, rawQuery := rawQuery, forceQuery := forceQuery, fragment := frag }
      else if (scheme ≠ [] ∨ ¬ hasPrefix rest b!"///") ∧ hasPrefix rest b!"//" then
        let a := rest.drop 2
        let (auth, path) : Bytes × Bytes :=
          match indexByte 47 a with
          | none => (a, [])
          | some i => (a.take i, a.drop i)
        some { scheme := scheme, authority := some auth, path := path, rawQuery := rawQuery, forceQuery := forceQuery, fragment := frag }
      else some { scheme := scheme, path := rest, rawQuery := rawQuery, forceQuery := forceQuery, fragment := frag }

def isHex (c : Nat) : Bool := (48 ≤ c && c ≤ 57) || (65 ≤ c && c ≤ 70) || (97 ≤ c && c ≤ 102)

/-- `unescape` fails ("invalid URL escape") when a `%` is not followed by two hex digits
    (path mode; also used by Go for the fragment) -/
def escapesOk : Bytes → Bool
  | [] => true
  | 37 :: a :: b :: t => isHex a && isHex b && escapesOk t
  | 37 :: _ => false
  | _ :: t => escapesOk t

/-- what re-parsing the rendered URL (`http.NewRequestWithContext(…, u.String(), …)`) leaves of a
    raw query: `URL.String` writes RawQuery verbatim, `url.Parse` cuts at the first `#`
    (every `#` in the other components is escaped by `String`). -/
def queryAfterReparse (q : Bytes) : Bytes := (cut1 35 q).1

end Go.Url
