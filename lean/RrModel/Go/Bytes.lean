/-
  Go strings are byte sequences.  The model represents a byte as a `Nat` (< 256 by
  convention; nothing in the model depends on the bound except SHA-1 and hex rendering,
  which reduce mod 256) because `omega`, `decide` and `simp` are far smoother on `Nat`
  than on `UInt8`.
-/
abbrev Bytes := List Nat

namespace Go

open Lean in
/-- `b!"abc"` elaborates to the explicit list of UTF-8 bytes `[97, 98, 99]`
    (an explicit list, so that the kernel never has to unfold `String`). -/
macro:max "b!" s:str : term => do
  let bytes := s.getString.toUTF8.toList
  let elems ← bytes.mapM (fun b => `(($(quote b.toNat) : Nat)))
  `(([$(elems.toArray),*] : List Nat))

def hexDigit (n : Nat) : Char :=
  if n < 10 then Char.ofNat (48 + n) else Char.ofNat (87 + n)

/-- canonical rendering used by the line protocol: `x` followed by two hex digits per byte -/
def toHex (b : Bytes) : String :=
  "x" ++ String.ofList (b.flatMap fun n => [hexDigit ((n % 256) / 16), hexDigit (n % 16)])

def hexVal (c : Char) : Option Nat :=
  if '0' ≤ c ∧ c ≤ '9' then some (c.toNat - 48)
  else if 'a' ≤ c ∧ c ≤ 'f' then some (c.toNat - 87)
  else if 'A' ≤ c ∧ c ≤ 'F' then some (c.toNat - 55)
  else none

def fromHexChars : List Char → Option Bytes
  | [] => some []
  | [_] => none
  | a :: b :: t => do
      let x ← hexVal a
      let y ← hexVal b
      let r ← fromHexChars t
      pure ((x * 16 + y) :: r)

/-- inverse of `toHex` (token must start with `x`) -/
def fromHex (s : String) : Option Bytes :=
  match s.toList with
  | 'x' :: t => fromHexChars t
  | _ => none

def ofString (s : String) : Bytes := s.toUTF8.toList.map (·.toNat)

/-- best-effort display (ASCII only), for samples in evidence, never for comparison -/
def toDisplay (b : Bytes) : String :=
  String.ofList (b.map fun n => if 32 ≤ n ∧ n < 127 then Char.ofNat n else '?')

end Go
